#!/usr/bin/env python3
"""Regenerates MANIFEST.json from the spec modules (spec/Cxx.py) and spec/not_applicable.json."""
import importlib, json, os, sys
V = os.path.abspath(os.path.join(os.path.dirname(__file__), ".."))
sys.path.insert(0, V)
props = [json.loads(l) for l in open(os.path.join(V, "properties.jsonl"))]
na = json.load(open(os.path.join(V, "spec", "not_applicable.json")))
# thorough commands are registered only for checks whose thorough tier completed with exit 0 end to end on this machine
THOROUGH_OK = set(json.load(open(os.path.join(V, "spec", "thorough_validated.json"))))
checks, engines = [], {}
claimed = set()
for p in props:
    pid = p["id"]
    if not os.path.exists(os.path.join(V, "spec", pid + ".py")):
        continue
    m = importlib.import_module("spec." + pid)
    if getattr(m, "DISABLED", False):
        continue
    claimed.add(pid)
    eng = getattr(m, "ENGINE", "symfp")
    engines.setdefault(eng, []).append(pid)
    checks.append(dict(
        property_id=pid,
        quick_cmd="./check %s --tier quick" % pid,
        **({"thorough_cmd": "./check %s --tier thorough" % pid} if pid in THOROUGH_OK else {}),
        evidence_file="evidence/%s.json" % pid,
        replay_cmd_template="./check replay {path}",
        engine=eng,
        level_claimed=dict(category="other",
                           text=getattr(m, "LEVEL_TEXT", "Bounded solver-decided check of the real code: " + getattr(m, "EXPLANATION", "")),
                           design_ref="DESIGN.md §5 " + pid),
        level_note=getattr(m, "LEVEL_NOTE", "Trusted: clang-14 -O2 IR, the symfp pass+runtime (validated per path: shadow == native run), the polynomial encoder (validated numerically per path), z3/cvc5. Real-number semantics (rounding outside the claim). Bounds: " + getattr(m, "BOUNDS", "") + " Not covered: " + getattr(m, "NOT_COVERED", "")),
        technique=getattr(m, "TECHNIQUE", "compile-time-instrumented symbolic execution of the real library (LLVM pass) -> polynomial constraints over Q -> z3 QF_NRA/LRA (cvc5 cross-check), counter-models replayed on the real code"),
    ))
nal = [dict(property_id=k, reason=v) for k, v in na.items() if k not in claimed]
missing = [p["id"] for p in props if p["id"] not in claimed and p["id"] not in na]
for pid in missing:
    nal.append(dict(property_id=pid, reason="no check built yet in this session (see DESIGN.md §5 for the planned approach)"))
man = dict(
    version=1,
    setup_cmd="./check setup",
    hooks=dict(guard="SIMBODY_VERIF", enable="none needed: the instrumentation is a compiler plugin (engine/symfp); -DSIMBODY_VERIF is reserved and guards nothing",
               baseline_off_cmd="cmake --build /repo/_build -j16 && ctest --test-dir /repo/_build -j8 --timeout 900", source_commits=[], add_only=True),
    engines=[dict(name="symfp", path="engine/symfp + engine/driver", serves_properties=sorted(engines.get("symfp", [])),
                  kind_free_text="Engine S: LLVM-14 pass lifts double arithmetic of the whole library to an expression DAG at run time; polynomial encoder; z3/cvc5"),
             dict(name="kernel", path="engine/ir2c", serves_properties=sorted(engines.get("kernel", [])),
                  kind_free_text="Engine K: clang -emit-llvm -> IR->C translator -> cbmc (bit-precise), z3 FP for straight-line kernels")],
    checks=checks, not_applicable=sorted(nal, key=lambda d: d["property_id"]),
    notes="see DESIGN.md",
)
json.dump(man, open(os.path.join(V, "MANIFEST.json"), "w"), indent=1)
print("claimed:", sorted(claimed)); print("not applicable / not built:", [d["property_id"] for d in nal])
