#!/usr/bin/env python3
"""Regenerates the per-check table of DESIGN.md §10.5 from spec modules and the current evidence files."""
import importlib, json, os, sys, re
V = os.path.abspath(os.path.join(os.path.dirname(__file__), ".."))
sys.path.insert(0, V)
man = json.load(open(os.path.join(V, "MANIFEST.json")))
rows = ["| id | engine | harness | instances | paths | obligations (discharged) | known | quick wall s | solver s |", "|---|---|---|---|---|---|---|---|---|"]
for c in man["checks"]:
    pid = c["property_id"]
    m = importlib.import_module("spec." + pid)
    ev = {}
    p = os.path.join(V, "evidence", pid + ".json")
    if os.path.exists(p):
        ev = json.load(open(p))
    cov = ev.get("coverage", {})
    rows.append("| %s | %s | %s | %s | %s | %s (%s) | %s | %s | %s |" % (
        pid, getattr(m, "ENGINE", "symfp"), getattr(m, "HARNESS", "harness/kernel/*"), cov.get("instances", cov.get("jobs", "")), cov.get("paths_explored", ""),
        cov.get("obligations", ""), cov.get("discharged", ""), cov.get("known_findings", ""), ev.get("wall_s", ""), cov.get("solver_time_s", "")))
txt = "\n".join(rows)
d = open(os.path.join(V, "DESIGN.md")).read()
beg, end = "<!-- TABLE-BEGIN -->", "<!-- TABLE-END -->"
if beg in d:
    d = d[:d.index(beg) + len(beg)] + "\n" + txt + "\n" + d[d.index(end):]
else:
    d += "\n### 10.5 Checks as built (numbers from the committed quick-tier evidence)\n\nBounds, uncovered clauses and assumptions of each check are in its `spec/Cxx.py` (`BOUNDS`, `NOT_COVERED`), copied into MANIFEST `level_note` and into the evidence file.\n\n" + beg + "\n" + txt + "\n" + end + "\n"
open(os.path.join(V, "DESIGN.md"), "w").write(d)
print(txt)
