#!/bin/bash
# Runs every claimed check's quick command once, sequentially, against /repo; prints a summary table.
# usage: tools/run_all.sh [tier]   (default quick). Logs in .build/runall/.
cd "$(dirname "$(readlink -f "$0")")/.."
TIER="${1:-quick}"
mkdir -p .build/runall
ids=$(python3 -c "import json; print(' '.join(c['property_id'] for c in json.load(open('MANIFEST.json'))['checks']))")
printf "%-5s %-5s %-8s %s\n" id exit wall_s summary
for id in $ids; do
  t0=$(date +%s)
  timeout ${RUNALL_TIMEOUT:-3600} ./check $id --tier $TIER > .build/runall/$id.log 2>&1
  rc=$?
  t1=$(date +%s)
  s=$(grep -E "tier=$TIER|^$id " .build/runall/$id.log | tail -1 | cut -c1-170)
  printf "%-5s %-5s %-8s %s\n" $id $rc $((t1-t0)) "$s"
done
