// symfp: LLVM-14 new-PM module pass. Rewrites every scalar `double` operation of
// the translation unit into a call to the symfp runtime (rt.cpp), so that a
// double may carry a NaN-boxed handle to a node of an expression DAG.
// Loaded with clang++-14 -fpass-plugin=libsymfp.so ; runs at OptimizerLastEP.
#include "llvm/IR/Constants.h"
#include "llvm/IR/Function.h"
#include "llvm/IR/IRBuilder.h"
#include "llvm/IR/InstIterator.h"
#include "llvm/IR/Instructions.h"
#include "llvm/IR/IntrinsicInst.h"
#include "llvm/IR/Module.h"
#include "llvm/Passes/PassBuilder.h"
#include "llvm/Passes/PassPlugin.h"
#include "llvm/Support/raw_ostream.h"
#include <map>
#include <set>
#include <string>
#include <vector>

using namespace llvm;

namespace {

// libm (and friends) functions modelled by the runtime: name -> arity
static const std::map<std::string, int> &mathFns() {
  static const std::map<std::string, int> m = {
      {"sin", 1},   {"cos", 1},   {"tan", 1},   {"asin", 1},  {"acos", 1},
      {"atan", 1},  {"atan2", 2}, {"sinh", 1},  {"cosh", 1},  {"tanh", 1},
      {"exp", 1},   {"log", 1},   {"log10", 1}, {"log2", 1},  {"exp2", 1},
      {"pow", 2},   {"sqrt", 1},  {"cbrt", 1},  {"fabs", 1},  {"floor", 1},
      {"ceil", 1},  {"trunc", 1}, {"round", 1}, {"rint", 1},  {"nearbyint", 1},
      {"fmod", 2},  {"hypot", 2}, {"copysign", 2}, {"fmin", 2}, {"fmax", 2},
      {"erf", 1},   {"erfc", 1},  {"expm1", 1}, {"log1p", 1}, {"asinh", 1},
      {"acosh", 1}, {"atanh", 1}, {"tgamma", 1}, {"lgamma", 1}, {"fdim", 2},
      {"remainder", 2}, {"fma", 3}, {"ldexp", -2}, {"scalbn", -2},
  };
  return m;
}

// intrinsic base name (after "llvm.") -> runtime name, arity
struct IntrInfo { const char *rt; int arity; };
static const std::map<std::string, IntrInfo> &intrFns() {
  static const std::map<std::string, IntrInfo> m = {
      {"sqrt", {"sqrt", 1}},   {"fabs", {"fabs", 1}},   {"sin", {"sin", 1}},
      {"cos", {"cos", 1}},     {"exp", {"exp", 1}},     {"exp2", {"exp2", 1}},
      {"log", {"log", 1}},     {"log10", {"log10", 1}}, {"log2", {"log2", 1}},
      {"pow", {"pow", 2}},     {"floor", {"floor", 1}}, {"ceil", {"ceil", 1}},
      {"trunc", {"trunc", 1}}, {"rint", {"rint", 1}},   {"nearbyint", {"nearbyint", 1}},
      {"round", {"round", 1}}, {"roundeven", {"rint", 1}},
      {"minnum", {"fmin", 2}}, {"maxnum", {"fmax", 2}},
      {"minimum", {"fmin", 2}}, {"maximum", {"fmax", 2}},
      {"copysign", {"copysign", 2}}, {"fmuladd", {"fma", 3}}, {"fma", {"fma", 3}},
  };
  return m;
}

struct SymFP {
  Module &M;
  LLVMContext &C;
  Type *DblTy, *I32Ty, *I1Ty, *I8PtrTy, *I64Ty;
  std::map<std::string, FunctionCallee> cache;
  unsigned long nRewritten = 0;

  SymFP(Module &m) : M(m), C(m.getContext()) {
    DblTy = Type::getDoubleTy(C);
    I32Ty = Type::getInt32Ty(C);
    I64Ty = Type::getInt64Ty(C);
    I1Ty = Type::getInt1Ty(C);
    I8PtrTy = Type::getInt8PtrTy(C);
  }

  FunctionCallee rt(const std::string &name, Type *ret, ArrayRef<Type *> args) {
    auto it = cache.find(name);
    if (it != cache.end()) return it->second;
    FunctionType *FT = FunctionType::get(ret, args, false);
    FunctionCallee fc = M.getOrInsertFunction(name, FT);
    cache[name] = fc;
    return fc;
  }

  Value *fnName(Function &F, std::map<Function *, Value *> &names) {
    auto it = names.find(&F);
    if (it != names.end()) return it->second;
    IRBuilder<> B(C);
    Constant *s = ConstantDataArray::getString(C, F.getName(), true);
    auto *GV = new GlobalVariable(M, s->getType(), true, GlobalValue::PrivateLinkage, s, "__symfp_fn");
    GV->setUnnamedAddr(GlobalValue::UnnamedAddr::Global);
    Constant *zero = ConstantInt::get(I32Ty, 0);
    Constant *idx[] = {zero, zero};
    Value *p = ConstantExpr::getInBoundsGetElementPtr(s->getType(), GV, idx);
    names[&F] = p;
    return p;
  }

  static bool isDbl(Type *T) { return T->isDoubleTy(); }
  static bool isDblVec(Type *T) {
    if (auto *VT = dyn_cast<FixedVectorType>(T)) return VT->getElementType()->isDoubleTy();
    return false;
  }

  [[noreturn]] void die(Instruction &I, const char *why) {
    errs() << "symfp: unsupported FP instruction (" << why << ") in "
           << I.getFunction()->getName() << ": " << I << "\n";
    report_fatal_error("symfp: abort");
  }

  // apply scalar lambda lane-wise
  template <class Fn>
  Value *lanewise(IRBuilder<> &B, Type *resElemTy, unsigned n, Fn f) {
    Value *res = UndefValue::get(FixedVectorType::get(resElemTy, n));
    for (unsigned i = 0; i < n; ++i) res = B.CreateInsertElement(res, f(i), B.getInt32(i));
    return res;
  }

  bool run() {
    std::map<Function *, Value *> names;
    bool changed = false;
    for (Function &F : M) {
      if (F.isDeclaration()) continue;
      if (F.getName().startswith("__symfp_")) continue;
      std::vector<Instruction *> work;
      for (Instruction &I : instructions(F)) work.push_back(&I);
      for (Instruction *I : work) changed |= visit(F, *I, names);
    }
    return changed;
  }

  bool visit(Function &F, Instruction &I, std::map<Function *, Value *> &names) {
    IRBuilder<> B(&I);
    Value *fn = nullptr;
    auto FN = [&]() { if (!fn) fn = fnName(F, names); return fn; };

    if (auto *BO = dyn_cast<BinaryOperator>(&I)) {
      const char *nm = nullptr;
      switch (BO->getOpcode()) {
      case Instruction::FAdd: nm = "__symfp_add"; break;
      case Instruction::FSub: nm = "__symfp_sub"; break;
      case Instruction::FMul: nm = "__symfp_mul"; break;
      case Instruction::FDiv: nm = "__symfp_div"; break;
      case Instruction::FRem: nm = "__symfp_rem"; break;
      default: return false;
      }
      Type *T = BO->getType();
      FunctionCallee f = rt(nm, DblTy, {DblTy, DblTy, I8PtrTy});
      if (isDbl(T)) {
        Value *r = B.CreateCall(f, {BO->getOperand(0), BO->getOperand(1), FN()});
        BO->replaceAllUsesWith(r); BO->eraseFromParent(); ++nRewritten; return true;
      }
      if (isDblVec(T)) {
        unsigned n = cast<FixedVectorType>(T)->getNumElements();
        Value *a = BO->getOperand(0), *b = BO->getOperand(1);
        Value *r = lanewise(B, DblTy, n, [&](unsigned i) {
          return (Value *)B.CreateCall(f, {B.CreateExtractElement(a, B.getInt32(i)),
                                           B.CreateExtractElement(b, B.getInt32(i)), FN()});
        });
        BO->replaceAllUsesWith(r); BO->eraseFromParent(); ++nRewritten; return true;
      }
      if (T->isVectorTy() && T->getScalarType()->isDoubleTy()) die(I, "scalable vector");
      return false;
    }
    if (auto *UO = dyn_cast<UnaryOperator>(&I)) {
      if (UO->getOpcode() != Instruction::FNeg) return false;
      Type *T = UO->getType();
      FunctionCallee f = rt("__symfp_neg", DblTy, {DblTy, I8PtrTy});
      if (isDbl(T)) {
        Value *r = B.CreateCall(f, {UO->getOperand(0), FN()});
        UO->replaceAllUsesWith(r); UO->eraseFromParent(); ++nRewritten; return true;
      }
      if (isDblVec(T)) {
        unsigned n = cast<FixedVectorType>(T)->getNumElements();
        Value *a = UO->getOperand(0);
        Value *r = lanewise(B, DblTy, n, [&](unsigned i) {
          return (Value *)B.CreateCall(f, {B.CreateExtractElement(a, B.getInt32(i)), FN()});
        });
        UO->replaceAllUsesWith(r); UO->eraseFromParent(); ++nRewritten; return true;
      }
      return false;
    }
    if (auto *FC = dyn_cast<FCmpInst>(&I)) {
      Type *T = FC->getOperand(0)->getType();
      FunctionCallee f = rt("__symfp_cmp", I1Ty, {I32Ty, DblTy, DblTy, I8PtrTy});
      Value *pred = B.getInt32((unsigned)FC->getPredicate());
      if (isDbl(T)) {
        Value *r = B.CreateCall(f, {pred, FC->getOperand(0), FC->getOperand(1), FN()});
        FC->replaceAllUsesWith(r); FC->eraseFromParent(); ++nRewritten; return true;
      }
      if (isDblVec(T)) {
        unsigned n = cast<FixedVectorType>(T)->getNumElements();
        Value *a = FC->getOperand(0), *b = FC->getOperand(1);
        Value *r = lanewise(B, I1Ty, n, [&](unsigned i) {
          return (Value *)B.CreateCall(f, {pred, B.CreateExtractElement(a, B.getInt32(i)),
                                           B.CreateExtractElement(b, B.getInt32(i)), FN()});
        });
        FC->replaceAllUsesWith(r); FC->eraseFromParent(); ++nRewritten; return true;
      }
      return false;
    }
    if (auto *CI = dyn_cast<CastInst>(&I)) {
      Type *S = CI->getSrcTy(), *D = CI->getDestTy();
      unsigned op = CI->getOpcode();
      // double -> integer / float / long double: operand must be concrete.
      if (op == Instruction::FPToSI || op == Instruction::FPToUI) {
        if (isDbl(S)) {
          // truncation toward zero: decided and recorded by the runtime
          FunctionCallee f = rt("__symfp_toint", DblTy, {DblTy, I8PtrTy});
          Value *c = B.CreateCall(f, {CI->getOperand(0), FN()});
          CI->setOperand(0, c); ++nRewritten; return true;
        }
        if (isDblVec(S)) die(I, "vector fptoi");
        return false;
      }
      if (op == Instruction::FPTrunc || op == Instruction::FPExt) {
        if (isDbl(S)) {
          FunctionCallee f = rt("__symfp_concretize", DblTy, {DblTy, I32Ty, I8PtrTy});
          Value *c = B.CreateCall(f, {CI->getOperand(0), B.getInt32(op == Instruction::FPTrunc ? 1 : 2), FN()});
          CI->setOperand(0, c); ++nRewritten; return true;
        }
        if (isDblVec(S)) die(I, "vector fptrunc/fpext");
        return false;
      }
      if (op == Instruction::BitCast && isDbl(S) && D->isIntegerTy(64)) {
        // signbit idiom: all users test the sign bit
        bool signOnly = !CI->use_empty();
        for (User *U : CI->users()) {
          bool ok = false;
          if (auto *IC = dyn_cast<ICmpInst>(U)) {
            if (auto *K = dyn_cast<ConstantInt>(IC->getOperand(1))) {
              if (IC->getPredicate() == ICmpInst::ICMP_SLT && K->isZero()) ok = true;
              if (IC->getPredicate() == ICmpInst::ICMP_SGT && K->isMinusOne()) ok = true;
            }
          } else if (auto *BO = dyn_cast<BinaryOperator>(U)) {
            if (BO->getOpcode() == Instruction::LShr)
              if (auto *K = dyn_cast<ConstantInt>(BO->getOperand(1)))
                if (K->getZExtValue() == 63) ok = true;
          }
          if (!ok) { signOnly = false; break; }
        }
        FunctionCallee f = rt(signOnly ? "__symfp_signsrc" : "__symfp_bitsrc", DblTy, {DblTy, I8PtrTy});
        Value *c = B.CreateCall(f, {CI->getOperand(0), FN()});
        CI->setOperand(0, c); ++nRewritten; return true;
      }
      return false;
    }
    if (auto *CB = dyn_cast<CallBase>(&I)) {
      Function *Callee = CB->getCalledFunction();
      if (!Callee) return false;                 // indirect: instrumented code or user callback
      StringRef name = Callee->getName();
      if (name.startswith("__symfp_") || name.startswith("_ZN5symfp")) return false;
      if (Callee->isIntrinsic()) {
        Intrinsic::ID id = Callee->getIntrinsicID();
        StringRef base = Intrinsic::getBaseName(id);       // "llvm.sqrt"
        base.consume_front("llvm.");
        auto it = intrFns().find(base.str());
        Type *RT = CB->getType();
        if (it == intrFns().end()) {
          if (id == Intrinsic::powi) {
            if (!isDbl(RT)) { if (isDblVec(RT)) die(I, "vector powi"); return false; }
            FunctionCallee f = rt("__symfp_powi", DblTy, {DblTy, I32Ty, I8PtrTy});
            Value *e = CB->getArgOperand(1);
            if (e->getType() != I32Ty) e = B.CreateSExtOrTrunc(e, I32Ty);
            Value *r = B.CreateCall(f, {CB->getArgOperand(0), e, FN()});
            CB->replaceAllUsesWith(r); CB->eraseFromParent(); ++nRewritten; return true;
          }
          // any other intrinsic with a double FP *computation* is unknown to us
          switch (id) {
          case Intrinsic::lifetime_start: case Intrinsic::lifetime_end:
          case Intrinsic::memcpy: case Intrinsic::memmove: case Intrinsic::memset:
          case Intrinsic::dbg_declare: case Intrinsic::dbg_value: case Intrinsic::dbg_label:
          case Intrinsic::assume: case Intrinsic::expect: case Intrinsic::stacksave:
          case Intrinsic::stackrestore: case Intrinsic::vastart: case Intrinsic::vaend:
          case Intrinsic::vacopy: case Intrinsic::experimental_noalias_scope_decl:
          case Intrinsic::invariant_start: case Intrinsic::invariant_end:
          case Intrinsic::is_constant: case Intrinsic::objectsize: case Intrinsic::prefetch:
          case Intrinsic::trap: case Intrinsic::eh_typeid_for: case Intrinsic::launder_invariant_group:
          case Intrinsic::strip_invariant_group:
            return false;
          default: break;
          }
          bool fp = RT->getScalarType()->isDoubleTy();
          for (Value *A : CB->args()) fp |= A->getType()->getScalarType()->isDoubleTy();
          if (fp) die(I, "unknown intrinsic on double");
          return false;
        }
        if (!RT->getScalarType()->isDoubleTy()) return false;   // float / fp80 version: native
        int ar = it->second.arity;
        std::string rn = std::string("__symfp_") + it->second.rt;
        std::vector<Type *> tys(ar, DblTy); tys.push_back(I8PtrTy);
        FunctionCallee f = rt(rn, DblTy, tys);
        if (isDbl(RT)) {
          std::vector<Value *> args;
          for (int k = 0; k < ar; ++k) args.push_back(CB->getArgOperand(k));
          args.push_back(FN());
          Value *r = B.CreateCall(f, args);
          CB->replaceAllUsesWith(r); CB->eraseFromParent(); ++nRewritten; return true;
        }
        if (isDblVec(RT)) {
          unsigned n = cast<FixedVectorType>(RT)->getNumElements();
          Value *r = lanewise(B, DblTy, n, [&](unsigned i) {
            std::vector<Value *> args;
            for (int k = 0; k < ar; ++k) args.push_back(B.CreateExtractElement(CB->getArgOperand(k), B.getInt32(i)));
            args.push_back(FN());
            return (Value *)B.CreateCall(f, args);
          });
          CB->replaceAllUsesWith(r); CB->eraseFromParent(); ++nRewritten; return true;
        }
        die(I, "intrinsic with odd type");
      }
      if (!Callee->isDeclaration()) return false;           // defined here: instrumented itself
      // libm
      auto it = mathFns().find(name.str());
      FunctionType *FT = Callee->getFunctionType();
      if (it != mathFns().end() && FT->getReturnType()->isDoubleTy()) {
        int ar = it->second;
        std::string rn = "__symfp_" + name.str();
        if (ar > 0) {
          bool ok = (int)FT->getNumParams() == ar;
          for (int k = 0; ok && k < ar; ++k) ok = FT->getParamType(k)->isDoubleTy();
          if (ok && isa<CallInst>(CB)) {
            std::vector<Type *> tys(ar, DblTy); tys.push_back(I8PtrTy);
            FunctionCallee f = rt(rn, DblTy, tys);
            std::vector<Value *> args;
            for (int k = 0; k < ar; ++k) args.push_back(CB->getArgOperand(k));
            args.push_back(FN());
            Value *r = B.CreateCall(f, args);
            CB->replaceAllUsesWith(r); CB->eraseFromParent(); ++nRewritten; return true;
          }
        } else if (ar == -2 && FT->getNumParams() == 2 && FT->getParamType(0)->isDoubleTy() &&
                   FT->getParamType(1)->isIntegerTy() && isa<CallInst>(CB)) {
          FunctionCallee f = rt("__symfp_ldexp", DblTy, {DblTy, I32Ty, I8PtrTy});
          Value *e = B.CreateSExtOrTrunc(CB->getArgOperand(1), I32Ty);
          Value *r = B.CreateCall(f, {CB->getArgOperand(0), e, FN()});
          CB->replaceAllUsesWith(r); CB->eraseFromParent(); ++nRewritten; return true;
        }
      }
      if (name == "sincos" && FT->getNumParams() == 3 && isa<CallInst>(CB)) {
        FunctionCallee fs = rt("__symfp_sin", DblTy, {DblTy, I8PtrTy});
        FunctionCallee fc = rt("__symfp_cos", DblTy, {DblTy, I8PtrTy});
        Value *x = CB->getArgOperand(0);
        Value *s = B.CreateCall(fs, {x, FN()});
        Value *c = B.CreateCall(fc, {x, FN()});
        B.CreateStore(s, B.CreateBitCast(CB->getArgOperand(1), DblTy->getPointerTo()));
        B.CreateStore(c, B.CreateBitCast(CB->getArgOperand(2), DblTy->getPointerTo()));
        CB->eraseFromParent(); ++nRewritten; return true;
      }
      // External functions that are NOT built from /repo (libc, libstdc++, varargs): a double
      // argument passed by value must be concrete. Other declarations (C++ functions of the
      // instrumented libraries, sundials C code, harness helpers) are instrumented themselves.
      {
        static const std::set<std::string> ext = {"frexp", "modf", "ilogb", "logb", "nextafter", "nexttoward",
            "j0", "j1", "jn", "y0", "y1", "yn", "lround", "llround", "lrint", "llrint", "nan", "cabs", "carg",
            "csqrt", "cexp", "clog", "cpow", "__isnan", "__isinf", "__finite", "__signbit", "__fpclassify", "remquo", "scalbln"};
        bool isExt = Callee->isVarArg() || name.startswith("_ZNSo") || name.startswith("_ZNSt") ||
                     name.startswith("_ZSt") || name.startswith("_ZNKSt") || name.startswith("_ZNSi") ||
                     name.startswith("_ZNSs") || name.startswith("_ZN9__gnu_cxx") || ext.count(name.str());
        if (!isExt) return false;
      }
      bool ch = false;
      for (unsigned k = 0; k < CB->arg_size(); ++k) {
        Value *A = CB->getArgOperand(k);
        if (isDbl(A->getType())) {
          FunctionCallee f = rt("__symfp_concretize", DblTy, {DblTy, I32Ty, I8PtrTy});
          Value *c = B.CreateCall(f, {A, B.getInt32(3), FN()});
          CB->setArgOperand(k, c); ch = true; ++nRewritten;
        }
      }
      return ch;
    }
    if (isa<AtomicRMWInst>(I)) {
      auto &A = cast<AtomicRMWInst>(I);
      if (A.getType()->isDoubleTy() && (A.getOperation() == AtomicRMWInst::FAdd || A.getOperation() == AtomicRMWInst::FSub))
        die(I, "atomic fadd");
    }
    return false;
  }
};

struct SymFPPass : PassInfoMixin<SymFPPass> {
  PreservedAnalyses run(Module &M, ModuleAnalysisManager &) {
    SymFP S(M);
    bool ch = S.run();
    return ch ? PreservedAnalyses::none() : PreservedAnalyses::all();
  }
  static bool isRequired() { return true; }
};

} // namespace

extern "C" LLVM_ATTRIBUTE_WEAK ::llvm::PassPluginLibraryInfo llvmGetPassPluginInfo() {
  return {LLVM_PLUGIN_API_VERSION, "symfp", "1.0", [](PassBuilder &PB) {
            PB.registerOptimizerLastEPCallback(
                [](ModulePassManager &MPM, OptimizationLevel) { MPM.addPass(SymFPPass()); });
          }};
}
