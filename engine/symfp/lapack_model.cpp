// Reference models of the few LAPACK/BLAS routines that lie on Simbody's tree-dynamics
// paths (Mat<6,6>::invert -> dgetrf/dgetri, lbfgs -> ddot/daxpy, ...). Compiled WITH the
// symfp plugin and linked ahead of openblas, so a symbolic value may pass through them.
// They are stubs of the environment (textbook algorithms, column major, Fortran ABI), listed
// as such in the evidence; the external openblas binary itself is never symbolically executed.
#include <cmath>
#include <vector>
extern "C" {

void dgetrf_(const int* m_, const int* n_, double* a, const int* lda_, int* ipiv, int* info) {
    const int m = *m_, n = *n_, lda = *lda_;
    *info = 0;
    const int mn = m < n ? m : n;
    for (int k = 0; k < mn; ++k) {
        int p = k; double best = std::fabs(a[k + k * lda]);
        for (int i = k + 1; i < m; ++i) { double v = std::fabs(a[i + k * lda]); if (v > best) { best = v; p = i; } }
        ipiv[k] = p + 1;
        if (a[p + k * lda] == 0.0) { if (*info == 0) *info = k + 1; continue; }
        if (p != k) for (int j = 0; j < n; ++j) { double t = a[k + j * lda]; a[k + j * lda] = a[p + j * lda]; a[p + j * lda] = t; }
        const double piv = a[k + k * lda];
        for (int i = k + 1; i < m; ++i) a[i + k * lda] /= piv;
        for (int j = k + 1; j < n; ++j) { const double akj = a[k + j * lda]; for (int i = k + 1; i < m; ++i) a[i + j * lda] -= a[i + k * lda] * akj; }
    }
}

static void lu_solve(int n, const double* a, int lda, const int* ipiv, double* b, bool trans) {
    if (!trans) {
        for (int k = 0; k < n; ++k) { int p = ipiv[k] - 1; if (p != k) { double t = b[k]; b[k] = b[p]; b[p] = t; } }
        for (int k = 0; k < n; ++k) for (int i = k + 1; i < n; ++i) b[i] -= a[i + k * lda] * b[k];
        for (int k = n - 1; k >= 0; --k) { b[k] /= a[k + k * lda]; for (int i = 0; i < k; ++i) b[i] -= a[i + k * lda] * b[k]; }
    } else {
        for (int k = 0; k < n; ++k) { for (int i = 0; i < k; ++i) b[k] -= a[i + k * lda] * b[i]; b[k] /= a[k + k * lda]; }
        for (int k = n - 1; k >= 0; --k) for (int i = k + 1; i < n; ++i) b[k] -= a[i + k * lda] * b[i];
        for (int k = n - 1; k >= 0; --k) { int p = ipiv[k] - 1; if (p != k) { double t = b[k]; b[k] = b[p]; b[p] = t; } }
    }
}

void dgetrs_(const char* trans, const int* n_, const int* nrhs_, const double* a, const int* lda_, const int* ipiv,
             double* b, const int* ldb_, int* info, int) {
    *info = 0;
    const bool tr = (*trans == 'T' || *trans == 't' || *trans == 'C' || *trans == 'c');
    for (int j = 0; j < *nrhs_; ++j) lu_solve(*n_, a, *lda_, ipiv, b + j * (*ldb_), tr);
}

void dgetri_(const int* n_, double* a, const int* lda_, const int* ipiv, double* work, const int* lwork, int* info) {
    const int n = *n_, lda = *lda_;
    *info = 0;
    if (*lwork == -1) { work[0] = n > 1 ? n : 1; return; }
    for (int k = 0; k < n; ++k) if (a[k + k * lda] == 0.0) { *info = k + 1; return; }
    std::vector<double> inv((size_t)n * n, 0.0);
    for (int j = 0; j < n; ++j) { inv[j + (size_t)j * n] = 1.0; lu_solve(n, a, lda, ipiv, &inv[(size_t)j * n], false); }
    for (int j = 0; j < n; ++j) for (int i = 0; i < n; ++i) a[i + j * lda] = inv[i + (size_t)j * n];
}

void dpotrf_(const char* uplo, const int* n_, double* a, const int* lda_, int* info, int) {
    const int n = *n_, lda = *lda_;
    *info = 0;
    const bool up = (*uplo == 'U' || *uplo == 'u');
    for (int j = 0; j < n; ++j) {
        double d = a[j + j * lda];
        for (int k = 0; k < j; ++k) { double l = up ? a[k + j * lda] : a[j + k * lda]; d -= l * l; }
        if (!(d > 0.0)) { *info = j + 1; return; }
        d = std::sqrt(d);
        a[j + j * lda] = d;
        for (int i = j + 1; i < n; ++i) {
            double s = up ? a[j + i * lda] : a[i + j * lda];
            for (int k = 0; k < j; ++k) s -= up ? a[k + j * lda] * a[k + i * lda] : a[i + k * lda] * a[j + k * lda];
            if (up) a[j + i * lda] = s / d; else a[i + j * lda] = s / d;
        }
    }
}

void dpotrs_(const char* uplo, const int* n_, const int* nrhs_, const double* a, const int* lda_, double* b, const int* ldb_, int* info, int) {
    const int n = *n_, lda = *lda_, ldb = *ldb_;
    *info = 0;
    const bool up = (*uplo == 'U' || *uplo == 'u');
    auto L = [&](int i, int k) { return up ? a[k + i * lda] : a[i + k * lda]; };   // L(i,k), i>=k
    for (int j = 0; j < *nrhs_; ++j) {
        double* x = b + j * ldb;
        for (int i = 0; i < n; ++i) { double s = x[i]; for (int k = 0; k < i; ++k) s -= L(i, k) * x[k]; x[i] = s / L(i, i); }
        for (int i = n - 1; i >= 0; --i) { double s = x[i]; for (int k = i + 1; k < n; ++k) s -= L(k, i) * x[k]; x[i] = s / L(i, i); }
    }
}

double ddot_(const int* n, const double* x, const int* incx, const double* y, const int* incy) {
    double s = 0; int ix = *incx < 0 ? (1 - *n) * *incx : 0, iy = *incy < 0 ? (1 - *n) * *incy : 0;
    for (int i = 0; i < *n; ++i, ix += *incx, iy += *incy) s += x[ix] * y[iy];
    return s;
}
void daxpy_(const int* n, const double* alpha, const double* x, const int* incx, double* y, const int* incy) {
    int ix = *incx < 0 ? (1 - *n) * *incx : 0, iy = *incy < 0 ? (1 - *n) * *incy : 0;
    for (int i = 0; i < *n; ++i, ix += *incx, iy += *incy) y[iy] += *alpha * x[ix];
}
void dscal_(const int* n, const double* alpha, double* x, const int* incx) {
    for (int i = 0, ix = 0; i < *n; ++i, ix += *incx) x[ix] *= *alpha;
}
void dcopy_(const int* n, const double* x, const int* incx, double* y, const int* incy) {
    int ix = *incx < 0 ? (1 - *n) * *incx : 0, iy = *incy < 0 ? (1 - *n) * *incy : 0;
    for (int i = 0; i < *n; ++i, ix += *incx, iy += *incy) y[iy] = x[ix];
}
double dnrm2_(const int* n, const double* x, const int* incx) {
    double s = 0;
    for (int i = 0, ix = 0; i < *n; ++i, ix += *incx) s += x[ix] * x[ix];
    return std::sqrt(s);
}
void dgemv_(const char* trans, const int* m_, const int* n_, const double* alpha, const double* A, const int* lda_,
            const double* x, const int* incx, const double* beta, double* y, const int* incy, int) {
    const int m = *m_, n = *n_, lda = *lda_;
    const bool tr = !(*trans == 'N' || *trans == 'n');
    const int leny = tr ? n : m, lenx = tr ? m : n;
    int ky = *incy < 0 ? (1 - leny) * *incy : 0, kx = *incx < 0 ? (1 - lenx) * *incx : 0;
    for (int i = 0; i < leny; ++i) {
        double s = 0;
        for (int j = 0; j < lenx; ++j) s += (tr ? A[j + i * lda] : A[i + j * lda]) * x[kx + j * *incx];
        double& yi = y[ky + i * *incy];
        yi = (*beta == 0.0 ? 0.0 : *beta * yi) + *alpha * s;
    }
}
void dgemm_(const char* ta, const char* tb, const int* m_, const int* n_, const int* k_, const double* alpha,
            const double* A, const int* lda_, const double* B, const int* ldb_, const double* beta, double* C, const int* ldc_, int, int) {
    const int m = *m_, n = *n_, k = *k_, lda = *lda_, ldb = *ldb_, ldc = *ldc_;
    const bool tA = !(*ta == 'N' || *ta == 'n'), tB = !(*tb == 'N' || *tb == 'n');
    for (int j = 0; j < n; ++j) for (int i = 0; i < m; ++i) {
        double s = 0;
        for (int l = 0; l < k; ++l) s += (tA ? A[l + i * lda] : A[i + l * lda]) * (tB ? B[j + l * ldb] : B[l + j * ldb]);
        double& c = C[i + j * ldc];
        c = (*beta == 0.0 ? 0.0 : *beta * c) + *alpha * s;
    }
}
} // extern "C"
