// symfp runtime. Compiled WITHOUT the plugin. See DESIGN.md §2.2.
// A double is either an ordinary value or a NaN-boxed handle (0xFFF9<<48 | id)
// to a node of a hash-consed expression DAG with a concrete shadow value.
#include <cmath>
#include <cstdint>
#include <cstdio>
#include <cstdlib>
#include <cstring>
#include <unistd.h>
#include <map>
#include <mutex>
#include <set>
#include <string>
#include <unordered_map>
#include <vector>
#include "symfp.h"

namespace {

enum Op : uint8_t {
  OP_CONST = 0, OP_INPUT, OP_ADD, OP_SUB, OP_MUL, OP_DIV, OP_NEG,
  OP_SIN, OP_COS, OP_TAN, OP_ASIN, OP_ACOS, OP_ATAN, OP_ATAN2,
  OP_SQRT, OP_CBRT, OP_EXP, OP_LOG, OP_POW /* b = const node exponent */,
  OP_OPAQUE1, OP_OPAQUE2 /* c = name id */, OP_NOPS
};
const char *opname[] = {"const", "input", "add", "sub", "mul", "div", "neg",
                        "sin", "cos", "tan", "asin", "acos", "atan", "atan2",
                        "sqrt", "cbrt", "exp", "log", "pow", "op1", "op2"};

struct Node { uint8_t op; uint32_t a, b, c; double v; /* shadow (or constant) */ };

struct Key { uint8_t op; uint32_t a, b, c; uint64_t bits;
  bool operator==(const Key &o) const { return op == o.op && a == o.a && b == o.b && c == o.c && bits == o.bits; } };
struct KeyHash { size_t operator()(const Key &k) const {
  uint64_t h = k.op * 0x9E3779B97F4A7C15ull; h ^= (uint64_t)k.a * 0xC2B2AE3D27D4EB4Full; h = (h << 13) | (h >> 51);
  h ^= (uint64_t)k.b * 0x165667B19E3779F9ull; h = (h << 17) | (h >> 47); h ^= (uint64_t)k.c * 0x27D4EB2F165667C5ull; h ^= k.bits * 0x9E3779B97F4A7C15ull; return (size_t)h; } };

struct Decision { uint8_t kind; /*0 cmp, 1 int*/ uint32_t pred; uint32_t a, b; int taken; double k; const char *fn; };
struct Event { std::string kind; uint32_t node; const char *fn; };
struct Input { std::string name, kind; uint32_t node; double seed; };
struct Output { std::string name; bool sym; uint32_t node; double v; };

struct RT {
  std::recursive_mutex mu;
  std::vector<Node> nodes;
  std::unordered_map<Key, uint32_t, KeyHash> cons;
  std::vector<Decision> decisions;
  std::map<std::tuple<uint32_t, uint32_t, uint32_t>, int> decided;
  std::vector<Event> events;
  std::vector<Input> inputs;
  std::vector<Output> outputs;
  std::vector<std::pair<std::string, std::string>> notes;
  std::vector<std::string> opaqueNames;
  std::set<const char *> fns;
  std::map<std::string, double> seedOverride;
  bool concrete = false;
  bool inited = false;
  size_t maxNodes = 40000000;
  size_t maxDecisions = 2000000;
  std::string outPath;
};
RT &R() { static RT *r = new RT(); return *r; }

const uint64_t TAG = 0xFFF9ull;
inline uint64_t bitsOf(double x) { uint64_t b; memcpy(&b, &x, 8); return b; }
inline double dblOf(uint64_t b) { double x; memcpy(&x, &b, 8); return x; }
inline bool isH(double x) { return (bitsOf(x) >> 48) == TAG; }
inline uint32_t idOf(double x) { return (uint32_t)(bitsOf(x) & 0xFFFFFFFFull); }
inline double handle(uint32_t id) { return dblOf((TAG << 48) | id); }

uint32_t mkNode(uint8_t op, uint32_t a, uint32_t b, uint32_t c, double v) {
  RT &r = R();
  Key k{op, a, b, c, op == OP_CONST ? bitsOf(v) : 0};
  auto it = r.cons.find(k);
  if (it != r.cons.end()) return it->second;
  if (r.nodes.size() >= r.maxNodes) { fprintf(stderr, "symfp: node limit\n"); symfp::finish(); _exit(3); }
  uint32_t id = (uint32_t)r.nodes.size();
  r.nodes.push_back(Node{op, a, b, c, v});
  r.cons.emplace(k, id);
  return id;
}
uint32_t constNode(double v) { return mkNode(OP_CONST, 0, 0, 0, v); }
uint32_t nodeOf(double x) { return isH(x) ? idOf(x) : constNode(x); }
inline double shadow(double x) { if (!isH(x)) return x; std::lock_guard<std::recursive_mutex> g(R().mu); return R().nodes[idOf(x)].v; }

void note_fn(const char *fn) { if (fn) R().fns.insert(fn); }

double mk1(uint8_t op, double a, double v, const char *fn) {
  std::lock_guard<std::recursive_mutex> g(R().mu);
  note_fn(fn);
  return handle(mkNode(op, nodeOf(a), 0, 0, v));
}
double mk2(uint8_t op, double a, double b, double v, const char *fn) {
  std::lock_guard<std::recursive_mutex> g(R().mu);
  note_fn(fn);
  return handle(mkNode(op, nodeOf(a), nodeOf(b), 0, v));
}
void event(const char *kind, double x, const char *fn) {
  std::lock_guard<std::recursive_mutex> g(R().mu);
  R().events.push_back(Event{kind, isH(x) ? idOf(x) : 0u, fn});
}

// LLVM FCmp predicate numbering
enum { F_FALSE = 0, F_OEQ, F_OGT, F_OGE, F_OLT, F_OLE, F_ONE, F_ORD, F_UNO, F_UEQ, F_UGT, F_UGE, F_ULT, F_ULE, F_UNE, F_TRUE };
bool nativeCmp(unsigned p, double a, double b) {
  bool un = std::isnan(a) || std::isnan(b);
  switch (p) {
  case F_FALSE: return false; case F_TRUE: return true;
  case F_OEQ: return !un && a == b; case F_OGT: return !un && a > b; case F_OGE: return !un && a >= b;
  case F_OLT: return !un && a < b; case F_OLE: return !un && a <= b; case F_ONE: return !un && a != b;
  case F_ORD: return !un; case F_UNO: return un;
  case F_UEQ: return un || a == b; case F_UGT: return un || a > b; case F_UGE: return un || a >= b;
  case F_ULT: return un || a < b; case F_ULE: return un || a <= b; case F_UNE: return un || a != b;
  }
  return false;
}
// normalise predicate to ordered relation code: 1 EQ, 2 GT, 3 GE, 4 LT, 5 LE, 6 NE
unsigned relOf(unsigned p) {
  switch (p) { case F_OEQ: case F_UEQ: return 1; case F_OGT: case F_UGT: return 2; case F_OGE: case F_UGE: return 3;
  case F_OLT: case F_ULT: return 4; case F_OLE: case F_ULE: return 5; case F_ONE: case F_UNE: return 6; }
  return 0;
}
bool relEval(unsigned rel, double a, double b) {
  switch (rel) { case 1: return a == b; case 2: return a > b; case 3: return a >= b; case 4: return a < b; case 5: return a <= b; case 6: return a != b; }
  return false;
}

bool decide(unsigned rel, double a, double b, const char *fn) {
  // a or b is a handle, neither is NaN/inf concrete
  RT &r = R();
  std::lock_guard<std::recursive_mutex> g(r.mu);
  uint32_t ia = nodeOf(a), ib = nodeOf(b);
  bool out = relEval(rel, shadow(a), shadow(b));
  if (ia == ib) return rel == 1 || rel == 3 || rel == 5;   // x ? x : decided for reals
  auto key = std::make_tuple((uint32_t)rel, ia, ib);
  auto it = r.decided.find(key);
  if (it != r.decided.end()) return it->second != 0;
  r.decided[key] = out;
  if (r.decisions.size() < r.maxDecisions) r.decisions.push_back(Decision{0, rel, ia, ib, out ? 1 : 0, 0.0, fn});
  else if (r.decisions.size() == r.maxDecisions) { r.events.push_back(Event{"decision-limit", 0, fn}); r.decisions.push_back(Decision{0, rel, ia, ib, out ? 1 : 0, 0.0, fn}); }
  note_fn(fn);
  return out;
}

void jsonStr(FILE *f, const std::string &s) {
  fputc('"', f);
  for (char ch : s) { if (ch == '"' || ch == '\\') { fputc('\\', f); fputc(ch, f); } else if ((unsigned char)ch < 0x20) fprintf(f, "\\u%04x", ch); else fputc(ch, f); }
  fputc('"', f);
}
void jsonNum(FILE *f, double v) {
  if (std::isnan(v)) fputs("\"nan\"", f);
  else if (std::isinf(v)) fputs(v > 0 ? "\"inf\"" : "\"-inf\"", f);
  else fprintf(f, "%.17g", v);
}

} // namespace

// ---------------------------------------------------------------- arithmetic
extern "C" {

#define CONC2(a, b) (!isH(a) && !isH(b))

double __symfp_add(double a, double b, const char *fn) {
  if (CONC2(a, b)) return a + b;
  if (!isH(a)) { if (a == 0) return b; if (!std::isfinite(a)) return a + shadow(b); }
  if (!isH(b)) { if (b == 0) return a; if (!std::isfinite(b)) return shadow(a) + b; }
  return mk2(OP_ADD, a, b, shadow(a) + shadow(b), fn);
}
double __symfp_sub(double a, double b, const char *fn) {
  if (CONC2(a, b)) return a - b;
  if (!isH(b)) { if (b == 0) return a; if (!std::isfinite(b)) return shadow(a) - b; }
  if (!isH(a)) { if (!std::isfinite(a)) return a - shadow(b);
    if (a == 0) return mk1(OP_NEG, b, -shadow(b), fn); }
  if (isH(a) && isH(b) && idOf(a) == idOf(b)) return 0.0;
  return mk2(OP_SUB, a, b, shadow(a) - shadow(b), fn);
}
double __symfp_mul(double a, double b, const char *fn) {
  if (CONC2(a, b)) return a * b;
  if (!isH(a)) { if (a == 0) return 0.0; if (a == 1) return b; if (!std::isfinite(a)) return a * shadow(b);
    if (a == -1) return mk1(OP_NEG, b, -shadow(b), fn); }
  if (!isH(b)) { if (b == 0) return 0.0; if (b == 1) return a; if (!std::isfinite(b)) return shadow(a) * b;
    if (b == -1) return mk1(OP_NEG, a, -shadow(a), fn); }
  return mk2(OP_MUL, a, b, shadow(a) * shadow(b), fn);
}
double __symfp_div(double a, double b, const char *fn) {
  if (CONC2(a, b)) return a / b;
  if (!isH(a)) { if (a == 0) return 0.0; if (!std::isfinite(a)) return a / shadow(b); }
  if (!isH(b)) { if (b == 1) return a; if (!std::isfinite(b)) return shadow(a) / b;
    if (b == 0) { event("div-by-concrete-zero", a, fn); return shadow(a) / b; } }
  return mk2(OP_DIV, a, b, shadow(a) / shadow(b), fn);
}
double __symfp_neg(double a, const char *fn) {
  if (!isH(a)) return -a;
  { std::lock_guard<std::recursive_mutex> g(R().mu);
    const Node &n = R().nodes[idOf(a)];
    if (n.op == OP_NEG) return handle(n.a); }
  return mk1(OP_NEG, a, -shadow(a), fn);
}

bool __symfp_cmp(unsigned pred, double a, double b, const char *fn) {
  if (CONC2(a, b)) return nativeCmp(pred, a, b);
  // symbolic reals are never NaN
  double ca = isH(a) ? 0.0 : a, cb = isH(b) ? 0.0 : b;
  if (std::isnan(ca) || std::isnan(cb)) return nativeCmp(pred, ca, cb) ;   // unordered
  if (pred == F_ORD) return true;
  if (pred == F_UNO) return false;
  if (pred == F_FALSE) return false;
  if (pred == F_TRUE) return true;
  if (!isH(a) && std::isinf(a)) return nativeCmp(pred, a, 0.0);
  if (!isH(b) && std::isinf(b)) return nativeCmp(pred, 0.0, b);
  return decide(relOf(pred), a, b, fn);
}

// truncation toward zero used by fptosi/fptoui: returns a concrete double with
// the same integer part; records the decision  k <= x < k+1  (or mirrored).
double __symfp_toint(double a, const char *fn) {
  if (!isH(a)) return a;
  RT &r = R();
  std::lock_guard<std::recursive_mutex> g(r.mu);
  double k = std::trunc(shadow(a));
  r.decisions.push_back(Decision{1, 0, idOf(a), 0, 1, k, fn});
  note_fn(fn);
  return k;
}
static double intDecision(double a, int kind, double k, const char *fn) {
  RT &r = R();
  std::lock_guard<std::recursive_mutex> g(r.mu);
  r.decisions.push_back(Decision{1, (uint32_t)kind, idOf(a), 0, 1, k, fn});
  note_fn(fn);
  return k;
}
double __symfp_floor(double a, const char *fn) { if (!isH(a)) return std::floor(a); return intDecision(a, 1, std::floor(shadow(a)), fn); }
double __symfp_ceil(double a, const char *fn) { if (!isH(a)) return std::ceil(a); return intDecision(a, 2, std::ceil(shadow(a)), fn); }
double __symfp_trunc(double a, const char *fn) { if (!isH(a)) return std::trunc(a); return intDecision(a, 0, std::trunc(shadow(a)), fn); }
double __symfp_round(double a, const char *fn) { if (!isH(a)) return std::round(a); return intDecision(a, 3, std::round(shadow(a)), fn); }
double __symfp_rint(double a, const char *fn) { if (!isH(a)) return std::rint(a); return intDecision(a, 3, std::rint(shadow(a)), fn); }
double __symfp_nearbyint(double a, const char *fn) { if (!isH(a)) return std::nearbyint(a); return intDecision(a, 3, std::nearbyint(shadow(a)), fn); }

double __symfp_concretize(double a, int why, const char *fn) {
  if (!isH(a)) return a;
  event(why == 1 ? "concretize-fptrunc" : why == 2 ? "concretize-fpext" : "concretize-extcall", a, fn);
  return shadow(a);
}
double __symfp_bitsrc(double a, const char *fn) {
  if (!isH(a)) return a;
  event("bitcast-of-handle", a, fn);
  return a;   // bits move on untouched (copy idiom); event taints the path
}
double __symfp_signsrc(double a, const char *fn) {
  if (!isH(a)) return a;
  bool neg = decide(4, a, 0.0, fn);      // a < 0
  return neg ? -1.0 : 1.0;
}

double __symfp_rem(double a, double b, const char *fn) {
  if (CONC2(a, b)) return std::fmod(a, b);
  double q = __symfp_div(a, b, fn);
  double k = isH(q) ? intDecision(q, 0, std::trunc(shadow(q)), fn) : std::trunc(q);
  return __symfp_sub(a, __symfp_mul(k, b, fn), fn);
}
double __symfp_fmod(double a, double b, const char *fn) { return __symfp_rem(a, b, fn); }
double __symfp_remainder(double a, double b, const char *fn) {
  if (CONC2(a, b)) return std::remainder(a, b);
  double q = __symfp_div(a, b, fn);
  double k = isH(q) ? intDecision(q, 3, std::nearbyint(shadow(q)), fn) : std::nearbyint(q);
  return __symfp_sub(a, __symfp_mul(k, b, fn), fn);
}

double __symfp_fabs(double a, const char *fn) {
  if (!isH(a)) return std::fabs(a);
  return decide(4, a, 0.0, fn) ? __symfp_neg(a, fn) : a;
}
double __symfp_fmin(double a, double b, const char *fn) {
  if (CONC2(a, b)) return std::fmin(a, b);
  if (!isH(a) && std::isnan(a)) return b;
  if (!isH(b) && std::isnan(b)) return a;
  return __symfp_cmp(F_OLT, a, b, fn) ? a : b;
}
double __symfp_fmax(double a, double b, const char *fn) {
  if (CONC2(a, b)) return std::fmax(a, b);
  if (!isH(a) && std::isnan(a)) return b;
  if (!isH(b) && std::isnan(b)) return a;
  return __symfp_cmp(F_OGT, a, b, fn) ? a : b;
}
double __symfp_fdim(double a, double b, const char *fn) {
  if (CONC2(a, b)) return std::fdim(a, b);
  return __symfp_cmp(F_OGT, a, b, fn) ? __symfp_sub(a, b, fn) : 0.0;
}
double __symfp_copysign(double a, double b, const char *fn) {
  if (CONC2(a, b)) return std::copysign(a, b);
  bool bneg = isH(b) ? decide(4, b, 0.0, fn) : std::signbit(b);
  double m = __symfp_fabs(a, fn);
  return bneg ? __symfp_neg(m, fn) : m;
}
double __symfp_fma(double a, double b, double c, const char *fn) {
  if (!isH(a) && !isH(b) && !isH(c)) return a * b + c;   // -ffp-contract=off: never fused in source semantics
  return __symfp_add(__symfp_mul(a, b, fn), c, fn);
}

#define UNARY(NAME, OPC, EXPR) \
  double __symfp_##NAME(double a, const char *fn) { if (!isH(a)) return std::NAME(a); double s = shadow(a); (void)s; return mk1(OPC, a, EXPR, fn); }
UNARY(sin, OP_SIN, std::sin(s))
UNARY(cos, OP_COS, std::cos(s))
UNARY(tan, OP_TAN, std::tan(s))
UNARY(asin, OP_ASIN, std::asin(s))
UNARY(acos, OP_ACOS, std::acos(s))
UNARY(atan, OP_ATAN, std::atan(s))
UNARY(sqrt, OP_SQRT, std::sqrt(s))
UNARY(cbrt, OP_CBRT, std::cbrt(s))
UNARY(exp, OP_EXP, std::exp(s))
UNARY(log, OP_LOG, std::log(s))

static double opaque1(const char *name, double a, double v, const char *fn) {
  RT &r = R();
  std::lock_guard<std::recursive_mutex> g(r.mu);
  uint32_t nid = 0;
  for (; nid < r.opaqueNames.size(); ++nid) if (r.opaqueNames[nid] == name) break;
  if (nid == r.opaqueNames.size()) r.opaqueNames.push_back(name);
  note_fn(fn);
  return handle(mkNode(OP_OPAQUE1, nodeOf(a), 0, nid, v));
}
static double opaque2(const char *name, double a, double b, double v, const char *fn) {
  RT &r = R();
  std::lock_guard<std::recursive_mutex> g(r.mu);
  uint32_t nid = 0;
  for (; nid < r.opaqueNames.size(); ++nid) if (r.opaqueNames[nid] == name) break;
  if (nid == r.opaqueNames.size()) r.opaqueNames.push_back(name);
  note_fn(fn);
  return handle(mkNode(OP_OPAQUE2, nodeOf(a), nodeOf(b), nid, v));
}
#define OPAQ1(NAME) double __symfp_##NAME(double a, const char *fn) { if (!isH(a)) return std::NAME(a); return opaque1(#NAME, a, std::NAME(shadow(a)), fn); }
OPAQ1(sinh) OPAQ1(cosh) OPAQ1(tanh) OPAQ1(log10) OPAQ1(log2) OPAQ1(exp2) OPAQ1(erf) OPAQ1(erfc)
OPAQ1(expm1) OPAQ1(log1p) OPAQ1(asinh) OPAQ1(acosh) OPAQ1(atanh) OPAQ1(tgamma) OPAQ1(lgamma)

double __symfp_atan2(double y, double x, const char *fn) {
  if (CONC2(y, x)) return std::atan2(y, x);
  return mk2(OP_ATAN2, y, x, std::atan2(shadow(y), shadow(x)), fn);
}
double __symfp_hypot(double a, double b, const char *fn) {
  if (CONC2(a, b)) return std::hypot(a, b);
  return __symfp_sqrt(__symfp_add(__symfp_mul(a, a, fn), __symfp_mul(b, b, fn), fn), fn);
}
double __symfp_powi(double a, int e, const char *fn) {
  if (!isH(a)) return std::pow(a, (double)e);
  if (e == 0) return 1.0;
  bool inv = e < 0; unsigned n = inv ? (unsigned)(-(long)e) : (unsigned)e;
  double r = 1.0, base = a;
  while (n) { if (n & 1) r = __symfp_mul(r, base, fn); n >>= 1; if (n) base = __symfp_mul(base, base, fn); }
  return inv ? __symfp_div(1.0, r, fn) : r;
}
double __symfp_pow(double a, double b, const char *fn) {
  if (CONC2(a, b)) return std::pow(a, b);
  if (!isH(b)) {
    if (b == std::trunc(b) && std::fabs(b) <= 64) return __symfp_powi(a, (int)b, fn);
    if (b == 0.5) return __symfp_sqrt(a, fn);
    if (b == -0.5) return __symfp_div(1.0, __symfp_sqrt(a, fn), fn);
    if (b == 1.5) return __symfp_mul(a, __symfp_sqrt(a, fn), fn);
    if (b == 2.5) return __symfp_mul(__symfp_mul(a, a, fn), __symfp_sqrt(a, fn), fn);
    return mk2(OP_POW, a, b, std::pow(shadow(a), b), fn);
  }
  return opaque2("pow", a, b, std::pow(shadow(a), shadow(b)), fn);
}
double __symfp_ldexp(double a, int e, const char *fn) {
  if (!isH(a)) return std::ldexp(a, e);
  return __symfp_mul(a, std::ldexp(1.0, e), fn);
}

} // extern "C"

// ---------------------------------------------------------------- harness API
namespace symfp {

static void loadSeeds(const char *path) {
  FILE *f = fopen(path, "r");
  if (!f) { fprintf(stderr, "symfp: cannot open seeds %s\n", path); exit(2); }
  char name[512]; char val[128];
  while (fscanf(f, "%511s %127s", name, val) == 2) {
    double v;
    if (val[0] == '0' && val[1] == 'x' && strlen(val) == 18) { uint64_t b = strtoull(val, nullptr, 16); memcpy(&v, &b, 8); }
    else v = strtod(val, nullptr);
    R().seedOverride[name] = v;
  }
  fclose(f);
}

void init() {
  RT &r = R();
  if (r.inited) return;
  r.inited = true;
  const char *c = getenv("SYMFP_CONCRETE");
  r.concrete = c && *c && strcmp(c, "0") != 0;
  const char *s = getenv("SYMFP_SEEDS");
  if (s && *s) loadSeeds(s);
  const char *o = getenv("SYMFP_OUT");
  r.outPath = o ? o : "";
  const char *mn = getenv("SYMFP_MAXNODES");
  if (mn) r.maxNodes = strtoull(mn, nullptr, 10);
  r.nodes.reserve(1 << 16);
  constNode(0.0);   // node 0 = constant 0
}

bool concrete() { init(); return R().concrete; }

double in(const char *name, double dflt, const char *kind) {
  init();
  RT &r = R();
  std::lock_guard<std::recursive_mutex> g(r.mu);
  double seed = dflt;
  auto it = r.seedOverride.find(name);
  if (it != r.seedOverride.end()) seed = it->second;
  for (auto &i : r.inputs) if (i.name == name) { fprintf(stderr, "symfp: duplicate input %s\n", name); exit(2); }
  if (r.concrete) { r.inputs.push_back(Input{name, kind, 0, seed}); return seed; }
  uint32_t id = (uint32_t)r.nodes.size();
  r.nodes.push_back(Node{OP_INPUT, (uint32_t)r.inputs.size(), 0, 0, seed});
  r.inputs.push_back(Input{name, kind, id, seed});
  return handle(id);
}

void out(const char *name, double v) {
  init();
  RT &r = R();
  std::lock_guard<std::recursive_mutex> g(r.mu);
  if (isH(v)) r.outputs.push_back(Output{name, true, idOf(v), r.nodes[idOf(v)].v});
  else r.outputs.push_back(Output{name, false, 0, v});
}
void out(const std::string &name, double v) { out(name.c_str(), v); }

void note(const char *key, const std::string &val) {
  init();
  std::lock_guard<std::recursive_mutex> g(R().mu);
  R().notes.emplace_back(key, val);
}
void assume_cmp(const char *rel, double a, double b) {
  // records an assumption literal in the path condition (must hold on the seed)
  init();
  if (!isH(a) && !isH(b)) return;
  unsigned rl = !strcmp(rel, "==") ? 1 : !strcmp(rel, ">") ? 2 : !strcmp(rel, ">=") ? 3 : !strcmp(rel, "<") ? 4 : !strcmp(rel, "<=") ? 5 : 6;
  bool o = decide(rl, a, b, "symfp::assume");
  if (!o) { note("assume-violated-on-seed", rel); }
}
double value(double v) { init(); return shadow(v); }
bool is_symbolic(double v) { return isH(v); }
size_t num_decisions() { return R().decisions.size(); }

void finish() {
  init();
  RT &r = R();
  std::lock_guard<std::recursive_mutex> g(r.mu);
  if (r.outPath.empty()) return;
  FILE *f = fopen(r.outPath.c_str(), "w");
  if (!f) { fprintf(stderr, "symfp: cannot write %s\n", r.outPath.c_str()); exit(2); }
  // only nodes reachable from outputs and decisions are written
  std::vector<char> need(r.nodes.size(), 0);
  std::vector<uint32_t> stack;
  auto push = [&](uint32_t id) { if (!need[id]) { need[id] = 1; stack.push_back(id); } };
  for (auto &o : r.outputs) if (o.sym) push(o.node);
  for (auto &d : r.decisions) { push(d.a); if (d.kind == 0) push(d.b); }
  for (auto &i : r.inputs) if (!r.concrete) push(i.node);
  while (!stack.empty()) {
    uint32_t id = stack.back(); stack.pop_back();
    const Node &n = r.nodes[id];
    switch (n.op) {
    case OP_CONST: case OP_INPUT: break;
    case OP_ADD: case OP_SUB: case OP_MUL: case OP_DIV: case OP_ATAN2: case OP_POW: case OP_OPAQUE2: push(n.a); push(n.b); break;
    default: push(n.a); break;
    }
  }
  fprintf(f, "{\"concrete\":%d,\n\"inputs\":[", r.concrete ? 1 : 0);
  for (size_t i = 0; i < r.inputs.size(); ++i) {
    auto &in = r.inputs[i];
    fprintf(f, "%s[", i ? "," : ""); jsonStr(f, in.name); fputc(',', f); jsonStr(f, in.kind);
    fprintf(f, ",%u,", in.node); jsonNum(f, in.seed); fputc(']', f);
  }
  fprintf(f, "],\n\"nodes\":[");
  bool first = true;
  for (uint32_t id = 0; id < r.nodes.size(); ++id) {
    if (!need[id]) continue;
    const Node &n = r.nodes[id];
    fprintf(f, "%s[%u,\"%s\",%u,%u,%u,", first ? "" : ",\n", id, opname[n.op], n.a, n.b, n.c);
    jsonNum(f, n.v); fputc(']', f);
    first = false;
  }
  fprintf(f, "],\n\"decisions\":[");
  for (size_t i = 0; i < r.decisions.size(); ++i) {
    auto &d = r.decisions[i];
    fprintf(f, "%s[%u,%u,%u,%u,%d,", i ? ",\n" : "", (unsigned)d.kind, d.pred, d.a, d.b, d.taken);
    jsonNum(f, d.k); fputc(',', f); jsonStr(f, d.fn ? d.fn : ""); fputc(']', f);
  }
  fprintf(f, "],\n\"outputs\":[");
  for (size_t i = 0; i < r.outputs.size(); ++i) {
    auto &o = r.outputs[i];
    fprintf(f, "%s[", i ? ",\n" : ""); jsonStr(f, o.name);
    fprintf(f, ",%d,%u,", o.sym ? 1 : 0, o.node); jsonNum(f, o.v); fputc(']', f);
  }
  fprintf(f, "],\n\"events\":[");
  for (size_t i = 0; i < r.events.size() && i < 200; ++i) {
    auto &e = r.events[i];
    fprintf(f, "%s[", i ? "," : ""); jsonStr(f, e.kind); fprintf(f, ",%u,", e.node); jsonStr(f, e.fn ? e.fn : ""); fputc(']', f);
  }
  fprintf(f, "],\n\"n_events\":%zu,\n\"notes\":[", r.events.size());
  for (size_t i = 0; i < r.notes.size(); ++i) {
    fprintf(f, "%s[", i ? "," : ""); jsonStr(f, r.notes[i].first); fputc(',', f); jsonStr(f, r.notes[i].second); fputc(']', f);
  }
  fprintf(f, "],\n\"opaque_names\":[");
  for (size_t i = 0; i < r.opaqueNames.size(); ++i) { fprintf(f, "%s", i ? "," : ""); jsonStr(f, r.opaqueNames[i]); }
  fprintf(f, "],\n\"functions\":[");
  { size_t i = 0; for (const char *p : r.fns) { fprintf(f, "%s", i++ ? "," : ""); jsonStr(f, p); } }
  fprintf(f, "],\n\"n_nodes_total\":%zu}\n", r.nodes.size());
  fclose(f);
}

} // namespace symfp
