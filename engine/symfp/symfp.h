// Harness-side API of the symfp runtime (see DESIGN.md §2).
#pragma once
#include <cstddef>
#include <string>
namespace symfp {
void init();
bool concrete();                                   // SYMFP_CONCRETE=1: plain doubles, native library
// declare a symbolic input. kind: "angle" (enters trig), "lin" (free, occurs linearly),
// "param" (pinned unless selected), "time", ...  Returns a handle (or the seed when concrete).
double in(const char* name, double seed, const char* kind = "param");
void out(const char* name, double v);
void out(const std::string& name, double v);
void note(const char* key, const std::string& val);
void assume_cmp(const char* rel, double a, double b);   // assumption literal, e.g. assume_cmp(">", m, 0)
double value(double v);                            // concrete shadow value
bool is_symbolic(double v);
size_t num_decisions();
void finish();                                     // write trace to $SYMFP_OUT
}
