#!/bin/bash
# Builds plugin + runtime and (incrementally) the instrumented Simbody libraries
# from /repo's current working tree into /verif/.build/symfp. Serialised by flock.
set -e
V="$(cd "$(dirname "$(readlink -f "$0")")/../.." && pwd)"
B="$V/.build"
REPO="${VERIF_REPO:-/repo}"
# an alternative source tree (mutation testing) gets its own object directory
SUB=symfp
if [ "$REPO" != "/repo" ]; then SUB="alt-$(echo "$REPO" | md5sum | cut -c1-10)"; fi
mkdir -p "$B"
exec 9>"$B/.lock"
flock 9
S="$V/engine/symfp"
if [ ! -f "$B/libsymfp.so" ] || [ "$S/plugin.cpp" -nt "$B/libsymfp.so" ]; then
  clang++-14 -shared -fPIC -O1 $(llvm-config-14 --cxxflags) "$S/plugin.cpp" -o "$B/libsymfp.so.tmp"
  mv "$B/libsymfp.so.tmp" "$B/libsymfp.so"
  rm -rf "$B"/symfp "$B"/alt-*     # plugin changed: all objects are stale
fi
if [ ! -f "$B/libsymfp_rt.so" ] || [ "$S/rt.cpp" -nt "$B/libsymfp_rt.so" ] || [ "$S/symfp.h" -nt "$B/libsymfp_rt.so" ]; then
  clang++-14 -shared -fPIC -O2 -std=c++17 -I"$S" "$S/rt.cpp" -o "$B/libsymfp_rt.so.tmp" -lpthread
  mv "$B/libsymfp_rt.so.tmp" "$B/libsymfp_rt.so"
fi
if [ ! -f "$B/libsymfp_lapack.so" ] || [ "$S/lapack_model.cpp" -nt "$B/libsymfp_lapack.so" ] || [ "$B/libsymfp.so" -nt "$B/libsymfp_lapack.so" ]; then
  SYMFP_BUILD="$B" "$S/symfp-clang++" -shared -fPIC -O2 -std=c++17 "$S/lapack_model.cpp" -o "$B/libsymfp_lapack.so.tmp" -L"$B" -lsymfp_rt -Wl,-rpath,"$B"
  mv "$B/libsymfp_lapack.so.tmp" "$B/libsymfp_lapack.so"
fi
if [ ! -f "$B/$SUB/build.ninja" ]; then
  mkdir -p "$B/$SUB"
  SYMFP_BUILD="$B" cmake -G Ninja -S "$REPO" -B "$B/$SUB" \
    -DCMAKE_C_COMPILER="$S/symfp-clang" -DCMAKE_CXX_COMPILER="$S/symfp-clang++" \
    -DCMAKE_BUILD_TYPE=Release -DBUILD_TESTING=OFF -DBUILD_EXAMPLES=OFF -DBUILD_VISUALIZER=OFF \
    -DBUILD_DYNAMIC_LIBRARIES=ON -DBUILD_STATIC_LIBRARIES=OFF -DSIMBODY_BUILD_SHARED_LIBS=ON \
    -DCMAKE_CXX_FLAGS="-Wno-error -w" -DCMAKE_C_FLAGS="-w" \
    -DCMAKE_SHARED_LINKER_FLAGS="-L$B -lsymfp_rt -Wl,-rpath,$B" \
    -DCMAKE_EXE_LINKER_FLAGS="-L$B -lsymfp_rt -Wl,-rpath,$B" \
    -DCMAKE_INSTALL_PREFIX="$B/symfp-install" > "$B/$SUB-cmake.log" 2>&1 || { cat "$B/$SUB-cmake.log"; exit 2; }
fi
SYMFP_BUILD="$B" ninja -C "$B/$SUB" -j"${VERIF_JOBS:-16}" SimTKcommon SimTKmath SimTKsimbody > "$B/$SUB-ninja.log" 2>&1 || { tail -50 "$B/$SUB-ninja.log"; exit 2; }
