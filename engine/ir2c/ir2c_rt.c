#include "ir2c_rt.h"
int rt_thrown, rt_nothrow;
long rt_news, rt_deletes;
#ifndef __CPROVER__
jmp_buf rt_jmp; int rt_jmp_armed;
#endif
