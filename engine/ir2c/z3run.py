#!/usr/bin/env python3
"""z3 worker process: z3run.py <file.smt2> <timeout_s> -> one JSON line {result, model{name: int (IEEE bits for FP)}, time_s}"""
import json, sys, time
import z3
s = z3.Solver()
s.from_file(sys.argv[1])
s.set("timeout", int(float(sys.argv[2]) * 1000))
t = time.time()
r = s.check()
out = dict(result=str(r), time_s=round(time.time() - t, 3), model={})
if r == z3.sat:
    m = s.model()
    for d in m.decls():
        if d.arity() != 0: continue
        c = d()
        try:
            if z3.is_fp(c): out["model"][d.name()] = m.eval(z3.fpToIEEEBV(c), True).as_long()
            elif z3.is_bv(c): out["model"][d.name()] = m.eval(c, True).as_long()
            else: out["model"][d.name()] = str(m[d])
        except Exception as e:
            out["model"][d.name()] = "?" + str(e)
elif r == z3.unknown:
    out["reason"] = s.reason_unknown()
print(json.dumps(out))
