#!/usr/bin/env python3
"""Engine K driver: build IR from the CURRENT source tree, translate, run cbmc jobs in parallel with
resource caps, witness twins, native replay / translator validation, evidence + known-findings handling.
Used by spec/C26.py, spec/C31.py, spec/C33.py (each owns its check through main(tier, seed))."""
import concurrent.futures as cf
import hashlib, json, os, re, resource, shutil, signal, subprocess, sys, time

VERIF = os.path.abspath(os.path.join(os.path.dirname(__file__), "..", ".."))
REPO = os.path.abspath(os.environ.get("VERIF_REPO", "/repo"))
HK = os.path.join(VERIF, "harness", "kernel")
RT = os.path.join(VERIF, "engine", "ir2c")
sys.path.insert(0, VERIF)
from engine.ir2c import ir2c  # noqa: E402

INCLUDES = [
    "SimTKcommon/include", "SimTKcommon/BigMatrix/include", "SimTKcommon/Geometry/include",
    "SimTKcommon/Mechanics/include", "SimTKcommon/Polynomial/include", "SimTKcommon/Random/include",
    "SimTKcommon/Scalar/include", "SimTKcommon/Simulation/include", "SimTKcommon/SmallMatrix/include",
    "SimTKmath/include", "SimTKmath/Geometry/include", "SimTKmath/Integrators/include",
    "SimTKmath/LinearAlgebra/include", "SimTKmath/Optimizers/include", "Simbody/include",
    "SimTKcommon/src", "SimTKcommon/Random/src", "SimTKcommon/Polynomial/src",
]
CLANG_FLAGS = ["-std=c++17", "-O1", "-DNDEBUG", "-fno-vectorize", "-fno-slp-vectorize", "-fno-unroll-loops", "-S", "-emit-llvm"]
GXX_REAL_FLAGS = ["-std=c++17", "-O2", "-DNDEBUG", "-w"]          # the repository's own RelWithDebInfo flags (minus -g)
CBMC_CHECKS = ["--unwinding-assertions", "--pointer-overflow-check", "--undefined-shift-check", "--signed-overflow-check", "--drop-unused-functions"]
BACKENDS = {"minisat": [], "cadical": ["--sat-solver", "cadical"], "kissat": ["--external-sat-solver", "kissat"], "z3": ["--z3"], "cvc5": ["--cvc5"]}
MEM_CAP_KB = 8 * 1024 * 1024
NPROC = max(2, min(int(os.environ.get("VERIF_JOBS", "6")), (os.cpu_count() or 4)))     # concurrent solver jobs


def evidence_dir():
    """evidence/ for /repo; evidence/alt-<hash>/ (git-ignored) when VERIF_REPO points at another tree (mutation testing)"""
    d = os.path.join(VERIF, "evidence") if REPO == "/repo" else os.path.join(VERIF, "evidence", "alt-" + hashlib.sha1(REPO.encode()).hexdigest()[:8])
    os.makedirs(os.path.join(d, "replay"), exist_ok=True)
    return d


def log(*a):
    print(*a, flush=True)


class Infra(Exception):
    """infrastructure failure -> exit 2"""


def tool_version(cmd):
    try:
        return subprocess.run(cmd, capture_output=True, text=True, timeout=20).stdout.strip().split("\n")[0]
    except Exception as e:
        return "? (%s)" % e


class Ctx:
    def __init__(self, pid, tier, seed):
        self.pid, self.tier, self.seed = pid, tier, seed
        tag = "" if REPO == "/repo" else "-" + hashlib.sha1(REPO.encode()).hexdigest()[:8]
        self.dir = os.path.join(VERIF, ".build", "kernel", pid + tag)
        os.makedirs(self.dir, exist_ok=True)
        self.evd = evidence_dir()
        self.t0 = time.time()
        self.obligations = 0; self.discharged = 0; self.queries = 0; self.nontrivial = set()
        self.solver_time = 0.0
        self.violations = []; self.known = []; self.inconclusive = []; self.errors = []
        self.samples = []; self.functions = set(); self.stubs = set(); self.cuts = set()
        self.native_failures = []
        self.validation = []; self.witness = []; self.jobs_log = []; self.max_rss_kb = 0
        self.extra = {}
        try:
            kf = os.environ.get("VERIF_KNOWN_FINDINGS", os.path.join(VERIF, "known_findings.json"))     # override: self-tests only
            self.findings = [f for f in json.load(open(kf)).get("findings", []) if f.get("property") == pid]
        except Exception:
            self.findings = []

    def p(self, name):
        return os.path.join(self.dir, name)

    def src(self, rel):
        path = os.path.join(REPO, rel)
        if not os.path.exists(path): raise Infra("source file missing: " + path)
        return path

    # ------------------------------------------------------------------ build steps
    def incs(self):
        return ["-I" + os.path.join(REPO, i) for i in INCLUDES]

    def clang_ir(self, wrapper, out, defines=(), exceptions=False, extra=()):
        cmd = ["clang++-14"] + CLANG_FLAGS + ([] if exceptions else ["-fno-exceptions"]) + list(extra) + self.incs()
        cmd += ["-D" + d for d in defines] + [os.path.join(HK, wrapper), "-o", self.p(out)]
        r = subprocess.run(cmd, capture_output=True, text=True)
        if r.returncode != 0:
            raise Infra("clang failed on %s:\n%s" % (wrapper, r.stderr[-3000:]))
        return self.p(out)

    def translate(self, ll, out_c, entries=None, cuts=(), stubs=None, externs=()):
        txt = open(self.p(ll)).read()
        if entries is None:
            entries = sorted(set(re.findall(r"^define [^@]*@(k_[A-Za-z0-9_]+)\(", txt, re.M)))
        try:
            c, info, mod = ir2c.emit_c(txt, entries, cuts=cuts, stubs=stubs, externs=externs)
        except ir2c.Unsupported as e:
            raise Infra("ir2c: %s" % e)
        open(self.p(out_c), "w").write(c)
        self.functions.update(info["functions"]); self.stubs.update(info["stubs"]); self.cuts.update(info["cuts"])
        return info, mod

    def cc(self, cmd, what):
        r = subprocess.run(cmd, capture_output=True, text=True)
        if r.returncode != 0:
            raise Infra("%s failed: %s\n%s" % (what, " ".join(cmd), r.stderr[-3000:]))

    def build_native_pair(self, harness_c, gen_c, wrappers, tag, wrapper_defines=(), wrapper_extra=(), link=(), harness_defines=()):
        """-> (binary running the harness on gcc(gen.c), binary running it on the g++ build of the REAL code)"""
        hobj = self.p(tag + "_h.o")
        self.cc(["gcc", "-O1", "-DREPLAY", "-fno-strict-aliasing", "-I" + HK, "-I" + RT] + ["-D" + d for d in harness_defines] + ["-c", os.path.join(HK, harness_c), "-o", hobj], "gcc harness")
        gen_bin, real_bin = self.p(tag + "_gen"), self.p(tag + "_real")
        self.cc(["gcc", "-O1", "-fno-strict-aliasing", "-fwrapv", "-I" + RT, hobj, self.p(gen_c), os.path.join(RT, "ir2c_rt.c"), "-lm", "-o", gen_bin], "gcc gen.c")
        objs = []
        for n, w in enumerate(wrappers):
            o = self.p("%s_w%d.o" % (tag, n))
            self.cc(["g++"] + GXX_REAL_FLAGS + list(wrapper_extra) + self.incs() + ["-D" + d for d in wrapper_defines] + ["-c", os.path.join(HK, w), "-o", o], "g++ real code")
            objs.append(o)
        self.cc(["g++", hobj] + objs + list(link) + ["-lm", "-o", real_bin], "link real")
        return gen_bin, real_bin

    def validate_translation(self, gen_bin, real_bin, harnesses, salts=(1, 2, 3), base_vec=None):
        """run every harness natively on both builds with pseudo-random input vectors; outputs must agree and all CHECKs hold"""
        ok = True
        for h in harnesses:
            for s in salts:
                vec = self.p("val_%s_%d.vec" % (h, s))
                with open(vec, "w") as f:
                    f.write("salt 0 %d\n" % s)
                    for ln in (base_vec or {}).get(h, []): f.write(ln + "\n")
                a = subprocess.run([gen_bin, h, vec], capture_output=True, text=True, timeout=120)
                b = subprocess.run([real_bin, h, vec], capture_output=True, text=True, timeout=120)
                same = a.stdout == b.stdout and a.returncode == b.returncode
                good = same and a.returncode in (0, 3)      # 3 = vector rejected by an ASSUME in both
                self.validation.append(dict(harness=h, salt=s, agree=same, rc=a.returncode, outputs=len(a.stdout.splitlines())))
                if same and a.returncode == 1 and "CHECK-FAIL" in b.stdout:
                    # both builds agree and the REAL code fails a harness CHECK on this concrete vector: a counterexample, not a translator problem
                    ok = False
                    fails = sorted(set(l for l in b.stdout.splitlines() if l.startswith("CHECK-FAIL")))
                    self.native_failures.append(dict(harness=h, vector=vec, replay_cmd="%s %s %s" % (real_bin, h, vec), checks=fails[:5]))
                elif not good:
                    ok = False
                    self.errors.append("translator validation: %s salt %d: gen rc=%d real rc=%d\n gen: %s\n real: %s" % (h, s, a.returncode, b.returncode, a.stdout[-400:], b.stdout[-400:]))
        return ok

    # ------------------------------------------------------------------ cbmc
    def cbmc_cmd(self, job, witness=False, trace=False, backend=None):
        cmd = ["cbmc"] + [f if os.path.isabs(f) else self.p(f) for f in job["files"]] + [os.path.join(RT, "ir2c_rt.c")]
        cmd += ["-I" + RT, "-I" + HK, "--function", job["function"], "--unwind", str(job["unwind"])]
        for d in job.get("defines", ()): cmd += ["-D" + d]
        cmd += ["--max-field-sensitivity-array-size", str(job.get("fs_array", 64))] if job.get("fs_array") else []
        cmd += list(job.get("extra", ()))
        if witness: cmd += ["-DWITNESS", "--drop-unused-functions"]
        else: cmd += CBMC_CHECKS
        if not witness and not trace and job.get("witness_inline", True): cmd += ["-DWITNESS_INLINE"]
        if trace: cmd += ["--trace", "--stop-on-fail"]
        cmd += BACKENDS[backend or job.get("backend", "minisat")]
        return cmd

    def _run(self, cmd, timeout):
        def pre():
            os.setsid()
            resource.setrlimit(resource.RLIMIT_AS, (MEM_CAP_KB * 1024, MEM_CAP_KB * 1024))
        t = time.time()
        p = subprocess.Popen(["/usr/bin/time", "-f", "RSSKB %M"] + cmd, stdout=subprocess.PIPE, stderr=subprocess.PIPE, text=True, preexec_fn=pre)
        try:
            out, err = p.communicate(timeout=timeout)
            to = False
        except subprocess.TimeoutExpired:
            try: os.killpg(p.pid, signal.SIGKILL)
            except Exception: pass
            out, err = p.communicate(); to = True
        dt = time.time() - t
        m = re.search(r"RSSKB (\d+)", err or "")
        rss = int(m.group(1)) if m else 0
        self.max_rss_kb = max(self.max_rss_kb, rss)
        return out, err, to, dt, rss

    def parse_cbmc(self, out, err, to):
        if to: return "timeout", [], 0
        if "VERIFICATION SUCCESSFUL" in out:
            m = re.search(r"\*\* 0 of (\d+) failed", out)
            return "success", [], int(m.group(1)) if m else 0
        if "VERIFICATION FAILED" in out:
            fails = re.findall(r"^\[([^\]]+)\] (.*): FAILURE$", out, re.M)
            m = re.search(r"\*\* (\d+) of (\d+) failed", out)
            return "failed", fails, int(m.group(2)) if m else 0
        if re.search(r"std::bad_alloc|out of memory|Cannot allocate|MemoryError", out + err, re.I): return "oom", [], 0
        return "error", [("error", (out[-800:] + err[-800:]))], 0

    def run_job(self, job):
        """-> dict(status=success|violation|inconclusive|error, ...)"""
        cap = job.get("timeout", 600)
        res = dict(job=job["name"], function=job["function"], unwind=job["unwind"])
        tried = []
        order = [job.get("backend", "minisat")] + [b for b in job.get("sweep", ()) if b != job.get("backend", "minisat")]
        status = None
        for be in order:
            out, err, to, dt, rss = self._run(self.cbmc_cmd(job, backend=be), cap)
            st, fails, nprops = self.parse_cbmc(out, err, to)
            wit_inline = None
            if job.get("witness_inline", True) and st == "failed":
                wit_inline = any("WITNESS" in f[1] for f in fails)
                fails = [f for f in fails if "WITNESS" not in f[1]]
                if not fails: st = "success" if wit_inline else "failed"
            elif job.get("witness_inline", True) and st == "success":
                wit_inline = False       # the witness assertion did not fail: the end of the harness is unreachable
            tried.append(dict(backend=be, status=st, time_s=round(dt, 2), rss_mb=rss // 1024))
            self.queries += 1; self.solver_time += dt
            if st in ("success", "failed"):
                status = st; res.update(backend=be, time_s=round(dt, 2), rss_mb=rss // 1024, properties=nprops, fails=fails); break
        res["tried"] = tried
        if status is None:
            res["status"] = "inconclusive"; res["why"] = "; ".join("%s:%s" % (t["backend"], t["status"]) for t in tried)
            if any(t["status"] == "error" for t in tried): res["detail"] = (out[-600:] + err[-600:])
            return res
        if status == "failed":
            unw = [f for f in fails if "unwind" in f[0] or "unwinding assertion" in f[1] or "ALLOC-BOUND" in f[1]]
            nobody = [f for f in fails if "no-body" in f[0]]
            if nobody:
                res["status"] = "error"; res["why"] = "callee without body: %s" % nobody[:3]; return res
            if unw and len(unw) == len(fails):
                res["status"] = "inconclusive"; res["why"] = "unwinding assertion failed (bound %s too small): %s" % (job["unwind"], unw[:2]); return res
            # counterexample: rerun with --trace --stop-on-fail for the input vector
            out2, err2, to2, dt2, _r = self._run(self.cbmc_cmd(job, trace=True, backend=res["backend"]), cap)
            self.queries += 1; self.solver_time += dt2
            res["status"] = "violation"
            res["inputs"] = parse_trace_inputs(out2)
            m = re.search(r"Violated property:\n(.*\n.*\n.*)", out2)
            res["violated"] = m.group(1).strip() if m else str(fails[:3])
            return res
        res["status"] = "success"
        if job.get("witness_inline", True):
            res["witness"] = "reachable" if wit_inline else "NOT-REACHED"
            if not wit_inline:
                res["status"] = "error"; res["why"] = "witness assertion did not fail: harness is vacuous"
            return res
        # witness twin (non-vacuity): the final assert(0) must be reachable
        outw, errw, tow, dtw, _r = self._run(self.cbmc_cmd(job, witness=True, backend=job.get("witness_backend", res["backend"])), cap)
        self.queries += 1; self.solver_time += dtw
        stw, failsw, _n = self.parse_cbmc(outw, errw, tow)
        wit_ok = stw == "failed" and any("WITNESS" in f[1] for f in failsw)
        res["witness"] = "reachable" if wit_ok else "NOT-REACHED(%s)" % stw
        res["witness_time_s"] = round(dtw, 2)
        if not wit_ok:
            res["status"] = "inconclusive" if stw in ("timeout", "oom") else "error"
            res["why"] = "witness twin did not fail (%s): harness may be vacuous" % stw
        return res

    def run_jobs(self, jobs, workers=None):
        workers = workers or NPROC
        results = []
        with cf.ThreadPoolExecutor(max_workers=workers) as ex:
            futs = {ex.submit(self.run_job, j): j for j in jobs}
            for f in cf.as_completed(futs):
                j = futs[f]
                try: r = f.result()
                except Exception as e:
                    r = dict(job=j["name"], status="error", why=repr(e))
                log("  [cbmc] %-28s %-12s %s" % (r["job"], r["status"], {k: r.get(k) for k in ("backend", "time_s", "rss_mb", "properties", "witness", "why") if r.get(k) is not None}))
                results.append((j, r))
        return results

    # ------------------------------------------------------------------ bookkeeping
    def match_known(self, cex):
        """cex: dict with 'obligation' and 'inputs'; a finding matches if every key of its match dict is satisfied"""
        for f in self.findings:
            if f.get("kind") != "known": continue
            m = f.get("match", {})
            ok = True
            for k, v in m.items():
                if k == "obligation": ok = ok and v == cex.get("obligation")
                elif k == "harness": ok = ok and v == cex.get("harness")
                elif k == "predicate": ok = ok and v in cex.get("predicates", [])
                else: ok = ok and cex.get(k) == v
            if ok: return f
        return None

    def record_violation(self, cex):
        f = self.match_known(cex)
        if f is not None:
            self.known.append(dict(cex, known=f.get("text", "")))
        else:
            self.violations.append(cex)

    def finish(self, spec, solver_desc, assumptions, bounds):
        wall = time.time() - self.t0
        rc = 0
        for k in self.known:
            print("KNOWN-FINDING: property=%s %s" % (self.pid, k.get("known")))
        for n, v in enumerate(self.violations):
            path = os.path.join(self.evd, "replay", "%s-%d.json" % (self.pid, n))
            with open(path, "w") as f: json.dump(v, f, indent=1, default=str)
            print("VIOLATION property=%s replay=%s" % (self.pid, path))
            print("  obligation=%s" % v.get("obligation"))
            if v.get("summary"): print("  " + v["summary"])
            rc = 1
        if rc == 0 and (self.errors or self.obligations == 0): rc = 2
        if rc == 0 and self.inconclusive: rc = 2
        ev = dict(
            property_id=self.pid, tier=self.tier, seed=self.seed, level="other",
            coverage=dict(
                explanation=spec.EXPLANATION, technique=spec.TECHNIQUE,
                functions_encoded=sorted(self.functions), n_functions_encoded=len(self.functions),
                bounds=bounds, not_covered=spec.NOT_COVERED,
                obligations=self.obligations, discharged=self.discharged, inconclusive=len(self.inconclusive), inconclusive_list=self.inconclusive[:20],
                evaluations=self.queries, distinct_nontrivial=len(self.nontrivial),
                rule="one evaluation = one solver run (cbmc harness run incl. its witness twin and trace rerun, or one z3 query); distinct non-trivial = distinct (harness or kernel, obligation text) pairs whose formula has at least one free (nondet) input and was actually decided by a solver",
                samples=self.samples[:12] or ["(none)"],
                solver=solver_desc, solver_time_s=round(self.solver_time, 2), max_rss_mb=self.max_rss_kb // 1024,
                stubs=sorted(self.stubs), cut_points=sorted(self.cuts),
                translator_validation=dict(runs=len(self.validation), all_agree=all(v["agree"] for v in self.validation) if self.validation else None, detail=self.validation[:12]),
                witness_twins=self.witness, jobs=self.jobs_log, known_findings=[k.get("known") for k in self.known],
                errors=self.errors[:20], source_root=REPO, extra=self.extra,
            ),
            assumptions=list(assumptions), wall_s=round(wall, 2), violations=len(self.violations),
        )
        with open(os.path.join(self.evd, self.pid + ".json"), "w") as f: json.dump(ev, f, indent=1, default=str)
        print("%s tier=%s: obligations=%d discharged=%d inconclusive=%d violations=%d known=%d errors=%d queries=%d wall=%.1fs solver=%.1fs maxrss=%dMB" % (
            self.pid, self.tier, self.obligations, self.discharged, len(self.inconclusive), len(self.violations), len(self.known), len(self.errors), self.queries, wall, self.solver_time, self.max_rss_kb // 1024))
        for e in self.errors[:10]: print("ERROR:", e)
        for e in self.inconclusive[:10]: print("INCONCLUSIVE:", e)
        return rc

    def account_native_failures(self):
        """concrete vectors on which the real code failed a harness CHECK during the native differential runs"""
        seen = set()
        for nf in self.native_failures:
            if nf["harness"] in seen: continue
            seen.add(nf["harness"])
            self.obligations += 1
            self.record_violation(dict(obligation="native run of %s on a fixed input vector: all harness CHECKs hold" % nf["harness"], harness=nf["harness"],
                                       replay_cmd=nf["replay_cmd"], replay_on_real_code="\n".join(nf["checks"]), confirmed_on_real_code=True,
                                       summary="the g++ build of the real code fails %s on vector %s: %s" % (nf["harness"], nf["vector"], "; ".join(nf["checks"])[:300])))

    def account_jobs(self, results, describe):
        """fold cbmc job results into the counters; describe(job) -> obligation text. Returns list of (job, result) violations"""
        viol = []
        for j, r in results:
            self.obligations += 1
            self.jobs_log.append({k: r.get(k) for k in ("job", "status", "backend", "time_s", "rss_mb", "properties", "unwind", "witness", "witness_time_s", "tried", "why") if r.get(k) is not None})
            self.nontrivial.add((j["name"], describe(j)))
            if r["status"] == "success":
                self.discharged += 1
                self.witness.append("%s: %s" % (j["name"], r.get("witness")))
            elif r["status"] == "violation": viol.append((j, r))
            elif r["status"] == "inconclusive": self.inconclusive.append("%s: %s" % (j["name"], r.get("why")))
            else: self.errors.append("%s: %s %s" % (j["name"], r.get("why"), r.get("detail", "")))
        return viol


def parse_trace_inputs(out):
    """harness inputs live in global arrays named in_*; take the LAST assignment of each element from the trace"""
    vals = {}
    for m in re.finditer(r"^\s+(in_\w+)\[(\d+)l?l?\]=(-?\d+)[ul]*\b", out, re.M):
        v = int(m.group(3))
        vals[(m.group(1), int(m.group(2)))] = v
    return [dict(name=k[0], index=k[1], value=v) for k, v in sorted(vals.items())]


def write_vec(path, inputs):
    with open(path, "w") as f:
        for i in inputs:
            f.write("%s %d %d\n" % (i["name"], i["index"], i["value"] & 0xFFFFFFFFFFFFFFFF))


def main_wrapper(fn):
    """run a spec main, mapping Infra to exit 2"""
    try:
        return fn()
    except Infra as e:
        print("INFRASTRUCTURE FAILURE:", e)
        return 2
