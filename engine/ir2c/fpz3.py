#!/usr/bin/env python3
"""fpz3: symbolic execution of LLVM IR functions (engine/ir2c/ir2c.py Module) into z3 terms.

Used by Engine K for kernels cbmc is the wrong tool for:
  * straight-line floating-point kernels (double = FloatingPoint(11,53), x86_fp80 = FloatingPoint(15,64), RNE),
  * integer recurrences whose equivalence with a reference is syntactic at the term level (multiplier chains).

Values: Python int (concrete integers), z3 BitVecRef, z3 FPRef, or Ptr(obj, off) with off a Python int or a
z3 BitVec(64).  Memory: per object a dict byte-offset -> byte (int or 8-bit term).  Control flow: concrete
branch conditions are followed, symbolic ones fork the state (path condition recorded).  Loads at a symbolic
offset return a fresh variable and record an in-bounds obligation (the object's contents are then arbitrary,
which over-approximates).  Calls to defined functions are executed; external calls need a handler.
Anything unsupported raises Unsupported (-> infrastructure failure, never a silent skip)."""
import z3
from fractions import Fraction
from .ir2c import Module, Unsupported, T

RNE = z3.RNE()
F64, F32, F80 = z3.Float64(), z3.Float32(), z3.FPSort(15, 64)


class Ptr:
    __slots__ = ("obj", "off")

    def __init__(self, obj, off):
        self.obj, self.off = obj, off

    def __repr__(self):
        return "&%s+%s" % (self.obj, self.off)


class FnPtr:
    def __init__(self, name): self.name = name


NULL = Ptr(None, 0)


class State:
    def __init__(self):
        self.mem = {}       # obj -> {off: byte}
        self.size = {}      # obj -> size in bytes (None = unknown/unbounded)
        self.pc = []        # path condition (z3 Bool list)
        self.frames = []
        self.ret = None
        self.log = []       # free-form events (calls to handlers etc.)
        self.oblig = []     # (kind, pc copy, data)
        self.nobj = 0

    def clone(self):
        s = State()
        s.mem = {k: dict(v) for k, v in self.mem.items()}
        s.size = dict(self.size); s.pc = list(self.pc)
        s.frames = [f.clone() for f in self.frames]
        s.log = list(self.log); s.oblig = list(self.oblig); s.nobj = self.nobj
        return s

    def new_obj(self, name, size):
        self.nobj += 1
        n = "%s#%d" % (name, self.nobj)
        self.mem[n] = {}; self.size[n] = size
        return n


class Frame:
    def __init__(self, fn, regs):
        self.fn, self.regs, self.block, self.prev, self.i, self.res = fn, regs, None, None, 0, None

    def clone(self):
        f = Frame(self.fn, dict(self.regs)); f.block, f.prev, f.i, f.res = self.block, self.prev, self.i, self.res
        return f


def sort_of(t):
    return {"double": F64, "float": F32, "x86_fp80": F80}[t.k]


def bv(v, w):
    return z3.BitVecVal(v & ((1 << w) - 1), w) if isinstance(v, int) else v


def conc(v):
    return isinstance(v, int)


def simp(e):
    e = z3.simplify(e)
    if z3.is_bv_value(e): return e.as_long()
    return e


class Exec:
    def __init__(self, mod, handlers=None, max_paths=64, max_steps=2000000, fmuladd_fused=False):
        self.m, self.handlers = mod, handlers or {}
        self.max_paths, self.max_steps = max_paths, max_steps
        self.fresh = 0
        self.fused = fmuladd_fused
        self.called = set()
        self.bmaps = {}
        self.gobj = {}

    # ------------------------------------------------------------------ helpers
    def freshv(self, name, w):
        self.fresh += 1
        return z3.BitVec("%s!%d" % (name, self.fresh), w)

    def width(self, t):
        if t.k == "int": return t.a
        if t.k == "ptr": return 64
        return {"float": 32, "double": 64, "x86_fp80": 80}[t.k]

    def store_bytes(self, st, p, val, nbytes):
        if p.obj is None: raise Unsupported("store through null/unknown pointer")
        if not conc(p.off): raise Unsupported("store at symbolic offset into " + p.obj)
        sz = st.size.get(p.obj)
        if sz is not None and not (0 <= p.off and p.off + nbytes <= sz):
            st.oblig.append(("oob-store", list(st.pc), "%s+%d size %d" % (p.obj, p.off, nbytes)))
        m = st.mem[p.obj]
        if isinstance(val, (Ptr, FnPtr)):
            if nbytes != 8: raise Unsupported("partial pointer store")
            for k in range(8): m[p.off + k] = ("ptr", val, k)
            return
        for k in range(nbytes):
            if conc(val): m[p.off + k] = (val >> (8 * k)) & 0xff
            else: m[p.off + k] = ("ex", val, k)     # lazily extracted byte k of term val

    def load_bytes(self, st, p, nbytes, name="ld"):
        if p.obj is None: raise Unsupported("load through null/unknown pointer")
        if not conc(p.off):
            v = self.freshv(name + "_" + p.obj.split("#")[0], 8 * nbytes)
            st.oblig.append(("inbounds", list(st.pc), (p.obj, p.off, nbytes, st.size.get(p.obj))))
            st.log.append(("symload", p.obj, p.off, nbytes, v))
            return v
        sz = st.size.get(p.obj)
        if sz is not None and not (0 <= p.off and p.off + nbytes <= sz):
            st.oblig.append(("oob-load", list(st.pc), "%s+%d size %d" % (p.obj, p.off, nbytes)))
        m = st.mem[p.obj]
        bs = []
        for k in range(nbytes):
            b = m.get(p.off + k)
            if b is None:
                # uninitialised / input memory: materialise a named input variable per aligned access
                v = self.freshv("in_%s_%d" % (p.obj.split("#")[0], p.off), 8 * nbytes)
                self.store_bytes(st, p, v, nbytes)
                st.log.append(("input", p.obj, p.off, nbytes, v))
                return v
            bs.append(b)
        # pointer?
        if isinstance(bs[0], tuple) and bs[0][0] == "ptr":
            if nbytes == 8 and all(isinstance(b, tuple) and b[0] == "ptr" and b[1] is bs[0][1] and b[2] == k for k, b in enumerate(bs)):
                return bs[0][1]
            raise Unsupported("partial pointer load")
        # whole-term fast path
        b0 = bs[0]
        if isinstance(b0, tuple) and b0[0] == "ex" and b0[2] == 0 and b0[1].size() == 8 * nbytes and \
                all(isinstance(b, tuple) and b[0] == "ex" and b[1] is b0[1] and b[2] == k for k, b in enumerate(bs)):
            return b0[1]
        if all(conc(b) for b in bs):
            return sum(b << (8 * k) for k, b in enumerate(bs))
        parts = []
        for b in reversed(bs):
            if conc(b): parts.append(z3.BitVecVal(b, 8))
            elif b[0] == "ex": parts.append(z3.Extract(8 * b[2] + 7, 8 * b[2], b[1]))
            else: raise Unsupported("mixed pointer/data load")
        return simp(z3.Concat(*parts) if len(parts) > 1 else parts[0])

    def to_fp(self, bits, t):
        if t.k == "x86_fp80": raise Unsupported("x86_fp80 in memory")
        if not conc(bits) and z3.is_app(bits) and bits.decl().kind() == z3.Z3_OP_FPA_TO_IEEE_BV:
            return bits.arg(0)          # value stored as an FP term and loaded back unchanged (NaN payloads aside)
        return z3.fpBVToFP(bv(bits, self.width(t)), sort_of(t))

    def fp_bits(self, v, t):
        if t.k == "x86_fp80": raise Unsupported("x86_fp80 in memory")
        return z3.fpToIEEEBV(v)

    def fpconst(self, fr, t):
        s = sort_of(t)
        if fr == "nan": return z3.fpNaN(s)
        if fr == "inf": return z3.fpPlusInfinity(s)
        if fr == "-inf": return z3.fpMinusInfinity(s)
        if fr == "-0": return z3.fpMinusZero(s)
        if fr == 0: return z3.fpPlusZero(s)
        # exact: fr = num / 2^k
        num, den = fr.numerator, fr.denominator
        k = den.bit_length() - 1
        assert 1 << k == den
        neg = num < 0; num = abs(num)
        e = num.bit_length() - 1 - k          # value = 1.xxx * 2^e
        sb = s.sbits()
        # significand with sb-1 fraction bits
        shift = (sb - 1) - (num.bit_length() - 1)
        if shift < 0:
            if num & ((1 << -shift) - 1): raise Unsupported("inexact fp constant")
            sig = num >> -shift
        else: sig = num << shift
        frac = sig & ((1 << (sb - 1)) - 1)
        bias = (1 << (s.ebits() - 1)) - 1
        if not (1 <= e + bias < (1 << s.ebits()) - 1): raise Unsupported("subnormal/overflowing fp constant")
        return z3.fpFP(z3.BitVecVal(1 if neg else 0, 1), z3.BitVecVal(e + bias, s.ebits()), z3.BitVecVal(frac, sb - 1))

    # ------------------------------------------------------------------ values
    def val(self, st, fr, v, t):
        k = v[0]
        if k == "reg": return fr.regs[v[1]]
        if k == "int":
            if t.k == "ptr":
                if v[1] == 0: return NULL
                raise Unsupported("integer pointer constant")
            return v[1] & ((1 << t.a) - 1)
        if k == "fp": return self.fpconst(v[1], t)
        if k == "null": return NULL
        if k in ("undef", "zero"):
            if t.k == "ptr": return NULL
            if t.is_fp: return self.fpconst(0, t)
            return 0
        if k == "global": return self.gptr(st, v[1])
        if k == "cgep":
            _, bt, (pt, pv), idx = v
            base = self.val(st, fr, pv, pt)
            off = self._const_gep(bt, idx)
            return Ptr(base.obj, base.off + off)
        if k == "ccast":
            _, op, ft, fv, tt = v
            if op in ("bitcast", "addrspacecast") and ft.k == "ptr": return self.val(st, fr, fv, ft)
        raise Unsupported("value %r" % (v,))

    def _const_gep(self, bt, idx):
        off, t = 0, bt
        for n, (it, iv) in enumerate(idx):
            i = iv[1]
            if n == 0: off += i * self.m.size_align(t)[0]
            else:
                rt = self.m.resolve(t)
                if rt.k == "struct": off += self.m.field_off(rt, i); t = rt.a[i]
                else: off += i * self.m.size_align(rt.b)[0]; t = rt.b
        return off

    def gptr(self, st, name):
        while name in self.m.aliases:
            a = self.m.aliases[name]
            while a[0] == "ccast": a = a[3]
            name = a[1]
        if name in self.m.funcs: return FnPtr(name)
        if name not in self.m.globals: raise Unsupported("global @" + name)
        obj = "@" + name
        if obj not in st.mem:
            t, init, _c = self.m.globals[name]
            st.mem[obj] = {}; st.size[obj] = self.m.size_align(t)[0]
            if init is not None: self._ginit(st, obj, 0, t, init)
            else:
                for k in range(st.size[obj]): st.mem[obj][k] = 0
        return Ptr(obj, 0)

    def _ginit(self, st, obj, off, t, v):
        rt = self.m.resolve(t) if t.k == "named" else t
        size = self.m.size_align(rt)[0]
        if v[0] in ("zero", "undef"):
            for k in range(size): st.mem[obj][off + k] = 0
            return
        if v[0] == "bytes":
            for k, b in enumerate(v[1]): st.mem[obj][off + k] = b
            return
        if v[0] == "agg":
            for k in range(size): st.mem[obj].setdefault(off + k, 0)
            for i, (ft, fv) in enumerate(v[1]):
                o = self.m.field_off(rt, i) if rt.k == "struct" else i * self.m.size_align(rt.b)[0]
                self._ginit(st, obj, off + o, ft, fv)
            return
        x = self.val(st, None, v, rt)
        if rt.is_fp: x = self.fp_bits(x, rt)
        self.store_bytes(st, Ptr(obj, off), x, size)

    # ------------------------------------------------------------------ run
    def run(self, fname, args, st=None):
        """execute function fname(args) from state st; returns list of final states (st.ret = return value)"""
        st = st or State()
        f = self.m.funcs[fname]
        if not f.defined: raise Unsupported("not defined: " + fname)
        self._push(st, f, args)
        work, done, steps = [st], [], 0
        while work:
            s = work.pop()
            while s.frames:
                steps += 1
                if steps > self.max_steps: raise Unsupported("step budget exceeded in symbolic execution")
                nxt = self.step(s)
                if nxt is not None:       # fork
                    work.extend(nxt)
                    if len(work) + len(done) > self.max_paths: raise Unsupported("path budget exceeded")
                    s = None
                    break
            if s is not None: done.append(s)
        return done

    def _push(self, st, f, args):
        self.called.add(f.name)
        regs = {n: a for (t, n), a in zip(f.params, args)}
        fr = Frame(f, regs); fr.block = f.blocks[0][0]
        if f.name not in self.bmaps: self.bmaps[f.name] = {l: ins for l, ins in f.blocks}
        st.frames.append(fr)

    def goto(self, st, fr, target):
        bm = self.bmaps[fr.fn.name]
        new = {}
        for ins in bm[target]:
            if ins.op != "phi": break
            for (v, l) in ins.a:
                if l == fr.block:
                    new[ins.res] = self.val(st, fr, v, ins.ty); break
            else: raise Unsupported("phi incoming")
        fr.regs.update(new)
        fr.prev, fr.block, fr.i = fr.block, target, 0

    def step(self, st):
        fr = st.frames[-1]
        bm = self.bmaps[fr.fn.name]
        ins = bm[fr.block][fr.i]
        fr.i += 1
        op, t, a = ins.op, ins.ty, ins.a
        V = lambda v, ty=None: self.val(st, fr, v, ty or t)
        R = lambda x: fr.regs.__setitem__(ins.res, x)
        if op == "phi": return None
        if op in ("add", "sub", "mul", "and", "or", "xor", "shl", "lshr", "ashr", "udiv", "urem", "sdiv", "srem"):
            x, y = V(a[0]), V(a[1]); w = t.a
            if op == "sub" and isinstance(x, Ptr): raise Unsupported("pointer arithmetic via sub")
            if conc(x) and conc(y):
                sx = x - (1 << w) if x >> (w - 1) else x
                sy = y - (1 << w) if y >> (w - 1) else y
                r = {"add": lambda: x + y, "sub": lambda: x - y, "mul": lambda: x * y, "and": lambda: x & y, "or": lambda: x | y, "xor": lambda: x ^ y,
                     "shl": lambda: x << y if y < w else 0, "lshr": lambda: x >> y if y < w else 0, "ashr": lambda: sx >> min(y, w - 1),
                     "udiv": lambda: x // y, "urem": lambda: x % y,
                     "sdiv": lambda: abs(sx) // abs(sy) * (1 if (sx < 0) == (sy < 0) else -1), "srem": lambda: (abs(sx) % abs(sy)) * (-1 if sx < 0 else 1)}[op]()
                R(r & ((1 << w) - 1)); return None
            X, Y = bv(x, w), bv(y, w)
            r = {"add": lambda: X + Y, "sub": lambda: X - Y, "mul": lambda: X * Y, "and": lambda: X & Y, "or": lambda: X | Y, "xor": lambda: X ^ Y,
                 "shl": lambda: X << Y, "lshr": lambda: z3.LShR(X, Y), "ashr": lambda: X >> Y, "udiv": lambda: z3.UDiv(X, Y), "urem": lambda: z3.URem(X, Y),
                 "sdiv": lambda: X / Y, "srem": lambda: z3.SRem(X, Y)}[op]()
            R(simp(r)); return None
        if op in ("fadd", "fsub", "fmul", "fdiv"):
            x, y = V(a[0]), V(a[1])
            R({"fadd": z3.fpAdd, "fsub": z3.fpSub, "fmul": z3.fpMul, "fdiv": z3.fpDiv}[op](RNE, x, y)); return None
        if op == "fneg":
            R(z3.fpNeg(V(a[0]))); return None
        if op == "icmp":
            pred, x, y, t = a; xv, yv = V(x, t), V(y, t)
            if t.k == "ptr":
                if isinstance(xv, Ptr) and isinstance(yv, Ptr) and conc(xv.off) and conc(yv.off):
                    if pred == "eq": R(int(xv.obj == yv.obj and xv.off == yv.off)); return None
                    if pred == "ne": R(int(not (xv.obj == yv.obj and xv.off == yv.off))); return None
                    if xv.obj == yv.obj:
                        R(int({"ult": xv.off < yv.off, "ule": xv.off <= yv.off, "ugt": xv.off > yv.off, "uge": xv.off >= yv.off}[pred])); return None
                raise Unsupported("pointer comparison")
            w = t.a
            if conc(xv) and conc(yv):
                sx = xv - (1 << w) if xv >> (w - 1) else xv
                sy = yv - (1 << w) if yv >> (w - 1) else yv
                r = {"eq": xv == yv, "ne": xv != yv, "ugt": xv > yv, "uge": xv >= yv, "ult": xv < yv, "ule": xv <= yv,
                     "sgt": sx > sy, "sge": sx >= sy, "slt": sx < sy, "sle": sx <= sy}[pred]
                R(int(r)); return None
            X, Y = bv(xv, w), bv(yv, w)
            c = {"eq": lambda: X == Y, "ne": lambda: X != Y, "ugt": lambda: z3.UGT(X, Y), "uge": lambda: z3.UGE(X, Y), "ult": lambda: z3.ULT(X, Y), "ule": lambda: z3.ULE(X, Y),
                 "sgt": lambda: X > Y, "sge": lambda: X >= Y, "slt": lambda: X < Y, "sle": lambda: X <= Y}[pred]()
            R(self.b2i(c)); return None
        if op == "fcmp":
            pred, x, y, t = a; X, Y = V(x, t), V(y, t)
            un = z3.Or(z3.fpIsNaN(X), z3.fpIsNaN(Y))
            base = {"eq": z3.fpEQ, "gt": z3.fpGT, "ge": z3.fpGEQ, "lt": z3.fpLT, "le": z3.fpLEQ}
            if pred == "ord": c = z3.Not(un)
            elif pred == "uno": c = un
            elif pred == "one": c = z3.And(z3.Not(un), z3.Not(z3.fpEQ(X, Y)))
            elif pred == "une": c = z3.Or(un, z3.Not(z3.fpEQ(X, Y)))
            elif pred[0] == "o": c = base[pred[1:]](X, Y)
            elif pred[0] == "u": c = z3.Or(un, base[pred[1:]](X, Y))
            else: raise Unsupported("fcmp " + pred)
            R(self.b2i(c)); return None
        if op == "select":
            ct, c, x, y = a
            cv = self.val(st, fr, c, ct); xv, yv = V(x), V(y)
            if conc(cv): R(xv if cv else yv); return None
            cb = self.i2b(cv)
            if isinstance(xv, (Ptr, FnPtr)) or isinstance(yv, (Ptr, FnPtr)): raise Unsupported("select on pointers with symbolic condition")
            if t.is_fp: R(z3.If(cb, xv, yv))
            else: R(simp(z3.If(cb, bv(xv, t.a), bv(yv, t.a))))
            return None
        if op in ("trunc", "zext", "sext"):
            ft, v = a; x = self.val(st, fr, v, ft); w0, w1 = ft.a, t.a
            if conc(x):
                if op == "sext" and x >> (w0 - 1): x -= 1 << w0
                R(x & ((1 << w1) - 1)); return None
            R(simp({"trunc": lambda: z3.Extract(w1 - 1, 0, x), "zext": lambda: z3.ZeroExt(w1 - w0, x), "sext": lambda: z3.SignExt(w1 - w0, x)}[op]())); return None
        if op in ("uitofp", "sitofp"):
            ft, v = a; x = bv(self.val(st, fr, v, ft), ft.a)
            R(z3.fpUnsignedToFP(RNE, x, sort_of(t)) if op == "uitofp" else z3.fpSignedToFP(RNE, x, sort_of(t))); return None
        if op in ("fptrunc", "fpext"):
            ft, v = a; R(z3.fpFPToFP(RNE, self.val(st, fr, v, ft), sort_of(t))); return None
        if op in ("fptosi", "fptoui"):
            ft, v = a; x = self.val(st, fr, v, ft)
            # LLVM: poison if the truncated value does not fit; record that as an obligation
            st.oblig.append(("fpto-int-range", list(st.pc), (op, x, t.a)))
            R(simp((z3.fpToSBV if op == "fptosi" else z3.fpToUBV)(z3.RTZ(), x, z3.BitVecSort(t.a)))); return None
        if op == "bitcast":
            ft, v = a; x = self.val(st, fr, v, ft)
            if ft.k == "ptr": R(x)
            elif ft.is_fp and t.k == "int": R(self.fp_bits(x, ft))
            elif ft.k == "int" and t.is_fp: R(self.to_fp(x, t))
            else: raise Unsupported("bitcast " + ins.raw)
            return None
        if op in ("freeze",):
            R(V(a[0])); return None
        if op == "ptrtoint" or op == "inttoptr":
            raise Unsupported(op + " in symbolic execution: " + ins.raw)
        if op == "getelementptr":
            bt, pv, idx = a
            p = self.val(st, fr, pv, T("ptr", None))
            if not isinstance(p, Ptr): raise Unsupported("gep on non-pointer")
            off, cur = p.off, bt
            for n, (it, iv) in enumerate(idx):
                if n == 0: es = self.m.size_align(cur)[0]
                else:
                    rt = self.m.resolve(cur)
                    if rt.k == "struct":
                        off = self._addoff(off, self.m.field_off(rt, iv[1])); cur = rt.a[iv[1]]; continue
                    cur = rt.b; es = self.m.size_align(cur)[0]
                x = self.val(st, fr, iv, it)
                if conc(x):
                    if x >> (it.a - 1): x -= 1 << it.a
                    off = self._addoff(off, x * es)
                else:
                    x64 = x if it.a == 64 else z3.SignExt(64 - it.a, x)
                    off = simp(bv(off, 64) + x64 * es)
            R(Ptr(p.obj, off)); return None
        if op == "load":
            p = V(a[0], T("ptr", None))
            if not isinstance(p, Ptr): raise Unsupported("load via non-pointer")
            if t.k == "ptr":
                x = self.load_bytes(st, p, 8, "ptr")
                if not isinstance(x, (Ptr, FnPtr)):
                    if conc(x) and x == 0: x = NULL
                    else: raise Unsupported("load of a symbolic pointer from %r" % p)
                R(x); return None
            nb = self.m.size_align(t)[0]
            if t.k == "x86_fp80": raise Unsupported("x86_fp80 load")
            x = self.load_bytes(st, p, nb)
            if t.is_fp: x = self.to_fp(x, t)
            elif t.a < 8 * nb and not conc(x): x = simp(z3.Extract(t.a - 1, 0, x))
            elif conc(x): x &= (1 << t.a) - 1
            R(x); return None
        if op == "store":
            v, pv = a
            p = self.val(st, fr, pv, T("ptr", None)); x = V(v)
            nb = self.m.size_align(t)[0]
            if t.is_fp: x = self.fp_bits(x, t)
            elif t.k == "int" and not conc(x) and x.size() < 8 * nb: x = z3.ZeroExt(8 * nb - x.size(), x)
            self.store_bytes(st, p, x, nb); return None
        if op == "alloca":
            n = a[0]
            size = self.m.size_align(t)[0] * n[1]
            R(Ptr(st.new_obj("alloca_" + fr.fn.name[:20], size), 0)); return None
        if op == "br":
            if len(a) == 1: self.goto(st, fr, a[0]); return None
            c = self.val(st, fr, a[0], T("int", 1))
            if conc(c): self.goto(st, fr, a[1] if c else a[2]); return None
            cb = self.i2b(c)
            s2 = st.clone()
            st.pc.append(cb); self.goto(st, fr, a[1])
            s2.pc.append(z3.Not(cb)); self.goto(s2, s2.frames[-1], a[2])
            return [s for s in (st, s2) if self.feasible(s)]
        if op == "switch":
            v, d, cases = a; x = V(v)
            if conc(x):
                for cv, cl in cases:
                    if cv[1] & ((1 << t.a) - 1) == x: self.goto(st, fr, cl); return None
                self.goto(st, fr, d); return None
            raise Unsupported("symbolic switch")
        if op == "ret":
            rv = V(a[0]) if a else None
            st.frames.pop()
            if st.frames:
                caller = st.frames[-1]
                if caller.res is not None: caller.regs[caller.res] = rv
                caller.res = None
                if caller.prev == "__invoke__":
                    pass
            else: st.ret = rv
            return None
        if op in ("call", "invoke"):
            callee, args, dest = a
            argv = [self.val(st, fr, v, at) for (at, v) in args]
            if callee[0] == "global": name = callee[1]
            else:
                fp = self.val(st, fr, callee, T("ptr", None))
                if not isinstance(fp, FnPtr): raise Unsupported("indirect call through non-function pointer")
                name = fp.name
            if op == "invoke": self.goto(st, fr, dest[0])
            return self.call(st, fr, ins, name, argv, args)
        if op == "unreachable":
            st.oblig.append(("unreachable", list(st.pc), fr.fn.name)); st.frames.clear(); st.ret = None; return None
        if op == "fence": return None
        if op == "atomicrmw":
            bop, pv, v = a; p = self.val(st, fr, pv, T("ptr", None)); x = V(v); nb = t.a // 8
            old = self.load_bytes(st, p, nb)
            new = {"add": lambda: simp(bv(old, t.a) + bv(x, t.a)), "sub": lambda: simp(bv(old, t.a) - bv(x, t.a)), "xchg": lambda: x}[bop]()
            self.store_bytes(st, p, new, nb); R(old); return None
        raise Unsupported("symbolic execution of: " + ins.raw)

    def _addoff(self, off, d):
        return off + d if conc(off) else simp(off + d)

    def b2i(self, c):
        c = z3.simplify(c)
        if z3.is_true(c): return 1
        if z3.is_false(c): return 0
        return z3.If(c, z3.BitVecVal(1, 1), z3.BitVecVal(0, 1))

    def i2b(self, v):
        return z3.simplify(v == z3.BitVecVal(1, 1))

    def feasible(self, st):
        s = z3.Solver(); s.set("timeout", 20000); s.add(*st.pc)
        return s.check() != z3.unsat

    def call(self, st, fr, ins, name, argv, args):
        t = ins.ty
        if name in self.handlers:
            r = self.handlers[name](self, st, argv)
            st.log.append(("handler", name))
            if ins.res is not None: fr.regs[ins.res] = r
            return None
        if name.startswith("llvm."):
            base = name.split(".")[1]
            if base in ("lifetime", "assume", "experimental", "invariant", "dbg", "donothing"): return None
            if base == "fmuladd":
                x, y, z = argv
                if self.fused: r = z3.fpFMA(RNE, x, y, z)
                else: r = z3.fpAdd(RNE, z3.fpMul(RNE, x, y), z)
                fr.regs[ins.res] = r; return None
            if base == "fma":
                fr.regs[ins.res] = z3.fpFMA(RNE, *argv); return None
            if base in ("floor", "ceil", "trunc", "rint", "nearbyint"):
                rm = {"floor": z3.RTN(), "ceil": z3.RTP(), "trunc": z3.RTZ(), "rint": RNE, "nearbyint": RNE}[base]
                fr.regs[ins.res] = z3.fpRoundToIntegral(rm, argv[0]); return None
            if base == "fabs":
                fr.regs[ins.res] = z3.fpAbs(argv[0]); return None
            if base == "sqrt":
                fr.regs[ins.res] = z3.fpSqrt(RNE, argv[0]); return None
            if base in ("minnum", "maxnum"):
                fr.regs[ins.res] = (z3.fpMin if base == "minnum" else z3.fpMax)(argv[0], argv[1]); return None
            if base == "fshl" or base == "fshr":
                w = t.a; x, y, s = (bv(v, w) for v in argv)
                cc = z3.Concat(x, y); sh = z3.ZeroExt(w, z3.URem(s, w))
                r = z3.Extract(2 * w - 1, w, cc << sh) if base == "fshl" else z3.Extract(w - 1, 0, z3.LShR(cc, sh))
                fr.regs[ins.res] = simp(r); return None
            if base in ("umin", "umax", "smin", "smax"):
                w = t.a; x, y = bv(argv[0], w), bv(argv[1], w)
                c = {"umin": z3.ULT(x, y), "umax": z3.UGT(x, y), "smin": x < y, "smax": x > y}[base]
                fr.regs[ins.res] = simp(z3.If(c, x, y)); return None
            if base in ("memcpy", "memmove"):
                d, s, n = argv[:3]
                if not conc(n): raise Unsupported("symbolic memcpy length")
                tmp = [st.mem[s.obj].get(s.off + k) for k in range(n)]
                if any(b is None for b in tmp): raise Unsupported("memcpy from uninitialised memory")
                for k in range(n): st.mem[d.obj][d.off + k] = tmp[k]
                return None
            if base == "memset":
                d, c, n = argv[:3]
                if not (conc(n) and conc(c)): raise Unsupported("symbolic memset")
                for k in range(n): st.mem[d.obj][d.off + k] = c & 0xff
                return None
            raise Unsupported("intrinsic " + name)
        f = self.m.funcs.get(name)
        if f is None or not f.defined:
            raise Unsupported("external call without handler: " + name)
        fr.res = ins.res
        self._push(st, f, argv)
        return None


# ----------------------------------------------------------------------------- libm models
def nextafter_model(ex, st, argv):
    """double nextafter(x, y) for non-NaN x, y (exact model on the IEEE bit patterns)."""
    x, y = argv
    bx = z3.fpToIEEEBV(x)
    one = z3.BitVecVal(1, 64)
    up = z3.fpGT(y, x)
    xz = z3.fpIsZero(x)
    pos = z3.Not(z3.fpIsNegative(x))
    # moving away from zero in magnitude -> bits+1, towards zero -> bits-1
    away = z3.Or(z3.And(pos, up), z3.And(z3.Not(pos), z3.Not(up)))
    stepped = z3.If(away, bx + one, bx - one)
    tiny = z3.If(up, z3.BitVecVal(1, 64), z3.BitVecVal((1 << 63) | 1, 64))
    r = z3.If(z3.fpEQ(x, y), z3.fpToIEEEBV(y), z3.If(xz, tiny, stepped))
    st.oblig.append(("nextafter-nan-free", list(st.pc), (x, y)))
    return z3.fpBVToFP(r, F64)
