#!/usr/bin/env python3
"""ir2c: LLVM-14 textual IR (typed pointers, x86-64 data layout) -> C.

Engine K front half.  The IR comes from clang++-14 -O1 on a wrapper TU that #includes the REAL
header/.cpp of the repository; this module parses that IR (Module) and emits C for the functions
reachable from the requested entry points (emit_c).  The C is consumed by cbmc (bit-precise bounded
model checking) and, for translator validation, by gcc (differential run against a g++ build of the
same wrapper).  The parsed Module is also what engine/ir2c/fpz3.py executes symbolically.

Supported: integer / FP arithmetic, icmp/fcmp, select, phi, br, switch, ret, unreachable, alloca
(static), typed getelementptr with data-layout struct offsets, load/store through char*, casts,
direct and indirect calls, invoke (as call; unwind edges are dead because throwing is a cut point),
extractvalue on {iN,i1} overflow intrinsics and small literal structs, insertvalue,
memcpy/memmove/memset, fshl/fshr/min/max/abs/ctpop/ctlz/cttz/bswap, fabs/floor/ceil/sqrt/fmuladd,
atomic load/store/rmw/cmpxchg as their sequential meaning, global constants incl. vtables.
Anything else raises Unsupported: the check then reports an infrastructure failure (exit 2),
it never silently skips code.
"""
import re, struct, sys
from fractions import Fraction


class Unsupported(Exception):
    pass


# ----------------------------------------------------------------------------- tokenizer
TOK = re.compile(r'''
    \s+
  | ;[^\n]*
  | (?P<cstr>c"(?:[^"\\]|\\[0-9a-fA-F]{2}|\\\\)*")
  | (?P<qid>[%@!$]"(?:[^"\\]|\\.)*")
  | (?P<str>"(?:[^"\\]|\\.)*")
  | (?P<id>[%@$][-a-zA-Z$._0-9]+)
  | (?P<meta>![-a-zA-Z$._0-9]*)
  | (?P<attr>\#[0-9]+)
  | (?P<hex>0x[KLMHR]?[0-9a-fA-F]+)
  | (?P<num>-?[0-9]+\.[0-9]*(?:[eE][-+]?[0-9]+)?)
  | (?P<int>-?[0-9]+)
  | (?P<dots>\.\.\.)
  | (?P<word>[a-zA-Z_][a-zA-Z_0-9.]*)
  | (?P<p>[()\[\]{}<>,=*:|])
''', re.X)


def tokenize(s):
    out = []
    i, n = 0, len(s)
    while i < n:
        m = TOK.match(s, i)
        if not m:
            raise Unsupported("cannot tokenize: %r" % s[i:i + 60])
        i = m.end()
        k = m.lastgroup
        if k is None:
            continue
        out.append((k, m.group(k)))
    return out


def unq(name):
    """%"a b" -> %a b (strip quotes of quoted identifiers)"""
    if len(name) > 2 and name[1] == '"':
        body = name[2:-1]
        body = re.sub(r'\\([0-9a-fA-F]{2})', lambda m: chr(int(m.group(1), 16)), body)
        return name[0] + body
    return name


# ----------------------------------------------------------------------------- types
class T:
    __slots__ = ("k", "a", "b", "packed", "name")

    def __init__(self, k, a=None, b=None, packed=False, name=None):
        self.k, self.a, self.b, self.packed, self.name = k, a, b, packed, name

    def __repr__(self):
        if self.k == "int": return "i%d" % self.a
        if self.k == "ptr": return "%r*" % (self.a,)
        if self.k == "arr": return "[%d x %r]" % (self.a, self.b)
        if self.k == "struct": return "{%s}" % ", ".join(map(repr, self.a))
        if self.k == "named": return "%" + self.name
        if self.k == "vec": return "<%d x %r>" % (self.a, self.b)
        if self.k == "fn": return "fn"
        return self.k

    @property
    def is_int(self): return self.k == "int"
    @property
    def is_ptr(self): return self.k == "ptr"
    @property
    def is_fp(self): return self.k in ("float", "double", "x86_fp80")


VOID = T("void")
I1, I8, I32, I64 = T("int", 1), T("int", 8), T("int", 32), T("int", 64)


class P:
    """token stream parser"""

    def __init__(self, toks, mod):
        self.t, self.i, self.mod = toks, 0, mod

    def peek(self, o=0):
        j = self.i + o
        return self.t[j] if j < len(self.t) else ("eof", "")

    def next(self):
        x = self.peek(); self.i += 1; return x

    def accept(self, v):
        if self.peek()[1] == v:
            self.i += 1; return True
        return False

    def expect(self, v):
        if not self.accept(v):
            raise Unsupported("expected %r, got %r in %r" % (v, self.peek(), " ".join(x[1] for x in self.t[max(0, self.i - 8):self.i + 8])))

    def at_type(self):
        k, v = self.peek()
        if k == "word":
            return v in ("void", "float", "double", "x86_fp80", "half", "fp128", "label", "metadata", "opaque", "token", "ptr", "bfloat") or re.fullmatch(r"i[0-9]+", v)
        if k in ("id", "qid"):
            return v[0] == "%" and unq(v)[1:] in self.mod.named_names
        return v in ("[", "{", "<")

    def type(self):
        k, v = self.next()
        if k == "word":
            m = re.fullmatch(r"i([0-9]+)", v)
            if m: t = T("int", int(m.group(1)))
            elif v in ("void", "float", "double", "x86_fp80", "label", "metadata", "opaque", "token", "half", "fp128"): t = T(v)
            elif v == "ptr": raise Unsupported("opaque pointers not supported (clang-14 emits typed pointers)")
            else: raise Unsupported("type word " + v)
        elif k in ("id", "qid") and v[0] == "%":
            t = T("named", name=unq(v)[1:])
        elif v == "[":
            n = int(self.next()[1]); self.expect("x"); e = self.type(); self.expect("]")
            t = T("arr", n, e)
        elif v == "{":
            t = T("struct", self._fields("}"))
        elif v == "<":
            if self.accept("{"):
                f = self._fields("}"); self.expect(">")
                t = T("struct", f, packed=True)
            else:
                n = int(self.next()[1]); self.expect("x"); e = self.type(); self.expect(">")
                t = T("vec", n, e)
        else:
            raise Unsupported("type token %r" % v)
        while True:
            if self.accept("*"):
                t = T("ptr", t)
            elif self.peek()[1] == "(":
                self.next(); args = []; va = False
                while not self.accept(")"):
                    if self.accept("..."): va = True
                    else: args.append(self.type())
                    self.accept(",")
                t = T("fn", t, (args, va))
            elif self.peek()[0] == "word" and self.peek()[1] == "addrspace":
                self.next(); self.expect("("); self.next(); self.expect(")")
            else:
                return t

    def _fields(self, close):
        f = []
        while not self.accept(close):
            f.append(self.type()); self.accept(",")
        return f

    # ------------------------------------------------------------------ values
    ATTR_WORDS_WITH_ARG = {"align", "dereferenceable", "dereferenceable_or_null", "sret", "byval", "byref", "preallocated", "inalloca", "elementtype", "alignstack"}

    def skip_attrs(self):
        while True:
            k, v = self.peek()
            if k == "attr":
                self.next(); continue
            if k == "word" and v in self.ATTR_WORDS_WITH_ARG:
                self.next()
                if self.accept("("):
                    d = 1
                    while d:
                        x = self.next()[1]
                        d += (x == "(") - (x == ")")
                elif self.peek()[0] == "int":
                    self.next()
                continue
            if k == "word" and v in VALUE_WORDS:
                return
            if k == "word" and not self.at_type():
                self.next(); continue
            return

    def value(self, ty):
        """parse a value of (already parsed) type ty"""
        k, v = self.next()
        if k in ("id", "qid"):
            n = unq(v)
            return ("reg", n[1:]) if n[0] == "%" else ("global", n[1:])
        if k == "int":
            if ty.is_fp: return ("fp", Fraction(int(v)))
            return ("int", int(v))
        if k == "num":
            return ("fp", Fraction(v))
        if k == "hex":
            return ("fp", hexfp(v, ty))
        if k == "cstr":
            return ("bytes", cbytes(v))
        if k == "meta":
            return ("meta",)
        if k == "word":
            if v == "true": return ("int", 1)
            if v == "false": return ("int", 0)
            if v == "null": return ("null",)
            if v in ("undef", "poison"): return ("undef",)
            if v == "zeroinitializer": return ("zero",)
            if v in ("getelementptr", "bitcast", "inttoptr", "ptrtoint", "addrspacecast"):
                return self.cexpr(v)
            if v in ("add", "sub", "mul", "and", "or", "xor", "shl", "lshr", "ashr", "select", "icmp", "trunc", "zext", "sext"):
                return self.cexpr(v)
        if v == "{" or v == "[" or v == "<":
            close = {"{": "}", "[": "]", "<": ">"}[v]
            packed = False
            if v == "<" and self.accept("{"):
                close = "}"; packed = True
            items = []
            while not self.accept(close):
                t = self.type(); self.skip_attrs(); items.append((t, self.value(t))); self.accept(",")
            if packed: self.expect(">")
            return ("agg", items)
        raise Unsupported("value token %r %r" % (k, v))

    def tvalue(self):
        t = self.type(); self.skip_attrs()
        return t, self.value(t)

    def cexpr(self, op):
        if op == "getelementptr":
            self.accept("inbounds"); self.expect("(")
            base_t = self.type(); self.expect(",")
            pt, pv = self.tvalue(); idx = []
            while self.accept(","):
                self.accept("inrange"); idx.append(self.tvalue())
            self.expect(")")
            return ("cgep", base_t, (pt, pv), idx)
        if op in ("bitcast", "inttoptr", "ptrtoint", "addrspacecast", "trunc", "zext", "sext"):
            self.expect("("); ft, fv = self.tvalue(); self.expect("to"); tt = self.type(); self.expect(")")
            return ("ccast", op, ft, fv, tt)
        if op in ("add", "sub", "mul", "and", "or", "xor", "shl", "lshr", "ashr"):
            while self.peek()[1] in ("nuw", "nsw", "exact"): self.next()
            self.expect("("); a = self.tvalue(); self.expect(","); b = self.tvalue(); self.expect(")")
            return ("cbin", op, a, b)
        raise Unsupported("constant expression " + op)


VALUE_WORDS = {"true", "false", "null", "undef", "poison", "zeroinitializer", "getelementptr", "bitcast", "inttoptr", "ptrtoint", "addrspacecast",
               "add", "sub", "mul", "and", "or", "xor", "shl", "lshr", "ashr", "select", "icmp", "trunc", "zext", "sext", "blockaddress"}


def cbytes(tok):
    s = tok[2:-1]; out = bytearray(); i = 0
    while i < len(s):
        if s[i] == "\\":
            if s[i + 1] == "\\": out.append(92); i += 2
            else: out.append(int(s[i + 1:i + 3], 16)); i += 3
        else:
            out.append(ord(s[i])); i += 1
    return bytes(out)


def hexfp(tok, ty):
    """LLVM hex FP constant -> exact Fraction (or 'inf'/'-inf'/'nan')."""
    if tok.startswith("0xK"):
        v = int(tok[3:], 16); se = v >> 64; m = v & ((1 << 64) - 1)
        s = -1 if se >> 15 else 1; e = se & 0x7fff
        if e == 0x7fff: return "nan" if (m << 1) & ((1 << 64) - 1) else ("inf" if s > 0 else "-inf")
        if e == 0: e = 1
        return s * Fraction(m) * Fraction(2) ** (e - 16383 - 63)
    if tok[2] in "LMHR":
        raise Unsupported("fp constant " + tok)
    bits = int(tok[2:], 16)
    d = struct.unpack("<d", struct.pack("<Q", bits))[0]
    if d != d: return "nan"
    if d in (float("inf"), float("-inf")): return "inf" if d > 0 else "-inf"
    if d == 0 and bits >> 63: return "-0"
    return Fraction(d)


# ----------------------------------------------------------------------------- module
class Instr:
    __slots__ = ("res", "op", "ty", "a", "flags", "raw")

    def __init__(self, res, op, ty, a, flags=(), raw=""):
        self.res, self.op, self.ty, self.a, self.flags, self.raw = res, op, ty, a, flags, raw


class Func:
    def __init__(self, name, ret, params, varargs):
        self.name, self.ret, self.params, self.varargs = name, ret, params, varargs
        self.blocks = []      # list of (label, [Instr])
        self.defined = False


class Module:
    def __init__(self, text):
        self.named = {}        # name -> T (struct body) or None (opaque)
        self.named_names = set()
        self.globals = {}      # name -> (type, init value or None, is_const)
        self.funcs = {}        # name -> Func
        self.aliases = {}
        self._lay = {}
        self.parse(text)

    # ------------------------------------------------------------------ layout
    def resolve(self, t):
        while t.k == "named":
            b = self.named.get(t.name)
            if b is None: raise Unsupported("opaque type %" + t.name + " needs a layout")
            t = b
        return t

    def size_align(self, t):
        t = self.resolve(t) if t.k == "named" else t
        k = t.k
        if k == "int":
            n = t.a
            by = 1 if n <= 8 else 2 if n <= 16 else 4 if n <= 32 else 8 if n <= 64 else 16 if n <= 128 else None
            if by is None: raise Unsupported("int width %d" % n)
            return by, by
        if k == "ptr": return 8, 8
        if k == "float": return 4, 4
        if k == "double": return 8, 8
        if k == "x86_fp80": return 16, 16
        if k == "arr":
            s, a = self.size_align(t.b); return s * t.a, a
        if k == "struct":
            key = id(t)
            if key in self._lay: return self._lay[key][0], self._lay[key][1]
            off, al, offs = 0, 1, []
            for f in t.a:
                s, a = self.size_align(f)
                if t.packed: a = 1
                off = (off + a - 1) // a * a
                offs.append(off); off += s; al = max(al, a)
            size = (off + al - 1) // al * al
            self._lay[key] = (size, al, offs, t)
            return size, al
        if k == "vec":
            s, a = self.size_align(t.b); return s * t.a, s * t.a
        raise Unsupported("size of " + repr(t))

    def field_off(self, t, i):
        t = self.resolve(t)
        self.size_align(t)
        return self._lay[id(t)][2][i]

    # ------------------------------------------------------------------ parse
    def parse(self, text):
        lines = text.split("\n")
        # pass 1: named types (names first so at_type works)
        for ln in lines:
            m = re.match(r'^(%(?:"(?:[^"\\]|\\.)*"|[-a-zA-Z$._0-9]+)) = type ', ln)
            if m: self.named_names.add(unq(m.group(1))[1:])
        i = 0
        while i < len(lines):
            ln = lines[i]
            if not ln or ln[0] == ";" or ln.startswith(("source_filename", "target ", "attributes ", "!", "$", "module asm")):
                i += 1; continue
            if ln[0] == "%":
                p = P(tokenize(ln), self); name = unq(p.next()[1])[1:]; p.expect("="); p.expect("type")
                if p.peek()[1] == "opaque": self.named[name] = None
                else: self.named[name] = p.type()
                i += 1; continue
            if ln[0] == "@":
                self.parse_global(ln); i += 1; continue
            if ln.startswith("declare"):
                self.parse_fn_header(ln, False); i += 1; continue
            if ln.startswith("define"):
                f = self.parse_fn_header(ln, True); i += 1
                cur = None
                while lines[i] != "}":
                    s = lines[i]; i += 1
                    if not s.strip() or s.lstrip()[0] == ";": continue
                    if re.match(r'\s+(cleanup|catch |filter )', s): continue      # landingpad clauses
                    m = re.match(r'^("(?:[^"\\]|\\.)*"|[-a-zA-Z$._0-9]+):', s)
                    if m and not s.startswith(" "):
                        lab = m.group(1)
                        if lab[0] == '"': lab = lab[1:-1]
                        cur = (lab, []); f.blocks.append(cur); continue
                    if cur is None:
                        cur = (None, []); f.blocks.append(cur)    # implicit entry label
                    # switch spans several lines
                    if s.lstrip().startswith("switch") and "]" not in s:
                        while "]" not in lines[i]:
                            s += " " + lines[i]; i += 1
                        s += " " + lines[i]; i += 1
                    if re.match(r'\s*(%\S+ = )?invoke ', s):
                        while "unwind label" not in s:
                            s += " " + lines[i]; i += 1
                    cur[1].append(self.parse_instr(s))
                # implicit entry label = number after last param
                if f.blocks and f.blocks[0][0] is None:
                    f.blocks[0] = (str(self._implicit_entry(f)), f.blocks[0][1])
                i += 1; continue
            raise Unsupported("top-level line: " + ln[:80])

    def _implicit_entry(self, f):
        return sum(1 for (_t, nm) in f.params if nm is None or nm.isdigit())

    def parse_global(self, ln):
        p = P(tokenize(ln), self); name = unq(p.next()[1])[1:]; p.expect("=")
        is_const = False
        while True:
            k, v = p.peek()
            if v in ("global", "constant"):
                is_const = v == "constant"; p.next(); break
            if v == "alias":
                p.next(); p.type(); p.expect(","); _t, tv = p.tvalue()
                self.aliases[name] = tv; return
            if v == "ifunc": raise Unsupported("ifunc")
            if v in ("thread_local",) and p.peek(1)[1] == "(":
                p.next(); p.next(); p.next(); p.next(); continue
            p.next()
        t = p.type(); init = None
        if p.peek()[0] != "eof" and p.peek()[1] != ",":
            init = p.value(t)
        self.globals[name] = (t, init, is_const)

    def parse_fn_header(self, ln, defined):
        p = P(tokenize(ln), self); p.next()
        # skip linkage/attrs until type
        while not p.at_type():
            k, v = p.next()
            if v in P.ATTR_WORDS_WITH_ARG or v in ("dereferenceable", "align"):
                if p.accept("("):
                    while p.next()[1] != ")": pass
                elif p.peek()[0] == "int": p.next()
        ret = p.type()
        name = unq(p.next()[1])[1:]
        p.expect("(")
        params, va = [], False
        while not p.accept(")"):
            if p.accept("..."): va = True; p.accept(","); continue
            t = p.type(); p.skip_attrs()
            nm = None
            if p.peek()[0] in ("id", "qid") and p.peek()[1][0] == "%":
                nm = unq(p.next()[1])[1:]
            params.append((t, nm)); p.accept(",")
        if defined:
            c = 0
            for j, (t, nm) in enumerate(params):
                if nm is None: params[j] = (t, str(c)); c += 1
                elif nm.isdigit(): c = int(nm) + 1
        f = self.funcs.get(name)
        if f is None or defined:
            f = Func(name, ret, params, va); self.funcs[name] = f
        f.defined = f.defined or defined
        return f

    # ------------------------------------------------------------------ instructions
    def parse_instr(self, s):
        p = P(tokenize(s), self)
        res = None
        if p.peek()[0] in ("id", "qid") and p.peek(1)[1] == "=":
            res = unq(p.next()[1])[1:]; p.next()
        op = p.next()[1]
        I = lambda ty, a, flags=(): Instr(res, op, ty, a, flags, s.strip())
        if op in ("add", "sub", "mul", "udiv", "sdiv", "urem", "srem", "shl", "lshr", "ashr", "and", "or", "xor"):
            fl = []
            while p.peek()[1] in ("nuw", "nsw", "exact"): fl.append(p.next()[1])
            t = p.type(); a = p.value(t); p.expect(","); b = p.value(t)
            return I(t, (a, b), tuple(fl))
        if op in ("fadd", "fsub", "fmul", "fdiv", "frem"):
            fl = self._fmf(p)
            t = p.type(); a = p.value(t); p.expect(","); b = p.value(t)
            return I(t, (a, b), fl)
        if op == "fneg":
            fl = self._fmf(p); t = p.type(); a = p.value(t); return I(t, (a,), fl)
        if op in ("icmp", "fcmp"):
            fl = self._fmf(p) if op == "fcmp" else ()
            pred = p.next()[1]; t = p.type(); a = p.value(t); p.expect(","); b = p.value(t)
            if t.k == "vec": raise Unsupported("vector compare: " + s.strip())
            return I(I1, (pred, a, b, t), fl)       # result type i1; operand type kept as 4th element
        if op == "select":
            self._fmf(p)
            ct, c = p.tvalue(); p.expect(","); t, a = p.tvalue(); p.expect(","); _t, b = p.tvalue()
            return I(t, (ct, c, a, b))
        if op == "phi":
            self._fmf(p)
            t = p.type(); inc = []
            while True:
                p.expect("["); v = p.value(t); p.expect(","); l = unq(p.next()[1])[1:]; p.expect("]")
                inc.append((v, l))
                if not p.accept(","): break
            return I(t, inc)
        if op in ("trunc", "zext", "sext", "fptrunc", "fpext", "fptoui", "fptosi", "uitofp", "sitofp", "ptrtoint", "inttoptr", "bitcast", "addrspacecast"):
            ft, v = p.tvalue(); p.expect("to"); tt = p.type()
            return I(tt, (ft, v))
        if op == "freeze":
            t, v = p.tvalue(); return I(t, (v,))
        if op == "getelementptr":
            p.accept("inbounds"); bt = p.type(); p.expect(","); pt, pv = p.tvalue(); idx = []
            while p.accept(","):
                if p.peek()[0] == "meta": break
                idx.append(p.tvalue())
            return I(T("ptr", None), (bt, pv, idx))
        if op == "load":
            atomic = p.accept("atomic"); p.accept("volatile")
            t = p.type(); p.expect(","); pt, pv = p.tvalue()
            return I(t, (pv,), ("atomic",) if atomic else ())
        if op == "store":
            atomic = p.accept("atomic"); p.accept("volatile")
            t, v = p.tvalue(); p.expect(","); pt, pv = p.tvalue()
            return I(t, (v, pv), ("atomic",) if atomic else ())
        if op == "alloca":
            p.accept("inalloca"); t = p.type(); n = ("int", 1)
            if p.accept(","):
                if p.peek()[1] != "align":
                    nt, n = p.tvalue(); p.accept(",")
                al = int(p.t[p.i + 1][1]) if p.peek()[1] == "align" else 0
            else: al = 0
            return I(t, (n, al))
        if op == "br":
            if p.peek()[1] == "label":
                p.next(); return I(VOID, (unq(p.next()[1])[1:],))
            t, c = p.tvalue(); p.expect(","); p.expect("label"); a = unq(p.next()[1])[1:]; p.expect(","); p.expect("label"); b = unq(p.next()[1])[1:]
            return I(VOID, (c, a, b))
        if op == "switch":
            t, v = p.tvalue(); p.expect(","); p.expect("label"); d = unq(p.next()[1])[1:]; p.expect("[")
            cases = []
            while not p.accept("]"):
                ct, cv = p.tvalue(); p.expect(","); p.expect("label"); cases.append((cv, unq(p.next()[1])[1:]))
            return I(t, (v, d, cases))
        if op == "ret":
            if p.peek()[1] == "void": return I(VOID, ())
            t, v = p.tvalue(); return I(t, (v,))
        if op == "unreachable":
            return I(VOID, ())
        if op in ("call", "invoke"):
            while p.peek()[1] in ("tail", "musttail", "notail"): p.next()
            self._fmf(p)
            while not p.at_type():
                k, v = p.next()
                if p.peek()[1] == "(" and v in P.ATTR_WORDS_WITH_ARG | {"dereferenceable"}:
                    while p.next()[1] != ")": pass
                elif v == "align" and p.peek()[0] == "int": p.next()
            rt = p.type()
            if rt.k == "fn":      # full function type given (varargs callee)
                rt = rt.a
            callee = p.value(T("ptr", None))
            p.expect("(")
            args = []
            while not p.accept(")"):
                at = p.type(); p.skip_attrs(); args.append((at, p.value(at))); p.accept(",")
            dest = None
            if op == "invoke":
                while p.peek()[1] != "to":
                    if p.next()[0] == "eof": raise Unsupported("malformed invoke: " + s)
                p.next(); p.expect("label"); n = unq(p.next()[1])[1:]; p.expect("unwind"); p.expect("label"); u = unq(p.next()[1])[1:]
                dest = (n, u)
            return I(rt, (callee, args, dest))
        if op == "extractvalue":
            t, v = p.tvalue(); idx = []
            while p.accept(","):
                if p.peek()[0] == "meta": break
                idx.append(int(p.next()[1]))
            return I(t, (v, idx))
        if op == "insertvalue":
            t, v = p.tvalue(); p.expect(","); et, ev = p.tvalue(); idx = []
            while p.accept(","):
                if p.peek()[0] == "meta": break
                idx.append(int(p.next()[1]))
            return I(t, (v, et, ev, idx))
        if op == "atomicrmw":
            p.accept("volatile"); bop = p.next()[1]; pt, pv = p.tvalue(); p.expect(","); t, v = p.tvalue()
            return I(t, (bop, pv, v))
        if op == "cmpxchg":
            p.accept("weak"); p.accept("volatile"); pt, pv = p.tvalue(); p.expect(","); t, c = p.tvalue(); p.expect(","); _t, n = p.tvalue()
            return I(t, (pv, c, n))
        if op == "fence":
            return I(VOID, ())
        if op in ("landingpad", "resume", "cleanuppad", "catchpad"):
            return Instr(res, op, VOID, (), (), s.strip())
        if op in ("extractelement", "insertelement", "shufflevector"):
            raise Unsupported("vector instruction (compile with -fno-vectorize -fno-slp-vectorize): " + s.strip())
        raise Unsupported("instruction: " + s.strip())

    def _fmf(self, p):
        fl = []
        while p.peek()[1] in ("fast", "nnan", "ninf", "nsz", "arcp", "contract", "afn", "reassoc"): fl.append(p.next()[1])
        return tuple(fl)


# ----------------------------------------------------------------------------- C emission
def cid(name):
    s = re.sub(r"[^A-Za-z0-9_]", lambda m: "_%02x" % ord(m.group(0)), name)
    if s[0].isdigit(): s = "_" + s
    return s


RT_STUBS = {
    # allocation
    "_Znwm": "rt_new", "_Znam": "rt_new", "_ZdlPv": "rt_delete", "_ZdaPv": "rt_delete", "_ZdlPvm": "rt_delete2", "_ZdaPvm": "rt_delete2",
    "malloc": "malloc", "free": "free", "calloc": "calloc", "realloc": "realloc",
    # exceptions: throwing ends the path
    "__cxa_allocate_exception": "rt_throw_p", "__cxa_throw": "rt_throw_v", "__cxa_rethrow": "rt_throw_v", "__cxa_bad_cast": "rt_throw_v",
    "__cxa_pure_virtual": "rt_throw_v", "_ZSt9terminatev": "rt_throw_v", "abort": "rt_throw_v", "__clang_call_terminate": "rt_throw_v",
    "_ZSt20__throw_length_errorPKc": "rt_throw_v", "_ZSt17__throw_bad_allocv": "rt_throw_v", "_ZSt28__throw_bad_array_new_lengthv": "rt_throw_v",
    "_ZSt24__throw_out_of_range_fmtPKcz": "rt_throw_v", "_ZSt19__throw_logic_errorPKc": "rt_throw_v", "__assert_fail": "rt_throw_v",
    "__cxa_begin_catch": "rt_throw_p", "__cxa_end_catch": "rt_throw_v", "__cxa_free_exception": "rt_throw_v",
    # libc / libm
    "memcpy": "memcpy", "memmove": "memmove", "memset": "memset", "memcmp": "memcmp", "strlen": "strlen",
    "floor": "floor", "ceil": "ceil", "sqrt": "sqrt", "fabs": "fabs", "log": "log", "exp": "exp", "nextafter": "nextafter", "fmod": "fmod",
    "__cxa_atexit": "rt_zero", "__cxa_guard_acquire": "rt_guard_acquire", "__cxa_guard_release": "rt_nop", "__cxa_guard_abort": "rt_nop",
}


class Emitter:
    def __init__(self, mod, entries, cuts=(), stubs=None, externs=()):
        self.m, self.entries = mod, list(entries)
        self.extern_ok = set(externs)     # declared-only functions supplied by the harness (hooks)
        self.cuts = [re.compile(c) for c in cuts]     # regexes on mangled names: call -> rt_throw (path ends)
        self.stubs = dict(RT_STUBS); self.stubs.update(stubs or {})
        self.used_stubs, self.cut_hits, self.funcs_emitted = set(), set(), []
        self.externs = set()
        self.globals_used = []
        self.struct_types = {}

    # ---- type mapping
    def cty(self, t):
        if t.k == "named" or t.k == "struct":
            rt = self.m.resolve(t)
            return self.agg_type(rt)
        if t.k == "int":
            n = t.a
            if n <= 8: return "uint8_t"
            if n <= 16: return "uint16_t"
            if n <= 32: return "uint32_t"
            if n <= 64: return "uint64_t"
            if n <= 128: return "unsigned __int128"
        if t.k == "ptr": return "char*"
        if t.k == "float": return "float"
        if t.k == "double": return "double"
        if t.k == "x86_fp80": return "long double"
        if t.k == "void": return "void"
        if t.k == "arr":
            key = repr(t)
            if key not in self.struct_types: self.struct_types[key] = ("agg%d" % len(self.struct_types), t)
            return "struct " + self.struct_types[key][0]
        raise Unsupported("C type for " + repr(t))

    def agg_type(self, rt):
        key = repr(rt)
        if key not in self.struct_types:
            name = "agg%d" % len(self.struct_types)
            self.struct_types[key] = (name, rt)
        return "struct " + self.struct_types[key][0]

    def sty(self, t):
        n = t.a
        return {8: "int8_t", 16: "int16_t", 32: "int32_t", 64: "int64_t", 128: "__int128"}[8 if n <= 8 else 16 if n <= 16 else 32 if n <= 32 else 64 if n <= 64 else 128]

    def native(self, t):
        return t.a in (8, 16, 32, 64, 128)

    def mask(self, t, e):
        if t.k == "int" and not self.native(t):
            return "((%s)((%s) & %s))" % (self.cty(t), e, self.lit((1 << t.a) - 1, t))
        return e

    def lit(self, v, t):
        n = t.a
        v &= (1 << n) - 1
        if n <= 32: return "%dU" % v
        if n <= 64: return "%dULL" % v
        return "((((unsigned __int128)%dULL) << 64) | %dULL)" % (v >> 64, v & ((1 << 64) - 1))

    def sext(self, t, e):
        """C expression of the signed value of e (type t) in the signed native type"""
        if self.native(t): return "((%s)(%s))" % (self.sty(t), e)
        n = t.a; st = self.sty(t); w = {"int8_t": 8, "int16_t": 16, "int32_t": 32, "int64_t": 64, "__int128": 128}[st]
        ut = self.cty(t)
        return "((%s)((%s)((%s)(%s) << %d)) >> %d)" % (st, st, ut, e, w - n, w - n)

    # ---- constants / values
    def fplit(self, fr, t):
        if fr == "nan": return "((%s)__builtin_nan(\"\"))" % self.cty(t)
        if fr == "inf": return "((%s)__builtin_inf())" % self.cty(t)
        if fr == "-inf": return "((%s)-__builtin_inf())" % self.cty(t)
        if fr == "-0": return "((%s)-0.0)" % self.cty(t)
        if t.k == "x86_fp80":
            if fr == 0: return "0.0L"
            # exact: numerator/denominator are integers with power-of-two denominator
            num, den = fr.numerator, fr.denominator
            e = 0
            while abs(num) >= (1 << 64): raise Unsupported("x86_fp80 constant too wide")
            return "(((long double)%d.0L) / ((long double)%s))" % (num, self._pow2(den))
        f = float(fr)
        assert Fraction(f) == fr, "inexact double constant"
        return "((%s)%s)" % (self.cty(t), f.hex())

    def _pow2(self, den):
        k = den.bit_length() - 1
        assert 1 << k == den
        return "0x1p%dL" % k

    def val(self, v, t, loc):
        k = v[0]
        if k == "reg":
            return loc[v[1]]
        if k == "int":
            if t.k == "ptr": return "((char*)%dULL)" % v[1]
            return self.lit(v[1], t)
        if k == "fp": return self.fplit(v[1], t)
        if k == "null": return "((char*)0)"
        if k in ("undef", "zero"):
            if t.k == "ptr": return "((char*)0)"
            if t.is_fp: return "((%s)0)" % self.cty(t)
            if t.k == "int": return self.lit(0, t)
            return "(%s){0}" % self.cty(t)
        if k == "global":
            return self.gref(v[1])
        if k == "cgep":
            _, bt, (pt, pv), idx = v
            off = self.const_gep_off(bt, idx)
            return "(%s + %d)" % (self.val(pv, pt, loc), off)
        if k == "ccast":
            _, op, ft, fv, tt = v
            inner = self.val(fv, ft, loc)
            if op in ("bitcast", "addrspacecast"): return inner if ft.k == tt.k else self._bitcast(inner, ft, tt)
            if op == "ptrtoint": return "((%s)(uintptr_t)%s)" % (self.cty(tt), inner)
            if op == "inttoptr": return "((char*)(uintptr_t)%s)" % inner
            if op in ("trunc", "zext"): return self.mask(tt, "((%s)%s)" % (self.cty(tt), inner))
            if op == "sext": return self.mask(tt, "((%s)%s)" % (self.cty(tt), self.sext(ft, inner)))
        if k == "cbin":
            _, op, (at, av), (bt, bv) = v
            a, b = self.val(av, at, loc), self.val(bv, bt, loc)
            sym = {"add": "+", "sub": "-", "mul": "*", "and": "&", "or": "|", "xor": "^", "shl": "<<", "lshr": ">>"}[op]
            return self.mask(at, "((%s)(%s %s %s))" % (self.cty(at), a, sym, b))
        raise Unsupported("value %r" % (v,))

    def _bitcast(self, e, ft, tt):
        return "RT_BITCAST(%s, %s, %s)" % (self.cty(ft), self.cty(tt), e)

    def const_gep_off(self, bt, idx):
        off = 0; t = bt
        for n, (it, iv) in enumerate(idx):
            if iv[0] != "int": raise Unsupported("non-constant index in constant GEP")
            i = iv[1]
            if n == 0:
                off += i * self.m.size_align(t)[0]
            else:
                rt = self.m.resolve(t)
                if rt.k == "struct":
                    off += self.m.field_off(rt, i); t = rt.a[i]
                elif rt.k in ("arr", "vec"):
                    off += i * self.m.size_align(rt.b)[0]; t = rt.b
                else: raise Unsupported("gep into " + repr(rt))
        return off

    def gref(self, name):
        name = self._alias(name)
        if name in self.m.funcs:
            self.need_func(name)
            return "((char*)&%s)" % self.fname(name)
        if name in self.m.globals:
            if name not in self.globals_used: self.globals_used.append(name)
            return "((char*)g_%s)" % cid(name)
        raise Unsupported("unknown global @" + name)

    def _alias(self, name):
        while name in self.m.aliases:
            a = self.m.aliases[name]
            while a[0] == "ccast": a = a[3]
            if a[0] != "global": raise Unsupported("alias to expression")
            name = a[1]
        return name

    def is_cut(self, name):
        return any(c.search(name) for c in self.cuts)

    def fname(self, name):
        f = self.m.funcs[name]
        if self.is_cut(name): return "cut_" + cid(name)
        if not f.defined and name in self.extern_ok: return cid(name)
        if not f.defined and name in self.stubs: return "stub_" + cid(name)
        return cid(name)

    def need_func(self, name):
        if name not in self.todo_set:
            self.todo_set.add(name); self.todo.append(name)

    # ---- driver
    def emit(self):
        self.todo, self.todo_set = [], set()
        for e in self.entries:
            if e not in self.m.funcs or not self.m.funcs[e].defined:
                raise Unsupported("entry point %s not defined in the IR" % e)
            self.need_func(e)
        bodies, protos = [], []
        gdone = 0
        while self.todo or gdone < len(self.globals_used):
            while self.todo:
                name = self.todo.pop()
                f = self.m.funcs[name]
                protos.append(self.proto(f) + ";")
                if self.is_cut(name):
                    self.cut_hits.add(name)
                    bodies.append(self.proto(f) + " { rt_throw_v(); %s }" % self.dummy_ret(f.ret))
                elif f.defined:
                    self.funcs_emitted.append(name)
                    bodies.append(self.func(f))
                elif name in self.extern_ok:
                    self.externs.add(name)
                elif name in self.stubs:
                    self.used_stubs.add(name)
                    bodies.append(self.stub_body(f, self.stubs[name]))
                elif name.startswith("llvm."):
                    raise Unsupported("intrinsic used as a value: " + name)
                else:
                    raise Unsupported("external function without a stub: %s (add to stubs or cuts)" % name)
            # global initialisers may reference more functions/globals
            while gdone < len(self.globals_used):
                g = self.globals_used[gdone]; gdone += 1
                t, init, _c = self.m.globals[g]
                self.global_init_code(g, t, init)     # registers references (result cached)
        out = ['#include "ir2c_rt.h"', ""]
        # aggregate typedefs: materialise nested ones first (fixpoint), then emit in dependency order
        done = {}
        while len(done) < len(self.struct_types):
            for key, (name, rt) in list(self.struct_types.items()):
                if key not in done:
                    done[key] = ["%s e[%d]" % (self.cty(rt.b), max(rt.a, 1))] if rt.k == "arr" else [self.cty(ft) for ft in rt.a]
        emitted, pending = set(), dict(self.struct_types)
        while pending:
            progress = False
            for key, (name, rt) in list(pending.items()):
                deps = [f.split()[1] for f in done[key] if f.startswith("struct ")]
                if all(d in emitted for d in deps):
                    if rt.k == "arr": out.append("struct %s { %s; };" % (name, done[key][0]))
                    else: out.append("struct %s {%s };" % (name, "".join(" %s f%d;" % (ft, i) for i, ft in enumerate(done[key])) or " char empty_;"))
                    emitted.add(name); del pending[key]; progress = True
            if not progress: raise Unsupported("recursive aggregate type")
        out += protos
        inits = []
        for g in self.globals_used:
            t, init, _c = self.m.globals[g]
            size, al = self.m.size_align(t)
            out.append("static unsigned char g_%s[%d] __attribute__((aligned(%d)));" % (cid(g), max(size, 1), max(al, 8)))
            inits += self._ginit[g]
        out.append("")
        out += bodies
        out.append("void ir2c_init_globals(void) {")
        out += ["  " + s for s in inits]
        out.append("}")
        return "\n".join(out) + "\n"

    _ginit = None

    def global_init_code(self, g, t, init):
        if self._ginit is None: self._ginit = {}
        if g in self._ginit: return
        code = []
        if init is not None:
            self._init_rec("g_" + cid(g), 0, t, init, code)
        self._ginit[g] = code

    def _init_rec(self, base, off, t, v, code):
        rt = self.m.resolve(t) if t.k == "named" else t
        if v[0] in ("zero", "undef"): return
        if v[0] == "bytes":
            b = v[1]
            if any(b):
                lit = "".join("\\x%02x" % c for c in b)
                code.append('memcpy(%s + %d, "%s", %d);' % (base, off, lit, len(b)))
            return
        if v[0] == "agg":
            if rt.k == "struct":
                for i, (ft, fv) in enumerate(v[1]):
                    self._init_rec(base, off + self.m.field_off(rt, i), ft, fv, code)
            else:
                es = self.m.size_align(rt.b)[0]
                for i, (ft, fv) in enumerate(v[1]):
                    self._init_rec(base, off + i * es, ft, fv, code)
            return
        e = self.val(v, rt, {})
        code.append("ST(%s, (char*)%s + %d, %s);" % (self.cty(rt), base, off, e))

    def proto(self, f):
        ps = ", ".join("%s a%d" % (self.cty(t), i) for i, (t, _n) in enumerate(f.params)) or "void"
        if f.varargs: ps += ", ..." if f.params else ""
        return "%s %s(%s)" % (self.cty(f.ret), self.fname(f.name), ps)

    def dummy_ret(self, t):
        if t.k == "void": return "return;"
        if t.k in ("struct", "named"): return "{ %s z = {0}; return z; }" % self.cty(t)
        return "return (%s)0;" % self.cty(t)

    def stub_body(self, f, impl):
        args = ", ".join("a%d" % i for i in range(len(f.params)))
        call = "%s(%s)" % (impl, args)
        if impl.startswith("rt_throw"):
            return self.proto(f) + " { rt_throw_v(); %s }" % self.dummy_ret(f.ret)
        if f.ret.k == "void": return self.proto(f) + " { %s; }" % call
        return self.proto(f) + " { return (%s)%s; }" % (self.cty(f.ret), call)

    # ---- function bodies
    def func(self, f):
        loc, decl = {}, []
        types = {}
        for i, (t, n) in enumerate(f.params):
            loc[n] = "a%d" % i; types[n] = t
        # reachable blocks (ignore unwind edges)
        bmap = {l: ins for l, ins in f.blocks}
        reach, st = [], [f.blocks[0][0]]
        seen = set(st)
        while st:
            l = st.pop(); reach.append(l)
            term = bmap[l][-1]
            succ = []
            if term.op == "br": succ = list(term.a[1:]) if len(term.a) == 3 else [term.a[0]]
            elif term.op == "switch": succ = [term.a[1]] + [c[1] for c in term.a[2]]
            elif term.op == "invoke": succ = [term.a[2][0]]
            for s in succ:
                if s not in seen: seen.add(s); st.append(s)
        order = [l for l, _ in f.blocks if l in seen]
        # declare every result
        pair = {}      # reg -> ('ovf', valvar, flagvar) for with.overflow intrinsics
        for l in order:
            for ins in bmap[l]:
                if ins.res is None: continue
                r = ins.res; types[r] = ins.ty
                if ins.op in ("call", "invoke") and ins.ty.k == "struct" and ins.a[0][0] == "global" and ".with.overflow." in ins.a[0][1]:
                    it = ins.ty.a[0]
                    pair[r] = ("v_%s_v" % cid(r), "v_%s_o" % cid(r))
                    decl.append("%s %s; uint8_t %s;" % (self.cty(it), pair[r][0], pair[r][1]))
                    continue
                if ins.op == "alloca":
                    n = ins.a[0]
                    if n[0] != "int": raise Unsupported("dynamic alloca in " + f.name)
                    size, al = self.m.size_align(ins.ty)
                    al = max(al, ins.a[1] or 1, 8)
                    decl.append("unsigned char m_%s[%d] __attribute__((aligned(%d)));" % (cid(r), max(1, size * n[1]), al))
                    loc[r] = "((char*)m_%s)" % cid(r)
                    continue
                if ins.ty.k == "void": continue
                loc[r] = "v_" + cid(r)
                decl.append("%s v_%s;" % (self.cty(ins.ty), cid(r)))
        self.pair = pair
        body = []
        lab = lambda l: "L_" + cid(l)
        for l in order:
            body.append("%s: ;" % lab(l))
            for ins in bmap[l]:
                if ins.op == "phi": continue
                body += self.instr(f, ins, l, loc, types, bmap, lab)
        return "%s {\n  %s\n%s\n}\n" % (self.proto(f), "\n  ".join(decl), "\n".join("  " + s for s in body))

    def jump(self, frm, to, loc, bmap, lab):
        """goto 'to' from block 'frm', performing the parallel phi copies"""
        cps = []
        for ins in bmap[to]:
            if ins.op != "phi": break
            for (v, l) in ins.a:
                if l == frm:
                    cps.append((ins, v)); break
            else:
                raise Unsupported("phi without incoming for %s" % frm)
        if not cps: return "goto %s;" % lab(to)
        s = "{ "
        for n, (ins, v) in enumerate(cps):
            s += "%s t%d = %s; " % (self.cty(ins.ty), n, self.val(v, ins.ty, loc))
        for n, (ins, v) in enumerate(cps):
            s += "%s = t%d; " % (loc[ins.res], n)
        return s + "goto %s; }" % lab(to)

    def instr(self, f, ins, l, loc, types, bmap, lab):
        op, t, a = ins.op, ins.ty, ins.a
        V = lambda v, ty=None: self.val(v, ty or t, loc)
        R = loc.get(ins.res)
        ct = self.cty(t) if t.k != "void" and op not in ("store", "br", "switch", "ret") else None
        if op in ("add", "sub", "mul"):
            x, y = V(a[0]), V(a[1]); sym = {"add": "+", "sub": "-", "mul": "*"}[op]
            if "nsw" in ins.flags and self.native(t) and t.a >= 32:
                # signed arithmetic so that cbmc's --signed-overflow-check sees the UB the IR flag asserts
                return ["%s = (%s)(%s %s %s);" % (R, ct, self.sext(t, x), sym, self.sext(t, y))]
            if t.a < 32:   # avoid int promotion surprises
                return ["%s = %s;" % (R, self.mask(t, "(%s)((uint32_t)%s %s (uint32_t)%s)" % (ct, x, sym, y)))]
            return ["%s = %s;" % (R, self.mask(t, "(%s)(%s %s %s)" % (ct, x, sym, y)))]
        if op in ("and", "or", "xor"):
            sym = {"and": "&", "or": "|", "xor": "^"}[op]
            return ["%s = (%s)(%s %s %s);" % (R, ct, V(a[0]), sym, V(a[1]))]
        if op in ("udiv", "urem"):
            return ["%s = (%s)(%s %s %s);" % (R, ct, V(a[0]), "/" if op == "udiv" else "%", V(a[1]))]
        if op in ("sdiv", "srem"):
            return ["%s = %s;" % (R, self.mask(t, "(%s)(%s %s %s)" % (ct, self.sext(t, V(a[0])), "/" if op == "sdiv" else "%", self.sext(t, V(a[1])))))]
        if op == "shl":
            w = max(t.a, 32) if t.a <= 32 else t.a
            return ["%s = %s;" % (R, self.mask(t, "(%s)((%s)%s << %s)" % (ct, "uint32_t" if t.a <= 32 else ct, V(a[0]), self.shamt(a[1], t, loc))))]
        if op == "lshr":
            return ["%s = (%s)(%s >> %s);" % (R, ct, V(a[0]), self.shamt(a[1], t, loc))]
        if op == "ashr":
            return ["%s = %s;" % (R, self.mask(t, "(%s)(%s >> %s)" % (ct, self.sext(t, V(a[0])), self.shamt(a[1], t, loc))))]
        if op in ("fadd", "fsub", "fmul", "fdiv"):
            sym = {"fadd": "+", "fsub": "-", "fmul": "*", "fdiv": "/"}[op]
            return ["%s = %s %s %s;" % (R, V(a[0]), sym, V(a[1]))]
        if op == "frem":
            return ["%s = %s(%s, %s);" % (R, {"double": "fmod", "float": "fmodf", "x86_fp80": "fmodl"}[t.k], V(a[0]), V(a[1]))]
        if op == "fneg":
            return ["%s = -%s;" % (R, V(a[0]))]
        if op == "icmp":
            pred, x, y, t = a
            if t.k == "ptr":
                xs, ys = "((uintptr_t)%s)" % V(x), "((uintptr_t)%s)" % V(y)
                if pred in ("eq", "ne"): xs, ys = V(x), V(y)
                sg = False
            else:
                xs, ys = V(x), V(y); sg = pred[0] == "s"
                if sg: xs, ys = self.sext(t, xs), self.sext(t, ys)
            sym = {"eq": "==", "ne": "!=", "ugt": ">", "uge": ">=", "ult": "<", "ule": "<=", "sgt": ">", "sge": ">=", "slt": "<", "sle": "<="}[pred]
            return ["%s = (uint8_t)(%s %s %s);" % (R, xs, sym, ys)]
        if op == "fcmp":
            pred, x, y, t = a; xs, ys = V(x, t), V(y, t)
            un = "(%s != %s || %s != %s)" % (xs, xs, ys, ys)
            base = {"eq": "==", "gt": ">", "ge": ">=", "lt": "<", "le": "<=", "ne": "!="}
            if pred == "true": e = "1"
            elif pred == "false": e = "0"
            elif pred == "ord": e = "!" + un
            elif pred == "uno": e = un
            elif pred[0] == "o":
                e = "(%s %s %s)" % (xs, base[pred[1:]], ys)
                if pred == "one": e = "(!%s && %s)" % (un, e)
            else:
                e = "(%s || %s %s %s)" % (un, xs, base[pred[1:]], ys)
            return ["%s = (uint8_t)%s;" % (R, e)]
        if op == "select":
            ctp, c, x, y = a
            return ["%s = %s ? %s : %s;" % (R, self.val(c, ctp, loc), V(x), V(y))]
        if op in ("trunc", "zext"):
            ft, v = a
            return ["%s = %s;" % (R, self.mask(t, "(%s)%s" % (ct, self.val(v, ft, loc))))]
        if op == "sext":
            ft, v = a
            return ["%s = %s;" % (R, self.mask(t, "(%s)%s" % (ct, self.sext(ft, self.val(v, ft, loc)))))]
        if op in ("fptrunc", "fpext", "uitofp"):
            ft, v = a
            return ["%s = (%s)%s;" % (R, ct, self.val(v, ft, loc))]
        if op == "sitofp":
            ft, v = a
            return ["%s = (%s)%s;" % (R, ct, self.sext(ft, self.val(v, ft, loc)))]
        if op == "fptoui":
            ft, v = a
            return ["%s = %s;" % (R, self.mask(t, "(%s)%s" % (ct, self.val(v, ft, loc))))]
        if op == "fptosi":
            ft, v = a
            return ["%s = %s;" % (R, self.mask(t, "(%s)(%s)%s" % (ct, self.sty(t), self.val(v, ft, loc))))]
        if op == "ptrtoint":
            ft, v = a
            return ["%s = (%s)(uintptr_t)%s;" % (R, ct, self.val(v, ft, loc))]
        if op == "inttoptr":
            ft, v = a
            return ["%s = (char*)(uintptr_t)%s;" % (R, self.val(v, ft, loc))]
        if op in ("bitcast", "addrspacecast"):
            ft, v = a
            e = self.val(v, ft, loc)
            if ft.k == "ptr" and t.k == "ptr": return ["%s = %s;" % (R, e)]
            return ["%s = %s;" % (R, self._bitcast(e, ft, t))]
        if op == "freeze":
            return ["%s = %s;" % (R, V(a[0]))]
        if op == "getelementptr":
            bt, pv, idx = a
            e = self.val(pv, T("ptr", None), loc)
            off = 0; dyn = []; cur = bt
            for n, (it, iv) in enumerate(idx):
                if n == 0:
                    es = self.m.size_align(cur)[0]
                else:
                    rt = self.m.resolve(cur)
                    if rt.k == "struct":
                        if iv[0] != "int": raise Unsupported("dynamic struct index")
                        off += self.m.field_off(rt, iv[1]); cur = rt.a[iv[1]]; continue
                    elif rt.k in ("arr", "vec"):
                        cur = rt.b; es = self.m.size_align(cur)[0]
                    else: raise Unsupported("gep into " + repr(rt))
                if iv[0] == "int":
                    v = iv[1]
                    if v >= 1 << (it.a - 1): v -= 1 << it.a
                    off += v * es
                else:
                    dyn.append("(int64_t)%s * %d" % (self.sext(it, self.val(iv, it, loc)), es))
            terms = dyn + (["%d" % off] if off or not dyn else [])
            if not dyn: return ["%s = %s + (%s);" % (R, e, terms[0])] if off else ["%s = %s;" % (R, e)]
            return ["%s = RT_GEP(%s, %s);" % (R, e, " + ".join(terms))]
        if op == "load":
            if t.k in ("struct", "named", "arr"): raise Unsupported("aggregate load in " + f.name)
            return ["%s = LD(%s, %s);" % (R, ct, self.val(a[0], T("ptr", None), loc))]
        if op == "store":
            if t.k in ("struct", "named", "arr"): raise Unsupported("aggregate store in " + f.name)
            return ["ST(%s, %s, %s);" % (self.cty(t), self.val(a[1], T("ptr", None), loc), V(a[0]))]
        if op == "alloca":
            return []
        if op == "br":
            if len(a) == 1: return [self.jump(l, a[0], loc, bmap, lab)]
            return ["if (%s) %s else %s" % (self.val(a[0], I1, loc), self.jump(l, a[1], loc, bmap, lab), self.jump(l, a[2], loc, bmap, lab))]
        if op == "switch":
            v, d, cases = a
            out = []
            x = V(v)
            for cv, cl in cases:
                out.append("if (%s == %s) %s" % (x, self.val(cv, t, loc), self.jump(l, cl, loc, bmap, lab)))
            out.append(self.jump(l, d, loc, bmap, lab))
            return out
        if op == "ret":
            if not a: return ["return;"]
            return ["return %s;" % V(a[0])]
        if op == "unreachable":
            return ["rt_unreachable();"]
        if op in ("call", "invoke"):
            out = self.call(f, ins, loc)
            if op == "invoke": out.append(self.jump(l, a[2][0], loc, bmap, lab))
            return out
        if op == "extractvalue":
            v, idx = a
            if v[0] == "reg" and v[1] in self.pair:
                return ["%s = %s;" % (R, self.pair[v[1]][idx[0]])]
            if len(idx) == 1 and v[0] == "reg":
                return ["%s = %s.f%d;" % (R, loc[v[1]], idx[0])]
            raise Unsupported("extractvalue " + ins.raw)
        if op == "insertvalue":
            v, et, ev, idx = a
            if len(idx) != 1: raise Unsupported("nested insertvalue")
            out = []
            if v[0] == "reg": out.append("%s = %s;" % (R, loc[v[1]]))
            else: out.append("memset(&%s, 0, sizeof %s);" % (R, R))
            out.append("%s.f%d = %s;" % (R, idx[0], self.val(ev, et, loc)))
            return out
        if op == "atomicrmw":
            bop, pv, v = a; p = self.val(pv, T("ptr", None), loc); x = V(v)
            new = {"add": "%s + %s", "sub": "%s - %s", "and": "%s & %s", "or": "%s | %s", "xor": "%s ^ %s", "xchg": "(void)%s, %s"}.get(bop)
            if new is None: raise Unsupported("atomicrmw " + bop)
            return ["%s = LD(%s, %s);" % (R, ct, p), "ST(%s, %s, (%s)(%s));" % (ct, p, ct, new % (R, x))]
        if op == "cmpxchg":
            raise Unsupported("cmpxchg")
        if op == "fence":
            return []
        if op in ("landingpad", "resume"):
            return ["rt_unreachable();"]
        raise Unsupported("emit " + ins.raw)

    def shamt(self, v, t, loc):
        return self.val(v, t, loc)

    def call(self, f, ins, loc):
        callee, args, _d = ins.a
        t = ins.ty
        R = loc.get(ins.res)
        A = [self.val(v, at, loc) for (at, v) in args]
        asg = ("%s = " % R) if (R and t.k != "void") else ""
        if callee[0] == "global":
            name = self._alias(callee[1])
            if name.startswith("llvm."):
                return self.intrinsic(name, ins, args, A, R, loc)
            if name not in self.m.funcs: raise Unsupported("call to unknown @" + name)
            self.need_func(name)
            g = self.m.funcs[name]
            # cast arguments to the callee's declared parameter types (varargs tail dropped for stubs)
            A2 = A[:len(g.params)] if not g.varargs else A
            return ["%s%s(%s);" % (asg, self.fname(name), ", ".join(A2))]
        # indirect
        fp = self.val(callee, T("ptr", None), loc)
        sig = "%s (*)(%s)" % (self.cty(t), ", ".join(self.cty(at) for (at, _v) in args) or "void")
        return ["%s((%s)%s)(%s);" % (asg, sig, fp, ", ".join(A))]

    def intrinsic(self, name, ins, args, A, R, loc):
        t = ins.ty
        base = name.split(".")[1]
        if base in ("lifetime", "dbg", "assume", "experimental", "invariant", "prefetch", "stacksave", "stackrestore", "donothing", "var"):
            if base == "stacksave": return ["%s = (char*)0;" % R]
            return []
        if base in ("memcpy", "memmove", "memset"):
            n = A[2]
            if base == "memset":
                return ["memset(%s, (int)%s, (size_t)%s);" % (A[0], A[1], n)]
            return ["%s(%s, %s, (size_t)%s);" % (base, A[0], A[1], n)]
        if base == "expect": return ["%s = %s;" % (R, A[0])]
        if base == "trap": return ["rt_trap();"]
        if base in ("fshl", "fshr"):
            w = t.a
            if not self.native(t): raise Unsupported(name)
            x, y, s = A
            ct = self.cty(t)
            sh = "(%s %% %d)" % (s, w)
            if base == "fshl":
                e = "(%s == 0 ? %s : (%s)((%s << %s) | (%s >> (%d - %s))))" % (sh, x, ct, x, sh, y, w, sh)
            else:
                e = "(%s == 0 ? %s : (%s)((%s << (%d - %s)) | (%s >> %s)))" % (sh, y, ct, x, w, sh, y, sh)
            return ["%s = %s;" % (R, e)]
        if base in ("umin", "umax"):
            return ["%s = %s %s %s ? %s : %s;" % (R, A[0], "<" if base == "umin" else ">", A[1], A[0], A[1])]
        if base in ("smin", "smax"):
            return ["%s = %s %s %s ? %s : %s;" % (R, self.sext(t, A[0]), "<" if base == "smin" else ">", self.sext(t, A[1]), A[0], A[1])]
        if base == "abs":
            return ["%s = %s;" % (R, self.mask(t, "(%s)(%s < 0 ? -%s : %s)" % (self.cty(t), self.sext(t, A[0]), self.sext(t, A[0]), self.sext(t, A[0]))))]
        if base in ("uadd", "usub", "umul", "sadd", "ssub", "smul"):
            it = t.a[0]
            if not self.native(it) or it.a > 64: raise Unsupported(name)
            vv, ov = self.pair[ins.res]
            bi = {"uadd": "add", "usub": "sub", "umul": "mul", "sadd": "add", "ssub": "sub", "smul": "mul"}[base]
            if base[0] == "u":
                wide = "unsigned __int128" if it.a == 64 else "uint64_t"
                sym = {"add": "+", "sub": "-", "mul": "*"}[bi]
                return ["{ %s w = (%s)%s %s (%s)%s; %s = (%s)w; %s = (uint8_t)(w != (%s)%s); }" % (wide, wide, A[0], sym, wide, A[1], vv, self.cty(it), ov, wide, vv)]
            wide = "__int128" if it.a == 64 else "int64_t"
            sym = {"add": "+", "sub": "-", "mul": "*"}[bi]
            return ["{ %s w = (%s)%s %s (%s)%s; %s = (%s)w; %s = (uint8_t)(w != (%s)%s); }" % (wide, wide, self.sext(it, A[0]), sym, wide, self.sext(it, A[1]), vv, self.cty(it), ov, wide, self.sext(it, vv))]
        if base == "ctpop":
            return ["%s = (%s)__builtin_popcountll((uint64_t)%s);" % (R, self.cty(t), A[0])]
        if base in ("ctlz", "cttz"):
            w = t.a
            if base == "ctlz":
                return ["%s = (%s)(%s == 0 ? %d : __builtin_clzll((uint64_t)%s) - %d);" % (R, self.cty(t), A[0], w, A[0], 64 - w)]
            return ["%s = (%s)(%s == 0 ? %d : __builtin_ctzll((uint64_t)%s));" % (R, self.cty(t), A[0], w, A[0])]
        if base == "bswap":
            return ["%s = __builtin_bswap%d(%s);" % (R, t.a, A[0])]
        if base in ("fabs", "floor", "ceil", "sqrt", "trunc", "rint", "nearbyint", "round", "log", "exp", "sin", "cos", "pow", "copysign", "minnum", "maxnum"):
            fn = {"minnum": "fmin", "maxnum": "fmax"}.get(base, base) + {"double": "", "float": "f", "x86_fp80": "l"}[t.k]
            return ["%s = %s(%s);" % (R, fn, ", ".join(A))]
        if base == "fmuladd":
            # x86-64 baseline (no FMA): lowered to separate multiply and add
            return ["{ %s m = %s * %s; %s = m + %s; }" % (self.cty(t), A[0], A[1], R, A[2])]
        if base == "fma":
            return ["%s = fma(%s);" % (R, ", ".join(A))]
        if base == "objectsize":
            return ["%s = %s;" % (R, self.lit(-1, t))]
        if base == "is": # llvm.is.constant
            return ["%s = 0;" % R]
        raise Unsupported("intrinsic " + name)


def emit_c(ll_text, entries, cuts=(), stubs=None, externs=()):
    """-> (C text, info dict)"""
    m = Module(ll_text)
    e = Emitter(m, entries, cuts, stubs, externs)
    c = e.emit()
    info = dict(functions=sorted(e.funcs_emitted), stubs=sorted(e.used_stubs), cuts=sorted(e.cut_hits), globals=list(e.globals_used), externs=sorted(e.externs))
    return c, info, m


if __name__ == "__main__":
    import json
    txt = open(sys.argv[1]).read()
    c, info, _m = emit_c(txt, sys.argv[3].split(","), cuts=sys.argv[4].split(",") if len(sys.argv) > 4 and sys.argv[4] else (), externs=sys.argv[5].split(",") if len(sys.argv) > 5 else ())
    open(sys.argv[2], "w").write(c)
    print(json.dumps(info, indent=1))
