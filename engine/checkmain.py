import os, sys
V = os.path.abspath(os.path.join(os.path.dirname(__file__), ".."))
sys.path.insert(0, V)


def replay(path):
    """re-run a recorded counterexample through the real code (same harness binary, native and symbolic mode)
    and re-evaluate the violated obligation numerically"""
    import importlib, json
    v = json.load(open(path))
    pid = v["property"]
    spec = importlib.import_module("spec." + pid)
    if hasattr(spec, "replay"):
        return spec.replay(v)
    from engine.driver import core
    from engine.driver.encode import Encoder
    core.build_instrumented()
    inst = next((i for i in spec.instances("thorough", 1) + spec.instances("quick", 1) if i["name"] == v["instance"]), None)
    if inst is None:
        inst = dict(name=v["instance"], args=v.get("args", []))
    inst["binary"] = core.build_harness(inst.get("harness", spec.HARNESS))
    seeds = {k: float(x) for k, x in v["inputs"].items()}
    tr = core.run_harness(inst["binary"], inst.get("args", []), seeds, concrete=False)
    co = core.run_harness(inst["binary"], inst.get("args", []), seeds, concrete=True)
    bad = core.compare_shadow_native(tr, co)
    print("replay of %s: instance=%s obligation=%s" % (path, v["instance"], v["obligation"]))
    print("native run == symbolic shadow run:", "yes" if not bad else bad[:3])
    free = v.get("free")
    enc = Encoder(tr, free=() if free == "ALL" else free, free_all=(free == "ALL"), max_terms=200000, abstract_big=inst.get("abstract_big", False))
    obs = spec.obligations(enc, inst, tr)
    ob = next((o for o in obs if o.name == v["obligation"]), None)
    if ob is None:
        print("obligation not present on the replayed path"); return 2
    hy, go, detail = core.goal_numeric(enc, ob)
    for w, val, mag, ok in detail:
        print("  %-50s value=%.6g scale=%.3g %s" % (w[:50], val, mag, "ok" if ok else "VIOLATED"))
    print("hypotheses hold:", hy, " goal holds:", go)
    return 1 if (hy and not go) else 0


def main():
    a = sys.argv[1:]
    if not a:
        print("usage: check setup | check <ID> [--tier quick|thorough]"); return 2
    tier = os.environ.get("VERIF_TIER", "quick")
    if "--tier" in a:
        tier = a[a.index("--tier") + 1]
    seed = int(os.environ.get("VERIF_SEED", "1"))
    if a[0] == "setup":
        from engine.driver.core import build_instrumented
        dt = build_instrumented()
        print("instrumented build ready (%.1fs)" % dt)
        return 0
    if a[0] == "replay":
        return replay(a[1])
    pid = a[0]
    import importlib
    spec = importlib.import_module("spec." + pid)
    if hasattr(spec, "main"):
        return spec.main(tier, seed)
    from engine.driver.core import run_symfp_check
    return run_symfp_check(pid, tier, seed)


if __name__ == "__main__":
    sys.exit(main())
