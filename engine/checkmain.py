import os, sys
V = os.path.abspath(os.path.join(os.path.dirname(__file__), ".."))
sys.path.insert(0, V)


def main():
    a = sys.argv[1:]
    if not a:
        print("usage: check setup | check <ID> [--tier quick|thorough]"); return 2
    tier = os.environ.get("VERIF_TIER", "quick")
    if "--tier" in a:
        tier = a[a.index("--tier") + 1]
    seed = int(os.environ.get("VERIF_SEED", "1"))
    if a[0] == "setup":
        from engine.driver.core import build_instrumented
        dt = build_instrumented()
        print("instrumented build ready (%.1fs)" % dt)
        return 0
    pid = a[0]
    import importlib
    spec = importlib.import_module("spec." + pid)
    if hasattr(spec, "main"):
        return spec.main(tier, seed)
    from engine.driver.core import run_symfp_check
    return run_symfp_check(pid, tier, seed)


if __name__ == "__main__":
    sys.exit(main())
