"""SMT back ends: z3 (python API, deterministic rlimit) and cvc5 (CLI) on SMT-LIB2 text."""
import os
import re
import subprocess
import tempfile
import time
from fractions import Fraction

from . import poly as P
from .encode import Constraint

_z3 = None


def z3mod():
    global _z3
    if _z3 is None:
        import z3
        _z3 = z3
    return _z3


class Query:
    """hyps (list of Constraint) /\\ not(goal)  where goal = conjunction of Constraint (or a raw smt string)"""

    def __init__(self, enc, name, hyps, goal, extra_smt=(), goal_any=False):
        self.enc = enc
        self.name = name
        self.hyps = list(hyps)
        self.goal = list(goal)
        self.goal_any = goal_any         # goal is a disjunction instead of a conjunction
        self.extra_smt = list(extra_smt)  # raw extra assertions (strings) using ring variable names
        polys = [c.p for c in self.hyps] + [c.p for c in self.goal]
        self.vars, self.defcons = enc.closure(polys)

    def smt(self, logic="QF_NRA", produce_models=True):
        ring = self.enc.ring
        vs = sorted(self.vars)
        extra_names = set()
        for s in self.extra_smt:
            for tok in re.findall(r"[A-Za-z_][A-Za-z0-9_]*", s):
                if tok in ring.index:
                    extra_names.add(ring.index[tok])
        vs = sorted(set(vs) | extra_names)
        lines = []
        if produce_models:
            lines.append("(set-option :produce-models true)")
        lines.append("(set-logic %s)" % logic)
        for v in vs:
            lines.append("(declare-fun %s () Real)" % ring.names[v])
        for c in self.defcons:
            lines.append("(assert %s) ; def %s" % (c.smt(ring), c.why))
        for c in self.hyps:
            lines.append("(assert %s) ; hyp %s" % (c.smt(ring), c.why))
        for s in self.extra_smt:
            lines.append("(assert %s)" % s)
        gs = [c.smt(ring) for c in self.goal]
        if not gs:
            g = "true"
        elif len(gs) == 1:
            g = gs[0]
        else:
            g = "(%s %s)" % ("or" if self.goal_any else "and", " ".join(gs))
        if gs or not self.extra_smt:
            lines.append("(assert (not %s)) ; negated goal: %s" % (g, self.name))
        # an obligation with an empty goal list carries its (already negated) property in extra_smt
        lines.append("(check-sat)")
        return "\n".join(lines) + "\n", [ring.names[v] for v in vs]

    def smt_linearised(self, produce_models=False):
        """QF_LRA relaxation: every non-linear monomial is replaced by a fresh real (plus 'even power >= 0'). Every model of the
        original formula is a model of the relaxation, so 'unsat' of the relaxation proves the obligation; anything else is not used."""
        from .encode import REL_TXT
        ring = self.enc.ring
        mon = {}

        def ren(p):
            if not p:
                return "0.0"
            terms = []
            for m, c in sorted(p.items()):
                if not m:
                    terms.append(P.smt_rat(c))
                    continue
                if len(m) == 1 and m[0][1] == 1:
                    nm = ring.names[m[0][0]]
                else:
                    nm = mon.get(m)
                    if nm is None:
                        nm = mon[m] = "mono_%d" % len(mon)
                terms.append(nm if c == 1 else "(* %s %s)" % (P.smt_rat(c), nm))
            return terms[0] if len(terms) == 1 else "(+ %s)" % " ".join(terms)

        def con(c):
            cc, prim = P.primitive(c.p)
            rel = c.rel
            if cc < 0 and rel in (2, 3, 4, 5):
                rel = {2: 4, 3: 5, 4: 2, 5: 3}[rel]
            return "(%s %s 0.0)" % (REL_TXT[rel], ren(prim or {}))

        body = []
        for c in self.defcons:
            body.append("(assert %s)" % con(c))
        for c in self.hyps:
            body.append("(assert %s)" % con(c))
        gs = [con(c) for c in self.goal]
        g = "true" if not gs else gs[0] if len(gs) == 1 else "(%s %s)" % ("or" if self.goal_any else "and", " ".join(gs))
        body.append("(assert (not %s))" % g)
        lines = ["(set-logic QF_LRA)"]
        vs = sorted(self.vars)
        for v in vs:
            lines.append("(declare-fun %s () Real)" % ring.names[v])
        # sign axioms (true of the reals, still linear arithmetic + boolean structure): monomial = v * rest
        def name_of(m):
            if len(m) == 1 and m[0][1] == 1:
                return ring.names[m[0][0]]
            nm = mon.get(m)
            if nm is None:
                nm = mon[m] = "mono_%d" % len(mon)
                todo.append(m)
            return nm

        todo = list(mon)
        axioms = []
        done = set()
        while todo:
            m = todo.pop()
            if m in done:
                continue
            done.add(m)
            nm = mon[m]
            if all(e % 2 == 0 for _, e in m):
                axioms.append("(assert (>= %s 0.0))" % nm)
            v, e = m[0]
            rest = (((v, e - 1),) if e > 1 else ()) + tuple(m[1:])
            if not rest:
                continue
            a, b = ring.names[v], name_of(rest)
            axioms.append("(assert (=> (and (> %s 0.0) (> %s 0.0)) (> %s 0.0)))" % (a, b, nm))
            axioms.append("(assert (=> (and (< %s 0.0) (< %s 0.0)) (> %s 0.0)))" % (a, b, nm))
            axioms.append("(assert (=> (and (> %s 0.0) (< %s 0.0)) (< %s 0.0)))" % (a, b, nm))
            axioms.append("(assert (=> (and (< %s 0.0) (> %s 0.0)) (< %s 0.0)))" % (a, b, nm))
            axioms.append("(assert (=> (or (= %s 0.0) (= %s 0.0)) (= %s 0.0)))" % (a, b, nm))
        for m, nm in mon.items():
            lines.append("(declare-fun %s () Real)" % nm)
        lines += axioms
        lines += body
        lines.append("(check-sat)")
        return "\n".join(lines) + "\n", [ring.names[v] for v in vs]

    def nontrivial(self):
        """does the negated goal mention at least one variable"""
        for c in self.goal:
            if not P.is_const(c.p):
                return True
        return False


def _z3_value(z3, val):
    try:
        if z3.is_rational_value(val):
            return float(Fraction(val.numerator_as_long(), val.denominator_as_long()))
        if z3.is_algebraic_value(val):
            a = val.approx(30)
            return float(Fraction(a.numerator_as_long(), a.denominator_as_long()))
    except Exception:
        pass
    try:
        return float(val.as_decimal(30).rstrip("?"))
    except Exception:
        return None


_worker = None


def _start_worker():
    global _worker
    import sys as _sys
    _worker = subprocess.Popen([_sys.executable, "-u", os.path.join(os.path.dirname(os.path.abspath(__file__)), "z3worker.py")],
                               stdin=subprocess.PIPE, stdout=subprocess.PIPE, text=True, bufsize=1)
    return _worker


def _kill_worker():
    global _worker
    if _worker is not None:
        try:
            _worker.kill()
            _worker.wait(timeout=5)
        except Exception:
            pass
    _worker = None


def run_z3(smt, names, rlimit=20000000, seed=0, timeout_ms=0):
    """z3 (python API) in a killable worker subprocess: z3 occasionally ignores its own timeout/rlimit inside nlsat/nla;
    the hard wall-clock limit is timeout_ms + 10 s (default 10 min when no timeout is given). Exceeding it = 'unknown'."""
    import json as _json
    import select
    if os.environ.get("VERIF_Z3_INPROCESS"):
        return _run_z3_inprocess(smt, names, rlimit, seed, timeout_ms)
    t0 = time.time()
    w = _worker if (_worker is not None and _worker.poll() is None) else _start_worker()
    hard = (timeout_ms / 1000.0 + 10.0) if timeout_ms else 600.0
    try:
        w.stdin.write(_json.dumps(dict(smt=smt, rlimit=rlimit, seed=seed, timeout_ms=timeout_ms)) + "\n")
        w.stdin.flush()
        rl, _, _ = select.select([w.stdout], [], [], hard)
        if not rl:
            _kill_worker()
            return "unknown", None, time.time() - t0
        line = w.stdout.readline()
        if not line:
            _kill_worker()
            return "unknown", None, time.time() - t0
        resp = _json.loads(line)
        return resp["result"], resp["model"], time.time() - t0
    except (BrokenPipeError, OSError, ValueError):
        _kill_worker()
        return "unknown", None, time.time() - t0


def _run_z3_inprocess(smt, names, rlimit=20000000, seed=0, timeout_ms=0):
    z3 = z3mod()
    t0 = time.time()
    s = z3.Solver()
    s.set("random_seed", seed)
    if rlimit:
        s.set("rlimit", rlimit)
    if timeout_ms:
        s.set("timeout", timeout_ms)
    try:
        s.from_string(smt)
        r = s.check()
    except z3.Z3Exception as e:
        return "error:%s" % str(e)[:200], None, time.time() - t0
    res = str(r)
    model = None
    if res == "sat":
        m = s.model()
        model = {}
        for d in m.decls():
            model[d.name()] = _z3_value(z3, m[d])
    return res, model, time.time() - t0


def run_cvc5(smt, tlimit_s=20):
    t0 = time.time()
    with tempfile.NamedTemporaryFile("w", suffix=".smt2", delete=False) as f:
        f.write(smt.replace("(set-option :produce-models true)\n", ""))
        path = f.name
    try:
        p = subprocess.run(["cvc5", "--tlimit=%d" % int(tlimit_s * 1000), path], capture_output=True, text=True, timeout=tlimit_s + 10)
        out = (p.stdout + p.stderr).strip()
    except subprocess.TimeoutExpired:
        out = "timeout"
    finally:
        os.unlink(path)
    dt = time.time() - t0
    if "(error" in out:
        return "error:" + out[:200], dt
    first = out.splitlines()[0].strip() if out else ""
    if first in ("sat", "unsat", "unknown"):
        return first, dt
    return "unknown", dt
