"""Loading of symfp traces (written by engine/symfp/rt.cpp)."""
import json
import math


def _num(x):
    if isinstance(x, str):
        return {"nan": math.nan, "inf": math.inf, "-inf": -math.inf}[x]
    return float(x)


class Trace:
    def __init__(self, path):
        with open(path) as f:
            d = json.load(f)
        self.concrete = bool(d["concrete"])
        self.inputs = []            # (name, kind, node, seed)
        self.input_by_name = {}
        for name, kind, node, seed in d["inputs"]:
            t = (name, kind, node, _num(seed))
            self.inputs.append(t)
            self.input_by_name[name] = t
        self.nodes = {}             # id -> (op, a, b, c, v)
        for nid, op, a, b, c, v in d["nodes"]:
            self.nodes[nid] = (op, a, b, c, _num(v))
        self.decisions = [(k, p, a, b, t, _num(kk), fn) for k, p, a, b, t, kk, fn in d["decisions"]]
        self.outputs = {}           # name -> ('n', id, shadow) | ('c', value)
        self.output_order = []
        for name, sym, node, v in d["outputs"]:
            self.outputs[name] = ("n", node, _num(v)) if sym else ("c", _num(v))
            self.output_order.append(name)
        self.events = d["events"]
        self.n_events = d["n_events"]
        self.notes = d["notes"]
        self.opaque_names = d["opaque_names"]
        self.functions = d["functions"]
        self.n_nodes_total = d["n_nodes_total"]

    def out_value(self, name):
        o = self.outputs[name]
        return o[2] if o[0] == "n" else o[1]

    def note(self, key, default=None):
        for k, v in self.notes:
            if k == key:
                return v
        return default

    def op_histogram(self):
        h = {}
        for op, *_ in self.nodes.values():
            h[op] = h.get(op, 0) + 1
        return h

    def path_signature(self):
        return "".join(str(t) for (_, _, _, _, t, _, _) in self.decisions)
