"""z3 worker process: one JSON request per line on stdin -> one JSON response per line on stdout.
Run as a subprocess by solve.run_z3 so that a query on which z3 ignores its timeout can be killed."""
import json
import sys
import time
from fractions import Fraction


def value(z3, val):
    try:
        if z3.is_rational_value(val):
            return float(Fraction(val.numerator_as_long(), val.denominator_as_long()))
        if z3.is_algebraic_value(val):
            a = val.approx(30)
            return float(Fraction(a.numerator_as_long(), a.denominator_as_long()))
    except Exception:
        pass
    try:
        return float(val.as_decimal(30).rstrip("?"))
    except Exception:
        return None


def main():
    import z3
    for line in sys.stdin:
        req = json.loads(line)
        t0 = time.time()
        try:
            s = z3.Solver()
            s.set("random_seed", req.get("seed", 0))
            if req.get("rlimit"):
                s.set("rlimit", req["rlimit"])
            if req.get("timeout_ms"):
                s.set("timeout", req["timeout_ms"])
            s.from_string(req["smt"])
            r = str(s.check())
            model = None
            if r == "sat":
                m = s.model()
                model = {d.name(): value(z3, m[d]) for d in m.decls()}
            resp = dict(result=r, model=model, dt=time.time() - t0)
        except z3.Z3Exception as e:
            resp = dict(result="error:%s" % str(e)[:200], model=None, dt=time.time() - t0)
        sys.stdout.write(json.dumps(resp) + "\n")
        sys.stdout.flush()


if __name__ == "__main__":
    main()
