"""DAG -> polynomial constraint system over Q (DESIGN.md §2.3), regenerated per run.

Encoder(trace, free=..., angle_pins=...) evaluates nodes of the trace to sparse
polynomials in: free inputs, (S,C) pairs of atomic angles, inverse variables
I_k (I_k * den_k = 1), root variables R_k (R_k^2 = rad_k, R_k >= 0), derived
angle variables and uninterpreted-function variables. Every introduced variable
carries its defining constraints; `closure()` collects those needed by a query.
"""
import math
from fractions import Fraction
from math import gcd, isqrt

from . import poly as P

PI = math.pi


class EncodeError(Exception):
    pass


def nice_fraction(v):
    """double -> rational: nearest small-denominator rational if it round-trips, else exact dyadic"""
    if v != v or v in (math.inf, -math.inf):
        raise EncodeError("non-finite constant %r" % v)
    fr = Fraction(v)
    if fr.denominator <= (1 << 20):
        return fr
    for lim in (1000, 10 ** 6, 10 ** 9):
        c = fr.limit_denominator(lim)
        if float(c) == v:
            return c
    return fr


def rat_sqrt(c):
    """exact sqrt of a non-negative rational if it is a perfect square, else None"""
    if c < 0:
        return None
    n, d = c.numerator, c.denominator
    rn, rd = isqrt(n), isqrt(d)
    if rn * rn == n and rd * rd == d:
        return Fraction(rn, rd)
    return None


def lcm(a, b):
    return a * b // gcd(a, b)


REL_TXT = {1: "=", 2: ">", 3: ">=", 4: "<", 5: "<=", 6: "distinct"}
REL_NEG = {1: 6, 2: 5, 3: 4, 4: 3, 5: 2, 6: 1}


class Constraint:
    """poly REL 0"""
    __slots__ = ("rel", "p", "why")

    def __init__(self, rel, p, why=""):
        self.rel, self.p, self.why = rel, p, why

    def negated(self):
        return Constraint(REL_NEG[self.rel], self.p, "not(" + self.why + ")")

    def smt(self, ring):
        # clear denominators for readability / solver friendliness
        c, prim = P.primitive(self.p)
        rel = self.rel
        if c < 0 and rel in (2, 3, 4, 5):
            rel = {2: 4, 3: 5, 4: 2, 5: 3}[rel]
        if not prim:
            prim = {}
        return "(%s %s 0.0)" % (REL_TXT[rel], ring.smt(prim))

    def holds_at(self, ring, vals, tol=0.0):
        x = ring.evalf(self.p, vals)
        if x != x:
            return True      # mentions an abstracted variable without a numeric value: cannot be evaluated
        return {1: abs(x) <= tol, 2: x > -tol, 3: x >= -tol, 4: x < tol, 5: x <= tol, 6: True if tol else x != 0}[self.rel]

    def const_truth(self):
        """if polynomial is constant: exact truth value, else None"""
        if not P.is_const(self.p):
            return None
        x = P.const_val(self.p)
        return {1: x == 0, 2: x > 0, 3: x >= 0, 4: x < 0, 5: x <= 0, 6: x != 0}[self.rel]


class Encoder:
    def __init__(self, trace, free=(), angle_pins=None, pins=None, max_terms=200000, maxL=8, free_all=False, abstract_big=False):
        self.t = trace
        self.ring = P.Ring(max_terms)
        self.free = set(free)
        self.free_all = free_all
        angle_pins = dict(angle_pins or {})
        exact_pins = angle_pins.pop("__exact__", {})
        self.angle_pins = angle_pins   # input name -> (Fraction w, L0) with w = tan(q/(2 L0))
        self.pins = dict(pins or {})               # input name -> exact Fraction (overrides seed)
        for k_, v_ in exact_pins.items():
            self.pins.setdefault(k_, v_)
        self.maxL = maxL
        self.abstract_big = abstract_big   # products beyond max_terms become opaque variables (sound for proving)
        self.memo = {}                 # node id -> poly
        self.vals = {}                 # var index -> float value at the seed
        self.defs = {}                 # var index -> list[Constraint] (defining constraints)
        self.assumptions = []          # side conditions introduced (text)
        self.inv_cache = {}
        self.inv_den = {}
        self.inv_order = []
        self.root_cache = {}
        self.uf_cache = {}
        self.atoms = {}                # atom key -> dict(L=, S=, C=, exact=(s,c)|None, seed=float)
        self.derived_angles = {}       # node id -> var index of angle value
        self.input_var = {}            # input name -> var index (free inputs)
        self.tan_memo = {}
        self.sincos_memo = {}
        self.form_memo = {}
        self.stats = {"nodes_encoded": 0, "inv_vars": 0, "root_vars": 0, "angle_atoms": 0, "uf_vars": 0}
        self._prepass_angles()

    # ------------------------------------------------------------------ basics
    def is_free(self, name):
        return self.free_all or name in self.free

    def input_poly(self, name, node):
        nm, kind, nid, seed = self.t.input_by_name[name]
        if self.is_free(name):
            vi = self.input_var.get(name)
            if vi is None:
                vi = self.ring.var("x_" + sanitize(name), "free")
                self.input_var[name] = vi
                self.vals[vi] = seed
            return self.ring.v(vi)
        if name in self.pins:
            return P.const(self.pins[name])
        if name in self.angle_pins:
            # angle used as a plain number while pinned: irrational; keep a dedicated variable,
            # independent of its (S,C) pair (sound superset, DESIGN §2.3)
            vi = self.input_var.get(name)
            if vi is None:
                vi = self.ring.var("x_" + sanitize(name), "pinned-angle-value")
                self.input_var[name] = vi
                self.vals[vi] = seed
                self.assumptions.append("pinned angle %s also occurs outside trig: its value is a free variable there" % name)
            return self.ring.v(vi)
        return P.const(nice_fraction(seed))

    def poly(self, nid):
        r = self.memo.get(nid)
        if r is not None:
            return r
        # iterative post-order to avoid recursion limits
        stack = [nid]
        nodes = self.t.nodes
        memo = self.memo
        while stack:
            n = stack[-1]
            if n in memo:
                stack.pop(); continue
            op, a, b, c, v = nodes[n]
            if op in ("add", "sub", "mul", "div"):
                pend = [x for x in (a, b) if x not in memo]
            elif op in ("neg", "sqrt", "cbrt", "exp", "log", "op1", "tan"):
                pend = [a] if a not in memo else []
            elif op in ("pow", "op2"):
                pend = [x for x in (a, b) if x not in memo]
            else:
                pend = []       # const, input, sin, cos, asin, acos, atan, atan2 handle children themselves
            if pend:
                stack.extend(pend); continue
            memo[n] = self._encode(n, op, a, b, c, v)
            self.stats["nodes_encoded"] += 1
            stack.pop()
        return memo[nid]

    def _encode(self, n, op, a, b, c, v):
        R = self.ring
        m = self.memo
        if op == "const":
            return P.const(nice_fraction(v))
        if op == "input":
            name = self.t.inputs[a][0]
            return self.input_poly(name, n)
        if op == "add":
            return P.add(m[a], m[b])
        if op == "sub":
            return P.sub(m[a], m[b])
        if op == "neg":
            return P.neg(m[a])
        if op == "mul":
            if not self.abstract_big:
                return R.mul(m[a], m[b])
            try:
                return R.mul(m[a], m[b])
            except P.TooBig:
                return self.opaque_node(n, v)
        if op == "div":
            if not self.abstract_big:
                return R.mul(m[a], self.inv(m[b]))
            try:
                return R.mul(m[a], self.inv(m[b]))
            except P.TooBig:
                return self.opaque_node(n, v)
        if op == "sqrt":
            return self.root(m[a], 2, v)
        if op == "cbrt":
            return self.root(m[a], 3, v)
        if op in ("sin", "cos"):
            s, cc = self.sincos(a)
            return s if op == "sin" else cc
        if op == "tan":
            s, cc = self.sincos(a)
            return R.mul(s, self.inv(cc))
        if op in ("asin", "acos", "atan", "atan2"):
            return R.v(self.derived_angle(n))
        if op == "exp":
            return self.uf("exp", (m[a],), v)
        if op == "log":
            return self.uf("log", (m[a],), v)
        if op == "pow":
            e = nice_fraction(self.t.nodes[b][4])
            return self.uf("pow[%s]" % e, (m[a],), v)
        if op == "op1":
            return self.uf(self.t.opaque_names[c], (m[a],), v)
        if op == "op2":
            return self.uf(self.t.opaque_names[c], (m[a], m[b]), v)
        raise EncodeError("unknown op " + op)

    # ------------------------------------------------------------------ inverse / roots / uf
    def inv(self, p):
        if not p:
            # the divisor is identically zero over the reals and non-zero only by rounding in the double run:
            # the quotient has no real-arithmetic meaning; abstract it by a fresh unconstrained variable
            self.stats["divisions_by_rounding_residue_abstracted"] = self.stats.get("divisions_by_rounding_residue_abstracted", 0) + 1
            vi = self.ring.var("Z%d" % self.stats["divisions_by_rounding_residue_abstracted"], "abstracted")
            self.vals[vi] = math.nan
            self.defs.setdefault(vi, [])
            self.assumptions.append("a division by a quantity that is exactly zero over the reals (rounding residue) was abstracted to an arbitrary real")
            return self.ring.v(vi)
        if P.is_const(p):
            return P.const(1 / P.const_val(p))
        # algebraic constant A + B*R (single square-root variable with constant radicand): rationalise
        vs = self.ring.vars_of(p)
        if len(vs) == 1:
            (rv,) = vs
            rr = getattr(self, "root_rad", {}).get(rv)
            if rr is not None and rr[0] == 2 and P.is_const(rr[1]) and self.ring.degree_in(p, rv) == 1:
                A = p.get((), Fraction(0))
                B = p.get(((rv, 1),), Fraction(0))
                nrm = A * A - B * B * P.const_val(rr[1])
                if nrm != 0:
                    return {k2: v2 for k2, v2 in (((), A / nrm), (((rv, 1),), -B / nrm)) if v2}
        content, prim = P.monic(p)
        k = P.key(prim)
        vi = self.inv_cache.get(k)
        if vi is None:
            vi = self.ring.var("I%d" % len(self.inv_cache), "inv")
            self.inv_cache[k] = vi
            den = self.ring.evalf(prim, self.vals)
            self.vals[vi] = 1.0 / den if den else math.inf
            self.defs[vi] = [Constraint(1, P.sub(self.ring.mul(prim, self.ring.v(vi)), P.const(1)), "I*den=1")]
            self.inv_den[vi] = prim
            self.inv_order.append(vi)
            self.stats["inv_vars"] += 1
        return P.scale(self.ring.v(vi), 1 / content)

    def root(self, p, n, shadow):
        if not p:
            return {}
        if P.is_const(p):
            c = P.const_val(p)
            if n == 2:
                r = rat_sqrt(c)
                if r is not None:
                    return P.const(r)
                if c < 0:
                    raise EncodeError("sqrt of negative constant")
        content, prim = P.monic(p)
        s = None
        if n == 2 and content > 0:
            s = rat_sqrt(content)
        if s is None:
            s, rad = Fraction(1), p
        else:
            rad = prim
        k = (n, P.key(rad))
        vi = self.root_cache.get(k)
        if vi is None:
            vi = self.ring.var("R%d" % len(self.root_cache), "root")
            self.root_cache[k] = vi
            x = self.ring.evalf(rad, self.vals)
            self.vals[vi] = math.sqrt(max(x, 0.0)) if n == 2 else math.copysign(abs(x) ** (1.0 / 3), x)   # radicand exactly 0 may evaluate to -1e-17
            d = [Constraint(1, P.sub({((vi, n),): Fraction(1)}, rad), "R^%d=rad" % n)]
            if n == 2:
                d.append(Constraint(3, self.ring.v(vi), "R>=0"))
                d.append(Constraint(3, rad, "rad>=0"))
                self.ring.add_square_rule(vi, rad)
            self.defs[vi] = d
            self.root_rad = getattr(self, "root_rad", {})
            self.root_rad[vi] = (n, rad)
            self.stats["root_vars"] += 1
        return P.scale(self.ring.v(vi), s)

    def opaque_node(self, nid, shadow):
        """the value of this node is abstracted by a fresh real variable (identical node -> identical variable)"""
        vi = self.ring.var("A%d" % nid, "abstracted")
        self.vals[vi] = shadow
        self.defs.setdefault(vi, [])
        self.stats["abstracted_nodes"] = self.stats.get("abstracted_nodes", 0) + 1
        return self.ring.v(vi)

    def uf(self, fname, args, shadow):
        k = (fname,) + tuple(P.key(a) for a in args)
        vi = self.uf_cache.get(k)
        if vi is None:
            if all(P.is_const(a) for a in args):
                self.assumptions.append("constant %s(%s) kept as an uninterpreted real" % (fname, ",".join(str(P.const_val(a)) for a in args)))
            vi = self.ring.var("U%d_%s" % (len(self.uf_cache), sanitize(fname)), "uf")
            self.uf_cache[k] = vi
            self.vals[vi] = shadow
            self.defs[vi] = []
            self.stats["uf_vars"] += 1
            self.uf_info = getattr(self, "uf_info", {})
            self.uf_info[vi] = (fname, args)
        return self.ring.v(vi)

    # ------------------------------------------------------------------ angles
    def angle_form(self, nid):
        """(dict atom->Fraction coeff, Fraction offset in units of pi) ; atoms: ('in',name) | ('n',nid)"""
        r = self.form_memo.get(nid)
        if r is not None:
            return r
        op, a, b, c, v = self.t.nodes[nid]
        res = None
        if op == "input":
            name = self.t.inputs[a][0]
            if self.is_free(name) or name in self.angle_pins:
                res = ({("in", name): Fraction(1)}, Fraction(0))
            else:
                val = self.pins.get(name, None)
                val = float(val) if val is not None else v
                res = self._const_form(val, nid)
        elif op == "const":
            res = self._const_form(v, nid)
        elif op in ("add", "sub"):
            fa, oa = self.angle_form(a)
            fb, ob = self.angle_form(b)
            sgn = 1 if op == "add" else -1
            f = dict(fa)
            for k, cf in fb.items():
                f[k] = f.get(k, 0) + sgn * cf
                if not f[k]:
                    del f[k]
            res = (f, oa + sgn * ob)
        elif op == "neg":
            fa, oa = self.angle_form(a)
            res = ({k: -cf for k, cf in fa.items()}, -oa)
        elif op in ("mul", "div"):
            ca, cb = self.cval(a), self.cval(b)
            if op == "mul" and ca is not None:
                fb, ob = self.angle_form(b)
                res = ({k: x * ca for k, x in fb.items()}, ob * ca)
            elif cb is not None and cb != 0:
                fa, oa = self.angle_form(a)
                cf = cb if op == "mul" else 1 / cb
                res = ({k: x * cf for k, x in fa.items()}, oa * cf)
        if res is None:
            res = ({("n", nid): Fraction(1)}, Fraction(0))
        self.form_memo[nid] = res
        return res

    def cval(self, nid):
        """exact rational value of a node that does not depend on any free / angle input, else None"""
        memo = self.__dict__.setdefault("_cval", {})
        if nid in memo:
            return memo[nid]
        op, a, b, c, v = self.t.nodes[nid]
        r = None
        if op == "const":
            r = nice_fraction(v) if math.isfinite(v) else None
        elif op == "input":
            name = self.t.inputs[a][0]
            if not self.is_free(name) and name not in self.angle_pins:
                r = Fraction(self.pins[name]) if name in self.pins else nice_fraction(v)
        elif op in ("add", "sub", "mul", "div"):
            x, y = self.cval(a), self.cval(b)
            if x is not None and y is not None:
                if op == "add": r = x + y
                elif op == "sub": r = x - y
                elif op == "mul": r = x * y
                elif y != 0: r = x / y
        elif op == "neg":
            x = self.cval(a)
            r = -x if x is not None else None
        memo[nid] = r
        return r

    def _const_form(self, v, nid):
        if v == 0:
            return ({}, Fraction(0))
        k = Fraction(v / PI).limit_denominator(2)
        if abs(float(k) * PI - v) <= 4e-16 * max(1.0, abs(v)) and k != 0:
            return ({}, k)
        return ({("n", nid): Fraction(1)}, Fraction(0))

    def _prepass_angles(self):
        """determine per-atom LCD over every trig argument in the trace"""
        self.atom_L = {}
        for nid, (op, a, b, c, v) in self.t.nodes.items():
            if op in ("sin", "cos", "tan"):
                try:
                    f, off = self.angle_form(a)
                except P.TooBig:
                    raise
                for k, cf in f.items():
                    self.atom_L[k] = lcm(self.atom_L.get(k, 1), cf.denominator)
        # atoms whose L is too large, or whose multiples are too large, become opaque per-node atoms
        self.form_override = set()
        for nid, (op, a, b, c, v) in self.t.nodes.items():
            if op in ("sin", "cos", "tan"):
                f, off = self.angle_form(a)
                bad = False
                for k, cf in f.items():
                    L = self.atom_L[k]
                    if L > self.maxL or abs(cf * L) > 12:
                        bad = True
                if off.denominator not in (1, 2):
                    bad = True
                if bad:
                    self.form_memo[a] = ({("n", a): Fraction(1)}, Fraction(0))
                    self.atom_L.setdefault(("n", a), 1)

    def atom(self, key):
        at = self.atoms.get(key)
        if at is not None:
            return at
        L = self.atom_L.get(key, 1)
        R = self.ring
        if key[0] == "in":
            name = key[1]
            seed = self.t.input_by_name[name][3]
            base = sanitize(name) + ("_d%d" % L if L > 1 else "")
            if not self.is_free(name) and name in self.angle_pins and self.angle_pins[name][1] % L == 0:
                w, L0 = self.angle_pins[name]           # w = tan(q / (2 L0)): exact (sin,cos) of q/L0
                s, c = 2 * w / (1 + w * w), (1 - w * w) / (1 + w * w)
                ss, cc = P.const(s), P.const(c)
                ss, cc = self._multiple(ss, cc, L0 // L)
                at = dict(L=L, exact=(ss, cc), seed=seed / L)
                self.atoms[key] = at
                return at
            if not self.is_free(name) and name in self.angle_pins:
                self.assumptions.append("pinned angle %s/%d: (S,C) left free on the unit circle (superset)" % (name, L))
        else:
            nid = key[1]
            seed = self.t.nodes[nid][4]
            base = "n%d" % nid + ("_d%d" % L if L > 1 else "")
            op = self.t.nodes[nid][0]
            if op in ("asin", "acos", "atan", "atan2") and L == 1:
                self.derived_angle(nid)
                return self.atoms[key]
        si, ci = R.trig_pair(base)
        self.vals[si] = math.sin(seed / L)
        self.vals[ci] = math.cos(seed / L)
        # S^2 + C^2 = 1 is built into the normal form; also given to the solver as a definition of S
        unit = Constraint(1, P.sub(P.add(R.pow(R.v(si), 2) if False else {((si, 2),): Fraction(1)}, {((ci, 2),): Fraction(1)}), P.const(1)), "S^2+C^2=1")
        self.defs[si] = [unit]
        self.defs[ci] = [unit]
        at = dict(L=L, exact=None, S=si, C=ci, seed=seed / L)
        self.atoms[key] = at
        self.stats["angle_atoms"] += 1
        return at

    def derived_angle(self, nid):
        """angle value produced by asin/acos/atan/atan2: a variable TH with its (S,C) pair"""
        vi = self.derived_angles.get(nid)
        if vi is not None:
            return vi
        op, a, b, c, v = self.t.nodes[nid]
        R = self.ring
        vi = R.var("TH%d" % nid, "angle-value")
        self.derived_angles[nid] = vi
        self.vals[vi] = v
        si, ci = R.trig_pair("th%d" % nid)
        self.vals[si] = math.sin(v)
        self.vals[ci] = math.cos(v)
        S, C = R.v(si), R.v(ci)
        unit = Constraint(1, P.sub(P.add({((si, 2),): Fraction(1)}, {((ci, 2),): Fraction(1)}), P.const(1)), "S^2+C^2=1")
        d = [unit]
        if op == "atan2":
            y, x = self.poly(a), self.poly(b)
            r = self.root(P.add(R.mul(x, x), R.mul(y, y)), 2, math.hypot(self.ring.evalf(x, self.vals), self.ring.evalf(y, self.vals)))
            d.append(Constraint(1, P.sub(R.mul(C, r), x), "C*r=x"))
            d.append(Constraint(1, P.sub(R.mul(S, r), y), "S*r=y"))
            d.append(Constraint(2, r, "r>0"))
            self.assumptions.append("atan2 argument not (0,0)")
            lo, hi = -PI, PI
        elif op == "asin":
            x = self.poly(a)
            d.append(Constraint(1, P.sub(S, x), "S=x"))
            d.append(Constraint(3, C, "C>=0"))
            lo, hi = -PI / 2, PI / 2
        elif op == "acos":
            x = self.poly(a)
            d.append(Constraint(1, P.sub(C, x), "C=x"))
            d.append(Constraint(3, S, "S>=0"))
            lo, hi = 0.0, PI
        else:  # atan
            x = self.poly(a)
            d.append(Constraint(1, P.sub(S, R.mul(x, C)), "S=x*C"))
            d.append(Constraint(2, C, "C>0"))
            lo, hi = -PI / 2, PI / 2
        # range of the angle value (rational enclosure of pi)
        d.append(Constraint(3, P.sub(R.v(vi), P.const(Fraction(lo).limit_denominator(10 ** 7) - Fraction(1, 10 ** 6))), "TH>=lo"))
        d.append(Constraint(5, P.sub(R.v(vi), P.const(Fraction(hi).limit_denominator(10 ** 7) + Fraction(1, 10 ** 6))), "TH<=hi"))
        self.defs[vi] = d
        self.defs[si] = d
        self.defs[ci] = d
        self.atoms[("n", nid)] = dict(L=1, exact=None, S=si, C=ci, seed=v, TH=vi)
        self.stats["angle_atoms"] += 1
        return vi

    def _sc_atom(self, key):
        at = self.atom(key)
        if at["exact"] is not None:
            return at["exact"]
        return self.ring.v(at["S"]), self.ring.v(at["C"])

    def _multiple(self, s, c, n):
        """(sin, cos) of n*alpha from (s,c) of alpha, n integer"""
        R = self.ring
        if n < 0:
            ss, cc = self._multiple(s, c, -n)
            return P.neg(ss), cc
        rs, rc = {}, P.const(1)
        bs, bc = s, c
        while n:
            if n & 1:
                rs, rc = P.add(R.mul(rs, bc), R.mul(rc, bs)), P.sub(R.mul(rc, bc), R.mul(rs, bs))
            n >>= 1
            if n:
                bs, bc = P.scale(R.mul(bs, bc), 2), P.sub(R.mul(bc, bc), R.mul(bs, bs))
        return rs, rc

    def sincos(self, arg):
        r = self.sincos_memo.get(arg)
        if r is not None:
            return r
        R = self.ring
        f, off = self.angle_form(arg)
        s, c = {}, P.const(1)
        for key in sorted(f, key=repr):
            cf = f[key]
            L = self.atom_L.get(key, 1)
            n = cf * L
            if n.denominator != 1:
                raise EncodeError("non-integer angle multiple")
            a_s, a_c = self._sc_atom(key)
            ms, mc = self._multiple(a_s, a_c, int(n))
            s, c = P.add(R.mul(s, mc), R.mul(c, ms)), P.sub(R.mul(c, mc), R.mul(s, ms))
        # offset: multiple of pi/2
        q = int(off * 2) % 4
        for _ in range(q):
            s, c = c, P.neg(s)
        self.sincos_memo[arg] = (s, c)
        return s, c

    # ------------------------------------------------------------------ derivatives (forward mode over the DAG)
    def tangent(self, nid, tangents, tag):
        """d(node)/dt given d(input)/dt = tangents[name] (polys); tag identifies the tangent set (memo key)"""
        memo = self.tan_memo.setdefault(tag, {})
        r = memo.get(nid)
        if r is not None:
            return r
        nodes = self.t.nodes
        R = self.ring
        stack = [nid]
        while stack:
            n = stack[-1]
            if n in memo:
                stack.pop(); continue
            op, a, b, c, v = nodes[n]
            if op in ("add", "sub", "mul", "div", "atan2", "op2"):
                kids = (a, b)
            elif op in ("const", "input"):
                kids = ()
            else:
                kids = (a,)
            pend = [k for k in kids if k not in memo]
            if pend:
                stack.extend(pend); continue
            stack.pop()
            if op == "const":
                t = {}
            elif op == "input":
                t = tangents.get(self.t.inputs[a][0], {})
            elif op == "add":
                t = P.add(memo[a], memo[b])
            elif op == "sub":
                t = P.sub(memo[a], memo[b])
            elif op == "neg":
                t = P.neg(memo[a])
            elif op == "mul":
                ta, tb = memo[a], memo[b]
                t = {}
                if ta:
                    t = R.mul(ta, self.poly(b))
                if tb:
                    t = P.add(t, R.mul(self.poly(a), tb))
            elif op == "div":
                ta, tb = memo[a], memo[b]
                if not ta and not tb:
                    t = {}
                else:
                    num = ta
                    if tb:
                        num = P.sub(ta, R.mul(self.poly(n), tb))
                    t = R.mul(num, self.inv(self.poly(b)))
            elif op in ("sin", "cos", "tan"):
                ta = memo[a]
                if not ta:
                    t = {}
                else:
                    s, cc = self.sincos(a)
                    if op == "sin":
                        t = R.mul(cc, ta)
                    elif op == "cos":
                        t = P.neg(R.mul(s, ta))
                    else:
                        ic = self.inv(cc)
                        t = R.mul(R.mul(ic, ic), ta)
            elif op == "sqrt":
                ta = memo[a]
                t = R.mul(ta, self.inv(P.scale(self.poly(n), 2))) if ta else {}
            elif op == "cbrt":
                ta = memo[a]
                t = R.mul(ta, self.inv(P.scale(R.mul(self.poly(n), self.poly(n)), 3))) if ta else {}
            elif op == "atan2":
                ty, tx = memo[a], memo[b]
                if not ty and not tx:
                    t = {}
                else:
                    y, x = self.poly(a), self.poly(b)
                    num = P.sub(R.mul(x, ty), R.mul(y, tx))
                    t = R.mul(num, self.inv(P.add(R.mul(x, x), R.mul(y, y))))
            elif op in ("asin", "acos", "atan"):
                ta = memo[a]
                if not ta:
                    t = {}
                else:
                    self.poly(n)
                    at = self.atoms[("n", n)]
                    S, C = R.v(at["S"]), R.v(at["C"])
                    if op == "asin":
                        t = R.mul(ta, self.inv(C))
                    elif op == "acos":
                        t = P.neg(R.mul(ta, self.inv(S)))
                    else:
                        x = self.poly(a)
                        t = R.mul(ta, self.inv(P.add(P.const(1), R.mul(x, x))))
            elif op == "exp":
                ta = memo[a]
                t = R.mul(self.poly(n), ta) if ta else {}
            elif op == "log":
                ta = memo[a]
                t = R.mul(ta, self.inv(self.poly(a))) if ta else {}
            elif op == "pow":
                ta = memo[a]
                if not ta:
                    t = {}
                else:
                    e = nice_fraction(nodes[b][4])
                    t = R.mul(P.scale(R.mul(self.poly(n), self.inv(self.poly(a))), e), ta)
            else:
                ta = memo[a]
                tb = memo[b] if op == "op2" else {}
                if ta or tb:
                    raise EncodeError("derivative through opaque function " + op)
                t = {}
            memo[n] = t
        return memo[nid]

    def clear_inverses(self, p, max_terms=None):
        """multiply p by powers of the inverse variables' denominators until no inverse variable is left.
        Returns (q, denominators_used): p = 0  <=>  q = 0 given every I_k * den_k = 1."""
        R = self.ring
        used = []
        for vi in reversed(self.inv_order):
            d = R.degree_in(p, vi)
            if d == 0:
                continue
            den = self.inv_den[vi]
            used.append(vi)
            pw = [P.const(1)]
            for _ in range(d):
                pw.append(R.mul(pw[-1], den))
            out = {}
            for m, c in p.items():
                e = 0
                rest = []
                for (v, ex) in m:
                    if v == vi:
                        e = ex
                    else:
                        rest.append((v, ex))
                t = R.mul({tuple(rest): c}, pw[d - e])
                out = P.add(out, t)
            p = out
        return p, used

    # ------------------------------------------------------------------ outputs, path condition
    def out(self, name):
        o = self.t.outputs[name]
        if o[0] == "c":
            return P.const(nice_fraction(o[1]))
        return self.poly(o[1])

    def out_tangent(self, name, tangents, tag):
        o = self.t.outputs[name]
        if o[0] == "c":
            return {}
        return self.tangent(o[1], tangents, tag)

    def path_condition(self, upto=None):
        """constraints of the executed path that still mention a variable; raises if a pinned-only literal is false"""
        out = []
        R = self.ring
        decs = self.t.decisions if upto is None else self.t.decisions[:upto]
        for idx, (kind, pred, a, b, taken, k, fn) in enumerate(decs):
            if kind == 0:
                p = P.sub(self.poly(a), self.poly(b))
                rel = pred if taken else REL_NEG[pred]
                cs = [Constraint(rel, p, "d%d@%s" % (idx, short_fn(fn)))]
            else:
                x = self.poly(a)
                kk = Fraction(k)
                if pred == 0:   # trunc toward zero
                    if kk > 0:
                        cs = [Constraint(3, P.sub(x, P.const(kk))), Constraint(4, P.sub(x, P.const(kk + 1)))]
                    elif kk < 0:
                        cs = [Constraint(5, P.sub(x, P.const(kk))), Constraint(2, P.sub(x, P.const(kk - 1)))]
                    else:
                        cs = [Constraint(2, P.sub(x, P.const(-1))), Constraint(4, P.sub(x, P.const(1)))]
                elif pred == 1:  # floor
                    cs = [Constraint(3, P.sub(x, P.const(kk))), Constraint(4, P.sub(x, P.const(kk + 1)))]
                elif pred == 2:  # ceil
                    cs = [Constraint(5, P.sub(x, P.const(kk))), Constraint(2, P.sub(x, P.const(kk - 1)))]
                else:            # round to nearest
                    cs = [Constraint(3, P.sub(x, P.const(kk - Fraction(1, 2)))), Constraint(5, P.sub(x, P.const(kk + Fraction(1, 2))))]
                for cc in cs:
                    cc.why = "int%d@%s" % (idx, short_fn(fn))
            for cc in cs:
                tv = cc.const_truth()
                if tv is None:
                    # a literal whose exact-arithmetic value at the seed has the wrong sign by less than rounding
                    # (e.g. an error estimate that is exactly 0.0 in the double run but a 1e-38 residue over the
                    # rationals because decimal method coefficients are not exact) is rounding-dependent: dropped.
                    try:
                        strict = cc.holds_at(self.ring, self.vals, 0.0)
                        loose = strict or self._holds_scaled(cc, 1e-12) or cc.holds_at(self.ring, self.vals, 1e-9)
                    except (KeyError, OverflowError):
                        strict = loose = True
                    if not strict and loose:
                        self.stats["literals_rounding_dependent_dropped"] = self.stats.get("literals_rounding_dependent_dropped", 0) + 1
                        continue
                    out.append((idx, cc))
                elif not tv:
                    # the literal no longer mentions a variable and is false in exact arithmetic: the two sides are
                    # equal over the reals and differ only by rounding in the double execution (e.g. pivot ties).
                    # The executed path is kept (it is what the real code did); the literal is dropped and counted.
                    self.stats["literals_tied_in_exact_arithmetic"] = self.stats.get("literals_tied_in_exact_arithmetic", 0) + 1
        return out

    def _holds_scaled(self, c, rtol):
        val = 0.0
        mag = 0.0
        for m, cf in c.p.items():
            t = cf.numerator / cf.denominator
            for vi, ex in m:
                t *= self.vals[vi] ** ex
            val += t
            mag += abs(t)
        th = rtol * max(mag, 1e-300)
        return {1: abs(val) <= th, 2: val > -th, 3: val >= -th, 4: val < th, 5: val <= th, 6: True}[c.rel]

    def closure(self, polys):
        """defining constraints of every defined variable reachable from the given polynomials"""
        seen = set()
        todo = []
        for p in polys:
            todo.extend(self.ring.vars_of(p))
        cons = []
        cons_seen = set()
        while todo:
            v = todo.pop()
            if v in seen:
                continue
            seen.add(v)
            for c in self.defs.get(v, ()):
                if id(c) in cons_seen:
                    continue
                cons_seen.add(id(c))
                cons.append(c)
                todo.extend(self.ring.vars_of(c.p))
        return seen, cons

    def check_numeric(self, names=None, rtol=1e-7, atol=1e-9):
        """encoder == shadow at the seed, for the given outputs (default all). returns list of mismatches"""
        bad = []
        for name in (names or self.t.output_order):
            o = self.t.outputs[name]
            if o[0] == "c":
                continue
            val = self.ring.evalf(self.poly(o[1]), self.vals)
            sh = o[2]
            if not (abs(val - sh) <= atol + rtol * max(abs(val), abs(sh))):
                bad.append((name, val, sh))
        return bad


def sanitize(s):
    return "".join(ch if ch.isalnum() else "_" for ch in s)


def short_fn(fn):
    return fn[:60] if fn else "?"
