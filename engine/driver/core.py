"""Check driver for Engine S (symfp): builds, runs harnesses, encodes, solves, replays, writes evidence."""
import hashlib
import json
import math
import os
import random
import struct
import subprocess
import sys
import time
import traceback
from fractions import Fraction

from . import poly as P
from .dag import Trace
from .encode import Constraint, Encoder, EncodeError
from .solve import Query, run_cvc5, run_z3

VERIF = os.path.abspath(os.path.join(os.path.dirname(__file__), "..", ".."))
BUILD = os.path.join(VERIF, ".build")
REPO = os.environ.get("VERIF_REPO", "/repo")
SUB = "symfp" if REPO == "/repo" else "alt-" + hashlib.md5((REPO + "\n").encode()).hexdigest()[:10]
INCLUDES = [
    "SimTKcommon/include", "SimTKcommon/BigMatrix/include", "SimTKcommon/Geometry/include",
    "SimTKcommon/Mechanics/include", "SimTKcommon/Polynomial/include", "SimTKcommon/Random/include",
    "SimTKcommon/Scalar/include", "SimTKcommon/Simulation/include", "SimTKcommon/SmallMatrix/include",
    "SimTKmath/include", "SimTKmath/Geometry/include", "SimTKmath/Integrators/include",
    "SimTKmath/Integrators/src/CPodes/sundials/include", "SimTKmath/LinearAlgebra/include",
    "SimTKmath/Optimizers/include", "Simbody/include", "Simbody/Visualizer/include",
    # internal headers reachable from harnesses
    "Simbody/src", "SimTKmath/Integrators/src", "SimTKmath/Geometry/src", "SimTKcommon/src",
    "SimTKmath/Optimizers/src", "SimTKcommon/Polynomial/src", "SimTKcommon/Random/src",
]


DEBUG = bool(os.environ.get("VERIF_DEBUG"))


def log(*a):
    print(*a, file=sys.stderr, flush=True)


# --------------------------------------------------------------------------- build
def build_instrumented():
    t0 = time.time()
    r = subprocess.run([os.path.join(VERIF, "engine/symfp/build.sh")], capture_output=True, text=True)
    if r.returncode != 0:
        log(r.stdout[-4000:], r.stderr[-4000:])
        raise SystemExit(2)
    return time.time() - t0


def build_harness(src, extra_flags=()):
    """compile harness/<src> against the instrumented libraries; returns path of the binary"""
    os.makedirs(os.path.join(BUILD, "harness-" + SUB), exist_ok=True)
    srcp = os.path.join(VERIF, "harness", src)
    out = os.path.join(BUILD, "harness-" + SUB, os.path.splitext(src)[0])
    libs = [os.path.join(BUILD, SUB, l) for l in ("libSimTKsimbody.so", "libSimTKmath.so", "libSimTKcommon.so")]
    deps = [srcp, os.path.join(VERIF, "harness", "common.h"), os.path.join(VERIF, "engine/symfp/symfp.h"),
            os.path.join(BUILD, "libsymfp.so"), os.path.join(BUILD, "libsymfp_rt.so"), os.path.join(BUILD, "libsymfp_lapack.so")]
    # harness must be rebuilt when any repo header changes: depend on the newest library as a proxy
    stamp = max(os.path.getmtime(d) for d in deps + libs if os.path.exists(d))
    stamp = max(stamp, newest_header_mtime())
    if os.path.exists(out) and os.path.getmtime(out) >= stamp:
        return out
    cmd = [os.path.join(VERIF, "engine/symfp/symfp-clang++"), "-std=c++17", "-O2", "-DNDEBUG", "-w",
           "-I" + os.path.join(VERIF, "engine/symfp"), "-I" + os.path.join(VERIF, "harness")]
    cmd += ["-I" + os.path.join(REPO, i) for i in INCLUDES]
    cmd += list(extra_flags)
    cmd += [srcp, "-o", out + ".tmp%d" % os.getpid(), "-L" + BUILD, "-Wl,--no-as-needed", "-lsymfp_lapack", "-L" + os.path.join(BUILD, SUB), "-lSimTKsimbody", "-lSimTKmath", "-lSimTKcommon",
            "-L" + BUILD, "-lsymfp_rt", "-lpthread", "-Wl,-rpath," + os.path.join(BUILD, SUB), "-Wl,-rpath," + BUILD]
    env = dict(os.environ, SYMFP_BUILD=BUILD)
    r = subprocess.run(cmd, capture_output=True, text=True, env=env)
    if r.returncode != 0:
        log("harness build failed:", " ".join(cmd))
        log(r.stderr[-6000:])
        raise SystemExit(2)
    os.replace(out + ".tmp%d" % os.getpid(), out)
    return out


_hdr_mtime = None


def newest_header_mtime():
    global _hdr_mtime
    if _hdr_mtime is None:
        m = 0.0
        for top in ("SimTKcommon", "SimTKmath", "Simbody"):
            for root, dirs, files in os.walk(os.path.join(REPO, top)):
                for f in files:
                    if f.endswith(".h"):
                        try:
                            m = max(m, os.path.getmtime(os.path.join(root, f)))
                        except OSError:
                            pass
        _hdr_mtime = m
    return _hdr_mtime


# --------------------------------------------------------------------------- running harnesses
def hexdouble(x):
    return "0x%016x" % struct.unpack("<Q", struct.pack("<d", float(x)))[0]


BENIGN_SINKS = ("5SimTK6StringC", "Exception", "ErrorCheck", "9Exception")


class RunError(Exception):
    pass


def run_harness(binary, args, seeds, concrete=False, tag="", timeout=300, env_extra=None):
    d = os.path.join(BUILD, "traces")
    os.makedirs(d, exist_ok=True)
    h = hashlib.sha1((binary + repr(args) + repr(sorted(seeds.items())) + str(concrete) + tag + str(os.getpid())).encode()).hexdigest()[:16]
    sp = os.path.join(d, h + ".seeds")
    op = os.path.join(d, h + ".json")
    with open(sp, "w") as f:
        for k, v in seeds.items():
            f.write("%s %s\n" % (k, hexdouble(v)))
    env = dict(os.environ, SYMFP_SEEDS=sp, SYMFP_OUT=op, SYMFP_CONCRETE="1" if concrete else "0")
    if env_extra:
        env.update(env_extra)
    try:
        r = subprocess.run([binary] + list(args), capture_output=True, text=True, env=env, timeout=timeout)
    except subprocess.TimeoutExpired:
        raise RunError("harness timeout: %s %s" % (binary, args))
    try:
        if r.returncode != 0 or not os.path.exists(op):
            raise RunError("harness failed rc=%s: %s %s\n%s" % (r.returncode, binary, " ".join(args), (r.stdout + r.stderr)[-2000:]))
        t = Trace(op)
        t.stdout = r.stdout
        return t
    finally:
        for p in (sp, op):
            try:
                os.unlink(p)
            except OSError:
                pass


# --------------------------------------------------------------------------- seeds
# w = tan(q/8): small denominators keep the exact (sin,cos) of q/4, q/2, q short
ANGLE_W = [Fraction(p, r) for r in (2, 3, 4, 5) for p in range(-r + 1, r) if p and math.gcd(p, r) == 1]


PYTH4 = [((1, 2, 2, 4), 5), ((2, 4, 5, 6), 9), ((1, 4, 4, 4), 7), ((2, 3, 6, 0), 7), ((1, 2, 8, 10), 13), ((4, 4, 7, 0), 9),
         ((2, 2, 1, 0), 3), ((1, 1, 1, 1), 2), ((3, 3, 3, 3), 6)]     # a^2+b^2+c^2+d^2 = e^2: exactly unit quaternions (a,b,c,d)/e


def plan_seeds(inputs, rng, base_index, Lmap=None):
    """deterministic exact base point: returns (seeds: name->float, angle_pins: name->(Fraction w, L))"""
    seeds, pins = {}, {}
    exact = {}
    Lmap = Lmap or {}
    nquat = 0
    quad, qscale = None, None
    for name, kind, node, dflt in inputs:
        if kind == "angle":
            L = Lmap.get(name, 1)
            if L not in (1, 2, 3, 4, 6, 8):
                L = 1
            w = rng.choice(ANGLE_W)
            pins[name] = (w, L)
            seeds[name] = 2.0 * L * math.atan(float(w))
        elif kind == "fixed":
            seeds[name] = dflt
        elif kind == "quat":
            # consecutive groups of four 'quat' inputs get a scaled Pythagorean quadruple: rational norm
            if nquat % 4 == 0:
                quad, e = rng.choice(PYTH4)
                quad = list(quad)
                rng.shuffle(quad)
                quad = [x * rng.choice((1, -1)) for x in quad]
                qscale = Fraction(1, e)
                qpin = [Fraction(x, e) for x in quad]
            seeds[name] = float(qpin[nquat % 4])
            exact[name] = qpin[nquat % 4]
            nquat += 1
        else:
            if base_index == 0:
                v = dflt
            else:
                v = dflt * (1 + rng.randint(-3, 3) / 8.0) if dflt != 0 else rng.randint(-4, 4) / 8.0
            # dyadic on a 1/16 grid: exact as double and short as a Fraction
            v2 = round(v * 16) / 16.0
            if v2 == 0 and dflt != 0:
                v2 = round(v * 256) / 256.0 or dflt
            seeds[name] = v2
    pins["__exact__"] = exact
    return seeds, pins


def angle_units(trace):
    """per angle input: the LCD of its coefficients over all trig arguments of the trace"""
    enc = Encoder(trace, free_all=True)
    return {k[1]: L for k, L in enc.atom_L.items() if k[0] == "in"}


# --------------------------------------------------------------------------- obligations
class Ob:
    """goal: list of Constraint (conjunction unless any=True); hyps: extra hypotheses; twin: goal expected to be refutable"""

    def __init__(self, name, goal, hyps=(), twin=None, any=False, extra_smt=(), text=None, pc_only=None):
        self.name, self.goal, self.hyps, self.twin, self.any, self.extra_smt = name, list(goal), list(hyps), twin, any, list(extra_smt)
        self.text = text
        # optional (additive): set of decision indices; only these literals of the path condition (plus the input domain) are used as
        # hypotheses of this obligation. Fewer hypotheses: 'unsat' is still a proof, the solver sees a much smaller formula.
        self.pc_only = pc_only


def eq(enc, name, lhs, rhs, hyps=(), twin=True):
    d = P.sub(lhs, rhs)
    tw = None
    if twin and rhs:
        tw = [Constraint(1, P.sub(lhs, P.scale(rhs, 2)), name + " [twin: lhs = 2 rhs]")]
    elif twin and lhs:
        tw = [Constraint(1, P.sub(P.scale(lhs, 2), P.add(rhs, P.const(1))), name + " [twin]")]
    return Ob(name, [Constraint(1, d, name)], hyps, tw)


def eqs(enc, name, pairs, hyps=()):
    """conjunction of equalities, one obligation"""
    goal = [Constraint(1, P.sub(l, r), "%s[%d]" % (name, i)) for i, (l, r) in enumerate(pairs)]
    tw = None
    for l, r in pairs:
        if r:
            tw = [Constraint(1, P.sub(l, P.scale(r, 2)), name + " [twin]")]
            break
    return Ob(name, goal, hyps, tw)


class Result:
    def __init__(self):
        self.obligations = 0
        self.discharged = 0
        self.nontrivial = 0
        self.inconclusive = []
        self.abstraction_cex = []
        self.violations = []       # dicts
        self.known = []
        self.paths = 0
        self.tainted = 0
        self.taint_reasons = {}
        self.instances = 0
        self.queries = 0
        self.solver_time = 0.0
        self.cvc5_time = 0.0
        self.cvc5_checked = 0
        self.cvc5_agree = 0
        self.cvc5_unknown = 0
        self.twins = 0
        self.twins_refuted = 0
        self.vacuous = []
        self.functions = set()
        self.samples = []
        self.assumptions = set()
        self.errors = []
        self.ob_keys = set()
        self.max_terms = 0
        self.nodes = 0
        self.encode_time = 0.0
        self.trace_time = 0.0
        self.shadow_native_checked = 0
        self.unexplored = 0
        self.extra = {}

    def merge(self, o):
        for k in ("obligations", "discharged", "nontrivial", "paths", "tainted", "instances", "queries", "solver_time",
                  "cvc5_time", "cvc5_checked", "cvc5_agree", "cvc5_unknown", "twins", "twins_refuted", "nodes",
                  "encode_time", "trace_time", "shadow_native_checked", "unexplored"):
            setattr(self, k, getattr(self, k) + getattr(o, k))
        for k in ("inconclusive", "abstraction_cex", "violations", "known", "vacuous", "errors"):
            getattr(self, k).extend(getattr(o, k))
        self.functions |= o.functions
        self.assumptions |= o.assumptions
        self.ob_keys |= o.ob_keys
        for k, v in o.taint_reasons.items():
            self.taint_reasons[k] = self.taint_reasons.get(k, 0) + v
        self.max_terms = max(self.max_terms, o.max_terms)
        for s in o.samples:
            if len(self.samples) < 6:
                self.samples.append(s)
        for k, v in o.extra.items():
            if isinstance(v, (int, float)):
                self.extra[k] = self.extra.get(k, 0) + v
            else:
                self.extra[k] = v


class Settings:
    def __init__(self, tier, seed):
        self.tier = tier
        self.seed = seed
        self.rlimit = int(os.environ.get("VERIF_RLIMIT", 30000000 if tier == "quick" else 200000000))
        self.cvc5_every = int(os.environ.get("VERIF_CVC5_EVERY", 7 if tier == "quick" else 3))
        self.cvc5_tlimit = 10 if tier == "quick" else 30
        self.max_terms = int(os.environ.get("VERIF_MAX_TERMS", 12000 if tier == "quick" else 150000))
        self.z3_timeout_ms = int(os.environ.get("VERIF_Z3_TIMEOUT_MS", 120000 if tier == "quick" else 600000))


def compare_shadow_native(sym, conc, rtol=1e-9, atol=1e-11):
    bad = []
    for name in sym.output_order:
        if name not in conc.outputs:
            bad.append((name, "missing in native run"))
            continue
        a, b = sym.out_value(name), conc.out_value(name)
        if (a != a and b != b) or a == b:
            continue
        if not (abs(a - b) <= atol + rtol * max(abs(a), abs(b))):
            bad.append((name, a, b))
    if len(sym.output_order) != len(conc.output_order):
        bad.append(("#outputs", len(sym.output_order), len(conc.output_order)))
    return bad


def model_to_seeds(enc, model, seeds):
    """solver model -> new double seeds for the free inputs"""
    new = dict(seeds)
    ring = enc.ring
    for name, vi in enc.input_var.items():
        if ring.kind[vi] != "free":
            continue
        v = model.get(ring.names[vi])
        if v is not None:
            new[name] = v
    for key, at in enc.atoms.items():
        if key[0] == "in" and at.get("exact") is None:
            s, c = model.get(ring.names[at["S"]]), model.get(ring.names[at["C"]])
            if s is not None and c is not None and (s or c):
                if key[1] in enc.input_var and ring.names[enc.input_var[key[1]]] in model and ring.kind[enc.input_var[key[1]]] == "free":
                    continue   # angle also occurs as a plain variable: keep that value
                new[key[1]] = at["L"] * math.atan2(s, c)
    return new


def goal_numeric(enc, ob, tol=1e-7):
    """numeric truth of the obligation's goal and hypotheses at enc.vals; returns (hyps_ok, goal_ok, detail)"""
    ring = enc.ring
    detail = []

    def chk(c):
        val = 0.0
        mag = 0.0
        for m, cf in c.p.items():
            try:
                t = cf.numerator / cf.denominator
            except OverflowError:
                t = math.inf
            for vi, e in m:
                t *= enc.vals[vi] ** e
            val += t
            mag += abs(t)
        th = tol * max(mag, 1e-9)
        ok = {1: abs(val) <= th, 2: val > -th, 3: val >= -th, 4: val < th, 5: val <= th, 6: abs(val) > th}[c.rel]
        detail.append((c.why, val, mag, ok))
        return ok

    hy = all(chk(c) for c in ob.hyps)
    rs = [chk(c) for c in ob.goal]
    go = any(rs) if ob.any else all(rs)
    return hy, go, detail


def is_linear(p, maxterms=60):
    if len(p) > maxterms:
        return False
    for m in p:
        if len(m) > 1 or (m and m[0][1] != 1):
            return False
    return True


class Known:
    def __init__(self):
        self.entries = []
        p = os.path.join(VERIF, "known_findings.json")
        if os.path.exists(p):
            self.entries = json.load(open(p)).get("findings", [])

    def match(self, prop, viol):
        for e in self.entries:
            if e.get("property") != prop or e.get("kind") != "known":
                continue
            m = e.get("match", {})
            ok = True
            for k, v in m.items():
                if k == "obligation_prefix":
                    ok &= viol.get("obligation", "").startswith(v)
                elif k == "instance_prefix":
                    ok &= viol.get("instance", "").startswith(v)
                else:
                    ok &= viol.get(k) == v
            if ok:
                return e
        return None


# --------------------------------------------------------------------------- the per-instance engine
def check_instance(spec, inst, st):
    """run one instance of a spec: base points x free sets x obligations. Returns Result."""
    res = Result()
    res.instances = 1
    rng = random.Random("%s/%s/%d" % (spec.ID, inst["name"], st.seed))
    binary = inst["binary"]
    args = inst.get("args", [])
    nbase = inst.get("base_points", 2 if st.tier == "quick" else 6)
    try:
        t0 = time.time()
        probe = run_harness(binary, args, {}, concrete=False, tag="probe")
        res.trace_time += time.time() - t0
    except RunError as e:
        res.errors.append(str(e))
        return res
    inputs = probe.inputs
    Lmap = angle_units(probe)
    for g in range(nbase):
        seeds, angle_pins = plan_seeds(inputs, rng, g, Lmap)
        if hasattr(spec, "adjust_seeds"):
            spec.adjust_seeds(inst, seeds, angle_pins, rng, g)
        try:
            explore_from(spec, inst, st, res, rng, seeds, angle_pins, g)
        except RunError as e:
            res.errors.append(str(e))
        except P.TooBig as e:
            res.inconclusive.append(dict(instance=inst["name"], base=g, reason="encoder size limit: %s" % e))
    return res


def explore_from(spec, inst, st, res, rng, seeds, angle_pins, g):
    binary, args = inst["binary"], inst.get("args", [])
    budget = inst.get("paths", 1)
    queue = [(seeds, None)]
    seen_paths = set()
    while queue and budget > 0:
        sd, expect = queue.pop(0)
        t0 = time.time()
        tr = run_harness(binary, args, sd, concrete=False)
        co = run_harness(binary, args, sd, concrete=True)
        res.trace_time += time.time() - t0
        sig = tr.path_signature()
        if sig in seen_paths:
            continue
        seen_paths.add(sig)
        budget -= 1
        res.paths += 1
        res.nodes += len(tr.nodes)
        res.functions |= set(tr.functions)
        bad = compare_shadow_native(tr, co)
        res.shadow_native_checked += 1
        if bad:
            res.tainted += 1
            res.taint_reasons["shadow!=native"] = res.taint_reasons.get("shadow!=native", 0) + 1
            res.errors.append("shadow != native on %s base %d: %s" % (inst["name"], g, bad[:3]))
            continue
        if tr.n_events:
            # concretisation inside text formatting (exception messages, String(double)) cannot feed back into numerics
            bad_events = [e for e in tr.events if not (e[0].startswith("concretize") and any(p in e[2] for p in BENIGN_SINKS))]
            res.extra["formatting_concretisations_ignored"] = res.extra.get("formatting_concretisations_ignored", 0) + (len(tr.events) - len(bad_events))
            if bad_events or tr.n_events > len(tr.events):
                res.tainted += 1
                for e in bad_events:
                    k = "%s@%s" % (e[0], e[2][:80])
                    res.taint_reasons[k] = res.taint_reasons.get(k, 0) + 1
                if not inst.get("allow_events"):
                    continue
        new = check_path(spec, inst, st, res, rng, tr, sd, angle_pins, g)
        if inst.get("paths", 1) > 1:
            for nsd in new:
                queue.append((nsd, None))
    res.unexplored += len(queue)


def check_path(spec, inst, st, res, rng, tr, seeds, angle_pins, g):
    known = Known()
    new_seeds = []
    fsets = list(spec.free_sets(inst, tr, st.tier, rng))
    for fi, free in enumerate(fsets):
        t0 = time.time()
        free_all = free == "ALL"
        # optional per-free-set encoder options (additive): spec.encoder_options(inst, tr, fi, free) -> dict with any of
        # max_terms, abstract_big, no_flips (do not derive new paths from this free set's encoding)
        eopt = spec.encoder_options(inst, tr, fi, free) if hasattr(spec, "encoder_options") else {}
        enc = Encoder(tr, free=() if free_all else free, angle_pins=angle_pins, free_all=free_all,
                      max_terms=eopt.get("max_terms", inst.get("max_terms", st.max_terms)),
                      abstract_big=eopt.get("abstract_big", inst.get("abstract_big", False)))
        try:
            obs = spec.obligations(enc, inst, tr)
            pc = enc.path_condition()
        except P.TooBig as e:
            # fall back to the linearly occurring inputs only (every coordinate pinned at the base point)
            lin = [n for n in (free if not free_all else []) if tr.input_by_name[n][1] == "lin"]
            done = getattr(res, "_reduced_done", set())
            res._reduced_done = done
            keyr = (inst["name"], g, tuple(sorted(lin)))
            if free_all or keyr in done:
                if free_all:
                    res.inconclusive.append(dict(instance=inst["name"], base=g, free="ALL", reason="encoder size limit: %s" % e))
                else:
                    res.extra["free_sets_dropped_as_duplicates_after_size_fallback"] = res.extra.get("free_sets_dropped_as_duplicates_after_size_fallback", 0) + 1
                continue
            done.add(keyr)
            res.extra["free_sets_reduced_to_linear_inputs_by_size_limit"] = res.extra.get("free_sets_reduced_to_linear_inputs_by_size_limit", 0) + 1
            free = lin
            try:
                enc = Encoder(tr, free=free, angle_pins=angle_pins, max_terms=inst.get("max_terms", st.max_terms))
                obs = spec.obligations(enc, inst, tr)
                pc = enc.path_condition()
            except P.TooBig as e2:
                res.inconclusive.append(dict(instance=inst["name"], base=g, free=sorted(free), reason="encoder size limit even with coordinates pinned: %s" % e2))
                continue
        except EncodeError as e:
            res.errors.append("encode error on %s: %s" % (inst["name"], e))
            continue
        # optional (additive): path-condition literals with more than inst["pc_max_terms"] terms are left out of the hypotheses
        # (weaker hypotheses: unsat is still a proof; the seed remains the reachability witness); counted in the evidence
        pcm = eopt.get("pc_max_terms", inst.get("pc_max_terms"))
        if pcm:
            def _poly_size(p):     # terms, weighted by the length of their coefficients (1 per term for ordinary coefficients)
                return sum(1 + (cf.numerator.bit_length() + cf.denominator.bit_length()) // 256 for cf in p.values())

            def _lit_size(c):      # the literal plus the defining constraints (roots, inverses, ...) it drags into a query
                return _poly_size(c.p) + sum(_poly_size(d.p) for d in enc.closure([c.p])[1])
            keep = [(i, c) for i, c in pc if _lit_size(c) <= pcm]
            if len(keep) < len(pc):
                res.extra["path_literals_left_out_by_size_weaker_hypotheses"] = res.extra.get("path_literals_left_out_by_size_weaker_hypotheses", 0) + len(pc) - len(keep)
                pc = keep
        res.encode_time += time.time() - t0
        if DEBUG:
            log("[%s g%d f%d] free=%s encoded in %.2fs stats=%s maxterms=%d pc=%d" % (inst["name"], g, fi, free if free_all else sorted(free)[-3:], time.time() - t0, enc.stats, max((len(p) for p in enc.memo.values()), default=0), len(pc)))
        bad = enc.check_numeric()
        if bad:
            res.errors.append("encoder != shadow on %s base %d free %s: %s" % (inst["name"], g, free, bad[:3]))
            continue
        res.max_terms = max(res.max_terms, max((len(p) for p in enc.memo.values()), default=0))
        res.assumptions |= set(enc.assumptions)
        if enc.stats.get("literals_rounding_dependent_dropped"):
            res.extra["path_literals_rounding_dependent_dropped"] = res.extra.get("path_literals_rounding_dependent_dropped", 0) + enc.stats["literals_rounding_dependent_dropped"]
        if enc.stats.get("abstracted_nodes"):
            res.extra["nodes_abstracted_to_opaque_variables"] = res.extra.get("nodes_abstracted_to_opaque_variables", 0) + enc.stats["abstracted_nodes"]
        if enc.stats.get("literals_tied_in_exact_arithmetic"):
            res.extra["path_literals_tied_in_exact_arithmetic_dropped"] = res.extra.get("path_literals_tied_in_exact_arithmetic_dropped", 0) + enc.stats["literals_tied_in_exact_arithmetic"]
        pchyps = [c for _, c in pc]
        if hasattr(spec, "input_domain"):
            pchyps = pchyps + list(spec.input_domain(enc, inst))     # documented preconditions on the inputs
        # the seed must satisfy every hypothesis numerically (witness of reachability)
        for c in pchyps:
            if not c.holds_at(enc.ring, enc.vals, 1e-9):
                res.errors.append("path condition literal false at its own seed: %s (%s)" % (c.why, inst["name"]))
        pchyps_all = pchyps
        for ob in obs:
            pchyps = pchyps_all
            if getattr(ob, "pc_only", None) is not None:
                pchyps = [c for idx, c in pc if idx in ob.pc_only] + pchyps_all[len(pc):]
            key = (inst["name"], g, fi, tr.path_signature()[:64], ob.name)
            res.ob_keys.add(key)
            res.obligations += 1
            q = Query(enc, ob.name, pchyps + ob.hyps, ob.goal, ob.extra_smt, goal_any=ob.any)
            smt, names = q.smt()
            if q.nontrivial():
                res.nontrivial += 1
            if inst.get("seed_check") and not ob.extra_smt:
                # optional (additive): the path's own seed satisfies the path condition by construction; if it satisfies the obligation's
                # hypotheses and falsifies its goal numerically, the seed is a counterexample: replay it like a solver model.
                try:
                    hy0, go0, det0 = goal_numeric(enc, ob, tol=inst.get("replay_tol", 1e-7))
                    finite = all(v == v and abs(v) != math.inf for (_, v, _, _) in det0)
                except (KeyError, OverflowError):
                    hy0, go0, finite = True, True, False
                if finite and hy0 and not go0:
                    nviol = len(res.violations) + len(res.known)
                    handle_sat(spec, inst, st, res, tr, enc, ob, {}, seeds, angle_pins, free, free_all, g, known, smt)
                    if len(res.violations) + len(res.known) > nviol:
                        res.extra["violations_found_at_a_path_seed"] = res.extra.get("violations_found_at_a_path_seed", 0) + 1
                        continue
                    res.abstraction_cex.pop()     # not confirmed by the replay: ask the solver as usual
            has_inv = any(enc.ring.kind[v] == "inv" for cc in ob.goal for v in enc.ring.vars_of(cc.p))
            all_eq = all(cc.rel == 1 for cc in ob.goal)
            r = None
            if has_inv and all_eq:
                # (a) direct: the solver reasons with I*den=1; only attempted when the formula is small
                if len(smt) < (20000 if st.tier == "quick" else 60000):
                    r, model, dt = run_z3(smt, names, rlimit=min(st.rlimit, 3000000), seed=st.seed & 0xFFFF, timeout_ms=2000 if st.tier == "quick" else 20000)
                    res.queries += 1
                    res.solver_time += dt
                    if r in ("sat", "unsat"):
                        res.extra["decided_direct_with_inverse_vars"] = res.extra.get("decided_direct_with_inverse_vars", 0) + 1
                    else:
                        r = None
                if r is None:
                    # (b) denominators cleared exactly in the encoder: goal * prod(den^k), no inverse variable left
                    try:
                        cg = [Constraint(1, enc.clear_inverses(cc.p)[0], cc.why + " [denominators cleared]") for cc in ob.goal]
                    except P.TooBig as e:
                        res.inconclusive.append(dict(instance=inst["name"], base=g, obligation=ob.name, reason="clearing denominators: %s" % e))
                        continue
                    q = Query(enc, ob.name, pchyps + ob.hyps, cg, ob.extra_smt, goal_any=ob.any)
                    smt, names = q.smt()
                    res.extra["decided_after_clearing_denominators"] = res.extra.get("decided_after_clearing_denominators", 0) + 1
                    r = None
            if r is None and inst.get("pc_filter") == "linear-first" and all(is_linear(cc.p) for cc in ob.goal):
                # stage 1: only the linear literals of the path condition as hypotheses (weaker hypotheses: unsat is still a proof)
                lin_h = [cc for cc in pchyps if is_linear(cc.p)] + [cc for cc in ob.hyps if is_linear(cc.p)]
                q1 = Query(enc, ob.name, lin_h, ob.goal, ob.extra_smt, goal_any=ob.any)
                smt1, names1 = q1.smt(logic="QF_LRA")
                r1, model1, dt1 = run_z3(smt1, names1, rlimit=st.rlimit, seed=st.seed & 0xFFFF, timeout_ms=st.z3_timeout_ms)
                res.queries += 1
                res.solver_time += dt1
                if r1 == "unsat":
                    r, model, dt, smt, names = r1, model1, 0.0, smt1, names1
                    res.queries -= 1
                    res.extra["decided_with_linear_literals_only"] = res.extra.get("decided_with_linear_literals_only", 0) + 1
            if r is None and inst.get("lra_first") and not ob.extra_smt:
                # optional stage (additive): linear-arithmetic relaxation with every non-linear monomial as a fresh real. Every model of the
                # query is a model of the relaxation, so 'unsat' here is a proof; any other answer is ignored and the full query is asked.
                smt1, names1 = q.smt_linearised()
                r1, model1, dt1 = run_z3(smt1, names1, rlimit=st.rlimit, seed=st.seed & 0xFFFF, timeout_ms=st.z3_timeout_ms)
                res.queries += 1
                res.solver_time += dt1
                if r1 == "unsat":
                    r, model, dt, smt, names = r1, model1, 0.0, smt1, names1
                    res.queries -= 1
                    res.extra["decided_by_linear_relaxation_over_monomials"] = res.extra.get("decided_by_linear_relaxation_over_monomials", 0) + 1
            if r is None:
                r, model, dt = run_z3(smt, names, rlimit=st.rlimit, seed=st.seed & 0xFFFF, timeout_ms=inst.get("z3_timeout_ms", st.z3_timeout_ms))
            else:
                res.queries -= 1
                res.solver_time -= dt
            if DEBUG:
                log("  [%s g%d f%d] %s -> %s %.2fs (smt %d chars, vars %d)" % (inst["name"], g, fi, ob.name, r, dt, len(smt), len(names)))
            res.queries += 1
            res.solver_time += dt
            if len(res.samples) < 3 and q.nontrivial():
                res.samples.append(dict(instance=inst["name"], base_point=g, free=("ALL" if free_all else sorted(free)), obligation=ob.name,
                                        result=r, smt2=smt if len(smt) < 3000 else smt[:1500] + "\n...[%d chars]...\n" % len(smt) + smt[-800:]))
            if r == "unsat":
                ok = True
                if st.cvc5_every and (res.queries % st.cvc5_every == 0) and q.nontrivial():
                    r2, dt2 = run_cvc5(smt, st.cvc5_tlimit)
                    res.cvc5_time += dt2
                    res.cvc5_checked += 1
                    if r2 == "unsat":
                        res.cvc5_agree += 1
                    elif r2 == "sat":
                        ok = False
                        res.inconclusive.append(dict(instance=inst["name"], obligation=ob.name, reason="z3 unsat but cvc5 sat"))
                    else:
                        res.cvc5_unknown += 1
                if ok:
                    res.discharged += 1
            elif r == "sat":
                handle_sat(spec, inst, st, res, tr, enc, ob, model, seeds, angle_pins, free, free_all, g, known, smt)
            else:
                res.inconclusive.append(dict(instance=inst["name"], base=g, obligation=ob.name, reason="z3: " + r))
            # twin: deliberately wrong goal must be refutable (non-vacuity)
            if ob.twin is not None and (res.twins < 4 or st.tier == "thorough" or hash(key) % 5 == 0):
                qt = Query(enc, ob.name + " twin", pchyps + ob.hyps, ob.twin)
                smt2, names2 = qt.smt()
                rt, mt, dtt = run_z3(smt2, names2, rlimit=st.rlimit, seed=1, timeout_ms=inst.get("twin_timeout_ms", st.z3_timeout_ms))
                res.queries += 1
                res.solver_time += dtt
                res.twins += 1
                if rt == "sat":
                    res.twins_refuted += 1
                elif rt == "unsat":
                    res.vacuous.append(dict(instance=inst["name"], obligation=ob.name, reason="wrong twin was proved: hypotheses unsatisfiable or goal degenerate"))
        # path flips
        if inst.get("paths", 1) > 1 and not eopt.get("no_flips"):
            new_seeds.extend(flip_decisions(spec, inst, st, res, enc, pc, seeds))
    return new_seeds


def flip_decisions(spec, inst, st, res, enc, pc, seeds):
    out = []
    maxflip = inst.get("flips_per_path", 12)
    hyps = []
    extra = spec.input_domain(enc, inst) if hasattr(spec, "input_domain") else []
    if hasattr(spec, "flip_domain"):
        extra = list(extra) + list(spec.flip_domain(enc, inst))   # box for the seeds of flipped paths only; never a hypothesis of an obligation
    linear_only = inst.get("flip_linear_only", False)
    for k, (idx, c) in enumerate(pc):
        if len(out) >= maxflip:
            break
        if linear_only and not is_linear(c.p):
            continue
        q = Query(enc, "flip d%d" % idx, hyps + extra + [c.negated()], [])
        smt, names = q.smt()
        smt = smt.replace("(assert (not true))", "")
        r, model, dt = run_z3(smt, names, rlimit=st.rlimit // 10, seed=3, timeout_ms=inst.get("flip_timeout_ms", 4000))
        res.queries += 1
        res.solver_time += dt
        if r == "sat":
            out.append(model_to_seeds(enc, model, seeds))
        hyps.append(c)
    # later decisions first as well: alternate ends so that deep and shallow alternatives are both explored
    return out


def handle_sat(spec, inst, st, res, tr, enc, ob, model, seeds, angle_pins, free, free_all, g, known, smt):
    """replay a counter-model on the real code (same harness binary at the model's input values)"""
    nsd = model_to_seeds(enc, model, seeds)
    try:
        tr2 = run_harness(inst["binary"], inst.get("args", []), nsd, concrete=False)
        co2 = run_harness(inst["binary"], inst.get("args", []), nsd, concrete=True)
    except RunError as e:
        res.abstraction_cex.append(dict(instance=inst["name"], obligation=ob.name, reason="replay run failed: %s" % str(e)[:200]))
        return
    if compare_shadow_native(tr2, co2):
        res.abstraction_cex.append(dict(instance=inst["name"], obligation=ob.name, reason="replay: shadow != native"))
        return
    enc2 = Encoder(tr2, free=() if free_all else free, angle_pins={}, free_all=free_all, max_terms=enc.ring.max_terms, abstract_big=enc.abstract_big)
    # all pinned inputs now take their (double) seed values exactly; formerly exact angle pins become free atoms evaluated numerically
    try:
        obs2 = spec.obligations(enc2, inst, tr2)
    except Exception as e:
        # the pin-free replay encoding can exceed the size limit (every pinned angle becomes an (S,C) atom). The non-free
        # inputs still have exactly their base-point seeds, so their exact pins remain valid: retry with them.
        try:
            kw = {"abstract_big": enc.abstract_big} if hasattr(enc, "abstract_big") else {}
            enc2 = Encoder(tr2, free=() if free_all else free, angle_pins=angle_pins, free_all=free_all, max_terms=enc.ring.max_terms, **kw)
            obs2 = spec.obligations(enc2, inst, tr2)
            res.extra["replays_encoded_with_exact_pins_after_size_limit"] = res.extra.get("replays_encoded_with_exact_pins_after_size_limit", 0) + 1
        except Exception as e2:
            res.abstraction_cex.append(dict(instance=inst["name"], obligation=ob.name, reason="replay encode failed: %s / with exact pins: %s" % (e, e2)))
            return
    ob2 = next((o for o in obs2 if o.name == ob.name), None)
    if ob2 is None:
        res.abstraction_cex.append(dict(instance=inst["name"], obligation=ob.name, reason="obligation absent on replayed path"))
        return
    hy, go, detail = goal_numeric(enc2, ob2, tol=inst.get("replay_tol", 1e-7))
    if hy and not go:
        inputs = {n: nsd.get(n, sd) for n, k, _, sd in tr2.inputs}
        viol = dict(property=spec.ID, instance=inst["name"], args=inst.get("args", []), harness=os.path.basename(inst["binary"]),
                    obligation=ob.name, base_point=g, free=("ALL" if free_all else sorted(free)),
                    inputs=inputs, detail=[(w, v, m, bool(o)) for (w, v, m, o) in detail][:20],
                    outputs={n: tr2.out_value(n) for n in tr2.output_order[:200]})
        k = known.match(spec.ID, viol)
        if k:
            viol["known"] = k.get("text", "")
            res.known.append(viol)
        else:
            res.violations.append(viol)
    else:
        if DEBUG:
            for i, (d1, d2) in enumerate(zip(tr.decisions, tr2.decisions)):
                if (d1[0], d1[1], d1[4], d1[6]) != (d2[0], d2[1], d2[4], d2[6]):
                    try:
                        pa, pb = enc.poly(d1[2]), (enc.poly(d1[3]) if d1[0] == 0 else {})
                        log("   replay diverges at decision %d: %s vs %s | %s ? %s | model %s" % (i, d1[:6], d2[:6], enc.ring.text(pa, 6)[:160], enc.ring.text(pb, 6)[:160],
                            {k: v for k, v in model.items() if k.startswith("x_")}))
                    except Exception as e:
                        log("   replay diverges at decision %d (%s)" % (i, e))
                    break
        res.abstraction_cex.append(dict(instance=inst["name"], obligation=ob.name, base=g,
                                        reason="counter-model does not reproduce on the real code (abstraction too coarse)",
                                        hyps_ok=hy, goal_ok=go))


# --------------------------------------------------------------------------- top level
def _worker(a):
    specname, inst, tier, seed = a
    try:
        spec = load_spec(specname)
        st = Settings(tier, seed)
        return check_instance(spec, inst, st)
    except SystemExit:
        raise
    except Exception:
        r = Result()
        r.errors.append("worker exception on %s: %s" % (inst.get("name"), traceback.format_exc()[-3000:]))
        return r


def load_spec(name):
    import importlib
    sys.path.insert(0, VERIF)
    return importlib.import_module("spec." + name)


def run_symfp_check(specname, tier, seed, jobs=None):
    t0 = time.time()
    spec = load_spec(specname)
    bt = build_instrumented()
    st = Settings(tier, seed)
    insts = spec.instances(tier, seed)
    only = os.environ.get("VERIF_ONLY")
    if only:
        insts = [i for i in insts if only in i["name"]]
    bins = {}
    for i in insts:
        h = i.get("harness", spec.HARNESS)
        if h not in bins:
            bins[h] = build_harness(h)
        i["binary"] = bins[h]
    jobs = jobs or int(os.environ.get("VERIF_JOBS", "16"))
    total = Result()
    work = [(specname, i, tier, seed) for i in insts]
    if jobs > 1 and len(work) > 1:
        import multiprocessing as mp
        with mp.Pool(min(jobs, len(work))) as pool:
            for r in pool.imap_unordered(_worker, work):
                total.merge(r)
    else:
        for w in work:
            total.merge(_worker(w))
    wall = time.time() - t0
    return finish(spec, st, total, wall, bt)


def evidence_dir():
    """evidence/ for /repo; evidence/alt-<hash>/ (git-ignored) when VERIF_REPO points at another tree (mutation testing)"""
    d = os.path.join(VERIF, "evidence") if REPO == "/repo" else os.path.join(VERIF, "evidence", SUB)
    os.makedirs(os.path.join(d, "replay"), exist_ok=True)
    return d


def finish(spec, st, R, wall, build_time, level="other"):
    EVD = evidence_dir()
    seen_known = {}
    for k in R.known:
        txt = k.get("known") or k.get("obligation")
        seen_known[txt] = seen_known.get(txt, 0) + 1
    for txt, n in seen_known.items():       # one line per listed finding (n matching counterexamples)
        print("KNOWN-FINDING: property=%s %s [%d matching counterexample(s)]" % (spec.ID, txt, n))
    rc = 0
    for n, v in enumerate(R.violations):
        path = os.path.join(EVD, "replay", "%s-%d.json" % (spec.ID, n))
        with open(path, "w") as f:
            json.dump(v, f, indent=1, default=str)
        print("VIOLATION property=%s replay=%s" % (spec.ID, path))
        print("  instance=%s obligation=%s" % (v.get("instance"), v.get("obligation")))
        rc = 1
    infra = bool(R.errors) or bool(R.vacuous) or R.obligations == 0
    if infra and rc == 0:
        rc = 2
    inconc = len(R.inconclusive)
    if inconc and rc == 0 and not getattr(spec, "ALLOW_INCONCLUSIVE", False):
        rc = 2
    ev = dict(
        property_id=spec.ID, tier=st.tier, seed=st.seed, level=level,
        coverage=dict(
            explanation=getattr(spec, "EXPLANATION", "") + " Engine S (symfp): the real Simbody code, compiled from /repo's working tree with an LLVM pass that lifts double arithmetic to an expression DAG, is executed through its public API on symbolic inputs; each obligation is the negated property over the DAG's polynomial normal form plus path condition, decided by z3 (QF_NRA) with cvc5 cross-checks.",
            functions_encoded=sorted(R.functions)[:400], n_functions_encoded=len(R.functions),
            bounds=getattr(spec, "BOUNDS", ""), not_covered=getattr(spec, "NOT_COVERED", ""),
            instances=R.instances, paths_explored=R.paths, paths_tainted=R.tainted, taint_reasons=R.taint_reasons,
            paths_unexplored=R.unexplored,
            obligations=R.obligations, discharged=R.discharged, inconclusive=inconc, inconclusive_list=R.inconclusive[:20],
            abstraction_counter_models=len(R.abstraction_cex), abstraction_list=R.abstraction_cex[:10],
            evaluations=R.queries, distinct_nontrivial=len(R.ob_keys) if R.nontrivial >= len(R.ob_keys) else R.nontrivial,
            rule="one evaluation = one solver query; distinct = distinct (instance, base point, free set, path, obligation); non-trivial = the negated goal still mentions a free variable after normalisation",
            twins_checked=R.twins, twins_refuted=R.twins_refuted, vacuous=R.vacuous[:10],
            shadow_vs_native_runs=R.shadow_native_checked, dag_nodes=R.nodes, max_poly_terms=R.max_terms,
            solver="z3 %s (python API, rlimit %d)" % (_z3ver(), st.rlimit), solver_time_s=round(R.solver_time, 3),
            cross_check="cvc5 1.0.3 on every %d-th discharged obligation: %d checked, %d agree, %d unknown/timeout" % (st.cvc5_every, R.cvc5_checked, R.cvc5_agree, R.cvc5_unknown),
            cvc5_time_s=round(R.cvc5_time, 3), trace_time_s=round(R.trace_time, 2), encode_time_s=round(R.encode_time, 2),
            instrumented_build_s=round(build_time, 2),
            samples=R.samples or ["(no non-trivial obligation)"], errors=R.errors[:20], known_findings=len(R.known), extra=R.extra,
        ),
        assumptions=sorted(R.assumptions)[:50] + list(getattr(spec, "ASSUMPTIONS", [])),
        wall_s=round(wall, 2), violations=len(R.violations),
    )
    with open(os.path.join(EVD, spec.ID + ".json"), "w") as f:
        json.dump(ev, f, indent=1, default=str)
    print("%s tier=%s: instances=%d paths=%d obligations=%d discharged=%d inconclusive=%d abstraction-cex=%d violations=%d known=%d errors=%d wall=%.1fs solver=%.1fs" % (
        spec.ID, st.tier, R.instances, R.paths, R.obligations, R.discharged, inconc, len(R.abstraction_cex), len(R.violations), len(R.known), len(R.errors), wall, R.solver_time))
    for e in R.errors[:10]:
        print("ERROR:", e)
    for e in R.inconclusive[:10]:
        print("INCONCLUSIVE:", e)
    for e in R.vacuous[:10]:
        print("VACUOUS:", e)
    return rc


def _z3ver():
    try:
        import z3
        return z3.get_version_string()
    except Exception:
        return "?"
