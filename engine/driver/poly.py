"""Sparse multivariate polynomials over Q with exact Fraction coefficients.

A polynomial is a dict {monomial: coeff}; a monomial is a sorted tuple of
(var_index, exponent) pairs; () is the constant monomial. Trig reduction
S^2 -> 1 - C^2 is applied by `Ring.mul` for variables registered as (S,C) pairs.
"""
from fractions import Fraction  # re-exported as P.Fraction
import math
from math import gcd

ZERO = {}


def const(c):
    c = Fraction(c)
    return {(): c} if c else {}


def is_const(p):
    return not p or (len(p) == 1 and () in p)


def const_val(p):
    return p.get((), Fraction(0)) if p else Fraction(0)


def add(p, q):
    if not p:
        return q
    if not q:
        return p
    if len(p) < len(q):
        p, q = q, p
    r = dict(p)
    for m, c in q.items():
        v = r.get(m)
        if v is None:
            r[m] = c
        else:
            v = v + c
            if v:
                r[m] = v
            else:
                del r[m]
    return r


def neg(p):
    return {m: -c for m, c in p.items()}


def sub(p, q):
    return add(p, neg(q))


def scale(p, c):
    if not c:
        return {}
    if c == 1:
        return p
    return {m: v * c for m, v in p.items()}


def mono_mul(a, b):
    if not a:
        return b
    if not b:
        return a
    i = j = 0
    out = []
    la, lb = len(a), len(b)
    while i < la and j < lb:
        va, ea = a[i]
        vb, eb = b[j]
        if va == vb:
            out.append((va, ea + eb)); i += 1; j += 1
        elif va < vb:
            out.append(a[i]); i += 1
        else:
            out.append(b[j]); j += 1
    if i < la:
        out.extend(a[i:])
    if j < lb:
        out.extend(b[j:])
    return tuple(out)


class TooBig(Exception):
    pass


class Ring:
    """Holds the variable table and the S->C trig pairing."""

    def __init__(self, max_terms=200000):
        self.names = []          # index -> name
        self.index = {}          # name -> index
        self.kind = []           # index -> kind string
        self.trig_S = {}         # S var index -> C var index (also keys of sq_rule)
        self.sq_rule = {}        # var index -> polynomial equal to var^2
        self.max_terms = max_terms

    def var(self, name, kind="free"):
        i = self.index.get(name)
        if i is None:
            i = len(self.names)
            self.names.append(name)
            self.kind.append(kind)
            self.index[name] = i
        return i

    def trig_pair(self, base):
        s = self.var("S_" + base, "S")
        c = self.var("C_" + base, "C")
        self.trig_S[s] = c
        return s, c

    def v(self, i):
        return {((i, 1),): Fraction(1)}

    def mul(self, p, q):
        if not p or not q:
            return {}
        if len(p) == 1 and () in p:
            return scale(q, p[()])
        if len(q) == 1 and () in q:
            return scale(p, q[()])
        if len(p) * len(q) > 4 * self.max_terms:
            raise TooBig("product of %d x %d terms" % (len(p), len(q)))
        r = {}
        need_reduce = False
        trig = self.trig_S
        for ma, ca in p.items():
            for mb, cb in q.items():
                m = mono_mul(ma, mb)
                c = ca * cb
                v = r.get(m)
                if v is None:
                    r[m] = c
                else:
                    v += c
                    if v:
                        r[m] = v
                    else:
                        del r[m]
        if trig:
            for m in r:
                for (vi, e) in m:
                    if e >= 2 and vi in trig:
                        need_reduce = True
                        break
                if need_reduce:
                    break
        if need_reduce:
            r = self.reduce_trig(r)
        if len(r) > self.max_terms:
            raise TooBig("%d terms" % len(r))
        return r

    def reduce_trig(self, p):
        """rewrite v^2 -> rule[v] for every variable with a square rule (S^2 -> 1-C^2, R^2 -> radicand)"""
        trig = self.trig_S
        sq = self.sq_rule
        work = p
        while True:
            out = {}
            again = False
            for m, c in work.items():
                hit = None
                for k, (vi, e) in enumerate(m):
                    if e >= 2 and vi in trig:
                        hit = k
                        break
                if hit is None:
                    v = out.get(m)
                    if v is None:
                        out[m] = c
                    else:
                        v += c
                        if v:
                            out[m] = v
                        else:
                            del out[m]
                    continue
                again = True
                vi, e = m[hit]
                rest = m[:hit] + (((vi, e - 2),) if e > 2 else ()) + m[hit + 1:]
                rule = sq.get(vi)
                if rule is None:
                    ci = trig[vi]
                    repl = (((), 1), (((ci, 2),), -1))          # S^2 = 1 - C^2
                else:
                    repl = rule.items()
                for rm, rc in repl:
                    mm = mono_mul(rest, rm)
                    cc = c * rc
                    v = out.get(mm)
                    if v is None:
                        out[mm] = cc
                    else:
                        v += cc
                        if v:
                            out[mm] = v
                        else:
                            del out[mm]
            work = out
            if not again:
                return out

    def add_square_rule(self, vi, poly):
        """register v^2 -> poly (used for square-root variables); poly must not contain v"""
        self.sq_rule[vi] = dict(poly)
        self.trig_S[vi] = vi

    def pow(self, p, n):
        r = const(1)
        base = p
        while n:
            if n & 1:
                r = self.mul(r, base)
            n >>= 1
            if n:
                base = self.mul(base, base)
        return r

    def evalf(self, p, vals):
        """numeric evaluation; vals: index -> float"""
        try:
            tot = 0.0
            for m, c in p.items():
                t = c.numerator / c.denominator
                for vi, e in m:
                    t *= vals[vi] ** e
                tot += t
            return tot
        except OverflowError:
            tot = Fraction(0)
            for m, c in p.items():
                t = c
                for vi, e in m:
                    t *= Fraction(vals[vi]) ** e
                tot += t
            try:
                return tot.numerator / tot.denominator
            except OverflowError:
                return math.inf if tot > 0 else -math.inf

    def subs(self, p, i, q):
        """substitute variable i by polynomial q"""
        r = {}
        cache = {}
        for m, c in p.items():
            e = 0
            rest = []
            for (vi, ex) in m:
                if vi == i:
                    e = ex
                else:
                    rest.append((vi, ex))
            t = {tuple(rest): c}
            if e:
                pw = cache.get(e)
                if pw is None:
                    pw = cache[e] = self.pow(q, e)
                t = self.mul(t, pw)
            r = add(r, t)
        return r

    def vars_of(self, p):
        s = set()
        for m in p:
            for vi, _ in m:
                s.add(vi)
        return s

    def degree_in(self, p, i):
        d = 0
        for m in p:
            for vi, e in m:
                if vi == i and e > d:
                    d = e
        return d

    def diff(self, p, i):
        r = {}
        for m, c in p.items():
            for k, (vi, e) in enumerate(m):
                if vi == i:
                    nm = m[:k] + (((vi, e - 1),) if e > 1 else ()) + m[k + 1:]
                    r[nm] = r.get(nm, 0) + c * e
                    if not r[nm]:
                        del r[nm]
                    break
        return r

    # ---- output
    def smt(self, p):
        if not p:
            return "0.0"
        terms = []
        for m, c in sorted(p.items()):
            fs = []
            if c != 1 or not m:
                fs.append(smt_rat(c))
            for vi, e in m:
                fs.extend([self.names[vi]] * e)
            terms.append(fs[0] if len(fs) == 1 else "(* " + " ".join(fs) + ")")
        return terms[0] if len(terms) == 1 else "(+ " + " ".join(terms) + ")"

    def text(self, p, maxterms=12):
        if not p:
            return "0"
        ts = []
        for k, (m, c) in enumerate(sorted(p.items())):
            if k >= maxterms:
                ts.append("... (%d terms)" % len(p))
                break
            s = str(c)
            for vi, e in m:
                s += "*" + self.names[vi] + ("^%d" % e if e > 1 else "")
            ts.append(s)
        return " + ".join(ts)


def smt_rat(c):
    c = Fraction(c)
    n, d = c.numerator, c.denominator
    s = "%d.0" % abs(n) if d == 1 else "(/ %d.0 %d.0)" % (abs(n), d)
    return "(- %s)" % s if n < 0 else s


def primitive(p):
    """return (content, primitive part) with leading coeff positive, integer coprime coeffs"""
    if not p:
        return Fraction(0), p
    den = 1
    for c in p.values():
        den = den * c.denominator // gcd(den, c.denominator)
    g = 0
    for c in p.values():
        g = gcd(g, int(c * den))
    lead = p[min(p)]
    sign = -1 if lead < 0 else 1
    content = Fraction(g, den) * sign
    return content, {m: c / content for m, c in p.items()}


def key(p):
    return tuple(sorted(p.items()))


def monic(p):
    """return (c, q) with p = c*q and the coefficient of q's smallest monomial equal to 1 (canonical up to scaling,
    keeps magnitudes moderate, unlike the integer primitive part)"""
    if not p:
        return Fraction(0), p
    lead = p[min(p)]
    return lead, {m: c / lead for m, c in p.items()}
