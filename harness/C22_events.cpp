// C22: event detection/localisation/handling. args: <integrator> <direction rising|falling|both> <mode integ|stepper> [two]
// Free slider: q(t) = q0 + u0 t exactly for every method; witness e = q - c (c symbolic) or c - q.
#include "common.h"
using namespace vh;

static Real g_c[2]; static Real g_delta; static int g_nHandled = 0; static Real g_handleTime[8]; static Real g_handleQ[8];
static int g_nSched = 0; static Real g_schedTime[8];

class Witness : public TriggeredEventHandler {
public:
    Witness(const MobilizedBody& mb, int which, bool negate, Event::Trigger dir, Real window = 0.1)
    :   TriggeredEventHandler(Stage::Position), mb(mb), which(which), negate(negate) { getTriggerInfo().setRequiredLocalizationTimeWindow(window); getTriggerInfo().setTriggerOnRisingSignTransition(dir & Event::Rising ? true : false);
        getTriggerInfo().setTriggerOnFallingSignTransition(dir & Event::Falling ? true : false); }
    Real getValue(const State& s) const override {
        Real e = mb.getOneQ(s, 0) - g_c[which];
        // the second witness is quadratic in time (same root, same sign near it): the secant estimates are then inexact and the
        // final window width is governed by this witness's own required localisation window
        if (which == 1) e = e + 0.5 * e * e;
        return negate ? -e : e;
    }
    void handleEvent(State& s, Real accuracy, bool& shouldTerminate) const override {
        if (g_nHandled < 8) { g_handleTime[g_nHandled] = s.getTime(); g_handleQ[g_nHandled] = mb.getOneQ(s, 0); }
        ++g_nHandled;
        mb.setOneQ(s, 0, mb.getOneQ(s, 0) + g_delta);   // push further across the threshold (q rises in both variants)
    }
    const MobilizedBody& mb; int which; bool negate;
};
class Sched : public ScheduledEventHandler {
public:
    Sched(Real t) : t(t) {}
    Real getNextEventTime(const State& s, bool includeCurrentTime) const override {
        // one event at time t
        if (s.getTime() < t || (includeCurrentTime && s.getTime() == t)) return t;
        return Infinity;
    }
    void handleEvent(State& s, Real accuracy, bool& shouldTerminate) const override {
        if (g_nSched < 8) g_schedTime[g_nSched] = s.getTime();
        ++g_nSched;
    }
    Real t;
};

static Integrator* makeInteg(const std::string& n, const System& sys) {
    if (n == "ExplicitEuler") return new ExplicitEulerIntegrator(sys);
    if (n == "RungeKutta2") return new RungeKutta2Integrator(sys);
    if (n == "RungeKutta3") return new RungeKutta3Integrator(sys);
    if (n == "RungeKuttaFeldberg") return new RungeKuttaFeldbergIntegrator(sys);
    if (n == "RungeKuttaMerson") return new RungeKuttaMersonIntegrator(sys);
    if (n == "Verlet") return new VerletIntegrator(sys);
    if (n == "SemiExplicitEuler2") return new SemiExplicitEuler2Integrator(sys);
    fprintf(stderr, "unknown integrator %s\n", n.c_str()); exit(2);
}

int main(int argc, char** argv) {
    return guarded([&] {
        std::string iname = argOr(argc, argv, 1, "RungeKuttaMerson"), dirs = argOr(argc, argv, 2, "rising"), mode = argOr(argc, argv, 3, "integ");
        bool two = argOr(argc, argv, 4, "") == "two";
        bool has_rep = argOr(argc, argv, 5, "") == "rep";
        MultibodySystem sys; SimbodyMatterSubsystem matter(sys); GeneralForceSubsystem forces(sys);
        Body::Rigid body(MassProperties(1.0, Vec3(0), Inertia(1)));
        MobilizedBody::Slider slider(matter.Ground(), Transform(), body, Transform());
        // symbolic (pinned) so that no concrete rounding enters the DAG
        const Real q0 = in("q0in", 0.25, "fixed"), u0 = in("u0in", 0.5, "fixed");
        g_c[0] = in("c0", 0.4375, "thr");              // crossing at t = (c-q0)/u0 = 0.375
        g_c[1] = two ? in("c1", 0.5625, "thr") : Real(0);
        g_delta = in("delta", 0.0625, "thr");
        bool falling = (dirs == "falling");
        Event::Trigger dir = dirs == "both" ? Event::AnySignChange : (falling ? Event::Falling : Event::Rising);
        // rising: e = q - c goes - -> +.  falling: e = c - q goes + -> -.
        // with two witnesses the second one asks for a five times tighter localisation than the first
        const Real win0 = 0.1, win1 = two ? 0.02 : 0.1;
        sys.addEventHandler(new Witness(slider, 0, falling, dir, win0));
        if (two) sys.addEventHandler(new Witness(slider, 1, falling, dir, win1));
        Real tsched = in("tsched", 0.6875, "time");
        if (mode == "stepper") sys.addEventHandler(new Sched(tsched));
        State s = sys.realizeTopology();
        sys.realizeModel(s);
        s.updQ()[0] = q0; s.updU()[0] = u0;
        s.setTime(in("t0in", 0.0, "fixed"));   // symbolic start time: t0 + h stays exact (no concrete rounding of time sums)
        Integrator* integ = makeInteg(iname, sys);
        integ->setAccuracy(0.01);
        Real tf = in("tf", 1.0, "time");
        out("q0", q0); out("u0", u0); out("tf", tf);
        out("wreq", 0.01 * sys.getDefaultTimeScale() * 0.1);
        out("wreq0", 0.01 * sys.getDefaultTimeScale() * win0); out("wreq1", 0.01 * sys.getDefaultTimeScale() * win1);
        if (mode == "integ") {
            integ->setFinalTime(tf);
            integ->initialize(s);
            int nev = 0, ncallsDone = 0;
            // a pending report time just before the crossing (within the localisation window 1e-4 of it by default: the
            // bisection then puts tLow exactly on the report time); kind "fixed" = seed not rounded, still a free variable of the spec
            Real rep = has_rep ? in("rep", 0.37495, "fixed") : tf;
            bool repDone = !has_rep;
            for (int c = 0; c < 8; ++c) {
                Real target = repDone ? tf : rep;
                Integrator::SuccessfulStepStatus st = integ->stepTo(target);
                symfp::note(S("status", c).c_str(), std::to_string((int)st));
                out(S("t", c), integ->getTime());
                out(S("target", c), target);
                if (!repDone && st == Integrator::ReachedReportTime && integ->getTime() == rep) repDone = true;
                if (st == Integrator::ReachedEventTrigger) {
                    { Vec2 w = integ->getEventWindow(); out(S("tlow", c), w[0]); out(S("thigh", c), w[1]); }
                    out(S("qret", c), slider.getOneQ(integ->getState(), 0));
                    std::string ids; for (EventId id : integ->getTriggeredEvents()) ids += " " + std::to_string((int)id);
                    symfp::note(S("ids", c).c_str(), ids);
                    std::string tr; for (Event::Trigger t : integ->getEventTransitionsSeen()) tr += " " + std::to_string((int)t);
                    symfp::note(S("trans", c).c_str(), tr);
                    const Array_<Real>& est = integ->getEstimatedEventTimes();
                    for (int k = 0; k < (int)est.size(); ++k) out(S("est", c, k), est[k]);
                    // handle the event the way a time stepper would
                    State& adv = integ->updAdvancedState();
                    bool term = false;
                    HandleEventsOptions opt; HandleEventsResults res;
                    sys.handleEvents(adv, Event::Cause::Triggered, integ->getTriggeredEvents(), opt, res);
                    integ->reinitialize(Stage::Position, false);
                    ++nev;
                }
                ncallsDone = c + 1;
                if (st == Integrator::EndOfSimulation) break;
            }
            symfp::note("ncalls", std::to_string(ncallsDone));
            out("qfinal", slider.getOneQ(integ->getState(), 0));
            symfp::note("nhandled", std::to_string(g_nHandled));
        } else {
            TimeStepper ts(sys, *integ);
            ts.initialize(s);
            ts.stepTo(tf);
            out("tend", ts.getState().getTime());
            out("qfinal", slider.getOneQ(ts.getState(), 0));
            symfp::note("nhandled", std::to_string(g_nHandled));
            symfp::note("nsched", std::to_string(g_nSched));
            out("tsched", tsched);
            for (int k = 0; k < g_nSched && k < 8; ++k) out(S("schedTime", k), g_schedTime[k]);
        }
        for (int k = 0; k < g_nHandled && k < 8; ++k) { out(S("handleTime", k), g_handleTime[k]); out(S("handleQ", k), g_handleQ[k]); }
        out("c0", g_c[0]); if (two) out("c1", g_c[1]); out("delta", g_delta);
        delete integ;
    });
}
