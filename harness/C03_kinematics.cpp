// C03: velocity kinematics = d/dt position kinematics; N, NInv, NDot consistency. args: <treeSpec> <euler>
#include "common.h"
using namespace vh;
int main(int argc, char** argv) {
    return guarded([&] {
        Model M;
        buildTree(M, argOr(argc, argv, 1, "Pin:0,Gimbal:1"), argOr(argc, argv, 2, "0") == "1");
        State s = initState(M);
        const SimbodyMatterSubsystem& mat = M.matter;
        M.system.realize(s, Stage::Velocity);
        int nu = s.getNU(), nq = s.getNQ(), nb = mat.getNumBodies();
        symfp::note("nu", std::to_string(nu)); symfp::note("nq", std::to_string(nq)); symfp::note("nb", std::to_string(nb));
        outVec("qdot", s.getQDot());
        Vec3 station = inV3("station", Vec3(0.25, -0.375, 0.5));
        for (int b = 1; b < nb; ++b) {
            const MobilizedBody& mb = mat.getMobilizedBody(MobilizedBodyIndex(b));
            outXform(S("X_GB", b), mb.getBodyTransform(s));
            outSV(S("V_GB", b), mb.getBodyVelocity(s));
            outV3(S("st_p", b), mb.findStationLocationInGround(s, station));
            outV3(S("st_v", b), mb.findStationVelocityInGround(s, station));
        }
        Vector x = inVec("x", nu, 0.625, -0.25), Nx, NInvNx, y = inVec("y", nq, -0.375, 0.5), NTy, NInvTx, NInvy;
        mat.multiplyByN(s, false, x, Nx);            outVec("Nx", Nx);
        mat.multiplyByNInv(s, false, Nx, NInvNx);    outVec("NInvNx", NInvNx);
        mat.multiplyByN(s, true, y, NTy);            outVec("NTy", NTy);
        mat.multiplyByNInv(s, false, y, NInvy);      outVec("NInvy", NInvy);
        mat.multiplyByNInv(s, true, x, NInvTx);      outVec("NInvTx", NInvTx);
        Vector udot = inVec("udot", nu, 0.125, 0.375), qdd, qd2;
        mat.calcQDotDot(s, udot, qdd);               outVec("qdotdot", qdd);
        mat.calcQDot(s, x, qd2);                     outVec("calcQDot_x", qd2);
        Vector NDotu;
        mat.multiplyByNDot(s, false, s.getU(), NDotu); outVec("NDotu", NDotu);
    });
}
