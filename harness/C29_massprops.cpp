// C29: Inertia_/UnitInertia_/SpatialInertia_/ArticulatedInertia_/MassProperties_ and spatial-algebra shift operators.
// args: <mode>   inertia | spatial | abi | valid
#include "common.h"
using namespace vh;

static void outSym(const std::string& n, const SymMat33& s) { outM33(n, Mat33(s)); }
static void outSMat(const std::string& n, const SpatialMat& m) {
    for (int bi = 0; bi < 2; ++bi) for (int bj = 0; bj < 2; ++bj) for (int i = 0; i < 3; ++i) for (int j = 0; j < 3; ++j)
        out(S(n + "_", 3 * bi + i, 3 * bj + j), m(bi, bj)(i, j));
}
static SymMat33 inSym(const std::string& n, const Vec3& d, const Vec3& o, const char* kind) {
    return SymMat33(in(n + "_xx", d[0], kind), in(n + "_xy", o[0], kind), in(n + "_yy", d[1], kind), in(n + "_xz", o[1], kind), in(n + "_yz", o[2], kind), in(n + "_zz", d[2], kind));
}
static void outSI(const std::string& n, const SpatialInertia& M) { out(n + "_m", M.getMass()); outV3(n + "_p", M.getMassCenter()); outSym(n + "_G", M.getUnitInertia().asSymMat33()); }
static void outMP(const std::string& n, const MassProperties& M) { out(n + "_m", M.getMass()); outV3(n + "_p", M.getMassCenter()); outSym(n + "_G", M.getUnitInertia().asSymMat33()); }
static SpatialVec rex(const InverseRotation& R, const SpatialVec& v) { return SpatialVec(R * v[0], R * v[1]); }

int main(int argc, char** argv) {
    return guarded([&] {
        std::string mode = argOr(argc, argv, 1, "inertia");
        symfp::note("mode", mode);
        if (mode == "inertia") {
            SymMat33 ic = inSym("ic", Vec3(0.5, 0.625, 0.75), Vec3(0.0625, -0.0625, 0.0625), "lin");
            Real m = in("m", 1.5, "pos");
            Vec3 p = inV3("p", Vec3(0.25, -0.5, 0.375), "param"), w = inV3("w", Vec3(0.5, 0.75, -0.25), "lin");
            Rotation R = inRot("r", Vec3(0.3, -0.2, 0.5));             outRot("R", R);
            Inertia Ic(ic);                                             outSym("Ic", Ic.asSymMat33());
            Inertia Io = Ic.shiftFromMassCenter(p, m);                  outSym("Io", Io.asSymMat33());
            Inertia Ic2 = Io.shiftToMassCenter(p, m);                   outSym("Ic2", Ic2.asSymMat33());
            { Inertia T(Ic); T.shiftFromMassCenterInPlace(p, m); outSym("IoIP", T.asSymMat33()); T.shiftToMassCenterInPlace(p, m); outSym("Ic2IP", T.asSymMat33()); }
            outSym("pm", Inertia::pointMassAt(p, m).asSymMat33());
            outSym("pmCtor", Inertia(p, m).asSymMat33());
            Inertia Ir = Io.reexpress(R);                               outSym("Ir", Ir.asSymMat33());
            Inertia Iri = Io.reexpress(~R);                             outSym("Iri", Iri.asSymMat33());
            { Inertia T(Io); T.reexpressInPlace(R); outSym("IrIP", T.asSymMat33()); }
            { Inertia T(Io); T.reexpressInPlace(~R); outSym("IriIP", T.asSymMat33()); }
            out("trIo", Io.trace()); out("trIr", Ir.trace());
            outV3("Iow", Io * w);
            outSym("sum", (Io + Ic).asSymMat33()); outSym("dif", (Io - Ic).asSymMat33()); outSym("scl", (Io * m).asSymMat33()); outSym("scl2", (m * Io).asSymMat33()); outSym("dvd", (Io / m).asSymMat33());
            outM33("toMat33", Io.toMat33()); outV3("moments", Io.getMoments()); outV3("products", Io.getProducts());
            // UnitInertia
            UnitInertia G(ic);                                          outSym("G", G.asSymMat33());
            UnitInertia Go = G.shiftFromCentroid(p);                    outSym("Go", Go.asSymMat33());
            UnitInertia Gc = Go.shiftToCentroid(p);                     outSym("Gc", Gc.asSymMat33());
            { UnitInertia T(G); T.shiftFromCentroidInPlace(p); outSym("GoIP", T.asSymMat33()); T.shiftToCentroidInPlace(p); outSym("GcIP", T.asSymMat33()); }
            outSym("Gr", Go.reexpress(R).asSymMat33()); outSym("Gri", Go.reexpress(~R).asSymMat33());
            outSym("upm", UnitInertia::pointMassAt(p).asSymMat33());
            outSym("mG", (m * Go).asSymMat33());
        } else if (mode == "spatial") {
            SymMat33 g = inSym("g", Vec3(0.5, 0.625, 0.75), Vec3(0.0625, -0.0625, 0.0625), "lin");
            Real m = in("m", 1.5, "pos");
            Vec3 p = inV3("p", Vec3(0.25, -0.5, 0.375), "param"), s = inV3("s", Vec3(-0.125, 0.25, 0.5), "param"), s2 = inV3("s2", Vec3(0.375, 0.125, -0.25), "param");
            Rotation R = inRot("r", Vec3(0.3, -0.2, 0.5));             outRot("R", R);
            SpatialVec V = inSV("V", SpatialVec(Vec3(0.5, -0.25, 0.75), Vec3(-0.375, 0.625, 0.25))), F = inSV("F", SpatialVec(Vec3(0.125, 0.5, -0.625), Vec3(0.75, -0.125, 0.375)));
            SpatialVec A = inSV("A", SpatialVec(Vec3(-0.5, 0.125, 0.25), Vec3(0.25, -0.75, 0.5)));
            UnitInertia G(g);
            Transform X(R, s);
            SpatialInertia M(m, p, G);                                  outSI("M", M);
            MassProperties mp(m, p, G);                                 outMP("mp", mp);
            MassProperties mpI(m, p, m * G);                            outMP("mpI", mpI);     // from a full Inertia (divides by m)
            outSI("Msh", M.shift(s));        outMP("mpsh", mp.calcShiftedMassProps(s));
            outSI("Mre", M.reexpress(R));    outMP("mpre", mp.reexpress(R));
            outSI("Mrei", M.reexpress(~R));
            outSI("Mtr", M.transform(X));    outMP("mptr", mp.calcTransformedMassProps(X));
            outSI("Mtri", M.transform(X).transform(~X));
            outSI("Mshsh", M.shift(s).shift(s2)); outSI("Mshsum", M.shift(s + s2));
            { SpatialInertia T(M); T.shiftInPlace(s); outSI("MshIP", T); }
            { SpatialInertia T(M); T.reexpressInPlace(R); outSI("MreIP", T); }
            { SpatialInertia T(M); T.transformInPlace(X); outSI("MtrIP", T); }
            outSym("mpInertia", mp.calcInertia().asSymMat33()); outSym("mpCentral", mp.calcCentralInertia().asSymMat33());
            outSym("mpShiftedI", mp.calcShiftedInertia(s).asSymMat33()); outSym("mpTransfI", mp.calcTransformedInertia(X).asSymMat33());
            outSym("MInertia", M.calcInertia().asSymMat33()); outV3("MMoment", M.calcMassMoment());
            outSMat("Mmat", M.toSpatialMat());
            outSV("MV", M * V);
            // kinetic energy and power under consistent shift / re-expression
            out("KE", 0.5 * (~V * (M * V)));
            SpatialVec Vs = shiftVelocityBy(V, s);                      outSV("Vs", Vs);
            out("KEs", 0.5 * (~Vs * (M.shift(s) * Vs)));
            SpatialVec Vr = rex(~R, V);
            out("KEr", 0.5 * (~Vr * (M.reexpress(R) * Vr)));
            SpatialVec Vt = rex(~R, Vs);
            out("KEt", 0.5 * (~Vt * (M.transform(X) * Vt)));
            SpatialVec Fs = shiftForceBy(F, s);                         outSV("Fs", Fs);
            out("P", ~F * V); out("Ps", ~Fs * Vs); out("Pr", ~rex(~R, F) * Vr); out("Pt", ~rex(~R, Fs) * Vt);
            outSV("Vft", shiftVelocityFromTo(V, s, s2)); outSV("Fft", shiftForceFromTo(F, s, s2));
            outSV("As", shiftAccelerationBy(A, V[0], s)); outSV("Aft", shiftAccelerationFromTo(A, V[0], s, s2));
            outV3("wxs", V[0] % s);
            // Phi matrices
            PhiMatrix phi(s);
            outSMat("phi", phi.toSpatialMat()); outSMat("phiT", (~phi).toSpatialMat());
            outSV("phiV", phi * V); outSV("phiTV", ~phi * V);
            SpatialMat Mm = M.toSpatialMat();
            outSMat("phiM", phi * Mm); outSMat("Mphi", Mm * phi); outSMat("phiTM", ~phi * Mm); outSMat("MphiT", Mm * ~phi);
        } else if (mode == "abi") {
            SymMat33 Mm = inSym("am", Vec3(1.5, 1.75, 2.0), Vec3(0.125, -0.25, 0.0625), "lin"), J = inSym("aj", Vec3(0.5, 0.625, 0.75), Vec3(0.0625, -0.0625, 0.0625), "lin");
            Mat33 Fm; for (int i = 0; i < 3; ++i) for (int j = 0; j < 3; ++j) Fm(i, j) = in(S("af_", i, j), 0.125 * (i - j) + 0.0625 * (i + 1), "lin");
            Vec3 s = inV3("s", Vec3(-0.125, 0.25, 0.5), "param");
            SpatialVec V = inSV("V", SpatialVec(Vec3(0.5, -0.25, 0.75), Vec3(-0.375, 0.625, 0.25)));
            ArticulatedInertia Pa(Mm, Fm, J);
            outSMat("P", Pa.toSpatialMat());
            outSMat("Psh", Pa.shift(s).toSpatialMat());
            { ArticulatedInertia T(Pa); T.shiftInPlace(s); outSMat("PshIP", T.toSpatialMat()); }
            outSV("PV", Pa * V);
            outSMat("Psum", (Pa + Pa.shift(s)).toSpatialMat()); outSMat("Pdif", (Pa - Pa.shift(s)).toSpatialMat());
            out("E", ~V * (Pa * V));
            SpatialVec Vm = shiftVelocityBy(V, -s);
            out("Esh", ~Vm * (Pa.shift(s) * Vm));
            // from a rigid body
            SymMat33 g = inSym("g", Vec3(0.5, 0.625, 0.75), Vec3(0.0625, -0.0625, 0.0625), "lin");
            Real m = in("m", 1.5, "pos"); Vec3 p = inV3("p", Vec3(0.25, -0.5, 0.375), "param");
            SpatialInertia M(m, p, UnitInertia(g));
            outSMat("Prb", ArticulatedInertia(M).toSpatialMat()); outSMat("Mmat", M.toSpatialMat());
            outSMat("Prbsh", ArticulatedInertia(M).shift(s).toSpatialMat()); outSMat("Mshneg", M.shift(-s).toSpatialMat());
        } else if (mode == "valid") {
            SymMat33 ic = inSym("ic", Vec3(0.5, 0.625, 0.75), Vec3(0.0625, -0.0625, 0.0625), "param");
            bool ok = Inertia::isValidInertiaMatrix(ic);
            symfp::note("valid", ok ? "1" : "0");
            outSym("I", ic);
            bool oku = UnitInertia::isValidUnitInertiaMatrix(ic);
            symfp::note("validUnit", oku ? "1" : "0");
        }
    });
}
