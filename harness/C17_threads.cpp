// C17: force totals independent of threading. args: <mix> ; builds the same model for thread counts 1,2,4,16.
#include "common.h"
using namespace vh;

struct Coefs { Real a[12], s[3]; };

class ParForce : public Force::Custom::Implementation {
public:
    ParForce(const MobilizedBody& b, int i, const Coefs* c, bool par, bool posOnly) : b(b), i(i), c(c), par(par), posOnly(posOnly) {}
    void calcForce(const State& s, Vector_<SpatialVec>& bodyForces, Vector_<Vec3>& particleForces, Vector& mobilityForces) const override {
        const Real q = b.getOneQ(s, 0);
        const Real u = posOnly ? Real(0) : b.getOneU(s, 0);
        Vec3 f(c->a[i] * q, c->a[(i + 1) % 12] * u + c->a[(i + 5) % 12], c->a[(i + 2) % 12] * q * q);
        b.applyForceToBodyPoint(s, Vec3(c->s[0], c->s[1], c->s[2]), f, bodyForces);
        b.applyBodyTorque(s, Vec3(c->a[(i + 3) % 12] * u, 0, c->a[(i + 4) % 12]), bodyForces);
        b.applyOneMobilityForce(s, 0, c->a[(i + 6) % 12] * q + c->a[(i + 7) % 12] * u, mobilityForces);
    }
    Real calcPotentialEnergy(const State&) const override { return 0; }
    bool dependsOnlyOnPositions() const override { return posOnly; }
    bool shouldBeParallelIfPossible() const override { return par; }
    const MobilizedBody& b; int i; const Coefs* c; bool par, posOnly;
};

static double g_raceDev = 0;     // largest deviation between repeated multi-threaded evaluations and the first one

static void run(int nthreads, int mix, const Coefs& c, const Real* q, const Real* u, const Real* u2, const std::string& pre, bool emit = true, std::vector<double>* vals = 0) {
    MultibodySystem sys; SimbodyMatterSubsystem matter(sys); GeneralForceSubsystem forces(sys);
    forces.setNumberOfThreads(nthreads);
    Body::Rigid body(MassProperties(1.5, Vec3(0.125, -0.25, 0), Inertia(0.75, 0.875, 1.0).shiftFromMassCenter(Vec3(0.125, -0.25, 0), 1.5)));
    std::vector<MobilizedBody> mb;
    mb.push_back(MobilizedBody::Pin(matter.Ground(), Transform(Vec3(0.25, 0, 0)), body, Transform(Vec3(0, 0.5, 0))));
    mb.push_back(MobilizedBody::Slider(mb[0], Transform(Rotation(0.5, YAxis), Vec3(0, -0.5, 0)), body, Transform()));
    mb.push_back(MobilizedBody::Pin(mb[0], Transform(Vec3(0.25, 0.25, 0)), body, Transform(Vec3(0, 0, 0.375))));
    mb.push_back(MobilizedBody::Pin(mb[2], Transform(Rotation(0.75, XAxis), Vec3(0, 0.25, 0)), body, Transform(Vec3(0.125, 0, 0))));
    // mix bits: which custom elements are parallel / position-only
    for (int i = 0; i < 8; ++i) {
        bool par = (mix >> i) & 1, pos = (mix >> (8 + i)) & 1;
        Force::Custom(forces, new ParForce(mb[i % 4], i, &c, par, pos));
    }
    Force::TwoPointLinearSpring(forces, mb[1], Vec3(0.125, 0, 0), mb[3], Vec3(0, 0.125, 0), c.a[8], 0.5);
    Force::MobilityLinearDamper(forces, mb[2], MobilizerUIndex(0), c.a[9]);
    Force::UniformGravity(forces, matter, Vec3(0, -c.a[10], 0));
    State s = sys.realizeTopology(); sys.realizeModel(s);
    for (int i = 0; i < 4; ++i) { s.updQ()[i] = q[i]; s.updU()[i] = u[i]; }
    sys.realize(s, Stage::Dynamics);                    // caches invalid: everything evaluated
    const Vector_<SpatialVec>& F = sys.getRigidBodyForces(s, Stage::Dynamics);
    if (emit) { for (int b = 0; b < F.size(); ++b) outSV(pre + "a_F" + std::to_string(b), F[b]);
                outVec(pre + "a_f", sys.getMobilityForces(s, Stage::Dynamics)); }
    if (vals) { for (int b = 0; b < F.size(); ++b) for (int i = 0; i < 2; ++i) for (int j = 0; j < 3; ++j) vals->push_back(symfp::value(F[b][i][j]));
                const Vector& mf = sys.getMobilityForces(s, Stage::Dynamics); for (int i = 0; i < mf.size(); ++i) vals->push_back(symfp::value(mf[i])); }
    for (int i = 0; i < 4; ++i) s.updU()[i] = u2[i];    // velocities change: position-only forces come from the cache
    sys.realize(s, Stage::Acceleration);
    const Vector_<SpatialVec>& F2 = sys.getRigidBodyForces(s, Stage::Dynamics);
    if (emit) { for (int b = 0; b < F2.size(); ++b) outSV(pre + "b_F" + std::to_string(b), F2[b]);
                outVec(pre + "b_f", sys.getMobilityForces(s, Stage::Dynamics));
                outVec(pre + "b_udot", s.getUDot()); }
    if (vals) { for (int b = 0; b < F2.size(); ++b) for (int i = 0; i < 2; ++i) for (int j = 0; j < 3; ++j) vals->push_back(symfp::value(F2[b][i][j]));
                const Vector& mf = sys.getMobilityForces(s, Stage::Dynamics); for (int i = 0; i < mf.size(); ++i) vals->push_back(symfp::value(mf[i])); }
}

int main(int argc, char** argv) {
    return guarded([&] {
        int mix = atoi(argOr(argc, argv, 1, "255").c_str());
        Coefs c;
        for (int i = 0; i < 12; ++i) c.a[i] = in(S("a", i), 0.5 + 0.25 * i, "lin");
        for (int i = 0; i < 3; ++i) c.s[i] = in(S("st", i), 0.125 * (i + 1), "param");
        Real q[4], u[4], u2[4];
        for (int i = 0; i < 4; ++i) { q[i] = in(S("q", i), 0.375 - 0.25 * i, i == 1 ? "coord" : "angle"); u[i] = in(S("u", i), 0.5 - 0.25 * i, "lin"); u2[i] = in(S("v", i), -0.375 + 0.5 * i, "lin"); }
        static const int T[] = {1, 2, 4, 16};
        for (int k = 0; k < 4; ++k) run(T[k], mix, c, q, u, u2, "T" + std::to_string(T[k]) + "_");
        // repeated multi-threaded evaluations must all give the single-threaded values (a data race shows up intermittently)
        int reps = atoi(argOr(argc, argv, 2, "12").c_str());
        std::vector<double> ref; run(1, mix, c, q, u, u2, "", false, &ref);
        for (int r = 0; r < reps; ++r) for (int k = 1; k < 4; ++k) {
            std::vector<double> v; run(T[k], mix, c, q, u, u2, "", false, &v);
            for (size_t i = 0; i < v.size() && i < ref.size(); ++i) { double d = std::fabs(v[i] - ref[i]) / (1.0 + std::fabs(ref[i])); if (d > g_raceDev) g_raceDev = d; }
        }
        out("race_dev_exceeds_1e9", g_raceDev > 1e-9 ? 1.0 : 0.0);
    });
}
