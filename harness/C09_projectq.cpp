// C09 (partial): projection on an UNCONSTRAINED model: quaternion normalisation by projectQ, and the 'already satisfied state is
// not changed unless forced' early return. (With no holonomic constraint in use projectQ never reaches the FactorQTZ/LAPACK code.)
// args: <treeSpec> <mode small|big|forced>
//   every quaternion of the state is a pinned unit quaternion times (1+eps_k); eps is within (small, forced) or beyond (big) the
//   requested accuracy acc.
#include "common.h"
using namespace vh;
int main(int argc, char** argv) {
    return guarded([&] {
        Model M;
        buildTree(M, argOr(argc, argv, 1, "Ball:0"), false);
        std::string mode = argOr(argc, argv, 2, "big");
        State s = initState(M);
        Real acc = in("acc", 0.0009765625, "fixed");                      // 2^-10
        int k = 0;
        for (int st : M.quatStarts) {
            Real eps = in(S("eps", k), mode == "big" ? 0.25 - 0.0625 * k : 0.00006103515625 * (k + 1), "fixed");   // 1/4.. or 2^-14..
            for (int i = 0; i < 4; ++i) s.updQ()[st + i] = s.getQ()[st + i] * (1 + eps);
            ++k;
        }
        int nq = s.getNQ(), nu = s.getNU();
        symfp::note("nq", std::to_string(nq)); symfp::note("nu", std::to_string(nu));
        outVec("q0", s.getQ()); outVec("u0", s.getU());
        M.system.realize(s, Stage::Velocity);
        outVec("qerr0", s.getQErr());
        ProjectOptions opts(acc);
        if (mode == "forced") opts.setOption(ProjectOptions::ForceProjection);
        ProjectResults res;
        Vector noErrEst;
        M.system.projectQ(s, noErrEst, opts, res);
        symfp::note("q_anyChange", res.getAnyChangeMade() ? "1" : "0");
        symfp::note("q_status", res.getExitStatus() == ProjectResults::Succeeded ? "ok" : "fail");
        outVec("q1", s.getQ()); outVec("u1", s.getU());
        outVec("qerr1", s.getQErr());
        M.system.realize(s, Stage::Velocity);
        ProjectResults resU;
        M.system.projectU(s, noErrEst, opts, resU);
        symfp::note("u_anyChange", resU.getAnyChangeMade() ? "1" : "0");
        symfp::note("u_status", resU.getExitStatus() == ProjectResults::Succeeded ? "ok" : "fail");
        outVec("q2", s.getQ()); outVec("u2", s.getU());
    });
}
