// C47: analytic geodesics on sphere and cylinder. args: <shape> <method> [nknots]
//   sphere  shootLength   : shootGeodesicInDirectionUntilLengthReachedAnalytical (Geodesic object, 12 samples)
//   sphere  shootKnots n  : shootGeodesicInDirectionAnalytically (knot sink, n knots)
//   sphere  twoPoint      : calcGeodesicAnalytical(xP, xQ, hints)
//   cylinder shootKnots n : shootGeodesicInDirectionAnalytically
//   cylinder twoPoint     : calcGeodesicAnalytical(xP, xQ, hints)
// The start frame is a symbolic rotation (three angles): x = outward normal at P, y = tangent direction.
// The requested length is (nsteps * phi * r) with phi an input of kind "angle": the code's own length/radius
// quotients are then integer multiples of phi.
#include "common.h"
using namespace vh;

static void outGeodesic(const ContactGeometry& g, const Geodesic& geod) {
    int n = geod.getNumPoints();
    symfp::note("npoints", std::to_string(n));
    for (int i = 0; i < n; ++i) {
        const Transform& X = geod.getFrenetFrames()[i];
        outV3(S("p", i), X.p());
        outV3(S("t", i), Vec3(X.y()));     // tangent
        outV3(S("n", i), Vec3(X.z()));     // surface normal
        outV3(S("b", i), Vec3(X.x()));     // binormal
        out(S("s", i), geod.getArcLengths()[i]);
        out(S("f", i), g.calcSurfaceValue(X.p()));
        outV3(S("g", i), g.calcSurfaceGradient(X.p()));
    }
    if (n) out("length", geod.getLength());
}

int main(int argc, char** argv) {
    return guarded([&] {
        std::string shape = argOr(argc, argv, 1, "sphere"), method = argOr(argc, argv, 2, "shootLength");
        int nk = atoi(argOr(argc, argv, 3, "4").c_str());
        Real r = in("r", 1.25, "pos");
        ContactGeometry g = shape == "sphere" ? ContactGeometry(ContactGeometry::Sphere(r)) : ContactGeometry(ContactGeometry::Cylinder(r));
        Rotation F = inRot("F", Vec3(0.4, -0.3, 0.6));
        Real phi = in("phi", 0.2, "angle");
        symfp::note("nk", std::to_string(nk));
        if (shape == "sphere") {
            UnitVec3 nP = F.x(), tP = F.y();
            Real k = in("k", 1.0, "pos");          // the start point handed to the routine is k*r*nP: it need not be on the surface
            Vec3 xP = (k * r) * Vec3(nP);
            outV3("nP", Vec3(nP)); outV3("tP", Vec3(tP));
            if (method == "shootLength") {
                Real L = 11 * phi * r;
                out("L", L);
                Geodesic geod;
                g.shootGeodesicInDirectionUntilLengthReachedAnalytical(xP, tP, L, GeodesicOptions(), geod);
                outGeodesic(g, geod);
            } else if (method == "shootKnots") {
                Real L = (nk - 1) * phi * r;
                out("L", L);
                int i = 0;
                g.shootGeodesicInDirectionAnalytically(xP, Vec3(tP), L, nk, [&](const ContactGeometry::GeodesicKnotPoint& y) {
                    outV3(S("p", i), y.point); outV3(S("t", i), Vec3(y.tangent)); out(S("s", i), y.arcLength);
                    out(S("f", i), g.calcSurfaceValue(y.point)); outV3(S("g", i), g.calcSurfaceGradient(y.point));
                    out(S("jr", i), y.jacobiRot); out(S("jrd", i), y.jacobiRotDot); out(S("jt", i), y.jacobiTrans); out(S("jtd", i), y.jacobiTransDot);
                    ++i; });
                symfp::note("npoints", std::to_string(i));
            } else if (method == "twoPoint") {
                // Q = r*(nP cos(th) + tP sin(th)) built in the harness from a second angle input; hints along the arc
                Real th = in("th", 0.7, "angle");
                Vec3 eQ = Vec3(nP) * std::cos(th) + Vec3(tP) * std::sin(th);
                Vec3 tQ = -Vec3(nP) * std::sin(th) + Vec3(tP) * std::cos(th);
                Real sg = in("hintsign", 1.0, "fixed");
                outV3("eQ", eQ);
                Geodesic geod;
                g.calcGeodesicAnalytical(xP, r * eQ, sg * Vec3(tP), sg * tQ, geod);
                outGeodesic(g, geod);
            }
        } else {
            // cylinder (axis z): start point (r cos a0, r sin a0, z0); tangent = cos(beta) e_theta + sin(beta) e_z
            Real a0 = in("a0", 0.5, "angle"), beta = in("beta", 0.3, "angle"), z0 = in("z0", 0.25, "coord");
            Vec3 er(std::cos(a0), std::sin(a0), 0), et(-std::sin(a0), std::cos(a0), 0), ez(0, 0, 1);
            Vec3 xP = r * er + z0 * ez;
            Vec3 tP = std::cos(beta) * et + std::sin(beta) * ez;
            outV3("xP", xP); outV3("tP", tP); outV3("er", er); outV3("et", et);
            out("cb", std::cos(beta)); out("sb", std::sin(beta));
            if (method == "shootKnots") {
                Real L = in("L", 1.5, "lin");
                int i = 0;
                g.shootGeodesicInDirectionAnalytically(xP, tP, L, nk, [&](const ContactGeometry::GeodesicKnotPoint& y) {
                    outV3(S("p", i), y.point); outV3(S("t", i), Vec3(y.tangent)); out(S("s", i), y.arcLength);
                    out(S("f", i), g.calcSurfaceValue(y.point)); outV3(S("g", i), g.calcSurfaceGradient(y.point));
                    out(S("jr", i), y.jacobiRot); out(S("jrd", i), y.jacobiRotDot); out(S("jt", i), y.jacobiTrans); out(S("jtd", i), y.jacobiTransDot);
                    ++i; });
                symfp::note("npoints", std::to_string(i));
            } else if (method == "twoPoint") {
                Real a1 = in("a1", 1.1, "angle"), z1 = in("z1", 0.875, "coord");
                Vec3 xQ(r * std::cos(a1), r * std::sin(a1), z1);
                Vec3 etQ(-std::sin(a1), std::cos(a1), 0);
                Real sg = in("hintsign", 1.0, "fixed");
                outV3("xQ", xQ);
                Geodesic geod;
                g.calcGeodesicAnalytical(xP, xQ, sg * et, sg * etQ, geod);
                outGeodesic(g, geod);
            }
        }
    });
}
