// C25: Matrix_/Vector_/RowVector_ objects and views, fixed-size Vec/Row/Mat/SymMat. One operation script per run.
// args: <script> [dims...]
//   arith m n | matmul m k n | views | writeviews | resizecopy | vector n | vecN n | mat | inv n | sym | cross | adaptors
#include "common.h"
using namespace vh;

static Matrix inM(const std::string& nm, int m, int n, Real s0) {
    Matrix A(m, n);
    for (int i = 0; i < m; ++i) for (int j = 0; j < n; ++j) A(i, j) = in(S(nm + "_", i, j), s0 + 0.125 * ((3 * i + 5 * j) % 7) - 0.375 * ((i + j) % 2), "lin");
    return A;
}
static Vector inVc(const std::string& nm, int n, Real s0) { Vector v(n); for (int i = 0; i < n; ++i) v[i] = in(S(nm + "_", i), s0 + 0.25 * ((2 * i) % 5) - 0.5 * (i % 2), "lin"); return v; }
static void dump(const std::string& nm, const Matrix& A) {
    symfp::note(("shape_" + nm).c_str(), std::to_string(A.nrow()) + "x" + std::to_string(A.ncol()));
    outMat(nm, A);
}
static void dumpV(const std::string& nm, const Vector& v) { symfp::note(("shape_" + nm).c_str(), std::to_string(v.size())); outVec(nm, v); }
static void dumpR(const std::string& nm, const RowVector& r) { symfp::note(("shape_" + nm).c_str(), std::to_string(r.size())); for (int i = 0; i < r.size(); ++i) out(S(nm + "_", i), r[i]); }
template <int N> static Vec<N> inVN(const std::string& nm, Real s0) { Vec<N> v; for (int i = 0; i < N; ++i) v[i] = in(S(nm + "_", i), s0 + 0.25 * ((2 * i) % 5) - 0.5 * (i % 2), "lin"); return v; }
template <int M, int N> static Mat<M, N> inMN(const std::string& nm, Real s0) {
    Mat<M, N> A; for (int i = 0; i < M; ++i) for (int j = 0; j < N; ++j) A(i, j) = in(S(nm + "_", i, j), s0 + 0.125 * ((3 * i + 5 * j) % 7) - 0.375 * ((i + j) % 2) + (i == j ? 1.0 : 0.0), "lin"); return A; }
template <int N> static void outVN(const std::string& nm, const Vec<N>& v) { for (int i = 0; i < N; ++i) out(S(nm + "_", i), v[i]); }
template <int M, int N> static void outMN(const std::string& nm, const Mat<M, N>& A) { for (int i = 0; i < M; ++i) for (int j = 0; j < N; ++j) out(S(nm + "_", i, j), A(i, j)); }

template <int N> static void vecN() {
    Vec<N> a = inVN<N>("a", 0.5), b = inVN<N>("b", -0.25); Real s = in("s", 1.5, "lin");
    outVN<N>("add", a + b); outVN<N>("sub", a - b); outVN<N>("sa", s * a); outVN<N>("as", a * s); outVN<N>("ads", a / s); outVN<N>("neg", -a);
    out("dot", ~a * b); out("dot2", dot(a, b)); out("nsq", a.normSqr()); out("nrm", a.norm()); out("sum", a.sum());
    { Vec<N> t = a; t += b; outVN<N>("pe", t); t -= a; outVN<N>("pme", t); t *= s; outVN<N>("te", t); }
    outMN<N, N>("outer", a * ~b);
    Row<N> r = ~a; { Vec<N> t; for (int i = 0; i < N; ++i) t[i] = r[i]; outVN<N>("row", t); }
    outVN<N>("ewm", a.elementwiseMultiply(b));
    outVN<N>("negview", Vec<N>(a.negate()));                    // negator<> adaptor read back
    { Vec<N> t = a; t.updNegate() += b; outVN<N>("negwrite", t); }   // write through the negated view: -t += b  => t -= b
    outVN<N>("unit", a.normalize());
}
template <int N> static void invN() {
    Mat<N, N> A = inMN<N, N>("A", 0.25);
    Mat<N, N> Ai = A.invert();      outMN<N, N>("Ai", Ai);
    out("det", det(A));
    outMN<N, N>("AAi", A * Ai);
    Vec<N> b = inVN<N>("b", 0.5);
    outVN<N>("Aib", Ai * b);
}

int main(int argc, char** argv) {
    return guarded([&] {
        std::string sc = argOr(argc, argv, 1, "arith");
        symfp::note("script", sc);
        auto dim = [&](int i, int d) { return i < argc ? atoi(argv[i]) : d; };
        if (sc == "arith") {
            int m = dim(2, 3), n = dim(3, 4);
            Matrix A = inM("A", m, n, 0.5), B = inM("B", m, n, -0.25); Real s = in("s", 1.5, "lin");
            dump("add", A + B); dump("sub", A - B); dump("sA", s * A); dump("As", A * s); dump("Ads", A / s); dump("neg", -A);
            { Matrix T = A; T += B; dump("pe", T); T -= A; dump("pme", T); T *= s; dump("te", T); T /= s; dump("de", T); }
            dump("negview", Matrix(A.negate()));
            dump("ewm", A.elementwiseMultiply(B));
            dump("tr", Matrix(~A));
            dumpR("colsum", A.colSum()); dumpV("rowsum", A.rowSum());
            out("nsq", A.scalarNormSqr());
            if (m * n > 0) { out("nrm", A.norm()); out("rms", A.normRMS()); }
            Matrix Z; Z.resize(m, n); Z.setToZero(); dump("zero", Z);
            Matrix C(m, n); C = s; dump("scalarassign", C);        // scalar assignment: diagonal = s, rest 0
            Matrix F(m, n); F.setTo(s); dump("setTo", F);
        } else if (sc == "matmul") {
            int m = dim(2, 3), k = dim(3, 4), n = dim(4, 2);
            Matrix A = inM("A", m, k, 0.5), B = inM("B", k, n, -0.25); Vector v = inVc("v", k, 0.25), w = inVc("w", m, -0.5);
            dump("AB", A * B); dumpV("Av", A * v); dump("wA", ~w * A); dump("BtAt", ~B * ~A); dumpV("Atw", ~A * w);
            dump("AB_negA", A.negate() * B);
        } else if (sc == "views") {
            Matrix A = inM("A", 4, 5, 0.5);
            dump("blk", Matrix(A.block(1, 2, 3, 2))); dump("blk0", Matrix(A.block(2, 1, 0, 3))); dump("par", Matrix(A(1, 2, 3, 2)));
            dumpR("row2", RowVector(A.row(2))); dumpR("idx1", RowVector(A[1])); dumpV("col3", Vector(A.col(3))); dumpV("par3", Vector(A(3)));
            dumpV("diag", Vector(A.diag()));
            dump("tr", Matrix(~A)); dump("trblk", Matrix((~A).block(1, 0, 3, 2))); dump("blktr", Matrix(~A.block(0, 1, 2, 3)));
            dumpR("rowofblk", RowVector(A.block(1, 1, 3, 3).row(2))); dumpV("colofblk", Vector(A.block(1, 1, 3, 3).col(0))); dumpV("diagofblk", Vector(A.block(1, 2, 3, 3).diag()));
            dumpV("colsub", Vector(A.col(1)(1, 2))); dump("negblk", Matrix(A.block(0, 0, 2, 2).negate()));
            dumpV("coloftr", Vector((~A).col(2))); dumpV("diagtr", Vector((~A).diag()));
            out("elt", A.block(1, 2, 3, 2)(2, 1)); out("getElt", A.getElt(3, 4));
        } else if (sc == "writeviews") {
            Matrix A = inM("A", 4, 5, 0.5), B = inM("B", 2, 3, -0.25); Vector c = inVc("c", 4, 0.25), d = inVc("d", 4, -0.5); RowVector r = ~inVc("r", 5, 0.75); Real s = in("s", 1.5, "lin"), x = in("x", -0.75, "lin");
            A.updBlock(1, 1, 2, 3) = B;          dump("w1", A);
            A.updRow(0) += r;                    dump("w2", A);
            A.updCol(4) = c;                     dump("w3", A);
            A.updDiag() *= s;                    dump("w4", A);
            (~A)(2, 1) = x;                      dump("w5", A);      // transposed view element (2,1) is A(1,2)
            A.updBlock(0, 2, 4, 2).updCol(1) -= d;   dump("w6", A);
            A(2, 0, 2, 2) *= s;                  dump("w7", A);      // block via operator()
            A.updBlock(1, 0, 3, 3).updDiag() = Vector(Vec3(x, s, x + s));    dump("w8", A);
            (~A).updBlock(0, 0, 2, 2) += Matrix(Mat22(1, 2, 3, 4));  dump("w9", A);
            A.updBlock(2, 2, 2, 3).updNegate()(1, 2) = negator<Real>::recast(x);   dump("w10", A);     // element write through a negated view: the negator number -x (bits x) stored through the negated view leaves the plain double x
            A[3] = r;                             dump("w11", A);
            A(0) = d;                             dump("w12", A);
            A.updElt(1, 1) = x; A.col(2)[3] = s;  dump("w13", A);
        } else if (sc == "resizecopy") {
            Matrix A = inM("A", 3, 4, 0.5); Real x = in("x", -0.75, "lin");
            Matrix Bc = A; Bc(0, 0) = x; Bc(2, 3) += x;       dump("A_after_copy_write", A); dump("B", Bc);
            Matrix Cc(A.block(0, 1, 2, 2)); Cc(1, 1) = x;     dump("A_after_viewcopy_write", A); dump("C", Cc);
            MatrixView V = A.updBlock(1, 1, 2, 2); V(0, 1) = x; dump("A_after_view_write", A);
            Matrix D; D = A; D.resizeKeep(4, 5);              symfp::note("shape_D", std::to_string(D.nrow()) + "x" + std::to_string(D.ncol()));
            for (int i = 0; i < 3; ++i) for (int j = 0; j < 4; ++j) out(S("Dkeep_", i, j), D(i, j));
            D.resizeKeep(2, 3); dump("Dshrink", D);
            Matrix E = A; E.resize(2, 6); symfp::note("shape_E", std::to_string(E.nrow()) + "x" + std::to_string(E.ncol()));
            Vector v = inVc("v", 4, 0.25); Vector w = v; w[1] = x; dumpV("v_after_copy_write", v);
            w.resizeKeep(6); for (int i = 0; i < 4; ++i) out(S("wkeep_", i), w[i]); symfp::note("shape_w", std::to_string(w.size()));
            w.resizeKeep(2); dumpV("wshrink", w);
            Matrix F; F = A.block(0, 0, 2, 2); F *= x; dump("A_after_assignfromview_write", A);
        } else if (sc == "vector") {
            int n = dim(2, 5);
            Vector v = inVc("v", n, 0.5), w = inVc("w", n, -0.25); Real s = in("s", 1.5, "lin");
            dumpV("add", v + w); dumpV("sub", v - w); dumpV("sv", s * v); dumpV("vds", v / s); dumpV("neg", -v);
            out("dot", ~v * w); out("nsq", v.normSqr()); out("sum", v.sum());
            if (n > 0) { out("nrm", v.norm()); out("rms", v.normRMS()); }
            dumpV("ewm", v.elementwiseMultiply(w));
            { Vector t = v; t += w; t *= s; dumpV("pete", t); }
            dump("outer", Matrix(v * ~w));
            if (n >= 4) {
                dumpV("sub13", Vector(v(1, 3)));
                Vector t = v; t.updBlock(1, 0, 2, 1) = Vector(Vec2(s, s * 2)); t(n - 2, 2) += Vector(Vec2(1, -1)); dumpV("subwrite", t);
                Vector idx = v; Array_<int> ix; ix.push_back(n - 1); ix.push_back(0); ix.push_back(2);
                dumpV("indexed", Vector(v.index(ix))); idx.updIndex(ix) = Vector(Vec3(s, 2 * s, 3 * s)); dumpV("indexwrite", idx);
            }
            RowVector r = ~v; dumpR("row", r); out("rowdot", r * w);
        } else if (sc == "vecN") {
            int n = dim(2, 3);
            switch (n) { case 1: vecN<1>(); break; case 2: vecN<2>(); break; case 3: vecN<3>(); break; case 4: vecN<4>(); break; case 5: vecN<5>(); break; default: vecN<6>(); }
        } else if (sc == "mat") {
            Mat<2, 3> A = inMN<2, 3>("A", 0.5); Mat<3, 2> B = inMN<3, 2>("B", -0.25); Mat<2, 3> C = inMN<2, 3>("C", 0.125); Vec3 v = inVN<3>("v", 0.25); Vec2 w = inVN<2>("w", -0.5); Real s = in("s", 1.5, "lin");
            outMN<2, 2>("AB", A * B); outMN<3, 3>("BA", B * A); outVN<2>("Av", A * v); { Row3 r = ~w * A; outVN<3>("wA", Vec3(r[0], r[1], r[2])); }
            outMN<3, 2>("At", Mat<3, 2>(~A)); outMN<2, 3>("add", A + C); outMN<2, 3>("sub", A - C); outMN<2, 3>("sA", s * A); outMN<2, 3>("Ads", A / s); outMN<2, 3>("neg", -A);
            outVN<2>("col1", Vec2(A(1))); { Row3 r = A[1]; outVN<3>("row1", Vec3(r[0], r[1], r[2])); }
            outMN<2, 2>("sub22", Mat22(A.getSubMat<2, 2>(0, 1)));
            { Mat<2, 3> T = A; T.updSubMat<2, 2>(0, 0) = Mat22(s, 0, 0, s); T(1) += w; T[0] *= s; outMN<2, 3>("writes", T); }
            outMN<2, 3>("negview", Mat<2, 3>(A.negate()));
            Mat<4, 4> M4 = inMN<4, 4>("M", 0.25); out("det4", det(M4)); out("trace4", M4.trace());
            Mat<5, 5> M5 = inMN<5, 5>("N", -0.125); out("det5", det(M5));
            outMN<2, 3>("ewm", A.elementwiseMultiply(C));
            out("nsq", A.normSqr());
        } else if (sc == "inv") {
            int n = dim(2, 3);
            switch (n) { case 1: invN<1>(); break; case 2: invN<2>(); break; case 3: invN<3>(); break; case 4: invN<4>(); break; case 5: invN<5>(); break; default: invN<6>(); }
        } else if (sc == "sym") {
            SymMat33 Sa(in("S_0_0", 1.5, "lin"), in("S_1_0", 0.25, "lin"), in("S_1_1", 1.25, "lin"), in("S_2_0", -0.375, "lin"), in("S_2_1", 0.125, "lin"), in("S_2_2", 2.0, "lin"));
            SymMat33 Tb(in("T_0_0", 0.5, "lin"), in("T_1_0", -0.25, "lin"), in("T_1_1", 0.75, "lin"), in("T_2_0", 0.375, "lin"), in("T_2_1", 0.5, "lin"), in("T_2_2", 1.0, "lin"));
            Vec3 v = inVN<3>("v", 0.25); Real s = in("s", 1.5, "lin");
            outMN<3, 3>("full", Mat33(Sa)); outMN<3, 3>("add", Mat33(Sa + Tb)); outMN<3, 3>("sub", Mat33(Sa - Tb)); outMN<3, 3>("sS", Mat33(s * Sa)); outVN<3>("Sv", Sa * v);
            outMN<3, 3>("ST", Sa * Tb); out("det", det(Sa)); out("trace", Sa.trace());
            outMN<3, 3>("inv", Mat33(inverse(Sa))); outMN<3, 3>("SSi", Mat33(Sa) * Mat33(inverse(Sa)));   // the member SymMat::invert() is an unimplemented stub (see spec NOT_COVERED)
            outVN<3>("diag", Sa.getDiag()); outVN<3>("lower", Sa.getLower());
            SymMat22 S2(in("U_0_0", 1.5, "lin"), in("U_1_0", 0.25, "lin"), in("U_1_1", 1.25, "lin")); out("det2", det(S2)); outMN<2, 2>("inv2", Mat22(inverse(S2)));
            outMN<3, 3>("fromMat", Mat33(SymMat33(Mat33(Sa) * Mat33(Sa))));       // SymMat from a symmetric Mat33 (S*S)
        } else if (sc == "cross") {
            Vec3 a = inVN<3>("a", 0.5), b = inVN<3>("b", -0.25), c = inVN<3>("c", 0.125); Vec2 p = inVN<2>("p", 0.25), q = inVN<2>("q", -0.5); Mat33 M = inMN<3, 3>("M", 0.25);
            outVN<3>("axb", a % b); outVN<3>("cross", cross(a, b)); outMN<3, 3>("cm", crossMat(a)); outVN<3>("cmb", crossMat(a) * b);
            out("p2q", p % q); out("cross2", cross(p, q));
            out("triple", ~a * (b % c)); outVN<3>("axbxc", a % (b % c));
            outMN<3, 3>("aXM", a % M); outMN<3, 3>("MXa", M % a);
            outMN<3, 3>("cmsq", Mat33(crossMatSq(a)));
            { Row3 r = ~a % ~b; outVN<3>("rowcross", Vec3(r[0], r[1], r[2])); }
            outVN<3>("negcross", a.negate() % b);
        } else if (sc == "adaptors") {
            Vec3 a = inVN<3>("a", 0.5), b = inVN<3>("b", -0.25); Mat33 M = inMN<3, 3>("M", 0.25); Real s = in("s", 1.5, "lin");
            const Vec<3, negator<Real> >& na = a.negate();
            outVN<3>("na", Vec3(na)); outVN<3>("na_plus_b", na + b); outVN<3>("b_minus_na", b - na); out("na_dot_b", ~na * b); outVN<3>("s_na", s * na); outVN<3>("nna", Vec3(na.negate()));
            outMN<3, 3>("nM", Mat33(M.negate())); outVN<3>("nM_a", M.negate() * a); outVN<3>("nM_na", M.negate() * na); outMN<3, 3>("nMt", Mat33(~M.negate()));
            out("neg_scalar", Real(negator<Real>::recast(s))); out("negneg", Real(-negator<Real>::recast(s)));
            // complex / conjugate adaptor
            Vec<2, Complex> z(Complex(in("zr0", 0.5, "lin"), in("zi0", -0.75, "lin")), Complex(in("zr1", 0.25, "lin"), in("zi1", 1.5, "lin")));
            Complex hz = ~z * z;          out("hz_re", hz.real()); out("hz_im", hz.imag());      // Hermitian product: |z|^2
            Row<2, conjugate<Real> > zh = ~z;
            Complex c0 = zh[0];           out("c0_re", c0.real()); out("c0_im", c0.imag());
            Complex pz = z[0] * z[1];     out("pz_re", pz.real()); out("pz_im", pz.imag());
            Complex cz = conjugate<Real>(z[0]) * z[1]; out("cz_re", cz.real()); out("cz_im", cz.imag());
        }
    });
}
