// C45: CablePath with 0-2 via points and no surface obstacles, CableSpring. args: <treeSpec> <nvia> [path|span]
// "span": the same cable through the newer CableSubsystem/CableSpan API (no obstacles, via points only; no spring element).
// origin on body 1, termination on the last body, via points on Ground / intermediate bodies; every station, the spring
// parameters and the test tension are symbolic.
#include "common.h"
using namespace vh;
int main(int argc, char** argv) {
    return guarded([&] {
        Model M;
        buildTree(M, argOr(argc, argv, 1, "Pin:0,Pin:1"), false);
        int nvia = atoi(argOr(argc, argv, 2, "1").c_str());
        int nbm = (int)M.bodies.size() - 1;      // number of moving bodies
        if (argOr(argc, argv, 3, "path") == "span") {
            CableSubsystem cs(M.system);
            Vec3 so = inV3("st_o", Vec3(0.25, 0.125, -0.375));
            Vec3 st = inV3("st_t", Vec3(-0.125, 0.5, 0.25));
            std::vector<int> obsBody; std::vector<Vec3> obsStation;
            CableSpan span(cs, M.bodies[1].getMobilizedBodyIndex(), so, M.bodies[nbm].getMobilizedBodyIndex(), st);
            obsBody.push_back(1); obsStation.push_back(so);
            for (int i = 0; i < nvia; ++i) {
                int b = (i == 0) ? 0 : std::max(1, nbm - 1);
                Vec3 sv = inV3(S("st_v", i), Vec3(0.5 + 0.25 * i, -0.625, 0.375 - 0.5 * i));
                span.addViaPoint(M.bodies[b].getMobilizedBodyIndex(), sv);
                obsBody.push_back(b); obsStation.push_back(sv);
            }
            obsBody.push_back(nbm); obsStation.push_back(st);
            State s = initState(M);
            M.system.realize(s, Stage::Velocity);
            int nq = s.getNQ(), nb = M.matter.getNumBodies();
            symfp::note("nq", std::to_string(nq)); symfp::note("nb", std::to_string(nb));
            symfp::note("npts", std::to_string((int)obsBody.size())); symfp::note("api", "span");
            outVec("qdot", s.getQDot());
            for (int i = 0; i < (int)obsBody.size(); ++i) outV3(S("P", i), M.bodies[obsBody[i]].findStationLocationInGround(s, obsStation[i]));
            out("L", span.calcLength(s));
            out("Ldot", span.calcLengthDot(s));
            Real T = in("T", 1.5, "lin");
            out("power_T", span.calcCablePower(s, T));
            Vector_<SpatialVec> F(nb, SpatialVec(Vec3(0), Vec3(0)));
            span.applyBodyForces(s, T, F);
            symfp::note("T_positive", symfp::value(T) > 0 ? "1" : "0");
            for (int b = 0; b < nb; ++b) {
                outSV(S("F", b), F[b]);
                const MobilizedBody& mb = M.matter.getMobilizedBody(MobilizedBodyIndex(b));
                outSV(S("V", b), mb.getBodyVelocity(s));
                outV3(S("O", b), mb.getBodyOriginLocation(s));
            }
            return;
        }
        CableTrackerSubsystem cables(M.system);
        std::vector<int> obsBody;                // body index (in M.bodies) of every path point, in path order
        std::vector<Vec3> obsStation;
        Vec3 so = inV3("st_o", Vec3(0.25, 0.125, -0.375));
        Vec3 st = inV3("st_t", Vec3(-0.125, 0.5, 0.25));
        int bo = 1, bt = nbm;
        CablePath path(cables, M.bodies[bo], so, M.bodies[bt], st);
        obsBody.push_back(bo); obsStation.push_back(so);
        for (int i = 0; i < nvia; ++i) {
            int b = (i == 0) ? 0 : std::max(1, nbm - 1);    // first via point on Ground, second on an intermediate body
            Vec3 sv = inV3(S("st_v", i), Vec3(0.5 + 0.25 * i, -0.625, 0.375 - 0.5 * i));
            CableObstacle::ViaPoint via(path, M.bodies[b], sv);
            obsBody.push_back(b); obsStation.push_back(sv);
        }
        obsBody.push_back(bt); obsStation.push_back(st);
        Real k = in("k", 2.5, "lin"), L0 = in("L0", 0.5, "lin"), c = in("c", 0.125, "lin");
        CableSpring spring(M.forces, path, k, L0, c);
        State s = initState(M);
        M.system.realize(s, Stage::Velocity);
        int nq = s.getNQ(), nb = M.matter.getNumBodies();
        symfp::note("nq", std::to_string(nq)); symfp::note("nb", std::to_string(nb));
        symfp::note("npts", std::to_string((int)obsBody.size()));
        outVec("qdot", s.getQDot());
        for (int i = 0; i < (int)obsBody.size(); ++i) {
            outV3(S("P", i), M.bodies[obsBody[i]].findStationLocationInGround(s, obsStation[i]));
            outV3(S("Pd", i), M.bodies[obsBody[i]].findStationVelocityInGround(s, obsStation[i]));
        }
        out("L", path.getCableLength(s));
        out("Ldot", path.getCableLengthDot(s));
        Real T = in("T", 1.5, "lin");
        out("power_T", path.calcCablePower(s, T));
        Vector_<SpatialVec> F(nb, SpatialVec(Vec3(0), Vec3(0)));
        path.applyBodyForces(s, T, F);
        symfp::note("T_positive", symfp::value(T) > 0 ? "1" : "0");
        for (int b = 0; b < nb; ++b) {
            outSV(S("F", b), F[b]);
            const MobilizedBody& mb = M.matter.getMobilizedBody(MobilizedBodyIndex(b));
            outSV(S("V", b), mb.getBodyVelocity(s));
            outV3(S("O", b), mb.getBodyOriginLocation(s));
        }
        // the spring element
        out("sp_L", spring.getLength(s)); out("sp_Ldot", spring.getLengthDot(s));
        out("sp_tension", spring.getTension(s));
        out("sp_PE", spring.getPotentialEnergy(s));
        out("sp_powerloss", spring.getPowerDissipation(s));
        M.system.realize(s, Stage::Dynamics);
        const Vector_<SpatialVec>& RF = M.system.getRigidBodyForces(s, Stage::Dynamics);
        for (int b = 0; b < nb; ++b) outSV(S("RF", b), RF[b]);
    });
}
