// C21: states returned by the integrators stay on the manifold (decidable part: quaternion normalisation, prescribed motion).
//   quat  <Ball|Free> <integ> <force|tol> <nsteps> [interp]   unconstrained quaternion body, symbolic angular velocity / step size
//   presc <steady|sinP|sinV> <integ> <step|interp>            Pin driven by Motion::Steady / Motion::Sinusoid, plus a free spring-loaded slider
#include "common.h"
using namespace vh;

static Integrator* makeInteg(const std::string& n, const System& sys) {
    if (n == "ExplicitEuler") return new ExplicitEulerIntegrator(sys);
    if (n == "RungeKutta2") return new RungeKutta2Integrator(sys);
    if (n == "RungeKutta3") return new RungeKutta3Integrator(sys);
    if (n == "RungeKuttaMerson") return new RungeKuttaMersonIntegrator(sys);
    if (n == "RungeKuttaFeldberg") return new RungeKuttaFeldbergIntegrator(sys);
    if (n == "Verlet") return new VerletIntegrator(sys);
    if (n == "SemiExplicitEuler2") return new SemiExplicitEuler2Integrator(sys);
    fprintf(stderr, "unknown integrator %s\n", n.c_str()); exit(2);
}

int main(int argc, char** argv) {
    return guarded([&] {
        std::string mode = argOr(argc, argv, 1, "quat");
        MultibodySystem sys; SimbodyMatterSubsystem matter(sys); GeneralForceSubsystem forces(sys);
        const Real t0 = in("t0", 0.25, "fixed");
        if (mode == "quat") {
            const std::string mob = argOr(argc, argv, 2, "Ball"), iname = argOr(argc, argv, 3, "ExplicitEuler"), opt = argOr(argc, argv, 4, "force");
            const int nsteps = atoi(argOr(argc, argv, 5, "1").c_str());
            const bool interp = argOr(argc, argv, 6, "") == "interp";
            const Real m = in("m", 1.0, "fixed"), ixx = in("ixx", 1.0, "fixed"), iyy = in("iyy", 1.5, "fixed"), izz = in("izz", 2.0, "fixed");
            Body::Rigid body(MassProperties(m, Vec3(0), Inertia(ixx, iyy, izz)));
            MobilizedBody mb;
            if (mob == "Ball") mb = MobilizedBody::Ball(matter.Ground(), Transform(), body, Transform());
            else mb = MobilizedBody::Free(matter.Ground(), Transform(), body, Transform());
            State s = sys.realizeTopology(); sys.realizeModel(s);
            s.setTime(t0);
            static const Real qq[] = {0.8, 0.2, -0.4, 0.4};
            for (int i = 0; i < 4; ++i) s.updQ()[i] = in(S("q", i), qq[i], "quat");
            static const Real us[] = {0.5, -0.75, 0.375, 0.25, -0.125, 0.5};
            for (int i = 0; i < s.getNU(); ++i) s.updU()[i] = in(S("u", i), us[i], "lin");
            for (int i = 4; i < s.getNQ(); ++i) s.updQ()[i] = in(S("q", i), 0.25 * (i - 3), "coord");
            const Real h = in("h", 0.125, "time");
            Integrator* integ = makeInteg(iname, sys);
            integ->setFixedStepSize(h); integ->setAccuracy(0.01);
            if (opt == "force") integ->setProjectEveryStep(true);
            else integ->setConstraintTolerance(in("tol", 0.0625, "pos"));
            integ->setReturnEveryInternalStep(!interp);
            integ->initialize(s);
            out("tol", integ->getConstraintToleranceInUse());
            out("h", h);
            auto dump = [&](int c) {
                const State& sc = integ->getState();
                for (int i = 0; i < 4; ++i) out(S("q", c, i), sc.getQ()[i]);
                out(S("t", c), sc.getTime());
                out(S("qerr", c), sc.getNQErr() ? sc.getQErr()[0] : Real(0));
                symfp::note(S("interp", c).c_str(), integ->isStateInterpolated() ? "1" : "0");
            };
            int c = 0;
            integ->stepTo(Infinity); dump(c++);                     // start-of-interval state (initialize() projected it)
            for (int k = 0; k < nsteps; ++k) {
                if (interp) {
                    const Real r = in(S("r", k), 0.046875, "time");
                    integ->stepTo(integ->getAdvancedTime() + r); dump(c++);  // interpolated report inside the next step
                } else { integ->stepTo(Infinity); dump(c++); }
            }
            symfp::note("nret", std::to_string(c));
            symfp::note("nsteps", std::to_string(integ->getNumStepsTaken()));
            symfp::note("nqproj", std::to_string(integ->getNumQProjections()));
            delete integ;
            return;
        }
        if (mode == "presc") {
            const std::string mo = argOr(argc, argv, 2, "steady"), iname = argOr(argc, argv, 3, "ExplicitEuler"), rep = argOr(argc, argv, 4, "step");
            Body::Rigid body(MassProperties(in("m", 1.0, "fixed"), Vec3(0), Inertia(1)));
            MobilizedBody::Pin pin(matter.Ground(), Transform(), body, Transform(Vec3(0, 0.5, 0)));
            MobilizedBody::Slider sl(pin, Transform(), body, Transform());
            Force::MobilityLinearSpring(forces, sl, MobilizerUIndex(0), in("k", 2.5, "param"), in("qz", 0.125, "param"));
            Real amp = 0, rate = 0, phase = 0;
            if (mo == "steady") { rate = in("rate", 0.375, "lin"); Motion::Steady(pin, rate); }
            else {
                amp = in("amp", 0.75, "lin"); phase = in("phase", 0.4, "angle"); rate = in("rate", 2.0, "fixed");
                Motion::Sinusoid(pin, mo == "sinP" ? Motion::Position : Motion::Velocity, amp, rate, phase);
            }
            State s = sys.realizeTopology(); sys.realizeModel(s);
            s.setTime(t0);
            const Real qp0 = in("qp0", 0.3, mo == "steady" ? "coord" : "angle");
            s.updQ()[0] = qp0; s.updQ()[1] = in("qs0", 0.25, "coord");
            s.updU()[0] = in("up0", 0.125, "lin"); s.updU()[1] = in("us0", -0.5, "lin");
            const Real h = in("h", 0.125, "time");
            Integrator* integ = makeInteg(iname, sys);
            integ->setFixedStepSize(h); integ->setAccuracy(0.01);
            integ->setReturnEveryInternalStep(rep == "step");
            integ->initialize(s);
            out("h", h); out("rate", rate); out("amp", amp); out("qp_init", qp0);
            int c = 0;
            auto dump = [&]() {
                const State& sc = integ->getState();
                const Real t = sc.getTime();
                out(S("t", c), t); out(S("qp", c), sc.getQ()[0]); out(S("up", c), sc.getU()[0]);
                if (mo != "steady") { out(S("sin", c), std::sin(rate * t + phase)); out(S("cos", c), std::cos(rate * t + phase)); }
                symfp::note(S("interp", c).c_str(), integ->isStateInterpolated() ? "1" : "0");
                ++c;
            };
            integ->stepTo(Infinity); dump();
            for (int k = 0; k < 2; ++k) {
                if (rep == "interp") { const Real r = in(S("r", k), 0.046875, "time"); integ->stepTo(integ->getAdvancedTime() + r); dump(); }
                else { integ->stepTo(Infinity); dump(); }
            }
            symfp::note("nret", std::to_string(c));
            symfp::note("nsteps", std::to_string(integ->getNumStepsTaken()));
            delete integ;
            return;
        }
        fprintf(stderr, "unknown mode\n"); exit(2);
    });
}
