// C05: built-in mobilizers realize their documented parameterisation.
// args: <Type> <euler 0|1> <frameStyle 0|1|2> <variant|-> <fits 0|1>
// Two bodies on Ground: body 1 = forward mobilizer, body 2 = reversed mobilizer of the same type with the SAME option values,
// the same q and the same u. Outputs per body: X_FM, V_FM, qdot; fit round trips (setQToFitTransform / setUToFitVelocity /
// setQToFitRotation / setUToFitAngularVelocity with the mobilizer's own X_FM(q), V_FM(q,u) as targets, starting from the
// default state).
#include "common.h"
using namespace vh;

struct Opts {   // option values shared by the forward and the reversed instance
    Real pitch, len; Vec3 radii;
    Real az0, ze0; bool negAz, negZe, negR; int radialAxis;   // SphericalCoords
};

static MobilizedBody make(Model& M, const std::string& t, int k, int frames, bool rev, const Opts& o) {
    std::string n = S("b", k);
    Body::Rigid body(symMassProps(n, k));
    MobilizedBody& parent = M.bodies[0];
    Transform X_PF = inFrame(n + "_XPF", frames, Vec3(0.25, -0.5, 0.375), Vec3(0.3, -0.2, 0.5));
    Transform X_BM = inFrame(n + "_XBM", frames, Vec3(-0.125, 0.25, 0.5), Vec3(-0.4, 0.1, 0.2));
    MobilizedBody::Direction dir = rev ? MobilizedBody::Reverse : MobilizedBody::Forward;
    if (t == "Pin") return MobilizedBody::Pin(parent, X_PF, body, X_BM, dir);
    if (t == "Slider") return MobilizedBody::Slider(parent, X_PF, body, X_BM, dir);
    if (t == "Universal") return MobilizedBody::Universal(parent, X_PF, body, X_BM, dir);
    if (t == "Cylinder") return MobilizedBody::Cylinder(parent, X_PF, body, X_BM, dir);
    if (t == "BendStretch") return MobilizedBody::BendStretch(parent, X_PF, body, X_BM, dir);
    if (t == "Planar") return MobilizedBody::Planar(parent, X_PF, body, X_BM, dir);
    if (t == "Gimbal") return MobilizedBody::Gimbal(parent, X_PF, body, X_BM, dir);
    if (t == "Bushing") return MobilizedBody::Bushing(parent, X_PF, body, X_BM, dir);
    if (t == "Ball") return MobilizedBody::Ball(parent, X_PF, body, X_BM, dir);
    if (t == "Free") return MobilizedBody::Free(parent, X_PF, body, X_BM, dir);
    if (t == "LineOrientation") return MobilizedBody::LineOrientation(parent, X_PF, body, X_BM, dir);
    if (t == "FreeLine") return MobilizedBody::FreeLine(parent, X_PF, body, X_BM, dir);
    if (t == "Translation") return MobilizedBody::Translation(parent, X_PF, body, X_BM, dir);
    if (t == "Screw") return MobilizedBody::Screw(parent, X_PF, body, X_BM, o.pitch, dir);
    if (t == "SphericalCoords")
        return MobilizedBody::SphericalCoords(parent, X_PF, body, X_BM, o.az0, o.negAz, o.ze0, o.negZe,
                                              o.radialAxis == 0 ? CoordinateAxis(XAxis) : CoordinateAxis(ZAxis), o.negR, dir);
    if (t == "Ellipsoid") return MobilizedBody::Ellipsoid(parent, X_PF, body, X_BM, o.radii, dir);
    if (t == "CantileverFreeBeam") return MobilizedBody::CantileverFreeBeam(parent, X_PF, body, X_BM, o.len, dir);
    if (t == "Weld") return MobilizedBody::Weld(parent, X_PF, body, X_BM);
    fprintf(stderr, "unknown mobilizer %s\n", t.c_str()); exit(2);
}

int main(int argc, char** argv) {
    return guarded([&] {
        Model M;
        std::string T = argOr(argc, argv, 1, "Pin");
        bool euler = argOr(argc, argv, 2, "0") == "1";
        int frames = atoi(argOr(argc, argv, 3, "2").c_str());
        std::string variant = argOr(argc, argv, 4, "-");
        const bool doFits = argOr(argc, argv, 5, "1") == "1";     // SphericalCoords: e.g. "nzx" = azimuth negated, zenith negated, radial x; 'r' radial negated
        Opts o;
        o.pitch = o.len = 0; o.az0 = o.ze0 = 0; o.negAz = o.negZe = o.negR = false; o.radialAxis = 2;
        if (T == "Screw") o.pitch = in("pitch", 0.375, "param");
        if (T == "CantileverFreeBeam") o.len = in("len", 1.5, "pos");
        if (T == "Ellipsoid") o.radii = Vec3(in("rx", 0.5, "pos"), in("ry", 0.75, "pos"), in("rz", 1.0, "pos"));
        if (T == "SphericalCoords") {
            o.az0 = in("az0", 0.4, "angle"); o.ze0 = in("ze0", -0.3, "angle");
            o.negAz = variant.find('a') != std::string::npos; o.negZe = variant.find('z') != std::string::npos;
            o.negR = variant.find('r') != std::string::npos; o.radialAxis = variant.find('x') != std::string::npos ? 0 : 2;
            symfp::note("sph", std::string(o.negAz ? "1" : "0") + (o.negZe ? "1" : "0") + (o.negR ? "1" : "0") + (o.radialAxis == 0 ? "x" : "z"));
        }
        M.euler = euler;
        M.bodies.push_back(M.matter.Ground());
        M.bodies.push_back(make(M, T, 1, frames, false, o));
        M.bodies.push_back(make(M, T, 2, frames, true, o));
        M.system.realizeTopology();
        State s = M.system.getDefaultState();
        if (euler) M.matter.setUseEulerAngles(s, true);
        M.system.realizeModel(s);
        const State s0 = s;                       // default values: starting point of the fits
        const int nq = s.getNQ() / 2, nu = s.getNU() / 2;
        std::string kinds = qKinds(T, euler);
        if ((int)kinds.size() != nq) { fprintf(stderr, "qkinds %d != nq %d\n", (int)kinds.size(), nq); exit(2); }
        static const Real qa[] = {0.3, -0.5, 0.7, 0.4, -0.2, 0.6, 0.35, -0.45};
        static const Real qq[] = {0.8, 0.2, -0.3, 0.4};
        int nquat = 0;
        for (int i = 0; i < nq; ++i) {
            char kd = kinds[i];
            Real v;
            if (kd == 'x') continue;
            if (kd == 'a') v = in(S("q", i), qa[i % 8], "angle");
            else if (kd == 'c') v = in(S("q", i), (T == "BendStretch" && variant == "neg" ? -1 : 1) * (0.25 + 0.125 * (i % 5)), "coord");
            else { v = in(S("q", i), qq[nquat % 4], "quat"); ++nquat; }
            s.updQ()[i] = v; s.updQ()[nq + i] = v;
        }
        symfp::note("quat_starts", kinds.substr(0, 4) == "qqqq" ? " 0" : "");
        for (int i = 0; i < nu; ++i) { Real v = in(S("u", i), 0.5 - 0.25 * (i % 4), "lin"); s.updU()[i] = v; s.updU()[nu + i] = v; }
        symfp::note("nq", std::to_string(nq)); symfp::note("nu", std::to_string(nu));
        M.system.realize(s, Stage::Velocity);
        for (int b = 1; b <= 2; ++b) {
            const MobilizedBody& mb = M.bodies[b];
            std::string pre = b == 1 ? "f_" : "r_";
            Transform X = mb.getMobilizerTransform(s);
            SpatialVec V = mb.getMobilizerVelocity(s);
            outXform(pre + "X", X);
            outSV(pre + "V", V);
            Vector qd(nq); for (int i = 0; i < nq; ++i) qd[i] = s.getQDot()[(b - 1) * nq + i];
            outVec(pre + "qdot", qd);
            if (nq == 0 || !doFits) continue;
            // Position fits start from the default state. Velocity fits are done at the true configuration (so that they do not
            // depend on the position fit): whole-velocity and angular-velocity fits from zero speeds, the linear-velocity fit from
            // the true speeds (a linear-velocity-only fit may leave the rotational speeds alone, so the target is reachable only
            // if those are already right).
            // Ellipsoid: the translation / linear-velocity fits are directional approximations built from nested atan2 and
            // normalisations; only its rotation and angular-velocity fits are exercised (see spec NOT_COVERED)
            State sz = s;                              // true q, zero u of this mobilizer
            for (int i = 0; i < nu; ++i) sz.updU()[(b - 1) * nu + i] = 0;
            if (T != "Ellipsoid") {
                State s2 = s0;
                mb.setQToFitTransform(s2, X);
                M.system.realize(s2, Stage::Position);
                outXform(pre + "fitX", mb.getMobilizerTransform(s2));
                if (T != "CantileverFreeBeam") {       // its linear-velocity fit is a FactorQTZ least squares (LAPACK)
                    State s2b = sz;
                    mb.setUToFitVelocity(s2b, V);
                    M.system.realize(s2b, Stage::Velocity);
                    outSV(pre + "fitV", mb.getMobilizerVelocity(s2b));
                }
            }
            {   // rotation only / angular velocity only
                State s3 = s0;
                mb.setQToFitRotation(s3, X.R());
                M.system.realize(s3, Stage::Position);
                outRot(pre + "fitR", mb.getMobilizerTransform(s3).R());
                State s3b = sz;
                mb.setUToFitAngularVelocity(s3b, V[0]);
                M.system.realize(s3b, Stage::Velocity);
                outV3(pre + "fitW", mb.getMobilizerVelocity(s3b)[0]);
            }
            if (T != "Ellipsoid") {   // translation only / linear velocity only, starting from the true state
                State s4 = s;
                mb.setQToFitTranslation(s4, X.p());
                if (T != "CantileverFreeBeam") mb.setUToFitLinearVelocity(s4, V[1]);
                M.system.realize(s4, Stage::Velocity);
                outV3(pre + "fitP", mb.getMobilizerTransform(s4).p());
                outV3(pre + "fitL", mb.getMobilizerVelocity(s4)[1]);
            }
        }
    });
}
