// C40: Differentiator forward / central differences on polynomial user functions with symbolic coefficients.
// args: scalar|gradient|jacobian  forward|central  <y seeds...>
#include "common.h"
using namespace vh;

static const Real ACC = 1.4551915228366852e-11;   // 2^-36: sqrt is exactly 2^-18 (step factors stay short rationals)
static int ncall = 0;
static void rec(const std::string& what, Real v) { out(what, v); }

// f(y) = a0 + a1 y + a2 y^2 + a3 y^3
struct Cubic : Differentiator::ScalarFunction {
    Real a[4];
    Cubic() : Differentiator::ScalarFunction(ACC) {}
    Real val(Real y) const { return a[0] + y * (a[1] + y * (a[2] + y * a[3])); }
    int f(Real y, Real& fy) const override { rec(S("ev_", ncall++), y); fy = val(y); return 0; }
};
// f(y0,y1) = c + b.y + q00 y0^2 + q01 y0 y1 + q11 y1^2 + t0 y0^3 + t1 y0^2 y1 + t2 y0 y1^2 + t3 y1^3
struct Poly2 {
    Real c, b[2], q[3], t[4];
    void read(const std::string& n, Real s) {
        c = in(n + "c", 0.5 + s, "lin"); b[0] = in(n + "b0", -0.75 + s, "lin"); b[1] = in(n + "b1", 0.375, "lin");
        q[0] = in(n + "q00", 0.625, "lin"); q[1] = in(n + "q01", -0.5 + s, "lin"); q[2] = in(n + "q11", 0.25, "lin");
        t[0] = in(n + "t0", 0.125, "lin"); t[1] = in(n + "t1", -0.375, "lin"); t[2] = in(n + "t2", 0.5 - s, "lin"); t[3] = in(n + "t3", -0.25, "lin");
    }
    Real val(const Vector& y) const {
        const Real u = y[0], v = y[1];
        return c + b[0] * u + b[1] * v + q[0] * u * u + q[1] * u * v + q[2] * v * v + t[0] * u * u * u + t[1] * u * u * v + t[2] * u * v * v + t[3] * v * v * v;
    }
};
struct Grad : Differentiator::GradientFunction {
    Poly2 p;
    Grad() : Differentiator::GradientFunction(2, ACC) {}
    int f(const Vector& y, Real& fy) const override { rec(S("ev", ncall, 0), y[0]); rec(S("ev", ncall, 1), y[1]); ++ncall; fy = p.val(y); return 0; }
};
struct Jac : Differentiator::JacobianFunction {
    Poly2 p, r;
    Jac() : Differentiator::JacobianFunction(2, 2, ACC) {}
    int f(const Vector& y, Vector& fy) const override { rec(S("ev", ncall, 0), y[0]); rec(S("ev", ncall, 1), y[1]); ++ncall; fy[0] = p.val(y); fy[1] = r.val(y); return 0; }
};

int main(int argc, char** argv) {
    return guarded([&] {
        std::string mode = argOr(argc, argv, 1, "scalar"), meth = argOr(argc, argv, 2, "forward");
        symfp::note("mode", mode); symfp::note("method", meth);
        Differentiator::Method M = meth == "forward" ? Differentiator::ForwardDifference : Differentiator::CentralDifference;
        auto seed = [&](int i, double d) { return i < argc ? atof(argv[i]) : d; };
        if (mode == "scalar") {
            Cubic f; for (int i = 0; i < 4; ++i) f.a[i] = in(S("a", i), 0.5 - 0.375 * i, "lin");
            Real y0 = in("y0", seed(3, 0.625), "param");
            Differentiator d(f, M);
            Real fy0 = f.val(y0);                          out("fy0", fy0);
            Real dfdy; d.calcDerivative(y0, fy0, dfdy);    out("est", dfdy);
            symfp::note("ncalls1", std::to_string(ncall));
            out("est2", d.calcDerivative(y0));             // convenience form: evaluates f(y0) itself
            Differentiator dd(f);                          // default method, method given per call
            Real e3; dd.calcDerivative(y0, fy0, e3, M);    out("est3", e3);
            symfp::note("ncalls", std::to_string(ncall));
        } else if (mode == "gradient") {
            Grad f; f.p.read("p_", 0);
            Vector y0(2); y0[0] = in("y0", seed(3, 0.625), "param"); y0[1] = in("y1", seed(4, -0.375), "param");
            Differentiator d(f, M);
            Real fy0 = f.p.val(y0);                        out("fy0", fy0);
            Vector g; d.calcGradient(y0, fy0, g);          outVec("est", g);
            symfp::note("ncalls1", std::to_string(ncall));
            outVec("est2", d.calcGradient(y0));
            symfp::note("ncalls", std::to_string(ncall));
        } else {
            Jac f; f.p.read("p_", 0); f.r.read("r_", 0.125);
            Vector y0(2); y0[0] = in("y0", seed(3, 0.625), "param"); y0[1] = in("y1", seed(4, -0.375), "param");
            Differentiator d(f, M);
            Vector fy0(2); fy0[0] = f.p.val(y0); fy0[1] = f.r.val(y0);   outVec("fy0", fy0);
            Matrix J; d.calcJacobian(y0, fy0, J);          outMat("est", J);
            symfp::note("ncalls1", std::to_string(ncall));
            outMat("est2", d.calcJacobian(y0));
            symfp::note("ncalls", std::to_string(ncall));
        }
    });
}
