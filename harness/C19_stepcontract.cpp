// C19: integrator step/report/final-time contract. args: <integrator> <options>
// options: comma list of  every (return every internal step), nointerp, fixed (fixed step size), sched (use a scheduled event time), limit
#include "common.h"
using namespace vh;

static Integrator* makeInteg(const std::string& n, const System& sys, Real h, bool fixed) {
    if (n == "ExplicitEuler") return fixed ? new ExplicitEulerIntegrator(sys, h) : new ExplicitEulerIntegrator(sys);
    if (n == "RungeKutta2") return new RungeKutta2Integrator(sys);
    if (n == "RungeKutta3") return new RungeKutta3Integrator(sys);
    if (n == "RungeKuttaFeldberg") return new RungeKuttaFeldbergIntegrator(sys);
    if (n == "RungeKuttaMerson") return new RungeKuttaMersonIntegrator(sys);
    if (n == "Verlet") return fixed ? new VerletIntegrator(sys, h) : new VerletIntegrator(sys);
    if (n == "SemiExplicitEuler") return new SemiExplicitEulerIntegrator(sys, h);
    if (n == "SemiExplicitEuler2") return new SemiExplicitEuler2Integrator(sys);
    if (n == "CPodes") return new CPodesIntegrator(sys);
    fprintf(stderr, "unknown integrator %s\n", n.c_str()); exit(2);
}

int main(int argc, char** argv) {
    return guarded([&] {
        std::string iname = argOr(argc, argv, 1, "RungeKuttaMerson");
        std::string opts = "," + argOr(argc, argv, 2, "") + ",";
        auto has = [&](const char* o) { return opts.find(std::string(",") + o + ",") != std::string::npos; };
        MultibodySystem sys; SimbodyMatterSubsystem matter(sys); GeneralForceSubsystem forces(sys);
        Body::Rigid body(MassProperties(1.0, Vec3(0), Inertia(1)));
        MobilizedBody::Slider slider(matter.Ground(), Transform(), body, Transform());
        // options "dyn": spring + pendulum (error control active: nonlinear in the symbolic times);
        // default: free slider (u' = 0, every method exact, all decisions linear in the symbolic times)
        bool dyn = has("dyn");
        MobilizedBody::Pin* pend = 0;
        if (dyn) {
            pend = new MobilizedBody::Pin(slider, Transform(Vec3(0, 0, 0)), body, Transform(Vec3(0, 0.5, 0)));
            Force::MobilityLinearSpring(forces, slider, MobilizerUIndex(0), 4.0, 0.125);
            Force::UniformGravity(forces, matter, Vec3(0, -2.0, 0));
        }
        State s = sys.realizeTopology();
        sys.realizeModel(s);
        s.updQ()[0] = 0.25; s.updU()[0] = 0.5;
        if (dyn) { s.updQ()[1] = 0.5; s.updU()[1] = -0.25; }
        Real tf = in("tf", 1.0, "time");
        Real h = in("h", 0.125, "time");
        const int NR = 4;
        Real r[NR + 1];
        Real acc = 0;
        for (int i = 0; i < NR; ++i) { acc = acc + in(S("dr", i), 0.3125 + 0.0625 * i, "time"); r[i] = acc; }
        r[NR] = Infinity;
        Real sched = has("sched") ? in("sched", 0.5625, "time") : Infinity;
        Integrator* integ = makeInteg(iname, sys, h, has("fixed"));
        if (has("fixed") && iname != "ExplicitEuler" && iname != "Verlet" && iname != "SemiExplicitEuler") integ->setFixedStepSize(h);
        integ->setAccuracy(0.01);
        if (has("every")) integ->setReturnEveryInternalStep(true);
        if (has("nointerp")) integ->setAllowInterpolation(false);
        if (has("limit")) integ->setInternalStepLimit(2);
        integ->setFinalTime(tf);
        integ->initialize(s);
        int k = 0, ncalls = 0;
        bool schedDone = false;
        for (int c = 0; c < 9; ++c) {
            Real sc = schedDone ? (Real)Infinity : sched;
            Integrator::SuccessfulStepStatus st = integ->stepTo(r[k], sc);
            out(S("t", c), integ->getTime());
            out(S("tadv", c), integ->getAdvancedTime());
            out(S("rep", c), r[k]);
            out(S("sch", c), sc);
            symfp::note(S("status", c).c_str(), std::to_string((int)st));
            ++ncalls;
            if (st == Integrator::EndOfSimulation) {
                bool threw = false;
                try { integ->stepTo(r[k], sc); } catch (const std::exception&) { threw = true; }
                symfp::note("threw_after_end", threw ? "1" : "0");
                break;
            }
            if (st == Integrator::ReachedReportTime && k < NR && integ->getTime() == r[k]) ++k;
            if (st == Integrator::ReachedScheduledEvent) schedDone = true;
        }
        symfp::note("ncalls", std::to_string(ncalls));
        out("tf_out", tf);
        delete integ;
    });
}
