// C28: angular-velocity <-> coordinate-rate helpers of Rotation.h. args: <mode>  (xyz | b321 | quat)
#include "common.h"
using namespace vh;

static void outM43(const std::string& n, const Mat<4,3>& m) { for (int i = 0; i < 4; ++i) for (int j = 0; j < 3; ++j) out(S(n + "_", i, j), m(i, j)); }
static void outM34(const std::string& n, const Mat<3,4>& m) { for (int i = 0; i < 3; ++i) for (int j = 0; j < 4; ++j) out(S(n + "_", i, j), m(i, j)); }
static void outV4(const std::string& n, const Vec4& v) { for (int i = 0; i < 4; ++i) out(S(n + "_", i), v[i]); }

int main(int argc, char** argv) {
    return guarded([&] {
        std::string mode = argOr(argc, argv, 1, "xyz");
        symfp::note("mode", mode);
        if (mode == "xyz") {
            Vec3 q(in("q0", 0.3, "angle"), in("q1", -0.5, "angle"), in("q2", 0.7, "angle"));
            Vec3 wB = inV3("wB", Vec3(0.5, -0.25, 0.75), "lin"), wBdot = inV3("wBdot", Vec3(-0.375, 0.625, 0.25), "lin");
            Vec3 wP = inV3("wP", Vec3(-0.5, 0.375, 0.25), "lin"), wPdot = inV3("wPdot", Vec3(0.125, -0.75, 0.5), "lin");
            Vec3 y = inV3("y", Vec3(0.25, 0.5, -0.625), "lin");
            Rotation R; R.setRotationToBodyFixedXYZ(q);                       outRot("R", R);
            Vec3 cq(cos(q[0]), cos(q[1]), cos(q[2])), sq(sin(q[0]), sin(q[1]), sin(q[2]));
            Rotation Rcs; Rcs.setRotationToBodyFixedXYZ(cq, sq);              outRot("Rcs", Rcs);
            // ---- body frame
            Mat33 NB = Rotation::calcNForBodyXYZInBodyFrame(q);               outM33("NB", NB);
            Mat33 NBi = Rotation::calcNInvForBodyXYZInBodyFrame(q);           outM33("NBi", NBi);
            Vec3 qdB = Rotation::convertAngVelInBodyFrameToBodyXYZDot(q, wB); outV3("qdB", qdB);
            outV3("wB_back", Rotation::convertBodyXYZDotToAngVelInBodyFrame(q, qdB));
            outM33("NBdot", Rotation::calcNDotForBodyXYZInBodyFrame(q, qdB));
            outV3("qddB", Rotation::convertAngVelDotInBodyFrameToBodyXYZDotDot(q, wB, wBdot));
            // ---- parent frame
            Mat33 NP = Rotation::calcNForBodyXYZInParentFrame(q);             outM33("NP", NP);
            Mat33 NPi = Rotation::calcNInvForBodyXYZInParentFrame(q);         outM33("NPi", NPi);
            Vec2 cxy(cq[0], cq[1]), sxy(sq[0], sq[1]);
            Real ooc = 1 / cq[1];
            Vec3 qdP = Rotation::convertAngVelInParentToBodyXYZDot(cxy, sxy, ooc, wP);  outV3("qdP", qdP);
            outM33("NPdot", Rotation::calcNDotForBodyXYZInParentFrame(q, qdP));
            outV3("qddP", Rotation::convertAngAccInParentToBodyXYZDotDot(cxy, sxy, ooc, qdP, wPdot));
            outV3("mulN_P", Rotation::multiplyByBodyXYZ_N_P(cxy, sxy, ooc, y));
            outV3("mulNT_P", Rotation::multiplyByBodyXYZ_NT_P(cxy, sxy, ooc, y));
            outV3("mulNInv_P", Rotation::multiplyByBodyXYZ_NInv_P(cxy, sxy, y));
            outV3("mulNInvT_P", Rotation::multiplyByBodyXYZ_NInvT_P(cxy, sxy, y));
        } else if (mode == "b321") {
            Vec3 q(in("q0", 0.3, "angle"), in("q1", -0.5, "angle"), in("q2", 0.7, "angle"));
            Vec3 wB = inV3("wB", Vec3(0.5, -0.25, 0.75), "lin"), wBdot = inV3("wBdot", Vec3(-0.375, 0.625, 0.25), "lin");
            Rotation R(BodyRotationSequence, q[0], ZAxis, q[1], YAxis, q[2], XAxis);   outRot("R", R);
            Vec3 qd = Rotation::convertAngVelToBodyFixed321Dot(q, wB);        outV3("qd", qd);
            outV3("wB_back", Rotation::convertBodyFixed321DotToAngVel(q, qd));
            outV3("qdd", Rotation::convertAngVelDotToBodyFixed321DotDot(q, wB, wBdot));
        } else if (mode == "quat") {
            Vec4 q(in("q0", 0.75, "param"), in("q1", 0.25, "param"), in("q2", -0.375, "param"), in("q3", 0.5, "param"));
            Vec3 w = inV3("w", Vec3(0.5, -0.25, 0.75), "lin"), wdot = inV3("wdot", Vec3(-0.375, 0.625, 0.25), "lin");
            Quaternion qn(q); Rotation R(qn);      // normalizing constructor: R(q/|q|)
            outRot("R", R);
            Rotation Ru; Ru.setRotationFromQuaternion(Quaternion(q, true));     // no normalisation: |q|^2 R
            outRot("Ru", Ru);
            Mat<4,3> N = Rotation::calcUnnormalizedNForQuaternion(q);         outM43("N", N);
            Mat<3,4> Ni = Rotation::calcUnnormalizedNInvForQuaternion(q);     outM34("Ni", Ni);
            Vec4 qd = Rotation::convertAngVelToQuaternionDot(q, w);           outV4("qd", qd);
            outV3("w_back", Rotation::convertQuaternionDotToAngVel(q, qd));
            outM43("Ndot", Rotation::calcUnnormalizedNDotForQuaternion(qd));
            outV4("qdd", Rotation::convertAngVelDotToQuaternionDotDot(q, w, wdot));
        }
    });
}
