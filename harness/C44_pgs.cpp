// C44: PGSImpulseSolver::solve called directly.
// args: <rows> <rankK> <maxIters> [opts]
//   rows: comma list, multipliers are numbered in order of appearance
//     u<n>   unconditional constraint with n multipliers
//     c      unilateral contact, participating, frictionless, sign +1      (1 row)
//     cf     ... with 2-D friction                                        (3 rows: N, Fx, Fy)
//     cm/cmf same with sign -1
//     cfx    participating with friction and a given expansion impulse on the normal row
//     cfk    Known contact (normal row does not participate, expansion impulse given), friction participates
//     co     Observing contact with friction (no row participates)
//     b      bounded scalar row (symbolic lb < ub)
//     l<n>   constraint-limited friction with n friction rows, limited by the multipliers of the most recent u constraint
//     s<n>   state-limited friction with n rows and symbolic known normal force
//   rankK: A = J J^T with J (m x K) symbolic => exactly symmetric positive semidefinite (singular when K < m)
//   opts: comma list: tol (symbolic convergence tolerance), applied (verrApplied given), d0 (D = 0)
#include "common.h"
#include "simbody/internal/ImpulseSolver.h"
#include "simbody/internal/PGSImpulseSolver.h"
using namespace vh;

struct PGS : public PGSImpulseSolver {
    PGS() : PGSImpulseSolver(0.01) {}
    long long iters(int ph) const { return m_nIters[ph]; }
    long long fails(int ph) const { return m_nFail[ph]; }
};

int main(int argc, char** argv) {
    return guarded([&] {
        std::string rows = argOr(argc, argv, 1, "u2,cf");
        int K = atoi(argOr(argc, argv, 2, "3").c_str());
        int maxIters = atoi(argOr(argc, argv, 3, "2").c_str());
        std::string opts = "," + argOr(argc, argv, 4, "") + ",";
        auto has = [&](const char* o) { return opts.find(std::string(",") + o + ",") != std::string::npos; };

        Array_<ImpulseSolver::UncondRT> uncond;
        Array_<ImpulseSolver::UniContactRT> uni;
        Array_<ImpulseSolver::UniSpeedRT> uniSpeed;
        Array_<ImpulseSolver::BoundedRT> bounded;
        Array_<ImpulseSolver::ConstraintLtdFrictionRT> consLtd;
        Array_<ImpulseSolver::StateLtdFrictionRT> stateLtd;
        Array_<MultiplierIndex> participating, expanding;
        std::vector<int> expandRows;
        int m = 0, lastU = -1;
        std::string layout;   // per-token description for the spec: kind:firstRow:...
        for (auto& tok : split(rows, ',')) {
            if (tok[0] == 'u') {
                int n = atoi(tok.c_str() + 1);
                ImpulseSolver::UncondRT rt;
                for (int i = 0; i < n; ++i) { rt.m_mults.push_back(MultiplierIndex(m + i)); participating.push_back(MultiplierIndex(m + i)); }
                lastU = (int)uncond.size();
                uncond.push_back(rt);
                layout += "u:" + std::to_string(m) + ":" + std::to_string(n) + ";";
                m += n;
            } else if (tok[0] == 'c') {
                bool fr = tok.find('f') != std::string::npos, neg = tok.find('m') != std::string::npos;
                bool known = tok.find('k') != std::string::npos, obs = tok.find('o') != std::string::npos, expd = tok.find('x') != std::string::npos;
                ImpulseSolver::UniContactRT rt;
                int k = (int)uni.size();
                rt.m_Nk = MultiplierIndex(m);
                rt.m_sign = neg ? -1 : 1;
                rt.m_type = obs ? ImpulseSolver::Observing : known ? ImpulseSolver::Known : ImpulseSolver::Participating;
                if (rt.m_type == ImpulseSolver::Participating) participating.push_back(MultiplierIndex(m));
                if (known || expd) { expanding.push_back(MultiplierIndex(m)); expandRows.push_back(m); }
                if (fr || obs) {
                    rt.m_Fk.push_back(MultiplierIndex(m + 1)); rt.m_Fk.push_back(MultiplierIndex(m + 2));
                    rt.m_effMu = in(S("mu", k), 0.5, "pos");
                    if (!obs) { participating.push_back(MultiplierIndex(m + 1)); participating.push_back(MultiplierIndex(m + 2)); }
                }
                layout += std::string("c:") + std::to_string(m) + ":" + ((fr || obs) ? "3" : "1") + ":" + (neg ? "-1" : "1") + ":" + (obs ? "o" : known ? "k" : "p") + ";";
                m += (fr || obs) ? 3 : 1;
                uni.push_back(rt);
            } else if (tok[0] == 'b') {
                int k = (int)bounded.size();
                Real lb = in(S("lb", k), -0.25, "bound"), ub = in(S("ub", k), 0.375, "bound");
                bounded.push_back(ImpulseSolver::BoundedRT(MultiplierIndex(m), lb, ub));
                participating.push_back(MultiplierIndex(m));
                layout += "b:" + std::to_string(m) + ":1;";
                m += 1;
            } else if (tok[0] == 'l') {
                int n = atoi(tok.c_str() + 1), k = (int)consLtd.size();
                Array_<MultiplierIndex> F, N;
                for (int i = 0; i < n; ++i) { F.push_back(MultiplierIndex(m + i)); participating.push_back(MultiplierIndex(m + i)); }
                if (lastU < 0) { fprintf(stderr, "l needs a preceding u\n"); exit(2); }
                std::string ns;
                for (auto mx : uncond[lastU].m_mults) { if (N.size() < 3) { N.push_back(mx); ns += (ns.empty() ? "" : "+") + std::to_string((int)mx); } }
                consLtd.push_back(ImpulseSolver::ConstraintLtdFrictionRT(F, N, in(S("lmu", k), 0.5, "pos")));
                layout += "l:" + std::to_string(m) + ":" + std::to_string(n) + ":" + ns + ";";
                m += n;
            } else if (tok[0] == 's') {
                int n = atoi(tok.c_str() + 1), k = (int)stateLtd.size();
                Array_<MultiplierIndex> F;
                for (int i = 0; i < n; ++i) { F.push_back(MultiplierIndex(m + i)); participating.push_back(MultiplierIndex(m + i)); }
                stateLtd.push_back(ImpulseSolver::StateLtdFrictionRT(F, in(S("sN", k), 0.75, "pos"), in(S("smu", k), 0.5, "pos")));
                layout += "s:" + std::to_string(m) + ":" + std::to_string(n) + ";";
                m += n;
            } else { fprintf(stderr, "bad row token %s\n", tok.c_str()); exit(2); }
        }
        symfp::note("layout", layout);
        symfp::note("m", std::to_string(m));

        // A = J J^T : exactly symmetric positive semidefinite for every value of J
        std::vector<std::vector<Real>> J(m, std::vector<Real>(K));
        for (int i = 0; i < m; ++i)
            for (int j = 0; j < K; ++j) {
                int v = ((i * 3 + j * 5 + 1) % 7) - 3;
                if (v == 0) v = 2;
                J[i][j] = in(S("J", i, j), 0.25 * v, "param");
            }
        Matrix A(m, m);
        for (int i = 0; i < m; ++i)
            for (int j = 0; j < m; ++j) {
                Real s = 0;
                for (int k = 0; k < K; ++k) s = s + J[i][k] * J[j][k];
                A(i, j) = s;
            }
        Vector D(m);
        for (int i = 0; i < m; ++i) D[i] = (has("d0") || i % 2 == 0) ? Real(0) : in(S("D", i), 0.0625 * (1 + i % 3), "pos");
        Vector verrStart(m), verrApplied, piExpand(m), pi;
        for (int i = 0; i < m; ++i) verrStart[i] = in(S("v", i), (i % 2 ? 0.5 : -0.75) + 0.125 * (i % 3), "lin");
        if (has("applied")) { verrApplied.resize(m); for (int i = 0; i < m; ++i) verrApplied[i] = in(S("va", i), 0.125 * (i % 3) - 0.0625, "lin"); }
        piExpand.setToZero();
        for (int r : expandRows) {
            // sign convention: sign*piExpand <= 0
            Real sgn = 1;
            for (auto& rt : uni) if ((int)rt.m_Nk == r) sgn = rt.m_sign;
            piExpand[r] = in(S("piE", r), -0.375 * sgn, "lin");
        }
        outMat("A", A); outVec("D", D);
        for (int i = 0; i < m; ++i) {
            out(S("v0_", i), verrStart[i]);
            out(S("va0_", i), verrApplied.size() ? verrApplied[i] : Real(0));
            out(S("piE0_", i), piExpand[i]);
        }
        PGS solver;
        solver.setMaxIterations(maxIters);
        Real tol = has("tol") ? in("tol", 0.25, "pos") : solver.getConvergenceTol();
        solver.setConvergenceTol(tol);
        out("tol", tol);
        bool conv = solver.solve(0, participating, A, D, expanding, piExpand, verrStart, verrApplied, pi,
                                 uncond, uni, uniSpeed, bounded, consLtd, stateLtd);
        symfp::note("converged", conv ? "1" : "0");
        symfp::note("iters", std::to_string((int)solver.iters(0)));
        symfp::note("nfail", std::to_string((int)solver.fails(0)));
        symfp::note("p", std::to_string((int)participating.size()));
        outVec("pi", pi);
        outVec("verr", verrStart);
        for (unsigned k = 0; k < uni.size(); ++k) {
            symfp::note(S("uc", k).c_str(), std::to_string((int)uni[k].m_contactCond));
            symfp::note(S("fc", k).c_str(), std::to_string((int)uni[k].m_frictionCond));
            if (uni[k].hasFriction()) out(S("mu", k), uni[k].m_effMu);
        }
        for (unsigned k = 0; k < bounded.size(); ++k) {
            symfp::note(S("bc", k).c_str(), std::to_string((int)bounded[k].m_boundedCond));
            out(S("lb", k), bounded[k].m_lb); out(S("ub", k), bounded[k].m_ub);
        }
        for (unsigned k = 0; k < consLtd.size(); ++k) {
            symfp::note(S("lc", k).c_str(), std::to_string((int)consLtd[k].m_frictionCond));
            out(S("lmu", k), consLtd[k].m_effMu);
        }
        for (unsigned k = 0; k < stateLtd.size(); ++k) {
            symfp::note(S("sc", k).c_str(), std::to_string((int)stateLtd[k].m_frictionCond));
            out(S("smu", k), stateLtd[k].m_effMu); out(S("sN", k), stateLtd[k].m_knownN);
        }
    });
}
