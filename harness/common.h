// Shared harness helpers: symbolic inputs/outputs and the tree catalogue builder.
#pragma once
#include "Simbody.h"
#include "symfp.h"
#include <cstdio>
#include <cstdlib>
#include <map>
#include <sstream>
#include <string>
#include <vector>

using namespace SimTK;

namespace vh {

inline std::string S(const std::string& a, int i) { return a + std::to_string(i); }
inline std::string S(const std::string& a, int i, int j) { return a + std::to_string(i) + "_" + std::to_string(j); }

// opt-in for harnesses that build twin models from the same symbolic inputs: with reuseInputs()=true a repeated
// declaration of an input name returns the value of the first declaration (default: duplicates are an error in the runtime)
inline bool& reuseInputs() { static bool b = false; return b; }
inline Real in(const std::string& n, Real seed, const char* kind = "param") {
    if (!reuseInputs()) return symfp::in(n.c_str(), seed, kind);
    static std::map<std::string, Real> memo;
    auto it = memo.find(n);
    if (it != memo.end()) return it->second;
    return memo[n] = symfp::in(n.c_str(), seed, kind);
}
inline void out(const std::string& n, Real v) { symfp::out(n, v); }
inline void outV3(const std::string& n, const Vec3& v) { for (int i = 0; i < 3; ++i) out(S(n + "_", i), v[i]); }
inline void outSV(const std::string& n, const SpatialVec& v) { outV3(n + "_w", v[0]); outV3(n + "_v", v[1]); }
inline void outVec(const std::string& n, const Vector& v) { for (int i = 0; i < v.size(); ++i) out(S(n + "_", i), v[i]); }
inline void outMat(const std::string& n, const Matrix& m) { for (int i = 0; i < m.nrow(); ++i) for (int j = 0; j < m.ncol(); ++j) out(S(n + "_", i, j), m(i, j)); }
inline void outM33(const std::string& n, const Mat33& m) { for (int i = 0; i < 3; ++i) for (int j = 0; j < 3; ++j) out(S(n + "_", i, j), m(i, j)); }
inline void outRot(const std::string& n, const Rotation& R) { outM33(n, R.asMat33()); }
inline void outXform(const std::string& n, const Transform& X) { outRot(n + "_R", X.R()); outV3(n + "_p", X.p()); }
inline Vec3 inV3(const std::string& n, const Vec3& seed, const char* kind = "param") {
    return Vec3(in(n + "_0", seed[0], kind), in(n + "_1", seed[1], kind), in(n + "_2", seed[2], kind)); }
inline Vector inVec(const std::string& n, int len, Real seed0, Real step, const char* kind = "lin") {
    Vector v(len); for (int i = 0; i < len; ++i) v[i] = in(S(n + "_", i), seed0 + step * i, kind); return v; }
inline SpatialVec inSV(const std::string& n, const SpatialVec& seed, const char* kind = "lin") {
    return SpatialVec(inV3(n + "_w", seed[0], kind), inV3(n + "_v", seed[1], kind)); }

// A rotation from three symbolic body-fixed XYZ angles (kind "angle": pinned to Pythagorean points by the driver)
inline Rotation inRot(const std::string& n, const Vec3& seed) {
    Real a = in(n + "_ax", seed[0], "angle"), b = in(n + "_ay", seed[1], "angle"), c = in(n + "_az", seed[2], "angle");
    return Rotation(BodyRotationSequence, a, XAxis, b, YAxis, c, ZAxis);
}
// frame style: 0 identity, 1 translation only, 2 general
inline Transform inFrame(const std::string& n, int style, const Vec3& pseed, const Vec3& aseed) {
    if (style == 0) return Transform();
    Vec3 p = inV3(n + "_p", pseed);
    if (style == 1) return Transform(p);
    return Transform(inRot(n, aseed), p);
}

inline std::vector<std::string> split(const std::string& s, char sep) {
    std::vector<std::string> out; std::string cur; std::istringstream is(s);
    while (std::getline(is, cur, sep)) out.push_back(cur);
    return out;
}

struct BodyDesc { std::string type; int parent; bool reversed; int frames; };

// spec: "Pin:0,Gimbal:1r,Slider:1/2" = body k (1-based) of <type> attached to body <parent> (0 = Ground),
//       optional 'r' = reversed mobilizer, optional "/f" frame style (0,1,2; default 2)
inline std::vector<BodyDesc> parseTree(const std::string& spec) {
    std::vector<BodyDesc> v;
    for (auto& tok : split(spec, ',')) {
        BodyDesc d; d.reversed = false; d.frames = 2;
        auto c = tok.find(':');
        d.type = tok.substr(0, c);
        std::string rest = tok.substr(c + 1);
        auto sl = rest.find('/');
        if (sl != std::string::npos) { d.frames = atoi(rest.substr(sl + 1).c_str()); rest = rest.substr(0, sl); }
        if (!rest.empty() && rest.back() == 'r') { d.reversed = true; rest.pop_back(); }
        d.parent = atoi(rest.c_str());
        v.push_back(d);
    }
    return v;
}

// coordinate kinds per mobilizer: a angle, c translation coordinate, q quaternion component
inline std::string qKinds(const std::string& t, bool euler) {
    if (t == "Pin") return "a";            if (t == "Slider") return "c";
    if (t == "Universal") return "aa";     if (t == "Cylinder") return "ac";
    if (t == "BendStretch") return "ac";   if (t == "Planar") return "acc";
    if (t == "Gimbal") return "aaa";       if (t == "Bushing") return "aaaccc";
    if (t == "Ball") return euler ? "aaax" : "qqqq";
    if (t == "Free") return euler ? "aaacccx" : "qqqqccc";
    if (t == "LineOrientation") return euler ? "aaax" : "qqqq";
    if (t == "FreeLine") return euler ? "aaacccx" : "qqqqccc";
    if (t == "Translation") return "ccc";  if (t == "Screw") return "a";
    if (t == "SphericalCoords") return "aac";
    if (t == "Ellipsoid") return euler ? "aaax" : "qqqq";
    if (t == "CantileverFreeBeam") return "aaa";
    if (t == "Weld") return "";
    fprintf(stderr, "unknown mobilizer %s\n", t.c_str()); exit(2);
}

struct Model {
    MultibodySystem system;
    SimbodyMatterSubsystem matter;
    GeneralForceSubsystem forces;
    std::vector<MobilizedBody> bodies;     // [0] = Ground
    std::vector<BodyDesc> desc;
    std::string qkinds;                     // concatenated over mobilizers, in q order
    bool euler = false;
    std::vector<int> quatStarts;
    Model() : matter(system), forces(system) {}
};

inline MassProperties symMassProps(const std::string& n, int k) {
    Real m = in(n + "_m", 1.0 + 0.25 * k, "pos");
    Vec3 com = inV3(n + "_com", Vec3(0.125 * k, -0.25, 0.1875));
    // central unit inertia: gyration entries of a slightly skewed brick (valid for +-40% perturbations)
    Real gxx = in(n + "_gxx", 0.5, "pos"), gyy = in(n + "_gyy", 0.625, "pos"), gzz = in(n + "_gzz", 0.75, "pos");
    Real gxy = in(n + "_gxy", 0.0625, "param"), gxz = in(n + "_gxz", -0.0625, "param"), gyz = in(n + "_gyz", 0.0625, "param");
    Inertia Ic(m * gxx, m * gyy, m * gzz, m * gxy, m * gxz, m * gyz);
    Inertia Io = Ic.shiftFromMassCenter(com, m);
    return MassProperties(m, com, Io);
}

inline MobilizedBody addBody(Model& M, const BodyDesc& d, int k) {
    std::string n = S("b", k);
    Body::Rigid body(symMassProps(n, k));
    MobilizedBody& parent = M.bodies[d.parent];
    Transform X_PF = inFrame(n + "_XPF", d.frames, Vec3(0.25, -0.5, 0.375), Vec3(0.3, -0.2, 0.5));
    Transform X_BM = inFrame(n + "_XBM", d.frames, Vec3(-0.125, 0.25, 0.5), Vec3(-0.4, 0.1, 0.2));
    MobilizedBody::Direction dir = d.reversed ? MobilizedBody::Reverse : MobilizedBody::Forward;
    const std::string& t = d.type;
    if (t == "Pin") return MobilizedBody::Pin(parent, X_PF, body, X_BM, dir);
    if (t == "Slider") return MobilizedBody::Slider(parent, X_PF, body, X_BM, dir);
    if (t == "Universal") return MobilizedBody::Universal(parent, X_PF, body, X_BM, dir);
    if (t == "Cylinder") return MobilizedBody::Cylinder(parent, X_PF, body, X_BM, dir);
    if (t == "BendStretch") return MobilizedBody::BendStretch(parent, X_PF, body, X_BM, dir);
    if (t == "Planar") return MobilizedBody::Planar(parent, X_PF, body, X_BM, dir);
    if (t == "Gimbal") return MobilizedBody::Gimbal(parent, X_PF, body, X_BM, dir);
    if (t == "Bushing") return MobilizedBody::Bushing(parent, X_PF, body, X_BM, dir);
    if (t == "Ball") return MobilizedBody::Ball(parent, X_PF, body, X_BM, dir);
    if (t == "Free") return MobilizedBody::Free(parent, X_PF, body, X_BM, dir);
    if (t == "LineOrientation") return MobilizedBody::LineOrientation(parent, X_PF, body, X_BM, dir);
    if (t == "FreeLine") return MobilizedBody::FreeLine(parent, X_PF, body, X_BM, dir);
    if (t == "Translation") return MobilizedBody::Translation(parent, X_PF, body, X_BM, dir);
    if (t == "Screw") return MobilizedBody::Screw(parent, X_PF, body, X_BM, in(n + "_pitch", 0.375, "param"), dir);
    if (t == "SphericalCoords") return MobilizedBody::SphericalCoords(parent, X_PF, body, X_BM, dir);
    if (t == "Ellipsoid") return MobilizedBody::Ellipsoid(parent, X_PF, body, X_BM,
                                     Vec3(in(n + "_rx", 0.5, "pos"), in(n + "_ry", 0.75, "pos"), in(n + "_rz", 1.0, "pos")), dir);
    if (t == "CantileverFreeBeam") return MobilizedBody::CantileverFreeBeam(parent, X_PF, body, X_BM, in(n + "_len", 1.5, "pos"), dir);
    if (t == "Weld") return MobilizedBody::Weld(parent, X_PF, body, X_BM);
    fprintf(stderr, "unknown mobilizer %s\n", t.c_str()); exit(2);
}

inline void buildTree(Model& M, const std::string& spec, bool euler) {
    M.desc = parseTree(spec);
    M.euler = euler;
    M.bodies.push_back(M.matter.Ground());
    int k = 1;
    for (auto& d : M.desc) { M.bodies.push_back(addBody(M, d, k)); ++k; }
    for (auto& d : M.desc) { std::string k = qKinds(d.type, euler); if (k.substr(0, 4) == "qqqq") M.quatStarts.push_back((int)M.qkinds.size()); M.qkinds += k; }
}

// realize topology, set Euler option, fill q and u with symbolic inputs; returns the state (realized to Model)
inline State initState(Model& M, bool symbolicU = true) {
    M.system.realizeTopology();
    State s = M.system.getDefaultState();
    if (M.euler) { M.matter.setUseEulerAngles(s, true); }
    M.system.realizeModel(s);
    int nq = s.getNQ(), nu = s.getNU();
    if ((int)M.qkinds.size() != nq) { fprintf(stderr, "qkinds %d != nq %d\n", (int)M.qkinds.size(), nq); exit(2); }
    static const Real qa[] = {0.3, -0.5, 0.7, 0.4, -0.2, 0.6, 0.35, -0.45};
    static const Real qq[] = {0.8, 0.2, -0.3, 0.4};
    int nquat = 0;
    for (int i = 0; i < nq; ++i) {
        char kd = M.qkinds[i];
        if (kd == 'a') s.updQ()[i] = in(S("q", i), qa[i % 8], "angle");
        else if (kd == 'x') continue;
        else if (kd == 'c') s.updQ()[i] = in(S("q", i), 0.25 + 0.125 * (i % 5), "coord");
        else { s.updQ()[i] = in(S("q", i), qq[nquat % 4], "quat"); ++nquat; }
    }
    { std::string qs; for (int st : M.quatStarts) qs += " " + std::to_string(st); symfp::note("quat_starts", qs); }
    if (symbolicU) for (int i = 0; i < nu; ++i) s.updU()[i] = in(S("u", i), 0.5 - 0.25 * (i % 4), "lin");
    return s;
}

inline std::string argOr(int argc, char** argv, int i, const std::string& d) { return i < argc ? std::string(argv[i]) : d; }

template <class F> int guarded(F f) {
    try { f(); }
    catch (const std::exception& e) { symfp::note("exception", e.what()); symfp::finish(); fprintf(stderr, "exception: %s\n", e.what()); return 0; }
    symfp::finish();
    return 0;
}

} // namespace vh
