// C37: compliant contact laws. args: <model> <treeSpec> <euler>
//   model hc_plane   HuntCrossleyForce, half-space on Ground (symbolic frame), sphere on the last body
//         hc_spheres HuntCrossleyForce, sphere on body 1 and sphere on body 2
//         hc_two     HuntCrossleyForce, half-space on Ground, one sphere on body 1 and one on body 2 (two simultaneous contacts)
//         smooth     SmoothSphereHalfSpaceForce, half-space on Ground, sphere on the last body
//         expspring  ExponentialSpringForce, contact plane on Ground, station on the last body
// outputs: body poses/velocities, system body-force array after realize(Dynamics), PE, the contact list of the
//          GeneralContactSubsystem (depth, normal, location, radius), element accessors
#include "common.h"
using namespace vh;

static void dumpForces(Model& M, State& s, const Force& frc) {
    M.system.realize(s, Stage::Dynamics);
    const Vector_<SpatialVec>& F = M.system.getRigidBodyForces(s, Stage::Dynamics);
    const Vector& f = M.system.getMobilityForces(s, Stage::Dynamics);
    for (int b = 0; b < F.size(); ++b) outSV(S("F", b), F[b]);
    for (int i = 0; i < f.size(); ++i) out(S("f_", i), f[i]);
    out("PE", frc.calcPotentialEnergyContribution(s));
}

int main(int argc, char** argv) {
    return guarded([&] {
        std::string model = argOr(argc, argv, 1, "hc_plane");
        std::string tree = argOr(argc, argv, 2, "Free:0");
        bool euler = argOr(argc, argv, 3, "1") == "1";
        Model M;
        buildTree(M, tree, euler);
        int nb = (int)M.bodies.size();
        GeneralContactSubsystem contacts(M.system);
        const MobilizedBody& last = M.bodies[nb - 1];
        Force frc;
        ExponentialSpringForce* es = nullptr;
        ContactSetIndex set;
        bool hc = model.rfind("hc_", 0) == 0;
        if (hc) {
            set = contacts.createContactSet();
            HuntCrossleyForce f(M.forces, contacts, set);
            int ns = 0;
            auto params = [&](int i) {
                std::string n = S("m", i);
                f.setBodyParameters(ContactSurfaceIndex(i), in(n + "_E", 2.0 + i, "pos"), in(n + "_c", 0.25 + 0.125 * i, "lin"),
                                    in(n + "_us", 0.75 + 0.125 * i, "pos"), in(n + "_ud", 0.5 - 0.125 * i, "pos"), in(n + "_uv", 0.125 + 0.0625 * i, "pos"));
            };
            if (model == "hc_plane" || model == "hc_two") {
                Transform XH = inFrame("XH", 2, Vec3(0.125, -0.25, 0.0625), Vec3(0.2, -0.3, 0.1));
                contacts.addBody(set, M.bodies[0], ContactGeometry::HalfSpace(), XH);
                params(ns++);
            }
            if (model == "hc_plane") {
                contacts.addBody(set, last, ContactGeometry::Sphere(in("r1", 0.5, "pos")), Transform(inV3("sc1", Vec3(0.125, 0.0625, -0.125))));
                params(ns++);
            } else {
                contacts.addBody(set, M.bodies[1], ContactGeometry::Sphere(in("r1", 0.5, "pos")), Transform(inV3("sc1", Vec3(0.125, 0.0625, -0.125))));
                params(ns++);
                contacts.addBody(set, M.bodies[2], ContactGeometry::Sphere(in("r2", 0.375, "pos")), Transform(inV3("sc2", Vec3(-0.0625, 0.125, 0.0625))));
                params(ns++);
            }
            f.setTransitionVelocity(in("vt", 0.25, "pos"));
            frc = f;
        } else if (model == "smooth") {
            SmoothSphereHalfSpaceForce f(M.forces);
            f.setParameters(in("E", 2.0, "pos"), in("c", 0.25, "lin"), in("us", 0.75, "pos"), in("ud", 0.5, "pos"), in("uv", 0.125, "pos"),
                            in("vt", 0.25, "pos"), in("cf", 0.0625, "pos"), in("bd", 2.0, "pos"), in("bv", 1.5, "pos"));
            f.setContactSphereBody(last);
            f.setContactSphereLocationInBody(inV3("sc1", Vec3(0.125, 0.0625, -0.125)));
            f.setContactSphereRadius(in("r1", 0.5, "pos"));
            f.setContactHalfSpaceBody(M.bodies[0]);
            f.setContactHalfSpaceFrame(inFrame("XH", 2, Vec3(0.125, -0.25, 0.0625), Vec3(0.2, -0.3, 0.1)));
            frc = f;
        } else if (model == "expspring") {
            ExponentialSpringParameters p;
            p.setShapeParameters(in("d0", 0.0625, "param"), in("d1", 0.5, "pos"), in("d2", 2.0, "pos"));
            p.setNormalViscosity(in("cz", 0.5, "lin"));
            p.setMaxNormalForce(in("maxFz", 64.0, "pos"));
            p.setFrictionElasticity(in("kxy", 4.0, "pos"));
            p.setFrictionViscosity(in("cxy", 1.0, "pos"));
            p.setSettleVelocity(in("vSettle", 0.0625, "pos"));
            p.setInitialMuStatic(in("mus", 0.75, "pos"));
            p.setInitialMuKinetic(in("muk", 0.5, "pos"));
            Transform XP = inFrame("XP", 2, Vec3(0.125, -0.25, 0.0625), Vec3(0.2, -0.3, 0.1));
            es = new ExponentialSpringForce(M.forces, XP, last, inV3("st", Vec3(0.125, 0.0625, -0.125)), p);
            frc = *es;
        } else { fprintf(stderr, "unknown model %s\n", model.c_str()); exit(2); }

        State s = initState(M);
        M.system.realize(s, Stage::Velocity);
        int nu = s.getNU(), nq = s.getNQ();
        symfp::note("nu", std::to_string(nu)); symfp::note("nq", std::to_string(nq)); symfp::note("nb", std::to_string(nb));
        outVec("qdot", s.getQDot());
        for (int b = 1; b < nb; ++b) {
            outXform(S("X_GB", b), M.bodies[b].getBodyTransform(s));
            outSV(S("V_GB", b), M.bodies[b].getBodyVelocity(s));
        }
        dumpForces(M, s, frc);
        if (hc) {
            const Array_<Contact>& cs = contacts.getContacts(s, set);
            symfp::note("ncontacts", std::to_string(cs.size()));
            for (int i = 0; i < (int)cs.size(); ++i) {
                const PointContact& pc = static_cast<const PointContact&>(cs[i]);
                symfp::note(S("contact_s1_", i).c_str(), std::to_string((int)pc.getSurface1()));
                symfp::note(S("contact_s2_", i).c_str(), std::to_string((int)pc.getSurface2()));
                out(S("cdepth_", i), pc.getDepth());
                outV3(S("cnormal", i), pc.getNormal());
                outV3(S("cloc", i), pc.getLocation());
                out(S("cradius_", i), pc.getEffectiveRadiusOfCurvature());
            }
        }
        if (model == "expspring") {
            const ExponentialSpringForce& f = *es;
            outV3("es_fn", f.getNormalForce(s, false));
            outV3("es_fne", f.getNormalForceElasticPart(s, false));
            outV3("es_fnd", f.getNormalForceDampingPart(s, false));
            outV3("es_ff", f.getFrictionForce(s, false));
            outV3("es_f", f.getForce(s, true));
            out("es_mu", f.getMu(s));
            out("es_lim", f.getFrictionForceLimit(s));
            out("es_sliding", f.getSliding(s));
            outV3("es_p", f.getStationPosition(s, false));
            outV3("es_v", f.getStationVelocity(s, false));
        }
    });
}
