// Custom Motion implementations used by the C10/C14/C15 harnesses: prescribed values are taken from vectors indexed by
// the system-wide q/u index, so that the harness can fill them with symbolic inputs after the model has been realized.
#pragma once
#include "common.h"

namespace vh {

// Prescribes this mobilizer's q / u / udot (at the given level) from tables owned by the harness.
// Position level: q = Q, qdot = QD, qdotdot = QDD; Velocity level: u = U, udot = UD; Acceleration level: udot = A.
struct MotionTables {
    Vector Q, QD, QDD;      // indexed by system q index
    Vector U, UD, A;        // indexed by system u index
};

class TableMotionImpl : public Motion::Custom::Implementation {
public:
    TableMotionImpl(const SimbodyMatterSubsystem& matter, MobilizedBodyIndex mbx, Motion::Level level, const MotionTables* t)
        : matter(&matter), mbx(mbx), level(level), t(t) {}
    Implementation* clone() const override { return new TableMotionImpl(*this); }
    Motion::Level getLevel(const State&) const override { return level; }
    void calcPrescribedPosition(const State& s, int nq, Real* q) const override {
        int q0 = matter->getMobilizedBody(mbx).getFirstQIndex(s); for (int i = 0; i < nq; ++i) q[i] = t->Q[q0 + i]; }
    void calcPrescribedPositionDot(const State& s, int nq, Real* qd) const override {
        int q0 = matter->getMobilizedBody(mbx).getFirstQIndex(s); for (int i = 0; i < nq; ++i) qd[i] = t->QD[q0 + i]; }
    void calcPrescribedPositionDotDot(const State& s, int nq, Real* qdd) const override {
        int q0 = matter->getMobilizedBody(mbx).getFirstQIndex(s); for (int i = 0; i < nq; ++i) qdd[i] = t->QDD[q0 + i]; }
    void calcPrescribedVelocity(const State& s, int nu, Real* u) const override {
        int u0 = matter->getMobilizedBody(mbx).getFirstUIndex(s); for (int i = 0; i < nu; ++i) u[i] = t->U[u0 + i]; }
    void calcPrescribedVelocityDot(const State& s, int nu, Real* ud) const override {
        int u0 = matter->getMobilizedBody(mbx).getFirstUIndex(s); for (int i = 0; i < nu; ++i) ud[i] = t->UD[u0 + i]; }
    void calcPrescribedAcceleration(const State& s, int nu, Real* ud) const override {
        int u0 = matter->getMobilizedBody(mbx).getFirstUIndex(s); for (int i = 0; i < nu; ++i) ud[i] = t->A[u0 + i]; }
private:
    const SimbodyMatterSubsystem* matter; MobilizedBodyIndex mbx; Motion::Level level; const MotionTables* t;
};

inline Motion::Custom addTableMotion(Model& M, int body, Motion::Level level, const MotionTables* t) {
    return Motion::Custom(M.bodies[body], new TableMotionImpl(M.matter, M.bodies[body].getMobilizedBodyIndex(), level, t));
}

} // namespace vh
