// C36: triangle-mesh queries, OBB tree containment, Geo bounding spheres.
//   C36_mesh <mesh> nearest|face <k>|ray|obb     mesh: tetra obtuse octa box   (concrete vertices; symbolic query)
//   C36_mesh pts bsphere <n>            Geo::Point::calcBoundingSphere on n = 2,3,4 points / general routine for n >= 5
// The query point / ray origin is c + u*e1 + v*e2 with u,v symbolic inputs and c,e1,e2 inputs of kind "param"
// (pinned by the driver). The mesh vertices are concrete numbers: the OBB tree construction (OrientedBoundingBox(points),
// Eigen/LAPACK) then runs natively and the traversal with a symbolic query is what is explored.
#include "common.h"
#include "simmath/internal/Geo_Point.h"
#include "simmath/internal/Geo_Sphere.h"
using namespace vh;

struct MeshData { Array_<Vec3> v; Array_<int> f; };

static MeshData makeMesh(const std::string& name) {
    MeshData m;
    std::vector<std::array<int, 3>> F;
    if (name == "tetra") {
        m.v = {Vec3(1, 1, 1), Vec3(1, -1, -1), Vec3(-1, 1, -1), Vec3(-1, -1, 1)};
        F = {{0, 1, 2}, {0, 3, 1}, {0, 2, 3}, {1, 3, 2}};
    } else if (name == "obtuse" || name == "obtuse_r1" || name == "obtuse_r2") {
        // faces with obtuse angles and a sliver; _r1/_r2: the same mesh with every face's vertex list rotated cyclically by one/two
        // places (the per-face closest-point routine is not symmetric in the vertex order: its regions are numbered from vertex 0)
        m.v = {Vec3(0, 0, 0), Vec3(3, 0, 0), Vec3(-1, 1, 0), Vec3(0.5, 0.25, 1)};
        F = {{0, 1, 2}, {0, 3, 1}, {0, 2, 3}, {1, 3, 2}};
    } else if (name == "octa") {
        m.v = {Vec3(1, 0, 0), Vec3(-1, 0, 0), Vec3(0, 1.25, 0), Vec3(0, -1.25, 0), Vec3(0, 0, 0.75), Vec3(0, 0, -0.75)};
        F = {{0, 2, 4}, {2, 1, 4}, {1, 3, 4}, {3, 0, 4}, {2, 0, 5}, {1, 2, 5}, {3, 1, 5}, {0, 3, 5}};
    } else if (name == "box") {
        for (int i = 0; i < 8; ++i) m.v.push_back(Vec3((i & 1) ? 1 : -1, (i & 2) ? 0.75 : -0.75, (i & 4) ? 0.5 : -0.5));
        F = {{0, 2, 3}, {0, 3, 1}, {4, 5, 7}, {4, 7, 6}, {0, 1, 5}, {0, 5, 4}, {2, 6, 7}, {2, 7, 3}, {0, 4, 6}, {0, 6, 2}, {1, 3, 7}, {1, 7, 5}};
    } else { fprintf(stderr, "unknown mesh %s\n", name.c_str()); exit(2); }
    // orient every face outward (convex catalogue: away from the vertex centroid)
    Vec3 ctr(0); for (auto& p : m.v) ctr += p; ctr /= (Real)m.v.size();
    for (auto& t : F) {
        Vec3 n = (m.v[t[1]] - m.v[t[0]]) % (m.v[t[2]] - m.v[t[0]]);
        if (~n * (m.v[t[0]] - ctr) < 0) std::swap(t[1], t[2]);
        int rot = name.size() > 3 && name.substr(name.size() - 3) == "_r1" ? 1 : (name.size() > 3 && name.substr(name.size() - 3) == "_r2" ? 2 : 0);
        for (int j = 0; j < 3; ++j) m.f.push_back(t[(j + rot) % 3]);
    }
    return m;
}

static void walkObb(const ContactGeometry::TriangleMesh& mesh, const ContactGeometry::TriangleMesh::OBBTreeNode& node, int& nodeCount,
                    std::vector<int>& tris) {
    int id = nodeCount++;
    std::vector<int> mine;
    if (node.isLeafNode()) {
        for (int t : node.getTriangles()) mine.push_back(t);
    } else {
        walkObb(mesh, node.getFirstChildNode(), nodeCount, mine);
        walkObb(mesh, node.getSecondChildNode(), nodeCount, mine);
    }
    // box frame and size, and for every vertex of every triangle below this node its box-frame coordinates
    const OrientedBoundingBox& b = node.getBounds();
    outV3(S("obb_size", id), b.getSize());
    std::string lst;
    int k = 0;
    for (int t : mine) for (int j = 0; j < 3; ++j) {
        Vec3 q = ~b.getTransform() * mesh.getVertexPosition(mesh.getFaceVertex(t, j));
        outV3(S("obb_q", id, k++), q);
    }
    symfp::note(S("obb_n", id).c_str(), std::to_string(k));
    symfp::note(S("obb_ntri", id).c_str(), std::to_string((int)mine.size()) + " " + std::to_string(node.getNumTriangles()));
    tris.insert(tris.end(), mine.begin(), mine.end());
}

int main(int argc, char** argv) {
    return guarded([&] {
        std::string meshName = argOr(argc, argv, 1, "tetra"), query = argOr(argc, argv, 2, "nearest");
        if (meshName == "pts") {
            int n = atoi(argOr(argc, argv, 3, "2").c_str());
            // points: p_i = base_i + u*dir_i (only the last point moves with v as well)
            static const Real B[6][3] = {{0.5, -0.25, 0.125}, {-0.75, 0.5, 0.25}, {0.25, 0.875, -0.5}, {-0.125, -0.625, 0.75}, {0.625, 0.375, 0.5}, {-0.5, -0.375, -0.625}};
            Real u = in("u", 0.375, "coord"), v = in("v", -0.25, "coord");
            Array_<Vec3> pts;
            for (int i = 0; i < n; ++i) {
                Vec3 b = inV3(S("b", i), Vec3(B[i][0], B[i][1], B[i][2]), "param");
                if (i == n - 1) { Vec3 e1 = inV3("e1", Vec3(1, 0.5, -0.25), "param"), e2 = inV3("e2", Vec3(-0.25, 0.75, 1), "param"); b += u * e1 + v * e2; }
                pts.push_back(b);
                outV3(S("p", i), b);
            }
            Geo::Sphere sph;
            Array_<int> which;
            if (n == 2) sph = Geo::Point::calcBoundingSphere(pts[0], pts[1], which);
            else if (n == 3) sph = Geo::Point::calcBoundingSphere(pts[0], pts[1], pts[2], false, which);
            else if (n == 4) sph = Geo::Point::calcBoundingSphere(pts[0], pts[1], pts[2], pts[3], false, which);
            else sph = Geo::Point::calcBoundingSphere(pts, which);
            outV3("ctr", sph.getCenter()); out("rad", sph.getRadius());
            symfp::note("n", std::to_string(n));
            symfp::note("nsupport", std::to_string((int)which.size()));
            return;
        }
        MeshData md = makeMesh(meshName);
        ContactGeometry::TriangleMesh mesh(md.v, md.f);
        int nf = mesh.getNumFaces(), nv = mesh.getNumVertices();
        symfp::note("nf", std::to_string(nf)); symfp::note("nv", std::to_string(nv));
        { std::string s; for (int i = 0; i < nf; ++i) for (int j = 0; j < 3; ++j) s += std::to_string(mesh.getFaceVertex(i, j)) + " "; symfp::note("faces", s); }
        for (int i = 0; i < nv; ++i) outV3(S("vtx", i), mesh.getVertexPosition(i));
        if (query == "obb") {
            int count = 0; std::vector<int> all;
            walkObb(mesh, mesh.getOBBTreeNode(), count, all);
            symfp::note("obb_nodes", std::to_string(count));
            symfp::note("obb_root_tris", std::to_string((int)all.size()));
            Vec3 c; Real r; mesh.getBoundingSphere(c, r);
            outV3("bc", c); out("brad", r);
            return;
        }
        Vec3 c = inV3("c", Vec3(0.25, 0.375, 1.75), "param"), e1 = inV3("e1", Vec3(1, 0.25, -0.5), "param"), e2 = inV3("e2", Vec3(-0.25, 1, 0.125), "param");
        Real u = in("u", 0.125, "coord"), v = in("v", -0.25, "coord");
        Vec3 p = c + u * e1 + v * e2;
        outV3("p", p);
        // competitor point on each face: q_k = a + s (b-a) + t (c-a)   (spec: s,t >= 0, s+t <= 1)
        Real s = in("s", 0.25, "coord"), t = in("t", 0.375, "coord");
        for (int k = 0; k < nf; ++k) {
            const Vec3 &a = mesh.getVertexPosition(mesh.getFaceVertex(k, 0)), &b = mesh.getVertexPosition(mesh.getFaceVertex(k, 1)),
                       &cc = mesh.getVertexPosition(mesh.getFaceVertex(k, 2));
            outV3(S("q", k), a + s * (b - a) + t * (cc - a));
        }
        if (query == "nearest") {
            bool inside = false; int face = -1; Vec2 uv(-1);
            Vec3 np = mesh.findNearestPoint(p, inside, face, uv);
            outV3("np", np); out("inside", inside ? 1 : 0);
            symfp::note("face", std::to_string(face));
            out("uv_0", uv[0]); out("uv_1", uv[1]);
            outV3("np_from_uv", mesh.findPoint(face, uv));
        } else if (query == "face") {
            // the per-face routine (Eberly's seven regions) on one face
            int k = atoi(argOr(argc, argv, 3, "0").c_str());
            symfp::note("face", std::to_string(k));
            // query point in a plane parallel to the face: a + u (b-a) + v (c-a) + h n. The branch structure of the routine depends
            // only on the in-plane coordinates, so (u,v) free reaches every region and sub-branch.
            const Vec3 &fa = mesh.getVertexPosition(mesh.getFaceVertex(k, 0)), &fb = mesh.getVertexPosition(mesh.getFaceVertex(k, 1)),
                       &fc = mesh.getVertexPosition(mesh.getFaceVertex(k, 2));
            Real hgt = in("hgt", 0.5, "param");
            Vec3 pf = fa + u * (fb - fa) + v * (fc - fa) + hgt * ((fb - fa) % (fc - fa));
            outV3("pf", pf);
            Vec2 w(-1);
            outV3("nf", mesh.findNearestPointToFace(pf, k, w)); out("nfu", w[0]); out("nfv", w[1]);
        } else if (query == "ray") {
            Vec3 dv = inV3("d", Vec3(-0.25, -0.375, -1), "param");
            UnitVec3 d(dv, true);      // exact rational unit vector chosen by the spec
            outV3("d", Vec3(d));
            Real dist = -1; int face = -1; Vec2 uv(-1);
            bool hit = mesh.intersectsRay(p, d, dist, face, uv);
            out("hit", hit ? 1 : 0);
            symfp::note("face", std::to_string(face));
            if (hit) { out("dist", dist); out("uv_0", uv[0]); out("uv_1", uv[1]); outV3("hp_from_uv", mesh.findPoint(face, uv)); }
            Real lam = in("lam", 0.5, "coord");
            outV3("rp", p + lam * Vec3(d));     // a point on the ray (spec: lam >= 0)
        }
    });
}
