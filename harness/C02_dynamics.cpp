// C02: forward and inverse dynamics of trees are exact inverses. args: <treeSpec> <euler 0|1> <composed 0|1>
// composed=1 additionally lets the library itself run inverse dynamics / multiplyByM on the symbolic forward-dynamics result.
#include "common.h"
using namespace vh;
int main(int argc, char** argv) {
    return guarded([&] {
        Model M;
        buildTree(M, argOr(argc, argv, 1, "Pin:0,Gimbal:1"), argOr(argc, argv, 2, "0") == "1");
        const bool composed = argOr(argc, argv, 3, "0") == "1";
        Force::DiscreteForces df(M.forces, M.matter);
        State s = initState(M);
        const SimbodyMatterSubsystem& mat = M.matter;
        int nu = s.getNU(), nb = mat.getNumBodies();
        symfp::note("nu", std::to_string(nu)); symfp::note("nb", std::to_string(nb));
        Vector f = inVec("f", nu, 0.5, -0.125);
        Vector_<SpatialVec> F(nb);
        for (int b = 0; b < nb; ++b)
            F[b] = inSV(S("F", b), SpatialVec(Vec3(0.25, -0.5, 0.375) * (1 + 0.5 * b), Vec3(-0.625, 0.125, 0.75) * (1 - 0.25 * b)));
        Vector a = inVec("a", nu, 0.375, 0.25);
        const Vector f0;                      // zero length = all zero (documented)
        const Vector_<SpatialVec> F0;
        const Vector zu(nu, Real(0));
        const Vector_<SpatialVec> zF(nb, SpatialVec(Vec3(0), Vec3(0)));

        // (a) forward dynamics by realizing the system with the forces applied through Force::DiscreteForces
        df.setAllMobilityForces(s, f);
        df.setAllBodyForces(s, F);
        M.system.realize(s, Stage::Acceleration);
        outVec("udot_realize", s.getUDot());
        if (composed) for (int b = 0; b < nb; ++b) outSV(S("A_realize", b), mat.getMobilizedBody(MobilizedBodyIndex(b)).getBodyAcceleration(s));

        // (b) forward dynamics operator
        Vector udot; Vector_<SpatialVec> A;
        mat.calcAccelerationIgnoringConstraints(s, f, F, udot, A);
        outVec("udot", udot);
        if (composed) for (int b = 0; b < nb; ++b) outSV(S("A_op", b), A[b]);

        // (c) inverse dynamics of the forward-dynamics result
        if (composed) {
            Vector r;
            mat.calcResidualForceIgnoringConstraints(s, f, F, udot, r);
            outVec("res_udot", r);
        }

        // (d) inverse dynamics of arbitrary a; forward dynamics of (f + residual)
        Vector ra, ra_noF, ra_nof, ra_none;
        mat.calcResidualForceIgnoringConstraints(s, f, F, a, ra);        outVec("res_a", ra);
        mat.calcResidualForceIgnoringConstraints(s, f, F0, a, ra_noF);   outVec("res_a_noF", ra_noF);
        mat.calcResidualForceIgnoringConstraints(s, f0, F, a, ra_nof);   outVec("res_a_nof", ra_nof);
        Vector fpr = f + ra, udot_a; Vector_<SpatialVec> A2;
        mat.calcAccelerationIgnoringConstraints(s, fpr, F, udot_a, A2);
        outVec("udot_of_res", udot_a);

        // (e) J^T F
        Vector JtF;
        mat.multiplyBySystemJacobianTranspose(s, F, JtF);
        outVec("JtF", JtF);

        // (f) velocity dependent terms in both directions, and M*udot
        Vector c, udot0, Mudot0, Ma; Vector_<SpatialVec> A3;
        mat.calcResidualForceIgnoringConstraints(s, f0, F0, f0, c);      outVec("coriolis", c);
        mat.calcAccelerationIgnoringConstraints(s, zu, zF, udot0, A3);   outVec("udot0", udot0);
        if (composed) { mat.multiplyByM(s, udot0, Mudot0);               outVec("Mudot0", Mudot0); }
        mat.multiplyByM(s, a, Ma);                                       outVec("Ma", Ma);
    });
}
