// C06(b): a model written with MobilizedBody::FunctionBased (built on MobilizedBody::Custom) mirroring a built-in mobilizer produces
// the same body motion and dynamics as the built-in one.
// args: <Type> <shape 1|pre|post> <reversed 0|1>
//   shape 1: Ground-X-B1; pre: Ground-Pin-B1-X-B2; post: Ground-X-B1-Pin-B2.   Model A uses the built-in X, model B FunctionBased.
#include "pairs.h"
using namespace vh;

struct Sys {
    MultibodySystem system; SimbodyMatterSubsystem matter; GeneralForceSubsystem forces;
    std::vector<MobilizedBody> bodies;
    Sys() : matter(system), forces(system) {}
};

// spatial coordinates: 0..2 body-fixed x,y,z rotation angles, 3..5 x,y,z translation; entry = generalized coordinate index or -1
static std::vector<int> mirror(const std::string& t) {
    if (t == "Pin") return {-1, -1, 0, -1, -1, -1};
    if (t == "Slider") return {-1, -1, -1, 0, -1, -1};
    if (t == "Universal") return {0, 1, -1, -1, -1, -1};
    if (t == "Cylinder") return {-1, -1, 0, -1, -1, 1};
    if (t == "Planar") return {-1, -1, 0, 1, 2, -1};
    if (t == "Gimbal") return {0, 1, 2, -1, -1, -1};
    if (t == "Bushing") return {0, 1, 2, 3, 4, 5};
    if (t == "Translation") return {-1, -1, -1, 0, 1, 2};
    fprintf(stderr, "no FunctionBased mirror for %s\n", t.c_str()); exit(2);
}

static MobilizedBody makeFB(MobilizedBody& parent, const BodyParams& p, bool reversed) {
    std::vector<int> m = mirror(p.d.type);
    int nmob = 0; for (int x : m) nmob = std::max(nmob, x + 1);
    std::vector<const Function*> fn; std::vector<std::vector<int> > idx;
    for (int k = 0; k < 6; ++k) {
        if (m[k] < 0) { fn.push_back(new Function::Constant(0, 0)); idx.push_back(std::vector<int>()); }
        else { Vector c(2); c[0] = 1; c[1] = 0; fn.push_back(new Function::Linear(c)); idx.push_back(std::vector<int>(1, m[k])); }
    }
    return MobilizedBody::FunctionBased(parent, p.X_PF, Body::Rigid(p.mp), p.X_BM, nmob, fn, idx,
                                        reversed ? MobilizedBody::Reverse : MobilizedBody::Forward);
}

int main(int argc, char** argv) {
    return guarded([&] {
        std::string X = argOr(argc, argv, 1, "Pin"), shape = argOr(argc, argv, 2, "1");
        bool rev = argOr(argc, argv, 3, "0") == "1";
        std::vector<BodyDesc> desc;
        auto mk = [&](const std::string& t, int parent, bool r) { BodyDesc d; d.type = t; d.parent = parent; d.reversed = r; d.frames = 2; return d; };
        int xi;
        if (shape == "1") { desc.push_back(mk(X, 0, rev)); xi = 0; }
        else if (shape == "pre") { desc.push_back(mk("Pin", 0, false)); desc.push_back(mk(X, 1, rev)); xi = 1; }
        else { desc.push_back(mk(X, 0, rev)); desc.push_back(mk("Pin", 1, false)); xi = 0; }
        std::vector<BodyParams> P;
        for (int k = 1; k <= (int)desc.size(); ++k) P.push_back(makeParams(desc[k - 1], k));
        Vec3 g = inV3("g", Vec3(0.5, -9.8125, 1.25), "lin");
        Sys A, B;
        A.bodies.push_back(A.matter.Ground()); B.bodies.push_back(B.matter.Ground());
        for (int k = 0; k < (int)P.size(); ++k) {
            const BodyParams& p = P[k];
            A.bodies.push_back(instantiate(A.bodies[p.d.parent], p, p.X_PF, p.X_BM, p.d.reversed));
            B.bodies.push_back(k == xi ? makeFB(B.bodies[p.d.parent], p, p.d.reversed)
                                       : instantiate(B.bodies[p.d.parent], p, p.X_PF, p.X_BM, p.d.reversed));
        }
        Force::UniformGravity(A.forces, A.matter, g); Force::UniformGravity(B.forces, B.matter, g);
        Force::DiscreteForces dA(A.forces, A.matter), dB(B.forces, B.matter);
        A.system.realizeTopology(); B.system.realizeTopology();
        State sA = A.system.getDefaultState(), sB = B.system.getDefaultState();
        A.system.realizeModel(sA); B.system.realizeModel(sB);
        int nq = sA.getNQ(), nu = sA.getNU(), nb = A.matter.getNumBodies();
        if (sB.getNQ() != nq || sB.getNU() != nu) { fprintf(stderr, "state size mismatch %d %d\n", sB.getNQ(), nq); exit(2); }
        StateVals v = makeStateVals(desc, false, nu);
        for (int i = 0; i < nq; ++i) { sA.updQ()[i] = v.q[i]; sB.updQ()[i] = v.q[i]; }
        for (int i = 0; i < nu; ++i) { sA.updU()[i] = v.u[i]; sB.updU()[i] = v.u[i]; }
        Vector f = inVec("f", nu, 0.375, -0.25);
        dA.setAllMobilityForces(sA, f); dB.setAllMobilityForces(sB, f);
        A.system.realize(sA, Stage::Acceleration); B.system.realize(sB, Stage::Acceleration);
        symfp::note("nu", std::to_string(nu)); symfp::note("nq", std::to_string(nq)); symfp::note("nb", std::to_string(nb));
        Vector_<SpatialVec> rA, rB;
        A.matter.calcMobilizerReactionForces(sA, rA); B.matter.calcMobilizerReactionForces(sB, rB);
        for (int k = 1; k < nb; ++k) {
            outXform(S("A_X", k), A.bodies[k].getBodyTransform(sA)); outXform(S("B_X", k), B.bodies[k].getBodyTransform(sB));
            outSV(S("A_V", k), A.bodies[k].getBodyVelocity(sA));      outSV(S("B_V", k), B.bodies[k].getBodyVelocity(sB));
            outSV(S("A_A", k), A.bodies[k].getBodyAcceleration(sA));  outSV(S("B_A", k), B.bodies[k].getBodyAcceleration(sB));
            outSV(S("A_R", k), rA[A.bodies[k].getMobilizedBodyIndex()]); outSV(S("B_R", k), rB[B.bodies[k].getMobilizedBodyIndex()]);
        }
        outVec("A_udot", sA.getUDot()); outVec("B_udot", sB.getUDot());
        outVec("A_qdot", sA.getQDot()); outVec("B_qdot", sB.getQDot());
        out("A_KE", A.system.calcKineticEnergy(sA)); out("B_KE", B.system.calcKineticEnergy(sB));
        out("A_PE", A.system.calcPotentialEnergy(sA)); out("B_PE", B.system.calcPotentialEnergy(sB));
    });
}
