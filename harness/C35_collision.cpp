// C35: collision detection on closed-form pairs. args: <pair> <api>
//   pair: hs_sphere | sphere_sphere | hs_ellipsoid | hs_brick       api: tracker | cda
// Poses X_G1, X_G2 are symbolic (3 angles + translation each); the query is run on (1,2), on the pair moved by a common
// symbolic rigid motion X, and (sphere_sphere) with the surfaces swapped.
#include "common.h"
using namespace vh;

static const Geo::Box* gBox = nullptr;
static void outContact(const std::string& pre, const Contact& c, const Transform& X_GS1) {
    // kind: 0 empty, 1 circular point, 2 elliptical point, 3 brick/half-space, 4 broken, 5 PointContact (deprecated API), 9 other
    int kind = 9;
    if (c.isEmpty()) kind = 0;
    else if (CircularPointContact::isInstance(c)) kind = 1;
    else if (EllipticalPointContact::isInstance(c)) kind = 2;
    else if (BrickHalfSpaceContact::isInstance(c)) kind = 3;
    else if (BrokenContact::isInstance(c)) kind = 4;
    else if (PointContact::isInstance(c)) kind = 5;
    symfp::note((pre + "kind").c_str(), std::to_string(kind));
    out(pre + "kind", kind);
    if (kind == 1) {
        const CircularPointContact& p = CircularPointContact::getAs(c);
        out(pre + "depth", p.getDepth()); outV3(pre + "origin", p.getOrigin()); outV3(pre + "normal", Vec3(p.getNormal()));
        if (isFinite(p.getRadius1())) out(pre + "r1", p.getRadius1());
        out(pre + "r2", p.getRadius2()); out(pre + "reff", p.getEffectiveRadius());
        outXform(pre + "X12", p.getTransform());
        // the same in ground
        outV3(pre + "originG", X_GS1 * p.getOrigin()); outV3(pre + "normalG", X_GS1.R() * Vec3(p.getNormal()));
    } else if (kind == 2) {
        const EllipticalPointContact& p = EllipticalPointContact::getAs(c);
        out(pre + "depth", p.getDepth()); outXform(pre + "XC", p.getContactFrame()); outXform(pre + "X12", p.getTransform());
    } else if (kind == 3) {
        const BrickHalfSpaceContact& p = BrickHalfSpaceContact::getAs(c);
        out(pre + "depth", p.getDepth()); out(pre + "vertex", p.getLowestVertex()); outXform(pre + "X12", p.getTransform());
        outV3(pre + "vpos", gBox->getVertexPos(p.getLowestVertex()));
        symfp::note((pre + "vertex").c_str(), std::to_string(p.getLowestVertex()));
    } else if (kind == 5) {
        const PointContact& p = static_cast<const PointContact&>(c);
        out(pre + "depth", p.getDepth()); outV3(pre + "location", p.getLocation()); outV3(pre + "normal", p.getNormal());
    }
}

int main(int argc, char** argv) {
    return guarded([&] {
        std::string pair = argOr(argc, argv, 1, "hs_sphere"), api = argOr(argc, argv, 2, "tracker");
        Transform X1(inRot("A", Vec3(0.3, -0.2, 0.5)), inV3("pA", Vec3(0.25, -0.5, 0.375), "coord"));
        Transform X2(inRot("B", Vec3(-0.4, 0.1, 0.2)), inV3("pB", Vec3(-0.625, 0.25, 0.5), "coord"));
        Transform XM(inRot("M", Vec3(0.2, 0.6, -0.3)), inV3("pM", Vec3(0.5, 0.125, -0.25), "coord"));
        Real cutoff = in("cutoff", 0.125, "pos");
        outXform("X1", X1); outXform("X2", X2); outXform("XM", XM); out("cutoff", cutoff);
        ContactGeometry g1, g2;
        Real r1 = 0, r2 = 0;
        if (pair == "hs_sphere") { g1 = ContactGeometry::HalfSpace(); r2 = in("r2", 0.75, "pos"); g2 = ContactGeometry::Sphere(r2); }
        else if (pair == "sphere_sphere") { r1 = in("r1", 0.5, "pos"); r2 = in("r2", 0.75, "pos"); g1 = ContactGeometry::Sphere(r1); g2 = ContactGeometry::Sphere(r2); }
        else if (pair == "hs_ellipsoid") { g1 = ContactGeometry::HalfSpace(); Vec3 rad(in("ea", 0.5, "pos"), in("eb", 0.75, "pos"), in("ec", 1.0, "pos")); outV3("erad", rad); g2 = ContactGeometry::Ellipsoid(rad); }
        else if (pair == "hs_brick") { g1 = ContactGeometry::HalfSpace(); Vec3 h(in("ha", 0.5, "pos"), in("hb", 0.75, "pos"), in("hc", 0.25, "pos")); outV3("h", h); g2 = ContactGeometry::Brick(h); gBox = &ContactGeometry::Brick::getAs(g2).getGeoBox(); }
        else { fprintf(stderr, "unknown pair\n"); exit(2); }
        out("r1", r1); out("r2", r2);
        const ContactSurfaceIndex s1(0), s2(1);
        Transform X1m = XM * X1, X2m = XM * X2;
        if (api == "tracker") {
            std::unique_ptr<ContactTracker> tr;
            if (pair == "hs_sphere") tr.reset(new ContactTracker::HalfSpaceSphere());
            else if (pair == "sphere_sphere") tr.reset(new ContactTracker::SphereSphere());
            else if (pair == "hs_ellipsoid") tr.reset(new ContactTracker::HalfSpaceEllipsoid());
            else tr.reset(new ContactTracker::HalfSpaceBrick());
            UntrackedContact prior(s1, s2), priorSwapped(s2, s1);
            Contact c, cm, cs;
            bool ok = tr->trackContact(prior, X1, g1, X2, g2, cutoff, c);
            symfp::note("ok", ok ? "1" : "0");
            outContact("c_", c, X1);
            bool okm = tr->trackContact(prior, X1m, g1, X2m, g2, cutoff, cm);
            symfp::note("okm", okm ? "1" : "0");
            outContact("m_", cm, X1m);
            if (pair == "sphere_sphere") {
                bool oks = tr->trackContact(priorSwapped, X2, g2, X1, g1, cutoff, cs);
                symfp::note("oks", oks ? "1" : "0");
                outContact("s_", cs, X2);
            }
        } else {
            Array_<Contact> c, cm, cs;
            if (pair == "hs_sphere") { CollisionDetectionAlgorithm::HalfSpaceSphere a; a.processObjects(s1, g1, X1, s2, g2, X2, c); a.processObjects(s1, g1, X1m, s2, g2, X2m, cm); }
            else if (pair == "sphere_sphere") { CollisionDetectionAlgorithm::SphereSphere a; a.processObjects(s1, g1, X1, s2, g2, X2, c); a.processObjects(s1, g1, X1m, s2, g2, X2m, cm);
                                                a.processObjects(s2, g2, X2, s1, g1, X1, cs); }
            else if (pair == "hs_ellipsoid") { CollisionDetectionAlgorithm::HalfSpaceEllipsoid a; a.processObjects(s1, g1, X1, s2, g2, X2, c); a.processObjects(s1, g1, X1m, s2, g2, X2m, cm); }
            else { fprintf(stderr, "no CollisionDetectionAlgorithm for %s\n", pair.c_str()); exit(2); }
            symfp::note("n", std::to_string((int)c.size())); symfp::note("nm", std::to_string((int)cm.size())); symfp::note("ns", std::to_string((int)cs.size()));
            outContact("c_", c.empty() ? Contact() : c[0], X1);
            outContact("m_", cm.empty() ? Contact() : cm[0], X1m);
            if (pair == "sphere_sphere") outContact("s_", cs.empty() ? Contact() : cs[0], X2);
        }
    });
}
