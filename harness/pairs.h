// Helpers for harnesses that build TWO models from the same symbolic parameters (C06, C08): the parameters of a body are
// created once (symbolic inputs cannot be declared twice) and instantiated in either model.
#pragma once
#include "common.h"

namespace vh {

struct BodyParams {
    BodyDesc d; MassProperties mp; Transform X_PF, X_BM;
    Real pitch = 0, len = 0; Vec3 radii = Vec3(0);
};

// symbolic inputs are named exactly as by vh::addBody (b<k>_m, b<k>_XPF_..., b<k>_pitch ...)
inline BodyParams makeParams(const BodyDesc& d, int k) {
    BodyParams p; p.d = d;
    std::string n = S("b", k);
    p.mp = symMassProps(n, k);
    p.X_PF = inFrame(n + "_XPF", d.frames, Vec3(0.25, -0.5, 0.375), Vec3(0.3, -0.2, 0.5));
    p.X_BM = inFrame(n + "_XBM", d.frames, Vec3(-0.125, 0.25, 0.5), Vec3(-0.4, 0.1, 0.2));
    if (d.type == "Screw") p.pitch = in(n + "_pitch", 0.375, "param");
    if (d.type == "Ellipsoid") p.radii = Vec3(in(n + "_rx", 0.5, "pos"), in(n + "_ry", 0.75, "pos"), in(n + "_rz", 1.0, "pos"));
    if (d.type == "CantileverFreeBeam") p.len = in(n + "_len", 1.5, "pos");
    return p;
}

// build a mobilized body of type p.d.type (or `type` if given) between `parent` and a new body with p's mass properties
inline MobilizedBody instantiate(MobilizedBody& parent, const BodyParams& p, const Transform& X_PF, const Transform& X_BM,
                                 bool reversed, const std::string& type = "") {
    Body::Rigid body(p.mp);
    MobilizedBody::Direction dir = reversed ? MobilizedBody::Reverse : MobilizedBody::Forward;
    const std::string t = type.empty() ? p.d.type : type;
    if (t == "Pin") return MobilizedBody::Pin(parent, X_PF, body, X_BM, dir);
    if (t == "Slider") return MobilizedBody::Slider(parent, X_PF, body, X_BM, dir);
    if (t == "Universal") return MobilizedBody::Universal(parent, X_PF, body, X_BM, dir);
    if (t == "Cylinder") return MobilizedBody::Cylinder(parent, X_PF, body, X_BM, dir);
    if (t == "BendStretch") return MobilizedBody::BendStretch(parent, X_PF, body, X_BM, dir);
    if (t == "Planar") return MobilizedBody::Planar(parent, X_PF, body, X_BM, dir);
    if (t == "Gimbal") return MobilizedBody::Gimbal(parent, X_PF, body, X_BM, dir);
    if (t == "Bushing") return MobilizedBody::Bushing(parent, X_PF, body, X_BM, dir);
    if (t == "Ball") return MobilizedBody::Ball(parent, X_PF, body, X_BM, dir);
    if (t == "Free") return MobilizedBody::Free(parent, X_PF, body, X_BM, dir);
    if (t == "LineOrientation") return MobilizedBody::LineOrientation(parent, X_PF, body, X_BM, dir);
    if (t == "FreeLine") return MobilizedBody::FreeLine(parent, X_PF, body, X_BM, dir);
    if (t == "Translation") return MobilizedBody::Translation(parent, X_PF, body, X_BM, dir);
    if (t == "Screw") return MobilizedBody::Screw(parent, X_PF, body, X_BM, p.pitch, dir);
    if (t == "SphericalCoords") return MobilizedBody::SphericalCoords(parent, X_PF, body, X_BM, dir);
    if (t == "Ellipsoid") return MobilizedBody::Ellipsoid(parent, X_PF, body, X_BM, p.radii, dir);
    if (t == "CantileverFreeBeam") return MobilizedBody::CantileverFreeBeam(parent, X_PF, body, X_BM, p.len, dir);
    if (t == "Weld") return MobilizedBody::Weld(parent, X_PF, body, X_BM);
    fprintf(stderr, "unknown mobilizer %s\n", t.c_str()); exit(2);
}

// symbolic values for the coordinates of a sequence of mobilizers (same naming and kinds as vh::initState): q<i>, u<i>
struct StateVals { std::vector<Real> q, u; std::vector<char> kind; std::vector<int> quatStarts; };
inline StateVals makeStateVals(const std::vector<BodyDesc>& desc, bool euler, int nu) {
    StateVals v;
    std::string kinds;
    for (auto& d : desc) { std::string k = qKinds(d.type, euler); if (k.substr(0, 4) == "qqqq") v.quatStarts.push_back((int)kinds.size()); kinds += k; }
    static const Real qa[] = {0.3, -0.5, 0.7, 0.4, -0.2, 0.6, 0.35, -0.45};
    static const Real qq[] = {0.8, 0.2, -0.3, 0.4};
    int nquat = 0;
    for (int i = 0; i < (int)kinds.size(); ++i) {
        char kd = kinds[i];
        v.kind.push_back(kd);
        if (kd == 'a') v.q.push_back(in(S("q", i), qa[i % 8], "angle"));
        else if (kd == 'x') v.q.push_back(0);
        else if (kd == 'c') v.q.push_back(in(S("q", i), 0.25 + 0.125 * (i % 5), "coord"));
        else { v.q.push_back(in(S("q", i), qq[nquat % 4], "quat")); ++nquat; }
    }
    for (int i = 0; i < nu; ++i) v.u.push_back(in(S("u", i), 0.5 - 0.25 * (i % 4), "lin"));
    std::string qs; for (int st : v.quatStarts) qs += " " + std::to_string(st);
    symfp::note("quat_starts", qs);
    return v;
}

} // namespace vh
