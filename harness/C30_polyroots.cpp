// C30: PolynomialRootFinder::findRoots, quadratics. args: real <a> <b> <c>  |  complex <ar> <ai> <br> <bi> <cr> <ci>   (seeds)
#include "common.h"
#include "SimTKcommon/internal/PolynomialRootFinder.h"
using namespace vh;
int main(int argc, char** argv) {
    return guarded([&] {
        std::string mode = argOr(argc, argv, 1, "real");
        symfp::note("mode", mode);
        auto seed = [&](int i, double d) { return i < argc ? atof(argv[i]) : d; };
        const Real Eps = NTraits<Real>::getEps();
        if (mode == "real") {
            Real a = in("a", seed(2, 2.0), "param"), b = in("b", seed(3, -3.0), "param"), c = in("c", seed(4, 0.5), "param");
            Vec<2, Complex> roots(Complex(NaN, NaN), Complex(NaN, NaN));
            PolynomialRootFinder::findRoots(Vec3(a, b, c), roots);
            out("r0_re", roots[0].real()); out("r0_im", roots[0].imag());
            out("r1_re", roots[1].real()); out("r1_im", roots[1].imag());
            out("tol", 2.0 * Eps * (b * b));          // the code's own near-double-root tolerance 2 eps b^2
            symfp::note("nroots", "2");
        } else {
            Complex a(in("ar", seed(2, 2.0), "param"), in("ai", seed(3, 0.5), "param")), b(in("br", seed(4, -3.0), "param"), in("bi", seed(5, 1.0), "param")),
                    c(in("cr", seed(6, 0.5), "param"), in("ci", seed(7, -0.25), "param"));
            Vec<2, Complex> roots(Complex(NaN, NaN), Complex(NaN, NaN));
            PolynomialRootFinder::findRoots(Vec<3, Complex>(a, b, c), roots);
            out("r0_re", roots[0].real()); out("r0_im", roots[0].imag());
            out("r1_re", roots[1].real()); out("r1_im", roots[1].imag());
            symfp::note("nroots", "2");
        }
    });
}
