// C07: constraint error hierarchy and adjoint forces.
// args: <treeSpec> <euler 0|1> <constraintSpec>
// constraintSpec = Type:a,b[,c][:opt]   a,b,c = body numbers of the tree (0 = Ground); for coordinate-level
// constraints a,b are mobilized bodies and opt gives the mobilizer q/u indices ("01" = index 0 on a, 1 on b).
// Every station, axis, frame, length, coefficient is a symbolic input. The state is arbitrary (constraint violated).
#include "common.h"
using namespace vh;

// f(x) = c + sum a_i x_i + sum_{i<=j} b_ij x_i x_j with symbolic coefficients (derivatives to any order)
class QuadFn : public Function {
public:
    int n; Real c; std::vector<Real> a, b;
    QuadFn(const std::string& nm, int n_) : n(n_), a(n_), b(n_ * n_, 0.0) {
        c = in(nm + "_c", 0.125, "param");
        for (int i = 0; i < n; ++i) a[i] = in(S(nm + "_a", i), 0.5 + 0.25 * i, "param");
        for (int i = 0; i < n; ++i) for (int j = i; j < n; ++j) b[i * n + j] = in(S(nm + "_b", i, j), 0.25 - 0.125 * (i + j), "param");
    }
    Real bs(int i, int j) const { return i <= j ? b[i * n + j] : b[j * n + i]; }
    Real calcValue(const Vector& x) const override {
        Real r = c;
        for (int i = 0; i < n; ++i) r += a[i] * x[i];
        for (int i = 0; i < n; ++i) for (int j = i; j < n; ++j) r += b[i * n + j] * x[i] * x[j];
        return r;
    }
    Real calcDerivative(const Array_<int>& d, const Vector& x) const override {
        if (d.size() == 1) {
            int k = d[0]; Real r = a[k];
            for (int j = 0; j < n; ++j) r += (j == k ? 2.0 : 1.0) * bs(k, j) * x[j];
            return r;
        }
        if (d.size() == 2) return d[0] == d[1] ? 2.0 * bs(d[0], d[0]) : bs(d[0], d[1]);
        return 0;
    }
    int getArgumentSize() const override { return n; }
    int getMaxDerivativeOrder() const override { return 1000; }
    QuadFn* clone() const override { return new QuadFn(*this); }
};

static UnitVec3 inAxis(const std::string& n, const Vec3& aseed) { return UnitVec3(inRot(n, aseed).z()); }
static Transform inX(const std::string& n, const Vec3& p, const Vec3& a) { return inFrame(n, 2, p, a); }

int main(int argc, char** argv) {
    return guarded([&] {
        Model M;
        buildTree(M, argOr(argc, argv, 1, "Bushing:0"), argOr(argc, argv, 2, "0") == "1");
        std::string cs = argOr(argc, argv, 3, "Rod:0,1");
        auto parts = split(cs, ':');
        std::string type = parts[0];
        std::vector<int> bi;
        for (auto& t : split(parts.size() > 1 ? parts[1] : "0,1", ',')) bi.push_back(atoi(t.c_str()));
        std::string opt = parts.size() > 2 ? parts[2] : "";
        auto B = [&](int k) -> MobilizedBody& { return M.bodies[bi[k]]; };
        auto oi = [&](int k) { return k < (int)opt.size() ? opt[k] - '0' : 0; };
        SimbodyMatterSubsystem& mat = M.matter;
        Vec3 p1 = inV3("c_p1", Vec3(0.25, -0.375, 0.5)), p2 = inV3("c_p2", Vec3(-0.5, 0.125, 0.375));
        Constraint con;
        if (type == "Rod") con = Constraint::Rod(B(0), p1, B(1), p2, in("c_len", 0.75, "pos"));
        else if (type == "Ball") con = Constraint::Ball(B(0), p1, B(1), p2);
        else if (type == "Weld") con = Constraint::Weld(B(0), inX("c_X1", Vec3(0.25, -0.375, 0.5), Vec3(0.3, 0.6, -0.4)),
                                                        B(1), inX("c_X2", Vec3(-0.5, 0.125, 0.375), Vec3(-0.2, 0.5, 0.7)));
        else if (type == "PointInPlane") con = Constraint::PointInPlane(B(0), inAxis("c_n", Vec3(0.4, -0.3, 0.2)), in("c_h", 0.375, "param"), B(1), p2);
        else if (type == "PointOnLine") con = Constraint::PointOnLine(B(0), inAxis("c_n", Vec3(0.4, -0.3, 0.2)), p1, B(1), p2);
        else if (type == "ConstantAngle") con = Constraint::ConstantAngle(B(0), inAxis("c_n1", Vec3(0.4, -0.3, 0.2)), B(1), inAxis("c_n2", Vec3(-0.5, 0.6, 0.1)), in("c_ang", 1.25, "angle"));
        else if (type == "ConstantOrientation") con = Constraint::ConstantOrientation(B(0), inRot("c_R1", Vec3(0.3, 0.6, -0.4)), B(1), inRot("c_R2", Vec3(-0.2, 0.5, 0.7)));
        else if (type == "NoSlip1D") con = Constraint::NoSlip1D(B(0), p1, inAxis("c_n", Vec3(0.4, -0.3, 0.2)), B(1), B(2));
        else if (type == "ConstantCoordinate") con = Constraint::ConstantCoordinate(B(0), MobilizerQIndex(oi(0)), in("c_val", 0.375, "param"));
        else if (type == "ConstantSpeed") con = Constraint::ConstantSpeed(B(0), MobilizerUIndex(oi(0)), in("c_val", 0.375, "param"));
        else if (type == "ConstantAcceleration") con = Constraint::ConstantAcceleration(B(0), MobilizerUIndex(oi(0)), in("c_val", 0.375, "param"));
        else if (type == "CoordinateCoupler") {
            Array_<MobilizedBodyIndex> mb; Array_<MobilizerQIndex> qi;
            for (int k = 0; k < (int)bi.size(); ++k) { mb.push_back(B(k).getMobilizedBodyIndex()); qi.push_back(MobilizerQIndex(oi(k))); }
            con = Constraint::CoordinateCoupler(mat, new QuadFn("c_f", (int)bi.size()), mb, qi);
        } else if (type == "SpeedCoupler" || type == "SpeedCouplerQ") {
            Array_<MobilizedBodyIndex> mb; Array_<MobilizerUIndex> ui;
            for (int k = 0; k < (int)bi.size(); ++k) { mb.push_back(B(k).getMobilizedBodyIndex()); ui.push_back(MobilizerUIndex(oi(k))); }
            if (type == "SpeedCoupler") con = Constraint::SpeedCoupler(mat, new QuadFn("c_f", (int)bi.size()), mb, ui);
            else { // the function also depends on one coordinate of every listed mobilizer
                Array_<MobilizerQIndex> qi;
                for (int k = 0; k < (int)bi.size(); ++k) qi.push_back(MobilizerQIndex(oi(k)));
                con = Constraint::SpeedCoupler(mat, new QuadFn("c_f", 2 * (int)bi.size()), mb, ui, mb, qi);
            }
        } else if (type == "PrescribedMotion") con = Constraint::PrescribedMotion(mat, new QuadFn("c_f", 1), B(0).getMobilizedBodyIndex(), MobilizerQIndex(oi(0)));
        else if (type == "PointOnPlaneContact") con = Constraint::PointOnPlaneContact(B(0), inX("c_X1", Vec3(0.25, -0.375, 0.5), Vec3(0.3, 0.6, -0.4)), B(1), p2);
        else if (type == "SphereOnPlaneContact" || type == "SphereOnPlaneContactNR")
            con = Constraint::SphereOnPlaneContact(B(0), inX("c_X1", Vec3(0.25, -0.375, 0.5), Vec3(0.3, 0.6, -0.4)), B(1), p2, in("c_r", 0.375, "pos"), type == "SphereOnPlaneContact");
        else if (type == "SphereOnSphereContact" || type == "SphereOnSphereContactNR")
            con = Constraint::SphereOnSphereContact(B(0), p1, in("c_r1", 0.375, "pos"), B(1), p2, in("c_r2", 0.25, "pos"), type == "SphereOnSphereContact");
        else if (type == "LineOnLineContact" || type == "LineOnLineContactNR")
            con = Constraint::LineOnLineContact(B(0), inX("c_X1", Vec3(0.25, -0.375, 0.5), Vec3(0.3, 0.6, -0.4)), in("c_h1", 0.75, "pos"),
                                                B(1), inX("c_X2", Vec3(-0.5, 0.125, 0.375), Vec3(-0.2, 0.5, 0.7)), in("c_h2", 0.5, "pos"), type == "LineOnLineContact");
        else { fprintf(stderr, "unknown constraint %s\n", type.c_str()); exit(2); }

        {   // does a coordinate-level constraint act directly on a quaternion component?
            bool cq = false;
            if (type == "ConstantCoordinate" || type == "CoordinateCoupler" || type == "PrescribedMotion" || type == "SpeedCouplerQ")
                for (int k = 0; k < (int)bi.size(); ++k)
                    if (bi[k] > 0) { std::string kd = qKinds(M.desc[bi[k] - 1].type, M.euler); if (oi(k) < (int)kd.size() && kd[oi(k)] == 'q') cq = true; }
            symfp::note("constrained_quaternion_component", cq ? "1" : "0");
        }
        State s = initState(M);
        s.setTime(in("t", 0.5, "param"));
        M.system.realize(s, Stage::Position);
        int nu = s.getNU(), nq = s.getNQ();
        int mp, mv, ma;
        con.getNumConstraintEquationsInUse(s, mp, mv, ma);
        int m = mp + mv + ma;
        symfp::note("nu", std::to_string(nu)); symfp::note("nq", std::to_string(nq));
        symfp::note("mp", std::to_string(mp)); symfp::note("mv", std::to_string(mv)); symfp::note("ma", std::to_string(ma));
        symfp::note("nqerr", std::to_string(s.getNQErr()));
        outVec("perr", s.getQErr());                 // first mp entries; quaternion norm errors follow
        // position-level operators (Position stage is documented to suffice)
        Matrix Pq, Pqt;
        mat.calcPq(s, Pq);                 outMat("Pq", Pq);
        mat.calcPqTranspose(s, Pqt);       outMat("Pqt", Pqt);
        Vector xq = inVec("xq", nq, 0.375, -0.125), Pqxq, lamp = inVec("lamp", mp, 0.625, -0.375), Pqtl;
        mat.multiplyByPq(s, xq, Pqxq);     outVec("Pqxq", Pqxq);
        mat.multiplyByPqTranspose(s, lamp, Pqtl); outVec("Pqtlam", Pqtl);

        M.system.realize(s, Stage::Velocity);
        outVec("qdot", s.getQDot());
        outVec("verr", s.getUErr());
        Matrix G, Gt;
        mat.calcG(s, G);                   outMat("G", G);
        mat.calcGTranspose(s, Gt);         outMat("Gt", Gt);
        Vector x = inVec("x", nu, 0.625, -0.25), Gx, lam = inVec("lam", m, -0.375, 0.5), Gtl, biasG, biasA, aerr, Nx;
        mat.multiplyByG(s, x, Gx);         outVec("Gx", Gx);
        mat.multiplyByGTranspose(s, lam, Gtl); outVec("Gtlam", Gtl);
        mat.calcBiasForMultiplyByG(s, biasG);  outVec("biasG", biasG);
        mat.calcBiasForAccelerationConstraints(s, biasA); outVec("biasA", biasA);
        Vector udot = inVec("udot", nu, 0.125, 0.375);
        mat.calcConstraintAccelerationErrors(s, udot, aerr); outVec("aerr", aerr);
        mat.multiplyByN(s, false, x, Nx);  outVec("Nx", Nx);
        Vector NInvxq;
        mat.multiplyByNInv(s, false, xq, NInvxq); outVec("NInvxq", NInvxq);
        // angular velocity of every constrained body in the constraint's Ancestor frame A (expressed in A): Ball and Weld
        // measure their translational velocity error at the material point of the first body coincident with the second
        // body's station, so their hierarchy is exact only up to a term w_AB x err (see spec)
        if (con.getNumConstrainedBodies() > 0) {
            const MobilizedBody& A = con.getAncestorMobilizedBody();
            Rotation R_GA = A.getBodyRotation(s);
            Vec3 w_GA = A.getBodyAngularVelocity(s);
            for (int k = 0; k < (int)bi.size(); ++k) outV3(S("wA", k), ~R_GA * (B(k).getBodyAngularVelocity(s) - w_GA));
            if (type == "SphereOnSphereContact") {
                Transform X_GC = Constraint::SphereOnSphereContact::downcast(con).findContactFrameInG(s);
                outRot("C_A", ~R_GA * X_GC.R());     // contact frame axes (columns x,y,z) expressed in A
            }
        }
        // per-constraint views of the same quantities
        outVec("c_perr", con.getPositionErrorsAsVector(s));
        outVec("c_verr", con.getVelocityErrorsAsVector(s));
    });
}
