// C10: prescribed motion and locks are honoured exactly.
// args: <treeSpec> <euler 0|1> <scenario> <body k (1-based)> <composed 0|1> <tmode 0|1>
//   scenario: steady | sinP sinV sinA | cusP cusV cusA | lockP lockV lockA | lockAtP lockAtV lockAtA | lockDefP
//   Model A carries the Motion / lock on body k; model B is the same tree built from the same symbolic inputs without it.
//   composed=1: additionally the motion forces are applied to B through Force::DiscreteForces and B is realized (harness-level composition).
//   tmode (Sinusoid only): 0: time = 0 exactly, rate symbolic;  1: rate = 2 exactly, time symbolic (angle kind)
#include "common.h"
#include "motions.h"
using namespace vh;

static const char* kindOf(char c) { return c == 'a' ? "angle" : c == 'c' ? "coord" : "quat"; }

int main(int argc, char** argv) {
    return guarded([&] {
        reuseInputs() = true;
        const std::string tree = argOr(argc, argv, 1, "Pin:0,Gimbal:1"), sc = argOr(argc, argv, 3, "steady");
        const bool euler = argOr(argc, argv, 2, "0") == "1", composed = argOr(argc, argv, 5, "0") == "1";
        const int k = atoi(argOr(argc, argv, 4, "1").c_str()), tmode = atoi(argOr(argc, argv, 6, "0").c_str());
        Model A, B;
        buildTree(A, tree, euler);
        buildTree(B, tree, euler);
        Force::DiscreteForces dfA(A.forces, A.matter), dfB(B.forces, B.matter);
        MotionTables tab;
        Motion motion;
        const Motion::Level level = sc.back() == 'P' ? Motion::Position : sc.back() == 'V' ? Motion::Velocity : Motion::Acceleration;
        Real amp = 0, rate = 0, phase = 0, t = 0;
        if (sc == "steady") { rate = in("rate", 0.375, "lin"); motion = Motion::Steady(A.bodies[k], rate); }
        else if (sc.substr(0, 3) == "sin") {
            amp = in("amp", 0.75, "lin"); phase = in("phase", 0.4, "angle");
            if (tmode == 0) { rate = in("rate", 1.25, "param"); t = 0; } else { rate = 2; t = in("t", 0.3, "angle"); }
            motion = Motion::Sinusoid(A.bodies[k], level, amp, rate, phase);
        }
        else if (sc.substr(0, 3) == "cus") motion = addTableMotion(A, k, level, &tab);
        else if (sc == "lockDefP") A.bodies[k].lockByDefault(Motion::Position);
        State s = initState(A);
        State sB = initState(B);
        const SimbodyMatterSubsystem& mat = A.matter;
        const MobilizedBody& mbk = A.bodies[k];
        const int nq = s.getNQ(), nu = s.getNU();
        const int qs = mbk.getFirstQIndex(s), nqk = mbk.getNumQ(s), us = mbk.getFirstUIndex(s), nuk = mbk.getNumU(s);
        symfp::note("nq", std::to_string(nq)); symfp::note("nu", std::to_string(nu));
        symfp::note("qs", std::to_string(qs)); symfp::note("nqk", std::to_string(nqk));
        symfp::note("us", std::to_string(us)); symfp::note("nuk", std::to_string(nuk));
        outVec("q_in", s.getQ()); outVec("u_in", s.getU());
        symfp::note("quatk", A.qkinds[qs] == 'q' ? "1" : "0");
        if (sc == "lockDefP") {
            // "the required q is recorded at the time a state is realized to Stage::Model": same steps as initState, no symbolic fill
            State sd = A.system.getDefaultState();
            if (euler) A.matter.setUseEulerAngles(sd, true);
            A.system.realizeModel(sd);
            outVec("q_default", sd.getQ());
        }

        // symbolic prescribed values (declared for the prescribed mobilizer only)
        auto table = [&](const std::string& n, int len, int start, int cnt, bool asQ) {
            Vector v(len, Real(0));
            for (int i = start; i < start + cnt; ++i)
                if (!(asQ && A.qkinds[i] == 'x')) v[i] = in(S(n, i), asQ ? (A.qkinds[i] == 'q' ? (i - start == 0 ? 0.6 : i - start == 1 ? -0.48 : i - start == 2 ? 0.64 : 0.0) : 0.25 + 0.125 * (i % 3)) : 0.375 - 0.25 * (i % 3),
                          asQ ? kindOf(A.qkinds[i]) : "lin");
            return v; };
        if (sc == "cusP") { tab.Q = table("pq", nq, qs, nqk, true); tab.QD = table("pqd", nq, qs, nqk, false); tab.QDD = table("pqdd", nq, qs, nqk, false); }
        if (sc == "cusV") { tab.U = table("pu", nu, us, nuk, false); tab.UD = table("pud", nu, us, nuk, false); }
        if (sc == "cusA") { tab.A = table("pa", nu, us, nuk, false); }
        if (sc == "lockP" || sc == "lockV" || sc == "lockA") mbk.lock(s, level);
        if (sc == "lockAtP") { Vector v = table("lq", nq, qs, nqk, true); mbk.lockAt(s, Vector(v(qs, nqk)), level); }
        if (sc == "lockAtV") { Vector v = table("lu", nu, us, nuk, false); mbk.lockAt(s, Vector(v(us, nuk)), level); }
        if (sc == "lockAtA") { Vector v = table("la", nu, us, nuk, false); mbk.lockAt(s, Vector(v(us, nuk)), level); }
        const bool isLock = sc.substr(0, 4) == "lock";
        if (sc.substr(0, 3) == "sin") { out("sinarg", std::sin(rate * t + phase)); out("cosarg", std::cos(rate * t + phase)); }

        Vector f = inVec("f", nu, 0.5, -0.125);
        dfA.setAllMobilityForces(s, f);
        s.setTime(t);
        A.system.realize(s, Stage::Time);
        A.system.prescribeQ(s);
        A.system.realize(s, Stage::Position);
        A.system.prescribeU(s);
        A.system.realize(s, Stage::Acceleration);
        outVec("q", s.getQ()); outVec("u", s.getU()); outVec("qdot", s.getQDot());
        outVec("udot", s.getUDot()); outVec("qdotdot", s.getQDotDot());
        const Vector& tau = mat.getMotionMultipliers(s);
        symfp::note("ntau", std::to_string(tau.size()));
        outVec("tau", tau);
        Vector tauU; mat.findMotionForces(s, tauU); outVec("tauU", tauU);
        out("power", mat.calcMotionPower(s));
        outVec("errP", mat.calcMotionErrors(s, Stage::Position));
        outVec("errV", mat.calcMotionErrors(s, Stage::Velocity));
        outVec("errA", mat.calcMotionErrors(s, Stage::Acceleration));
        symfp::note("nerrP", std::to_string(mat.calcMotionErrors(s, Stage::Position).size()));
        symfp::note("nerrV", std::to_string(mat.calcMotionErrors(s, Stage::Velocity).size()));
        symfp::note("nerrA", std::to_string(mat.calcMotionErrors(s, Stage::Acceleration).size()));

        // twin B (no prescription) at the same q, u: inverse dynamics for an arbitrary trial acceleration a
        sB.updQ() = s.getQ(); sB.updU() = s.getU(); sB.setTime(t);
        B.system.realize(sB, Stage::Velocity);
        Vector a = inVec("a", nu, 0.375, 0.25), resB;
        B.matter.calcResidualForceIgnoringConstraints(sB, f, Vector_<SpatialVec>(), a, resB);
        outVec("resB", resB);
        if (composed) {
            // the motion forces applied as ordinary mobility forces to the unprescribed twin (M udot + tau + f_inertial = f_applied)
            State sB1 = sB;
            dfB.setAllMobilityForces(sB1, f - tauU);
            B.system.realize(sB1, Stage::Acceleration);
            outVec("udotB_tau", sB1.getUDot());
        }

        // unlocking / disabling restores free behaviour
        State s3 = s;
        if (isLock) mbk.unlock(s3); else motion.disable(s3);
        A.system.realize(s3, Stage::Time);
        A.system.prescribeQ(s3);
        A.system.realize(s3, Stage::Position);
        A.system.prescribeU(s3);
        A.system.realize(s3, Stage::Acceleration);
        outVec("q3", s3.getQ()); outVec("u3", s3.getU()); outVec("udot3", s3.getUDot());
        symfp::note("ntau3", std::to_string(mat.getMotionMultipliers(s3).size()));
        State sB2 = sB;
        dfB.setAllMobilityForces(sB2, f);
        B.system.realize(sB2, Stage::Acceleration);
        outVec("udotB_free", sB2.getUDot());
    });
}
