// Engine K wrapper TU for C33 (partition clause): includes the REAL Parallel2DExecutor.cpp (+Impl.h) from $VERIF_REPO.
// ParallelExecutor is replaced by a SEQUENTIAL STUB defined here: execute(task, times) runs initialize, the `times`
// task indices in order, finish, and tells the harness (kp_* hooks) which task indices belong to the same pass
// (= the same ParallelExecutor::execute call = what the real executor may run concurrently).
// NOT modelled: threads, mutexes, condition variables (ParallelExecutor.cpp / ParallelWorkQueue.cpp are not compiled).
#define SimTK_SIMTKCOMMON_DEFINING_PARALLEL_EXECUTOR
#define SimTK_SIMTKCOMMON_DEFINING_PARALLEL_2D_EXECUTOR
#include "SimTKcommon/internal/common.h"
#include "SimTKcommon/internal/PrivateImplementation.h"
#include "SimTKcommon/internal/PrivateImplementation_Defs.h"
#include "SimTKcommon/internal/ParallelExecutor.h"

extern "C" { void kp_pass_begin(int times); void kp_task_begin(int index); void kp_pass_end(void);
             void kp_exec(int i, int j); void kp_init(void); void kp_finish(void); void kp_bin(int nbins, int b, int start); }

namespace SimTK {
class ParallelExecutorImpl : public PIMPLImplementation<ParallelExecutor, ParallelExecutorImpl> {
public:
    explicit ParallelExecutorImpl(int n) : n(n) {}
    ParallelExecutorImpl* clone() const { return new ParallelExecutorImpl(n); }
    int n;
};
template class PIMPLHandle<ParallelExecutor, ParallelExecutorImpl>;
template class PIMPLImplementation<ParallelExecutor, ParallelExecutorImpl>;
ParallelExecutor::ParallelExecutor(int maxThreads) : HandleBase(new ParallelExecutorImpl(maxThreads)) {}
ParallelExecutor::ParallelExecutor() : HandleBase(new ParallelExecutorImpl(1)) {}
int ParallelExecutor::getNumProcessors() { return 1; }
int ParallelExecutor::getMaxThreads() const { return getImpl().n; }
void ParallelExecutor::execute(Task& task, int times) {        // sequential stub
    kp_pass_begin(times);
    task.initialize();
    for (int i = 0; i < times; ++i) { kp_task_begin(i); task.execute(i); }
    task.finish();
    kp_pass_end();
}
}

#include KERNEL_P2D_CPP     // the real Parallel2DExecutor.cpp
namespace SimTK {      // what PrivateInstantiations.cpp does in the library
template class PIMPLHandle<Parallel2DExecutor, Parallel2DExecutorImpl>;
template class PIMPLImplementation<Parallel2DExecutor, Parallel2DExecutorImpl>;
}

using namespace SimTK;
#define K extern "C" __attribute__((noinline))
class RecTask : public Parallel2DExecutor::Task {
public:
    void execute(int i, int j) override { kp_exec(i, j); }
    void initialize() override { kp_init(); }
    void finish() override { kp_finish(); }
};
// construct the real executor for (gridSize, numProcessors), report binStart, run the requested range
K void k_run(int gridSize, int numProcessors, int rangeType) {
    Parallel2DExecutor ex(gridSize, numProcessors);
    const Parallel2DExecutorImpl& impl = ex.getImpl();
    int nb = (int)impl.binStart.size() - 1;
    for (int b = 0; b <= nb; ++b) kp_bin(nb, b, impl.getBinStart(b));
    RecTask t;
    ex.execute(t, (Parallel2DExecutor::RangeType)rangeType);
}
