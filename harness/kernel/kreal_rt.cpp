// Linked only into the native builds of the REAL code: heap-block counters the harnesses read
// (in the translated build they are maintained by ir2c_rt.h's rt_new/rt_delete).
#include <cstdlib>
#include <new>
extern "C" { long rt_news, rt_deletes; int rt_nothrow, rt_thrown; }
void* operator new(std::size_t n) { void* p = std::calloc(n ? n : 1, 1); if (!p) std::abort(); rt_news++; return p; }
void* operator new[](std::size_t n) { void* p = std::calloc(n ? n : 1, 1); if (!p) std::abort(); rt_news++; return p; }
void operator delete(void* p) noexcept { if (p) rt_deletes++; std::free(p); }
void operator delete[](void* p) noexcept { if (p) rt_deletes++; std::free(p); }
void operator delete(void* p, std::size_t) noexcept { if (p) rt_deletes++; std::free(p); }
void operator delete[](void* p, std::size_t) noexcept { if (p) rt_deletes++; std::free(p); }
extern "C" void ir2c_init_globals(void) {}     // the real build has real globals/vtables
