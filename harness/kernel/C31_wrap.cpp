// Engine K wrapper TU for C31: includes the REAL SFMT.cpp (and through it SFMT.h) from
// $VERIF_REPO and exposes extern "C" noinline entry points to its static functions.
// Compiled to LLVM IR by clang++-14; the IR is translated to C by engine/ir2c/ir2c.py.
#include KERNEL_SFMT_CPP   // -DKERNEL_SFMT_CPP="\"<repo>/SimTKcommon/Random/src/SFMT.cpp\""

using namespace SimTK_SFMT;
#define K extern "C" __attribute__((noinline))

// layout facts the C harness needs (checked against the translated code at run time)
K unsigned k_sizeof_sfmtdata() { return (unsigned)sizeof(SFMTData); }
K unsigned k_off_idx()         { return (unsigned)__builtin_offsetof(SFMTData, idx); }
K unsigned k_off_initialized() { return (unsigned)__builtin_offsetof(SFMTData, initialized); }
K unsigned k_off_parity()      { return (unsigned)__builtin_offsetof(SFMTData, parity); }
K unsigned k_off_psfmt32()     { return (unsigned)__builtin_offsetof(SFMTData, psfmt32); }
K unsigned k_off_psfmt64()     { return (unsigned)__builtin_offsetof(SFMTData, psfmt64); }
K int k_N() { return N; }
K int k_POS1() { return POS1; }

// placement-construct an SFMTData in caller-provided storage (runs the real constructor)
K void k_construct(void* mem) { new (mem) SFMTData(); }

// one recursion step: r = f(a,b,c,d) (the real do_recursion incl. lshift128/rshift128)
K void k_do_recursion(uint32_t* r, uint32_t* a, uint32_t* b, uint32_t* c, uint32_t* d) {
    do_recursion((w128_t*)r, (w128_t*)a, (w128_t*)b, (w128_t*)c, (w128_t*)d);
}
K void k_lshift128(uint32_t* out, const uint32_t* in, int shift) { lshift128((w128_t*)out, (const w128_t*)in, shift); }
K void k_rshift128(uint32_t* out, const uint32_t* in, int shift) { rshift128((w128_t*)out, (const w128_t*)in, shift); }
K void k_gen_rand_all(void* data) { gen_rand_all(*(SFMTData*)data); }
K void k_gen_rand_array(uint32_t* array, int size128, void* data) { gen_rand_array((w128_t*)array, size128, *(SFMTData*)data); }
K void k_period_certification(void* data) { period_certification(*(SFMTData*)data); }
K void k_init_gen_rand(uint32_t seed, void* data) { init_gen_rand(seed, *(SFMTData*)data); }
K uint32_t k_gen_rand32(void* data) { return gen_rand32(*(SFMTData*)data); }
K uint64_t k_gen_rand64(void* data) { return gen_rand64(*(SFMTData*)data); }
K void k_fill_array64(uint64_t* array, int size, void* data) { fill_array64(array, size, *(SFMTData*)data); }
K int k_idxof(int i) { return idxof(i); }
K double k_to_res53(uint64_t v) { return to_res53(v); }
K double k_genrand_res53(void* data) { return genrand_res53(*(SFMTData*)data); }
