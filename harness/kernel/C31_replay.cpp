// C31 replay on the REAL compiled code (g++ build of $VERIF_REPO's Random.cpp + SFMT.cpp, repository flags).
//   kernel <w> <min> <max>            : Random::Uniform(min,max) with generator word w injected into the buffer
//                                       (private access, -fno-access-control), prints getValue()/to_res53
//   kernelint <w> <min> <max>         : same, getIntValue()
//   api <min> <max> <seeds> <draws>   : PUBLIC API only: seed search for a value outside [min,max)
//   apiint <min> <max> <seeds> <draws>: PUBLIC API only: getIntValue() outside [min,max)
//   res53 <w>                         : SimTK_SFMT::to_res53(w)
// doubles are passed as hex bit patterns (0x...) or decimal literals.
#include KERNEL_RANDOM_CPP
#include <cstdio>
#include <cstdlib>
#include <cstring>
using namespace SimTK;
static double parse_d(const char* s) {
    if (s[0] == '0' && (s[1] == 'x' || s[1] == 'X') && !strchr(s, 'p') && !strchr(s, '.')) { unsigned long long b = strtoull(s, 0, 16); double d; memcpy(&d, &b, 8); return d; }
    return strtod(s, 0);
}
static unsigned long long bits(double d) { unsigned long long b; memcpy(&b, &d, 8); return b; }
int main(int argc, char** argv) {
    if (argc < 3) return 2;
    std::string mode = argv[1];
    if (mode == "res53") {
        unsigned long long w = strtoull(argv[2], 0, 0);
        double u = SimTK_SFMT::to_res53(w);
        printf("to_res53 w=0x%016llx u=%.17g bits=0x%016llx in_range=%d\n", w, u, bits(u), (int)(u >= 0.0 && u < 1.0));
        return 0;
    }
    if (mode == "kernel" || mode == "kernelint") {
        unsigned long long w = strtoull(argv[2], 0, 0);
        double mn = parse_d(argv[3]), mx = parse_d(argv[4]);
        Random::Uniform u(mn, mx);
        Random::Uniform::UniformImpl& impl = u.getImpl();
        impl.nextIndex = 0; impl.buffer[0] = w;                 // inject the generator word
        if (mode == "kernel") {
            double v = u.getValue();
            printf("kernel w=0x%016llx min=%.17g max=%.17g value=%.17g bits=0x%016llx in_range=%d\n", w, mn, mx, v, bits(v), (int)(v >= mn && v < mx));
        } else {
            int r = u.getIntValue();
            printf("kernelint w=0x%016llx min=%.17g max=%.17g value=%d in_range=%d\n", w, mn, mx, r, (int)((double)r >= mn && (double)r < mx));
        }
        return 0;
    }
    if (mode == "api" || mode == "apiint") {
        double mn = parse_d(argv[2]), mx = parse_d(argv[3]);
        long seeds = atol(argv[4]), draws = atol(argv[5]);
        Random::Uniform u(mn, mx);
        for (long s = 0; s < seeds; s++) {
            u.setSeed((int)s);
            for (long k = 0; k < draws; k++) {
                if (mode == "api") {
                    double v = u.getValue();
                    if (!(v >= mn && v < mx)) { printf("api FOUND min=%.17g max=%.17g seed=%ld draw=%ld value=%.17g bits=0x%016llx\n", mn, mx, s, k, v, bits(v)); return 0; }
                } else {
                    int r = u.getIntValue();
                    if (!((double)r >= mn && (double)r < mx)) { printf("apiint FOUND min=%.17g max=%.17g seed=%ld draw=%ld value=%d\n", mn, mx, s, k, r); return 0; }
                }
            }
        }
        printf("%s NOTFOUND min=%.17g max=%.17g seeds=%ld draws=%ld\n", mode.c_str(), mn, mx, seeds, draws);
        return 0;
    }
    return 2;
}
