/* C33 (partition clause): the REAL Parallel2DExecutor (IR of $VERIF_REPO/SimTKcommon/src/Parallel2DExecutor.cpp + Impl.h,
 * translated to C) driven through its public constructor/execute with ParallelExecutor replaced by a sequential stub
 * (harness/kernel/C33_wrap.cpp) that reports pass and task boundaries.  For every gridSize <= GMAX, numProcessors in
 * [PLO,PHI] and the range type RT: every (i,j) of the requested range is executed exactly once and nothing else; two
 * different task indices of the same pass (= what the real executor may run concurrently) never touch a common index;
 * binStart is non-decreasing from 0 to gridSize; initialize precedes and finish follows all executions. */
#include "kharness.h"
#ifndef GMAX
#define GMAX 12
#endif
#ifndef PLO
#define PLO 0
#define PHI 8
#endif
#ifndef RT
#define RT 0          /* 0 FullMatrix, 1 HalfMatrix, 2 HalfPlusDiagonal */
#endif
void k_run(int gridSize, int numProcessors, int rangeType);
void ir2c_init_globals(void);
extern int rt_nothrow;

uint32_t in_g[2];
static int G, cnt[GMAX + 1][GMAX + 1];
static int in_pass, cur_task, npass, owner[GMAX + 1], n_init, n_finish, n_exec, exec_after_finish, exec_before_init;
static int last_bin, bins_ok, nbins_seen;

void kp_pass_begin(int times) { CHECK(!in_pass, "passes do not nest"); in_pass = 1; npass++; cur_task = -1; for (int i = 0; i <= GMAX; i++) owner[i] = -1; (void)times; }
void kp_task_begin(int index) { cur_task = index; }
void kp_pass_end(void) { in_pass = 0; }
void kp_init(void) { n_init++; }
void kp_finish(void) { n_finish++; }
static void touch(int idx) {
    if (!in_pass) return;
    CHECK(owner[idx] == -1 || owner[idx] == cur_task, "two task indices of the same pass never share an index i or j (conflict-free partition)");
    owner[idx] = cur_task;
}
void kp_exec(int i, int j) {
    CHECK(i >= 0 && i < G && j >= 0 && j < G, "executed indices lie inside the grid");
    if (i >= 0 && i < G && j >= 0 && j < G) { cnt[i][j]++; touch(i); touch(j); }
    n_exec++;
    if (n_init == 0) exec_before_init = 1;
    if (n_finish > 0) exec_after_finish = 1;
}
void kp_bin(int nb, int b, int start) {
    if (b == 0) { CHECK(start == 0, "binStart[0] == 0"); last_bin = 0; }
    CHECK(start >= last_bin, "binStart is non-decreasing");
    if (b == nb) CHECK(start == G, "binStart[bins] == gridSize");
    last_bin = start; nbins_seen = nb;
}
static int in_range(int i, int j) { return RT == 0 ? 1 : RT == 1 ? j < i : j <= i; }
static void one_case(int g, int p) {
    G = g; in_pass = 0; npass = 0; n_init = n_finish = n_exec = exec_after_finish = exec_before_init = 0;
    for (int i = 0; i <= GMAX; i++) for (int j = 0; j <= GMAX; j++) cnt[i][j] = 0;
    k_run(g, p, RT);
    for (int i = 0; i < GMAX; i++) for (int j = 0; j < GMAX; j++)
        if (i < g && j < g) CHECK(cnt[i][j] == (in_range(i, j) ? 1 : 0), "every (i,j) of the requested range is executed exactly once, nothing outside it");
    CHECK(!exec_before_init && !exec_after_finish && n_init >= 1 && n_finish >= 1, "initialize precedes and finish follows every execution");
    OUT_U64("nexec", 0, n_exec); OUT_U64("npass", 0, npass); OUT_U64("bins", 0, nbins_seen);
}
HARNESS(h_partition) {
    ir2c_init_globals();
    rt_nothrow = 1;
    IN_U32(in_g, 0); IN_U32(in_g, 1);
    ASSUME(in_g[0] <= GMAX && in_g[1] >= PLO && in_g[1] <= PHI);
    for (unsigned g = 0; g <= GMAX; g++) if (g == in_g[0])
        for (unsigned p = PLO; p <= PHI; p++) if (p == in_g[1]) one_case((int)g, (int)p);
    WITNESS_POINT();
}
#ifndef __CPROVER__
#include "kreplay_main.h"
static const struct kh_entry kh_table[] = { { "h_partition", h_partition }, { 0, 0 } };
KH_MAIN(kh_table)
#endif
