/* Common definitions for Engine K harnesses.  One source, three uses:
 *   cbmc            : inputs are nondet, CHECK = assertion, ASSUME = __CPROVER_assume
 *   -DWITNESS (cbmc): CHECKs compiled out, WITNESS_POINT() is assert(0) that must FAIL (non-vacuity)
 *   -DREPLAY (native, linked against the g++ build of the REAL code or against gcc(gen.c)):
 *                     inputs come from the replay vector file given in argv[1] (lines: name index value),
 *                     CHECK failures are printed, ASSUME failures abort the replay with exit 3. */
#ifndef KHARNESS_H
#define KHARNESS_H
#include <stdint.h>
#include <string.h>
#include <stdlib.h>
#include <stddef.h>

#ifdef __CPROVER__
uint8_t nondet_u8(void); uint32_t nondet_u32(void); uint64_t nondet_u64(void); int nondet_int(void); double nondet_double(void);
#define IN_U8(name, i)  (name[i] = nondet_u8())
#define IN_U32(name, i) (name[i] = nondet_u32())
#define IN_U64(name, i) (name[i] = nondet_u64())
#define ASSUME(c) __CPROVER_assume(c)
#ifdef WITNESS
#define CHECK(c, msg) ((void)0)
#define WITNESS_POINT() __CPROVER_assert(0, "WITNESS: this point is reachable (must FAIL)")
#elif defined(WITNESS_INLINE)
/* single run: all CHECKs active AND the reachability witness; the driver expects exactly the witness to FAIL */
#define CHECK(c, msg) __CPROVER_assert(c, msg)
#define WITNESS_POINT() __CPROVER_assert(0, "WITNESS: this point is reachable (must FAIL)")
#else
#define CHECK(c, msg) __CPROVER_assert(c, msg)
#define WITNESS_POINT() ((void)0)
#endif
#define HARNESS(name) void name(void)
#define OUT_U64(tag, i, v) ((void)0)
#define ALL_EQUAL_U32(a, b, n) __CPROVER_forall { unsigned kh_i; (kh_i < (unsigned)(n)) ==> ((a)[kh_i] == (b)[kh_i]) }
#else
#include <stdio.h>
uint64_t kh_input(const char* name, unsigned i);
extern int kh_failures;
#define IN_U8(name, i)  (name[i] = (uint8_t)kh_input(#name, i))
#define IN_U32(name, i) (name[i] = (uint32_t)kh_input(#name, i))
#define IN_U64(name, i) (name[i] = (uint64_t)kh_input(#name, i))
#define ASSUME(c) do { if (!(c)) { printf("ASSUME-FALSE %s\n", #c); exit(3); } } while (0)
#define CHECK(c, msg) do { if (!(c)) { printf("CHECK-FAIL %s\n", msg); kh_failures++; } } while (0)
#define WITNESS_POINT() ((void)0)
#define HARNESS(name) void name(void)
#define ALL_EQUAL_U32(a, b, n) (memcmp(a, b, 4 * (n)) == 0)
#define OUT_U64(tag, i, v) printf("OUT %s %u %llu\n", tag, (unsigned)(i), (unsigned long long)(v))
#endif
#endif
