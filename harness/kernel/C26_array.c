/* C26: inductive-step harnesses for the REAL Array_<T,unsigned> (IR of $VERIF_REPO's Array.h translated to C, or
 * the g++ build of the same wrapper in REPLAY mode) against a std::vector-style reference model written here.
 * Compile with -DET_INT (T=int, entry points k_ai_*) or -DET_COUNTED (T=Counted, k_ac_*; constructor/destructor
 * hooks tracked below).  Every harness: arbitrary valid pre-state (capacity <= MAXCAP, size <= capacity, nondet
 * contents) -> ONE operation with nondet arguments satisfying the documented precondition -> post-state equals the
 * model (contents, order, size, capacity >= size, returned iterator), heap blocks balanced, and for Counted every
 * element constructed/destroyed exactly once (live-address table). */
#include "kharness.h"

#ifndef MAXCAP
#define MAXCAP 6
#endif
#ifndef MAXN
#define MAXN 4
#endif
#define MAXSZ (MAXCAP + MAXN)
#ifndef CAPLO
#define CAPLO 0          /* -DCAPLO=k -DCAPHI=k: one cbmc job per pre-state capacity (thorough tier) */
#define CAPHI MAXCAP
#endif

#ifdef ET_COUNTED
#define P(x) k_ac_##x
typedef struct { int id; int alive; } elem;       /* mirror of Counted */
#define ID(e) ((e).id)
#else
#define P(x) k_ai_##x
typedef int elem;
#define ID(e) (e)
#endif

/* ---- real code entry points (harness/kernel/C26_wrap.cpp) ---- */
void* k_alloc_bytes(unsigned n);
unsigned P(sizeof)(void);
void P(construct)(void* m); void P(destruct)(void* a);
unsigned P(size)(void* a); unsigned P(capacity)(void* a);
int P(insert_n)(void* a, unsigned pos, unsigned n, int v);
int P(insert_1)(void* a, unsigned pos, int v);
int P(insert_range)(void* a, unsigned pos, const elem* first, unsigned cnt);
int P(erase_range)(void* a, unsigned f, unsigned l);
int P(erase)(void* a, unsigned i);
int P(eraseFast)(void* a, unsigned i);
void P(push_back)(void* a, int v); void P(pop_back)(void* a);
void P(resize)(void* a, unsigned n); void P(resize_v)(void* a, unsigned n, int v);
void P(reserve)(void* a, unsigned n);
void P(assign_n)(void* a, unsigned n, int v);
void P(assign_range)(void* a, const elem* first, unsigned cnt);
void P(shrink_to_fit)(void* a);
void P(swap)(void* a, void* b);
void P(clear)(void* a);
void P(copy_construct)(void* m, const void* src);
void P(copy_assign)(void* a, const void* src);
unsigned k_growth_u8(unsigned char cap, unsigned char n);
unsigned k_maxsize_u8(void);
unsigned k_growth_u32(unsigned cap, unsigned n);
extern long rt_news, rt_deletes;
extern int rt_nothrow;

/* ---- mirror of the Array_ object: { T* pData; unsigned nUsed; unsigned nAllocated; } (size asserted) ---- */
struct arr { elem* p; unsigned n; unsigned cap; };

/* ---- Counted hooks: the 'alive' word of each element is owned by these hooks; heap blocks and argument
 * temporaries start zeroed, so alive==1 exactly for constructed-and-not-yet-destroyed elements ---- */
static int n_ctor, n_dtor;
#define ALIVE(self) (*(int*)((char*)(self) + 4))
void kc_ctor(void* self) {
    n_ctor++;            /* (constructing on top of a live element is caught by the constructor/destructor balance; the alive
                            word of Array_-internal stack temporaries is indeterminate, so it is not inspected here) */
    ALIVE(self) = 1;
}
void kc_dtor(void* self) {
    n_dtor++;
    CHECK(ALIVE(self) == 1, "Counted: only live (constructed, not yet destroyed) elements are destroyed");
    ALIVE(self) = 0;
}
void kc_assign(void* self) { CHECK(ALIVE(self) == 1, "Counted: assignment only to live elements"); }

/* ---- inputs ---- */
uint32_t in_cap[2], in_n[2], in_val[2 * MAXCAP], in_arg[4], in_src[MAXN];

/* ---- reference model ---- */
struct model { int v[MAXSZ + 2]; unsigned n; };
static void m_insert(struct model* m, unsigned pos, unsigned cnt, const int* src, int fill, int use_src) {
    for (unsigned i = m->n; i > pos; i--) m->v[i - 1 + cnt] = m->v[i - 1];
    for (unsigned i = 0; i < cnt; i++) m->v[pos + i] = use_src ? src[i] : fill;
    m->n += cnt;
}
static void m_erase(struct model* m, unsigned f, unsigned l) {
    for (unsigned i = l; i < m->n; i++) m->v[f + i - l] = m->v[i];
    m->n -= l - f;
}

/* ---- pre-state: directly from the class invariant.  Shapes (capacity, size, positions, counts) are nondet but the
 * harness dispatches on them with loops over the concrete values, so each case runs with constant shapes and
 * symbolic CONTENTS (cbmc then sees constant-size heap blocks and constant offsets; all shapes are still covered). */
static long blocks0;
static unsigned npre;
static void make_pre(struct arr* a, struct model* m, int which, unsigned cap, unsigned n) {
    a->p = 0; a->n = n; a->cap = cap; m->n = n;
#ifdef ET_COUNTED
    npre = (which == 0 ? 0 : npre) + n;
#endif
    if (cap > 0) a->p = (elem*)k_alloc_bytes(cap * (unsigned)sizeof(elem));
    for (unsigned i = 0; i < MAXCAP; i++) {
        if (i < n) {
            ID(a->p[i]) = (int)in_val[which * MAXCAP + i]; m->v[i] = (int)in_val[which * MAXCAP + i];
#ifdef ET_COUNTED
            a->p[i].alive = 1;                     /* pre-existing elements are live */
#endif
        }
#ifdef ET_COUNTED
        else if (i < cap) { a->p[i].id = 0; a->p[i].alive = 0; }
#endif
    }
}
static void start(void) {
    CHECK(P(sizeof)() == sizeof(struct arr), "sizeof(Array_<T,unsigned>) == 16 == mirror struct");
    rt_nothrow = 1;                    /* every precondition below is satisfied: a throw is a failure */
    for (int i = 0; i < 2 * MAXCAP; i++) IN_U32(in_val, i);
    for (int i = 0; i < 4; i++) IN_U32(in_arg, i);
    for (int i = 0; i < MAXN; i++) IN_U32(in_src, i);
    IN_U32(in_cap, 0); IN_U32(in_n, 0); IN_U32(in_cap, 1); IN_U32(in_n, 1);
    ASSUME(in_cap[0] >= CAPLO && in_cap[0] <= CAPHI && in_n[0] <= in_cap[0] && in_cap[1] <= MAXCAP && in_n[1] <= in_cap[1]);
}
static int ctor0, dtor0;
static void case_begin(void) {
    blocks0 = rt_news - rt_deletes; ctor0 = n_ctor; dtor0 = n_dtor;
}
static void check_post(const struct arr* a, const struct model* m, long expect_blocks) {
    CHECK(a->n == m->n, "size == model size");
    CHECK(a->cap >= a->n, "capacity >= size");
    CHECK((a->p != 0) == (a->cap != 0), "data pointer is null exactly when nothing is allocated");
    for (unsigned i = 0; i < MAXSZ; i++) if (i < m->n && i < a->n) CHECK(ID(a->p[i]) == m->v[i], "contents and order == model");
    CHECK(rt_news - rt_deletes - blocks0 == expect_blocks, "heap blocks balanced: exactly one block per array with capacity > 0 (no leak, no double free)");
    for (unsigned i = 0; i < MAXSZ; i++) if (i < a->n) OUT_U64("elt", i, (uint32_t)ID(a->p[i]));
    OUT_U64("size", 0, a->n); OUT_U64("cap", 0, a->cap);
}
#ifdef ET_COUNTED
/* pre: the pre-existing elements (npre of them) were live; post: exactly the elements of the array(s) are live, every
 * spare slot is dead, and constructions - destructions == growth in the number of live elements */
static void check_live(const struct arr* a, const struct arr* b) {
    unsigned total = a->n + (b ? b->n : 0);
    for (unsigned i = 0; i < MAXSZ + 6; i++) if (i < a->cap) CHECK(a->p[i].alive == (i < a->n ? 1 : 0), "Counted: slots [0,size) hold live elements, spare capacity holds none");
    if (b) for (unsigned i = 0; i < MAXSZ + 6; i++) if (i < b->cap) CHECK(b->p[i].alive == (i < b->n ? 1 : 0), "Counted: slots [0,size) hold live elements, spare capacity holds none (second array)");
    CHECK((n_ctor - ctor0) - (n_dtor - dtor0) == (int)total - (int)npre, "Counted: constructions - destructions == change in element count (each element constructed and destroyed exactly once)");
    OUT_U64("ctor", 0, n_ctor - ctor0); OUT_U64("dtor", 0, n_dtor - dtor0);
}
#define src_live(s, c, on) ((void)0)
#else
#define check_live(a, b) ((void)0)
#define src_live(s, c, on) ((void)0)
#endif
#define BLK(a) ((a)->cap != 0 ? 1 : 0)
#ifdef ET_COUNTED
#define SRC_ALIVE(e) ((e).alive = 1)
#else
#define SRC_ALIVE(e) ((void)0)
#endif

struct arr A, B; struct model M, MB;

/* dispatch helpers: run BODY with constant c (capacity), n (size) equal to the nondet pre-state shape */
#define FOR_SHAPE(c, n, which) \
    for (unsigned c = ((which) == 0 ? CAPLO : 0); c <= ((which) == 0 ? CAPHI : MAXCAP); c++) if (c == in_cap[which]) \
    for (unsigned n = 0; n <= c; n++) if (n == in_n[which])
#define FOR_ARG(v, lo, hi, k) for (unsigned v = (lo); v <= (hi); v++) if (v == in_arg[k])

static void c_insert_n(unsigned c, unsigned n, unsigned pos, unsigned cnt) {
    int v = (int)in_arg[2];
    case_begin(); make_pre(&A, &M, 0, c, n);
    int r = P(insert_n)(&A, pos, cnt, v);
    m_insert(&M, pos, cnt, 0, v, 0);
    CHECK(r == (int)pos, "insert(p,n,v) returns an iterator to the first inserted element");
    check_post(&A, &M, BLK(&A)); check_live(&A, 0);
}
HARNESS(h_insert_n) {
    start(); ASSUME(in_arg[0] <= in_n[0] && in_arg[1] <= MAXN);
    FOR_SHAPE(c, n, 0) FOR_ARG(pos, 0, n, 0) FOR_ARG(cnt, 0, MAXN, 1) c_insert_n(c, n, pos, cnt);
    WITNESS_POINT();
}
static void c_insert_1(unsigned c, unsigned n, unsigned pos) {
    int v = (int)in_arg[2];
    case_begin(); make_pre(&A, &M, 0, c, n);
    int r = P(insert_1)(&A, pos, v);
    m_insert(&M, pos, 1, 0, v, 0);
    CHECK(r == (int)pos, "insert(p,v) returns an iterator to the inserted element");
    check_post(&A, &M, BLK(&A)); check_live(&A, 0);
}
HARNESS(h_insert_1) {
    start(); ASSUME(in_arg[0] <= in_n[0]);
    FOR_SHAPE(c, n, 0) FOR_ARG(pos, 0, n, 0) c_insert_1(c, n, pos);
    WITNESS_POINT();
}
static void c_insert_range(unsigned c, unsigned n, unsigned pos, unsigned cnt) {
    elem src[MAXN]; int srcv[MAXN];
    for (int i = 0; i < MAXN; i++) { memset(&src[i], 0, sizeof(elem)); ID(src[i]) = srcv[i] = (int)in_src[i]; SRC_ALIVE(src[i]); }
    case_begin(); make_pre(&A, &M, 0, c, n);
    int r = P(insert_range)(&A, pos, src, cnt);
    m_insert(&M, pos, cnt, srcv, 0, 1);
    CHECK(r == (int)pos, "insert(p,first,last) returns an iterator to the first inserted element");
    src_live(src, cnt, 0);
    check_post(&A, &M, BLK(&A)); check_live(&A, 0);
}
HARNESS(h_insert_range) {
    start(); ASSUME(in_arg[0] <= in_n[0] && in_arg[1] <= MAXN);
    FOR_SHAPE(c, n, 0) FOR_ARG(pos, 0, n, 0) FOR_ARG(cnt, 0, MAXN, 1) c_insert_range(c, n, pos, cnt);
    WITNESS_POINT();
}
static void c_erase_range(unsigned c, unsigned n, unsigned f, unsigned l) {
    case_begin(); make_pre(&A, &M, 0, c, n);
    int r = P(erase_range)(&A, f, l);
    m_erase(&M, f, l);
    CHECK(r == (int)f, "erase(first,last) returns an iterator to the element after the erased range");
    check_post(&A, &M, BLK(&A)); check_live(&A, 0);
}
HARNESS(h_erase_range) {
    start(); ASSUME(in_arg[0] <= in_arg[1] && in_arg[1] <= in_n[0]);
    FOR_SHAPE(c, n, 0) FOR_ARG(f, 0, n, 0) FOR_ARG(l, f, n, 1) c_erase_range(c, n, f, l);
    WITNESS_POINT();
}
static void c_erase(unsigned c, unsigned n, unsigned i, int fast) {
    case_begin(); make_pre(&A, &M, 0, c, n);
    int r = fast ? P(eraseFast)(&A, i) : P(erase)(&A, i);
    if (fast) { M.v[i] = M.v[M.n - 1]; M.n--; }        /* last element moves into the hole; order otherwise kept */
    else m_erase(&M, i, i + 1);
    CHECK(r == (int)i, "erase(p)/eraseFast(p) returns an iterator to the position of the erased element");
    check_post(&A, &M, BLK(&A)); check_live(&A, 0);
}
HARNESS(h_erase) {
    start(); ASSUME(in_arg[0] < in_n[0]);
    FOR_SHAPE(c, n, 0) FOR_ARG(i, 0, n, 0) if (i < n) c_erase(c, n, i, 0);
    WITNESS_POINT();
}
HARNESS(h_eraseFast) {
    start(); ASSUME(in_arg[0] < in_n[0]);
    FOR_SHAPE(c, n, 0) FOR_ARG(i, 0, n, 0) if (i < n) c_erase(c, n, i, 1);
    WITNESS_POINT();
}
static void c_simple(unsigned c, unsigned n, int op) {
    int v = (int)in_arg[2];
    case_begin(); make_pre(&A, &M, 0, c, n);
    unsigned cap0 = A.cap;
    if (op == 0) { P(push_back)(&A, v); M.v[M.n++] = v; }
    if (op == 1) { P(pop_back)(&A); M.n--; CHECK(A.cap == cap0, "pop_back does not change the capacity"); }
    if (op == 2) {
        P(shrink_to_fit)(&A);
        CHECK(A.cap <= cap0, "shrink_to_fit never grows the capacity");
        if (A.n == 0) CHECK(A.cap == 0 && A.p == 0, "shrink_to_fit on an empty array releases all heap space (documented guarantee)");
    }
    if (op == 3) { P(clear)(&A); M.n = 0; }
    if (op == 4) {
        P(destruct)(&A);
        CHECK(rt_news - rt_deletes - blocks0 == 0, "destructor frees the heap block");
#ifdef ET_COUNTED
        CHECK((n_dtor - dtor0) - (n_ctor - ctor0) == (int)n, "Counted: destructor destroys every element exactly once");
#endif
        return;
    }
    check_post(&A, &M, BLK(&A)); check_live(&A, 0);
}
HARNESS(h_push_back) { start(); FOR_SHAPE(c, n, 0) c_simple(c, n, 0); WITNESS_POINT(); }
HARNESS(h_pop_back) { start(); ASSUME(in_n[0] > 0); FOR_SHAPE(c, n, 0) if (n > 0) c_simple(c, n, 1); WITNESS_POINT(); }
HARNESS(h_shrink_to_fit) { start(); FOR_SHAPE(c, n, 0) c_simple(c, n, 2); WITNESS_POINT(); }
HARNESS(h_clear) { start(); FOR_SHAPE(c, n, 0) c_simple(c, n, 3); WITNESS_POINT(); }
HARNESS(h_destruct) { start(); FOR_SHAPE(c, n, 0) c_simple(c, n, 4); WITNESS_POINT(); }

static void c_sized(unsigned c, unsigned n, unsigned n2, int op) {
    int v = (int)in_arg[2];
    case_begin(); make_pre(&A, &M, 0, c, n);
    unsigned cap0 = A.cap;
    if (op == 0) { P(resize)(&A, n2); for (unsigned i = M.n; i < MAXSZ; i++) if (i < n2) M.v[i] = 0; M.n = n2; }    /* value-initialised */
    if (op == 1) { P(resize_v)(&A, n2, v); for (unsigned i = M.n; i < MAXSZ; i++) if (i < n2) M.v[i] = v; M.n = n2; }
    if (op == 2) { P(reserve)(&A, n2); CHECK(A.cap >= n2 && A.cap >= cap0, "reserve(n): capacity >= n and never shrinks"); }
    if (op == 3) { P(assign_n)(&A, n2, v); for (unsigned i = 0; i < MAXSZ; i++) if (i < n2) M.v[i] = v; M.n = n2; }
    check_post(&A, &M, BLK(&A)); check_live(&A, 0);
}
HARNESS(h_resize) { start(); ASSUME(in_arg[0] <= MAXSZ); FOR_SHAPE(c, n, 0) FOR_ARG(n2, 0, MAXSZ, 0) c_sized(c, n, n2, 0); WITNESS_POINT(); }
HARNESS(h_resize_v) { start(); ASSUME(in_arg[0] <= MAXSZ); FOR_SHAPE(c, n, 0) FOR_ARG(n2, 0, MAXSZ, 0) c_sized(c, n, n2, 1); WITNESS_POINT(); }
HARNESS(h_reserve) { start(); ASSUME(in_arg[0] <= MAXSZ); FOR_SHAPE(c, n, 0) FOR_ARG(n2, 0, MAXSZ, 0) c_sized(c, n, n2, 2); WITNESS_POINT(); }
HARNESS(h_assign_n) { start(); ASSUME(in_arg[0] <= MAXSZ); FOR_SHAPE(c, n, 0) FOR_ARG(n2, 0, MAXSZ, 0) c_sized(c, n, n2, 3); WITNESS_POINT(); }

static void c_assign_range(unsigned c, unsigned n, unsigned cnt) {
    elem src[MAXN]; int srcv[MAXN];
    for (int i = 0; i < MAXN; i++) { memset(&src[i], 0, sizeof(elem)); ID(src[i]) = srcv[i] = (int)in_src[i]; SRC_ALIVE(src[i]); }
    case_begin(); make_pre(&A, &M, 0, c, n);
    P(assign_range)(&A, src, cnt);
    for (unsigned i = 0; i < MAXN; i++) if (i < cnt) M.v[i] = srcv[i];
    M.n = cnt;
    src_live(src, cnt, 0);
    check_post(&A, &M, BLK(&A)); check_live(&A, 0);
}
HARNESS(h_assign_range) { start(); ASSUME(in_arg[1] <= MAXN); FOR_SHAPE(c, n, 0) FOR_ARG(cnt, 0, MAXN, 1) c_assign_range(c, n, cnt); WITNESS_POINT(); }

static void c_two(unsigned c, unsigned n, unsigned c2, unsigned n2, int op) {
    case_begin(); make_pre(&A, &M, 0, c, n);
    if (op != 1) make_pre(&B, &MB, 1, c2, n2);
    if (op == 0) {
        P(swap)(&A, &B);
        check_post(&A, &MB, BLK(&A) + BLK(&B)); check_post(&B, &M, BLK(&A) + BLK(&B)); check_live(&A, &B);
    }
    if (op == 1) {
        P(copy_construct)(&B, &A);
        CHECK(B.n == 0 || B.p != A.p, "copy has its own storage");
        check_post(&B, &M, BLK(&A) + BLK(&B)); check_post(&A, &M, BLK(&A) + BLK(&B)); check_live(&A, &B);
        if (B.n > 0) { ID(B.p[0]) ^= 1; CHECK(ID(A.p[0]) == M.v[0], "writing to the copy does not change the source"); }
    }
    if (op == 2) {
        P(copy_assign)(&B, &A);
        CHECK(B.n == 0 || B.p != A.p, "assigned array has its own storage");
        check_post(&B, &M, BLK(&A) + BLK(&B)); check_post(&A, &M, BLK(&A) + BLK(&B)); check_live(&A, &B);
    }
}
HARNESS(h_swap) { start(); FOR_SHAPE(c, n, 0) FOR_SHAPE(c2, n2, 1) c_two(c, n, c2, n2, 0); WITNESS_POINT(); }
HARNESS(h_copy_construct) { start(); FOR_SHAPE(c, n, 0) c_two(c, n, 0, 0, 1); WITNESS_POINT(); }
HARNESS(h_copy_assign) { start(); FOR_SHAPE(c, n, 0) FOR_SHAPE(c2, n2, 1) c_two(c, n, c2, n2, 2); WITNESS_POINT(); }

/* growth arithmetic in isolation, narrow index type: all 8-bit (capacity, n) pairs */
uint8_t in_g[2];
HARNESS(h_growth_u8) {
    IN_U8(in_g, 0); IN_U8(in_g, 1);
    unsigned cap = in_g[0], n = in_g[1], mx = k_maxsize_u8();
    CHECK(mx == 255, "max_size() of Array_<char,unsigned char> is 255");
    ASSUME(cap + n <= mx);              /* isGrowthOK: otherwise the method throws (documented) */
    rt_nothrow = 1;
    unsigned r = k_growth_u8((unsigned char)cap, (unsigned char)n);
    CHECK(r >= cap + n, "new capacity holds the requested growth");
    CHECK(r <= mx, "new capacity <= max_size()");
    CHECK(r >= (2 * cap <= mx ? 2 * cap : mx), "at least doubles (or saturates at max_size())");
    OUT_U64("r", 0, r);
    WITNESS_POINT();
}
uint32_t in_g32[2];
HARNESS(h_growth_u32) {
    IN_U32(in_g32, 0); IN_U32(in_g32, 1);
    uint64_t cap = in_g32[0], n = in_g32[1], mx = 0x7fffffffu;
    ASSUME(cap <= mx && cap + n <= mx);
    rt_nothrow = 1;
    uint64_t r = k_growth_u32((unsigned)cap, (unsigned)n);
    CHECK(r >= cap + n, "new capacity holds the requested growth");
    CHECK(r <= mx, "new capacity <= max_size()");
    CHECK(r >= (2 * cap <= mx ? 2 * cap : mx), "at least doubles (or saturates at max_size())");
    OUT_U64("r", 0, r);
    WITNESS_POINT();
}

#ifndef __CPROVER__
#include "kreplay_main.h"
static const struct kh_entry kh_table[] = {
    { "h_insert_n", h_insert_n }, { "h_insert_1", h_insert_1 }, { "h_insert_range", h_insert_range }, { "h_erase_range", h_erase_range },
    { "h_erase", h_erase }, { "h_eraseFast", h_eraseFast }, { "h_push_back", h_push_back }, { "h_pop_back", h_pop_back },
    { "h_resize", h_resize }, { "h_resize_v", h_resize_v }, { "h_reserve", h_reserve }, { "h_assign_n", h_assign_n },
    { "h_assign_range", h_assign_range }, { "h_shrink_to_fit", h_shrink_to_fit }, { "h_clear", h_clear }, { "h_swap", h_swap },
    { "h_copy_construct", h_copy_construct }, { "h_copy_assign", h_copy_assign }, { "h_destruct", h_destruct },
    { "h_growth_u8", h_growth_u8 }, { "h_growth_u32", h_growth_u32 }, { 0, 0 } };
KH_MAIN(kh_table)
#endif
