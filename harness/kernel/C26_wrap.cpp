// Engine K wrapper TU for C26: instantiates the REAL Array_<T,X> from $VERIF_REPO's Array.h for
//   T=int, X=unsigned            (entry points k_ai_*)
//   T=Counted, X=unsigned        (entry points k_ac_*; Counted's special members call harness-side hooks)
//   T=char, X=unsigned char      (growth arithmetic only: k_growth_u8)
// Entry points are glue only (index <-> iterator conversion, passing arguments); all container logic is Array.h's.
#include "SimTKcommon/internal/common.h"
#include "SimTKcommon/internal/ExceptionMacros.h"
#include "SimTKcommon/internal/Array.h"
#include <new>
using SimTK::Array_;
#define K extern "C" __attribute__((noinline))

extern "C" { void kc_ctor(void* self); void kc_dtor(void* self); void kc_assign(void* self); }
// 'alive' is owned by the harness hooks (kc_ctor sets it, kc_dtor clears it); the class never touches it.
struct Counted {
    int id; int alive;
    Counted() : id(0) { kc_ctor(this); }
    Counted(int i) : id(i) { kc_ctor(this); }
    Counted(const Counted& c) : id(c.id) { kc_ctor(this); }
    Counted& operator=(const Counted& c) { id = c.id; kc_assign(this); return *this; }
    ~Counted() { kc_dtor(this); }
};
// argument temporaries live in zeroed storage so that the hooks see defined 'alive' bytes
template <class T> struct Tmp { alignas(8) unsigned char b[sizeof(T)]; T* p; Tmp(int v) { for (unsigned i = 0; i < sizeof(T); i++) b[i] = 0; p = new (b) T(v); } ~Tmp() { p->~T(); } };

K void* k_alloc_bytes(unsigned n) { return new unsigned char[n]; }      // what Array_::allocN uses

#define ARRAY_ENTRY_POINTS(P, T, ARG)                                                                             \
  typedef Array_<T, unsigned> A_##P;                                                                               \
  K unsigned k_##P##_sizeof() { return (unsigned)sizeof(A_##P); }                                                  \
  K void k_##P##_construct(void* m) { new (m) A_##P(); }                                                           \
  K void k_##P##_destruct(void* a) { ((A_##P*)a)->~A_##P(); }                                                      \
  K unsigned k_##P##_size(void* a) { return ((A_##P*)a)->size(); }                                                 \
  K unsigned k_##P##_capacity(void* a) { return ((A_##P*)a)->capacity(); }                                         \
  K int k_##P##_insert_n(void* a, unsigned pos, unsigned n, ARG v) { A_##P& x = *(A_##P*)a; Tmp<T> t(v); T* r = x.insert(x.begin() + pos, n, *t.p); return (int)(r - x.begin()); } \
  K int k_##P##_insert_1(void* a, unsigned pos, ARG v) { A_##P& x = *(A_##P*)a; Tmp<T> t(v); T* r = x.insert(x.begin() + pos, *t.p); return (int)(r - x.begin()); } \
  K int k_##P##_insert_range(void* a, unsigned pos, const T* first, unsigned cnt) { A_##P& x = *(A_##P*)a; T* r = x.insert(x.begin() + pos, first, first + cnt); return (int)(r - x.begin()); } \
  K int k_##P##_erase_range(void* a, unsigned f, unsigned l) { A_##P& x = *(A_##P*)a; T* r = x.erase(x.begin() + f, x.begin() + l); return (int)(r - x.begin()); } \
  K int k_##P##_erase(void* a, unsigned i) { A_##P& x = *(A_##P*)a; T* r = x.erase(x.begin() + i); return (int)(r - x.begin()); } \
  K int k_##P##_eraseFast(void* a, unsigned i) { A_##P& x = *(A_##P*)a; T* r = x.eraseFast(x.begin() + i); return (int)(r - x.begin()); } \
  K void k_##P##_push_back(void* a, ARG v) { Tmp<T> t(v); ((A_##P*)a)->push_back(*t.p); }                                       \
  K void k_##P##_pop_back(void* a) { ((A_##P*)a)->pop_back(); }                                                    \
  K void k_##P##_resize(void* a, unsigned n) { ((A_##P*)a)->resize(n); }                                           \
  K void k_##P##_resize_v(void* a, unsigned n, ARG v) { Tmp<T> t(v); ((A_##P*)a)->resize(n, *t.p); }                            \
  K void k_##P##_reserve(void* a, unsigned n) { ((A_##P*)a)->reserve(n); }                                         \
  K void k_##P##_assign_n(void* a, unsigned n, ARG v) { Tmp<T> t(v); ((A_##P*)a)->assign(n, *t.p); }                            \
  K void k_##P##_assign_range(void* a, const T* first, unsigned cnt) { ((A_##P*)a)->assign(first, first + cnt); }  \
  K void k_##P##_shrink_to_fit(void* a) { ((A_##P*)a)->shrink_to_fit(); }                                          \
  K void k_##P##_swap(void* a, void* b) { ((A_##P*)a)->swap(*(A_##P*)b); }                                         \
  K void k_##P##_clear(void* a) { ((A_##P*)a)->clear(); }                                                          \
  K void k_##P##_copy_construct(void* m, const void* src) { new (m) A_##P(*(const A_##P*)src); }                   \
  K void k_##P##_copy_assign(void* a, const void* src) { *(A_##P*)a = *(const A_##P*)src; }

ARRAY_ENTRY_POINTS(ai, int, int)
ARRAY_ENTRY_POINTS(ac, Counted, int)

// growth arithmetic for a narrow index type, in isolation: capacity()==cap (owner), grow by n
K unsigned k_growth_u8(unsigned char cap, unsigned char n) {
    Array_<char, unsigned char> a;
    a.setAllocated(cap);
    unsigned r = a.calcNewCapacityForGrowthBy(n, "k_growth_u8");
    a.setAllocated(0);
    return r;
}
K unsigned k_maxsize_u8() { return Array_<char, unsigned char>().max_size(); }
K unsigned k_growth_u32(unsigned cap, unsigned n) {
    Array_<int, unsigned> a;
    a.setAllocated(cap);
    unsigned r = a.calcNewCapacityForGrowthBy(n, "k_growth_u32");
    a.setAllocated(0);
    return r;
}
