/* C31 (i): differential harnesses, real SFMT code (k_* = IR of $VERIF_REPO/SimTKcommon/Random/src/SFMT.cpp
 * translated to C by ir2c, or the g++ build of the same wrapper in REPLAY mode) against a reference model
 * written from the SFMT-19937 specification (Saito & Matsumoto 2008, "SIMD-oriented Fast Mersenne Twister"). */
#include "kharness.h"

/* ---- the real code (entry points of harness/kernel/C31_wrap.cpp) ---- */
unsigned k_sizeof_sfmtdata(void); unsigned k_off_idx(void); unsigned k_off_initialized(void); unsigned k_off_parity(void);
int k_N(void);
void k_construct(void* mem);
void k_do_recursion(uint32_t* r, uint32_t* a, uint32_t* b, uint32_t* c, uint32_t* d);
void k_gen_rand_all(void* data);
void k_gen_rand_array(uint32_t* array, int size128, void* data);
void k_fill_array64(uint64_t* array, int size, void* data);
void k_period_certification(void* data);
void k_init_gen_rand(uint32_t seed, void* data);
uint32_t k_gen_rand32(void* data);
uint64_t k_gen_rand64(void* data);
int k_idxof(int i);

/* ---- reference model: SFMT-19937 ------------------------------------------------------------
 * state: N=156 words of 128 bits, w[n] = (u[0] least significant ... u[3] most significant)
 * recursion  w[n+N] = w[n] ^ (w[n] <<128 8*SL2) ^ ((w[n+POS1] >>32 SR1) & MSK) ^ (w[n+N-2] >>128 8*SR2) ^ (w[n+N-1] <<32 SL1)
 * with <<128 / >>128 shifts of the whole 128-bit integer and <<32 / >>32 shifts of each 32-bit lane. */
enum { RN = 156, RPOS1 = 122, RSL1 = 18, RSL2 = 1, RSR1 = 11, RSR2 = 1 };
static const uint32_t RMSK[4] = { 0xdfffffefU, 0xddfecb7fU, 0xbffaffffU, 0xbffffff6U };
static const uint32_t RPARITY[4] = { 0x00000001U, 0x00000000U, 0x00000000U, 0x13c9e684U };
typedef unsigned __int128 u128;
static u128 ref_pack(const uint32_t* u) { return (u128)u[0] | ((u128)u[1] << 32) | ((u128)u[2] << 64) | ((u128)u[3] << 96); }
static void ref_rec(uint32_t* r, const uint32_t* a, const uint32_t* b, const uint32_t* c, const uint32_t* d) {
    u128 x = ref_pack(a) << (8 * RSL2), y = ref_pack(c) >> (8 * RSR2);
    uint32_t t[4];
    for (int k = 0; k < 4; k++)
        t[k] = a[k] ^ (uint32_t)(x >> (32 * k)) ^ ((b[k] >> RSR1) & RMSK[k]) ^ (uint32_t)(y >> (32 * k)) ^ (d[k] << RSL1);
    for (int k = 0; k < 4; k++) r[k] = t[k];
}
/* (kept for documentation and the native self-test) x[0..N-1] = state, x[N+i] = rec(x[i], x[i+POS1], x[i+N-2], x[i+N-1]); produces 'count' new words */
static void ref_stream(uint32_t* x /* (N+count)*4 words, first N*4 filled */, int count) {
    for (int i = 0; i < count; i++)
        ref_rec(x + 4 * (RN + i), x + 4 * i, x + 4 * (i + RPOS1), x + 4 * (i + RN - 2), x + 4 * (i + RN - 1));
}
static uint32_t ref_init_step(uint32_t prev, uint32_t i) { return (prev ^ (prev >> 30)) * 1812433253U + i;   /* operand order as the SAT encoder likes it; same function */ }
static void ref_period_certification(uint32_t* s) {
    uint32_t inner = 0;
    for (int i = 0; i < 4; i++) inner ^= s[i] & RPARITY[i];
    inner ^= inner >> 16; inner ^= inner >> 8; inner ^= inner >> 4; inner ^= inner >> 2; inner ^= inner >> 1;
    if (inner & 1) return;
    for (int i = 0; i < 4; i++)
        for (int j = 0; j < 32; j++)
            if (RPARITY[i] & (1U << j)) { s[i] ^= 1U << j; return; }
}

/* ---- storage for the real SFMTData: a mirror struct whose size/offsets are asserted against the real layout ---- */
struct sfmt_mirror { uint32_t s[624]; uint32_t* p32; uint64_t* p64; int idx; int initialized; uint32_t parity[4]; };
static struct sfmt_mirror D;
#define data_mem ((void*)&D)
#define st() (D.s)
#define p_idx() (&D.idx)
#define p_init() (&D.initialized)

uint32_t in_state[624];
uint32_t in_w[20];
uint32_t pre[624];
uint32_t ref_x[4 * (156 + 512)];
uint32_t out_arr[4 * 512];

static void check_layout(void) {
    CHECK(k_sizeof_sfmtdata() == sizeof(struct sfmt_mirror), "sizeof(SFMTData) matches the harness mirror struct");
    CHECK(k_off_idx() == offsetof(struct sfmt_mirror, idx), "offsetof(SFMTData, idx)");
    CHECK(k_off_initialized() == offsetof(struct sfmt_mirror, initialized), "offsetof(SFMTData, initialized)");
    CHECK(k_off_parity() == offsetof(struct sfmt_mirror, parity), "offsetof(SFMTData, parity)");
    CHECK(k_N() == RN, "N == 156");
}
static void setup_arbitrary_state(void) {
    check_layout();
    k_construct(data_mem);                     /* real constructor: psfmt32/psfmt64/parity */
    for (int i = 0; i < 624; i++) { IN_U32(in_state, i); D.s[i] = in_state[i]; pre[i] = in_state[i]; }
}
/* xs[] = the SFMT sequence during one refill: words 0..N-1 = pre-state, word N+i = i-th word produced by the
 * REAL code.  Feeding the reference recursion with the real code's own earlier outputs is sound by induction on
 * i: if every produced word equals rec(...) of its four predecessors, the produced sequence is the unique
 * solution of the recurrence started from the pre-state, i.e. the reference stream x[N..]. */
static uint32_t xs[4 * (156 + 512)];
static void check_stream(const uint32_t* produced, int count) {
    for (int i = 0; i < 624; i++) xs[i] = pre[i];
    for (int i = 0; i < 4 * count; i++) xs[624 + i] = produced[i];
    for (int i = 0; i < count; i++) {
        uint32_t r[4];
        ref_rec(r, xs + 4 * i, xs + 4 * (i + RPOS1), xs + 4 * (i + RN - 2), xs + 4 * (i + RN - 1));
        for (int k = 0; k < 4; k++) CHECK(xs[4 * (RN + i) + k] == r[k], "produced word i == reference recursion of x[i], x[i+POS1], x[i+N-2], x[i+N-1]");
    }
#ifndef __CPROVER__
    /* native runs also do the direct (non-inductive) comparison with the reference stream */
    for (int i = 0; i < 624; i++) ref_x[i] = pre[i];
    ref_stream(ref_x, count);
    for (int i = 0; i < 4 * count; i++) CHECK(produced[i] == ref_x[624 + i], "produced stream == reference stream (direct)");
#endif
}

/* H1: one recursion step on arbitrary operands (incl. the aliasing r==a used by gen_rand_all) */
HARNESS(h_do_recursion) {
    uint32_t a[4], b[4], c[4], d[4], r[4], rr[4];
    for (int i = 0; i < 16; i++) IN_U32(in_w, i);
    for (int k = 0; k < 4; k++) { a[k] = in_w[k]; b[k] = in_w[4 + k]; c[k] = in_w[8 + k]; d[k] = in_w[12 + k]; }
    ref_rec(rr, a, b, c, d);
    k_do_recursion(r, a, b, c, d);
    for (int k = 0; k < 4; k++) CHECK(r[k] == rr[k], "do_recursion(r,a,b,c,d) == reference recursion");
    k_do_recursion(a, a, b, c, d);             /* in place, as gen_rand_all calls it */
    for (int k = 0; k < 4; k++) CHECK(a[k] == rr[k], "do_recursion(a,a,b,c,d) in place == reference recursion");
    for (int k = 0; k < 4; k++) OUT_U64("r", k, r[k]);
    WITNESS_POINT();
}

/* H2: gen_rand_all on an arbitrary 624-word state == reference stream x[N..2N-1] (in place) */
HARNESS(h_gen_rand_all) {
    setup_arbitrary_state();
    k_gen_rand_all(data_mem);
    check_stream(D.s, RN);
    for (int i = 0; i < 624; i += 89) OUT_U64("state", i, D.s[i]);
    WITNESS_POINT();
}

/* H3: fill_array64(buffer, 1024) -- what Random::RandomImpl::getNextRandom calls -- on an arbitrary state:
 * buffer == reference x[N..N+511], new state == last N produced words, idx stays N32 */
HARNESS(h_fill_array64) {
    setup_arbitrary_state();
    D.idx = 624; D.initialized = 1;
    k_fill_array64((uint64_t*)out_arr, 1024, data_mem);
    check_stream(out_arr, 512);
    for (int i = 0; i < 624; i++) CHECK(D.s[i] == out_arr[4 * (512 - RN) + i], "fill_array64: new state == last N produced words");
    CHECK(D.idx == 624, "fill_array64 leaves idx == N32");
    for (int i = 0; i < 2048; i += 255) OUT_U64("out", i, out_arr[i]);
    WITNESS_POINT();
}

/* H4: gen_rand64 / gen_rand32 with arbitrary state and arbitrary idx in range: value, idx update, refill.
 * The index is nondet; the harness dispatches on it with a loop over the concrete values so that each call runs
 * with a constant idx (the refill branch is then decided during symbolic execution instead of being merged). */
#ifndef LO
#define LO 0      /* -DLO=624: only the refill case (quick tier); default: every idx */
#endif
static void one_gen_rand(int c, int is64) {
    D.idx = c; D.initialized = 1;
    uint64_t v = is64 ? k_gen_rand64(data_mem) : (uint64_t)k_gen_rand32(data_mem);
    int j = c >= 624 ? 0 : c;
    if (c >= 624) check_stream(D.s, RN);
    else { uint32_t diff = 0; for (int i = 0; i < 624; i++) diff |= D.s[i] ^ pre[i]; CHECK(diff == 0, "gen_rand32/64 without refill leaves the state unchanged"); }
    if (is64) {
        CHECK(v == ((uint64_t)D.s[j] | ((uint64_t)D.s[j + 1] << 32)), "gen_rand64 returns the next two 32-bit words (little endian) of the stream");
        CHECK(D.idx == j + 2, "gen_rand64 advances idx by 2 (after wrap)");
    } else {
        CHECK(v == D.s[j], "gen_rand32 returns the next 32-bit word of the stream");
        CHECK(D.idx == j + 1, "gen_rand32 advances idx by 1 (after wrap)");
    }
    OUT_U64("v", 0, v);
}
HARNESS(h_gen_rand64) {
    setup_arbitrary_state();
    IN_U32(in_w, 0);
    int idx = (int)in_w[0];
    ASSUME(idx >= LO && idx <= 624 && idx % 2 == 0);
    for (int c = LO; c <= 624; c += 2) if (c == idx) { one_gen_rand(c, 1); break; }
    WITNESS_POINT();
}
HARNESS(h_gen_rand32) {
    setup_arbitrary_state();
    IN_U32(in_w, 0);
    int idx = (int)in_w[0];
    ASSUME(idx >= LO && idx <= 624);
    for (int c = LO; c <= 624; c++) if (c == idx) { one_gen_rand(c, 0); break; }
    WITNESS_POINT();
}

/* H5: init_gen_rand for an arbitrary seed.
 * cbmc: memory safety, loop bound, idx == N32, initialized == 1 (the 623-deep multiplier chain makes the value
 *       comparison a SAT-hard miter; the values are proved by the z3 term-level obligation "init_gen_rand state ==
 *       reference" in spec/C31.py, which executes the same IR symbolically).
 * native (translator validation / replay): all 624 words against the reference recurrence + period certification. */
HARNESS(h_init_gen_rand) {
    check_layout();
    k_construct(data_mem);
    IN_U32(in_w, 0);
    uint32_t seed = in_w[0];
    k_init_gen_rand(seed, data_mem);
#ifndef __CPROVER__
    ref_x[0] = seed;
    for (uint32_t i = 1; i < 624; i++) ref_x[i] = ref_init_step(ref_x[i - 1], i);
    ref_period_certification(ref_x);
    for (int i = 0; i < 624; i++) CHECK(D.s[i] == ref_x[i], "init_gen_rand: state == reference initialisation + period certification");
#endif
    CHECK(D.idx == 624, "init_gen_rand sets idx = N32");
    CHECK(D.initialized == 1, "init_gen_rand sets initialized");
    for (int i = 0; i < 624; i += 89) OUT_U64("state", i, D.s[i]);
    WITNESS_POINT();
}

/* H6: period_certification on an arbitrary state == reference; afterwards the parity inner product is 1 */
HARNESS(h_period_certification) {
    setup_arbitrary_state();
    for (int i = 0; i < 624; i++) ref_x[i] = pre[i];
    ref_period_certification(ref_x);
    k_period_certification(data_mem);
    for (int i = 0; i < 624; i++) CHECK(st()[i] == ref_x[i], "period_certification == reference");
    uint32_t inner = 0;
    for (int i = 0; i < 4; i++) inner ^= st()[i] & RPARITY[i];
    inner ^= inner >> 16; inner ^= inner >> 8; inner ^= inner >> 4; inner ^= inner >> 2; inner ^= inner >> 1;
    CHECK((inner & 1) == 1, "after period_certification the parity check passes");
    for (int i = 0; i < 4; i++) OUT_U64("state", i, st()[i]);
    WITNESS_POINT();
}

#ifndef __CPROVER__
#include "kreplay_main.h"
static const struct kh_entry kh_table[] = {
    { "h_do_recursion", h_do_recursion }, { "h_gen_rand_all", h_gen_rand_all }, { "h_fill_array64", h_fill_array64 },
    { "h_gen_rand64", h_gen_rand64 }, { "h_gen_rand32", h_gen_rand32 }, { "h_init_gen_rand", h_init_gen_rand }, { "h_period_certification", h_period_certification }, { 0, 0 } };
KH_MAIN(kh_table)
#endif
