// Engine K wrapper TU for C31 (ii): includes the REAL Random.cpp from $VERIF_REPO (compiled with
// -fno-access-control so the private implementation classes can be named) and exposes entry points.
// Nothing of the library's logic is re-written here: each entry point is a direct call.
#include KERNEL_RANDOM_CPP   // -DKERNEL_RANDOM_CPP="\"<repo>/SimTKcommon/Random/src/Random.cpp\""
#include <new>
using namespace SimTK;
typedef Random::Uniform::UniformImpl UImpl;
#define K extern "C" __attribute__((noinline))

K unsigned k_sizeof_uniformimpl() { return (unsigned)sizeof(UImpl); }
K void   k_uniform_ctor(void* mem, double mn, double mx) { new (mem) UImpl(mn, mx); }
K double k_uniform_getValue(void* impl) { return ((UImpl*)impl)->UImpl::getValue(); }     // non-virtual call of the real body
K double k_getNextRandom(void* impl) { return ((UImpl*)impl)->getNextRandom(); }
K void   k_uniform_setMin(void* impl, double v) { ((UImpl*)impl)->setMin(v); }
K void   k_uniform_setMax(void* impl, double v) { ((UImpl*)impl)->setMax(v); }
K void   k_setSeed(void* impl, int seed) { ((UImpl*)impl)->Random::RandomImpl::setSeed(seed); }
// public API entry points on a Random::Uniform object (virtual dispatch inside)
K int    k_api_getIntValue(Random::Uniform* u) { return u->getIntValue(); }
K double k_api_getValue(Random::Uniform* u) { return u->getValue(); }
K void   k_api_setSeed(Random::Uniform* u, int seed) { u->setSeed(seed); }
K void   k_api_setMin(Random::Uniform* u, double v) { u->setMin(v); }
K void   k_api_setMax(Random::Uniform* u, double v) { u->setMax(v); }
