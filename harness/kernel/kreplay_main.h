/* native replay / validation main: prog <harness> <vector file>; the vector file has lines "name index value";
 * inputs not mentioned in the file default to a deterministic pseudo-random value derived from (name, index, salt)
 * where salt is the optional "salt 0 <n>" line (used for translator validation on a fixed vector of inputs). */
#ifndef KREPLAY_MAIN_H
#define KREPLAY_MAIN_H
#include <stdio.h>
struct kh_entry { const char* name; void (*fn)(void); };
int kh_failures;
static struct { char name[48]; unsigned i; uint64_t v; } kh_vec[200000];
static int kh_n; static uint64_t kh_salt = 0; static int kh_have_salt;
uint64_t kh_input(const char* name, unsigned i) {
    for (int k = kh_n - 1; k >= 0; k--) if (kh_vec[k].i == i && !strcmp(kh_vec[k].name, name)) return kh_vec[k].v;
    if (!kh_have_salt) return 0;
    uint64_t h = 1469598103934665603ULL ^ kh_salt;
    for (const char* p = name; *p; p++) h = (h ^ (uint8_t)*p) * 1099511628211ULL;
    h = (h ^ i) * 1099511628211ULL; h ^= h >> 29; h *= 0xbf58476d1ce4e5b9ULL; h ^= h >> 32;
    return h;
}
#define KH_MAIN(table) \
int main(int argc, char** argv) { \
    if (argc < 3) { fprintf(stderr, "usage: %s <harness> <vector>\n", argv[0]); return 2; } \
    FILE* f = fopen(argv[2], "r"); if (!f) { perror(argv[2]); return 2; } \
    char nm[48]; unsigned i; unsigned long long v; \
    while (fscanf(f, "%47s %u %llu", nm, &i, &v) == 3) { \
        if (!strcmp(nm, "salt")) { kh_salt = v; kh_have_salt = 1; continue; } \
        strcpy(kh_vec[kh_n].name, nm); kh_vec[kh_n].i = i; kh_vec[kh_n].v = v; kh_n++; } \
    fclose(f); \
    for (const struct kh_entry* e = table; e->name; e++) if (!strcmp(e->name, argv[1])) { \
        e->fn(); printf("REPLAY-DONE %s failures=%d\n", argv[1], kh_failures); return kh_failures ? 1 : 0; } \
    fprintf(stderr, "no such harness %s\n", argv[1]); return 2; }
#endif
