// C01: mass-matrix operators. args: <treeSpec> <euler 0|1>
#include "common.h"
using namespace vh;
int main(int argc, char** argv) {
    return guarded([&] {
        Model M;
        buildTree(M, argOr(argc, argv, 1, "Pin:0,Gimbal:1"), argOr(argc, argv, 2, "0") == "1");
        State s = initState(M);
        M.system.realize(s, Stage::Velocity);
        const SimbodyMatterSubsystem& mat = M.matter;
        int nu = s.getNU();
        Matrix Mm, MInv;
        mat.calcM(s, Mm);
        mat.calcMInv(s, MInv);
        outMat("M", Mm);
        outMat("MInv", MInv);
        Vector v = inVec("v", nu, 0.75, -0.375), Mv, MinvMv, w = inVec("w", nu, -0.5, 0.625), MInvw;
        mat.multiplyByM(s, v, Mv);
        outVec("Mv", Mv);
        mat.multiplyByMInv(s, Mv, MinvMv);
        outVec("MInvMv", MinvMv);
        mat.multiplyByMInv(s, w, MInvw);
        outVec("MInvw", MInvw);
        out("KE", mat.calcKineticEnergy(s));
        Vector Mu;
        mat.multiplyByM(s, s.getU(), Mu);
        outVec("Mu", Mu);
        symfp::note("nu", std::to_string(nu));
    });
}
