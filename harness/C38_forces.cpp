// C38/C12/C13: built-in non-contact force elements on a symbolic tree.
// args: <element> <treeSpec> <euler 0|1> <attach> <mode law|update> [<piece>]
//   attach: two-body elements "ab" (body indices, 0 = Ground, may coincide); one-body elements "a";
//           mobility elements "a:c" (body a, mobilizer coordinate c)
//   mode law:    realize(Dynamics) once; outputs system force arrays F*, f*, calcForceContribution Fc*, fc*, PE, sysPE
//   mode update: element is built with *_old parameters and realized (forces and PE evaluated and cached), then every
//                state-level setter is called with the new symbolic parameters and the state re-realized -> F*, f*, PE;
//                then disable -> Fd*, fd*, PEd; enable -> Fe*, fe*, PEe; Gravity: exclude a body -> Fx*, PEx; include -> Fi*, PEi
#include "common.h"
using namespace vh;

static Vec3 dirFromAngles(Real a, Real b) {     // exactly unit for Pythagorean (sin,cos) pins
    return Vec3(std::cos(a) * std::cos(b), std::sin(a) * std::cos(b), std::sin(b));
}

struct Dump {
    Model& M; const Force& frc;
    void forces(State& s, const std::string& sfx, bool contrib) {
        M.system.realize(s, Stage::Dynamics);
        const Vector_<SpatialVec>& F = M.system.getRigidBodyForces(s, Stage::Dynamics);
        const Vector& f = M.system.getMobilityForces(s, Stage::Dynamics);
        for (int b = 0; b < F.size(); ++b) outSV(S("F" + sfx, b), F[b]);
        for (int i = 0; i < f.size(); ++i) out(S("f" + sfx + "_", i), f[i]);
        out("PE" + sfx, frc.calcPotentialEnergyContribution(s));
        out("sysPE" + sfx, M.system.calcPotentialEnergy(s));
        if (contrib) {
            Vector_<SpatialVec> Fc; Vector_<Vec3> pc; Vector fc;
            frc.calcForceContribution(s, Fc, pc, fc);
            for (int b = 0; b < Fc.size(); ++b) outSV(S("Fc" + sfx, b), Fc[b]);
            for (int i = 0; i < fc.size(); ++i) out(S("fc" + sfx + "_", i), fc[i]);
        }
    }
};

int main(int argc, char** argv) {
    return guarded([&] {
        std::string el = argOr(argc, argv, 1, "TwoPointLinearSpring");
        std::string tree = argOr(argc, argv, 2, "Pin:0,Slider:1");
        bool euler = argOr(argc, argv, 3, "0") == "1";
        std::string attach = argOr(argc, argv, 4, "12");
        bool upd = argOr(argc, argv, 5, "law") == "update";
        Model M;
        buildTree(M, tree, euler);
        const SimbodyMatterSubsystem& mat = M.matter;
        GeneralForceSubsystem& forces = M.forces;
        int nb = (int)M.bodies.size();
        int a = attach[0] - '0', b2 = attach.size() > 1 && attach[1] != ':' ? attach[1] - '0' : a;
        int coord = attach.find(':') != std::string::npos ? atoi(attach.substr(attach.find(':') + 1).c_str()) : 0;
        const MobilizedBody& A = M.bodies[a];
        const MobilizedBody& B = M.bodies[b2];
        std::string o = upd ? "_old" : "";     // construction-time parameters are the old ones in update mode
        Force frc;
        // construction ------------------------------------------------------------------------------------------
        Vec3 st1, st2;
        if (el.rfind("TwoPoint", 0) == 0 || el == "ConstantForce") {
            st1 = inV3("st1", Vec3(0.25, -0.375, 0.5));
            if (el != "ConstantForce") st2 = inV3("st2", Vec3(-0.5, 0.625, 0.125));
        }
        if (el == "TwoPointLinearSpring") frc = Force::TwoPointLinearSpring(forces, A, st1, B, st2, in("k", 2.5, "lin"), in("x0", 0.75, "lin"));
        else if (el == "TwoPointLinearDamper") frc = Force::TwoPointLinearDamper(forces, A, st1, B, st2, in("c", 1.5, "lin"));
        else if (el == "TwoPointConstantForce") frc = Force::TwoPointConstantForce(forces, A, st1, B, st2, in("fmag", 1.25, "lin"));
        else if (el == "ConstantForce") frc = Force::ConstantForce(forces, A, st1, inV3("fv", Vec3(0.5, -1.25, 0.75), "lin"));
        else if (el == "ConstantTorque") frc = Force::ConstantTorque(forces, A, inV3("tv", Vec3(-0.5, 0.25, 1.25), "lin"));
        else if (el == "GlobalDamper") frc = Force::GlobalDamper(forces, mat, in("c", 1.5, "lin"));
        else if (el == "UniformGravity") frc = Force::UniformGravity(forces, mat, inV3("gv", Vec3(0.5, -2.0, 0.25), "lin"), in("zh", 0.375, "lin"));
        else if (el == "Gravity") {
            Real ga = in("ga" + o, 0.4, "angle"), gb = in("gb" + o, -0.3, "angle");
            frc = Force::Gravity(forces, mat, UnitVec3(dirFromAngles(ga, gb), true), in("gmag" + o, 2.5, "lin"), in("zh" + o, 0.375, "lin"));
        } else if (el == "GravityVec") {      // convenience constructor: magnitude and direction extracted from a vector
            frc = Force::Gravity(forces, mat, inV3("gv" + o, Vec3(0.5, -2.0, 0.25), "param"));
        } else if (el == "MobilityLinearSpring") frc = Force::MobilityLinearSpring(forces, A, MobilizerQIndex(coord), in("k" + o, 2.5, "lin"), in("qz" + o, 0.125, "lin"));
        else if (el == "MobilityLinearDamper") frc = Force::MobilityLinearDamper(forces, A, MobilizerUIndex(coord), in("c" + o, 1.5, "lin"));
        else if (el == "MobilityConstantForce") frc = Force::MobilityConstantForce(forces, A, MobilizerUIndex(coord), in("fmag" + o, 1.25, "lin"));
        else if (el == "MobilityLinearStop")
            frc = Force::MobilityLinearStop(forces, A, MobilizerQIndex(coord), in("k" + o, 2.5, "lin"), in("d" + o, 0.5, "lin"),
                                            in("qlo" + o, -0.25, "lin"), in("qhi" + o, 0.5, "lin"));
        else if (el == "LinearBushing") {
            Transform XF = inFrame("XF" + o, 2, Vec3(0.25, -0.125, 0.375), Vec3(0.2, -0.3, 0.1));
            Transform XM = inFrame("XM" + o, 2, Vec3(-0.125, 0.25, 0.5), Vec3(-0.1, 0.2, 0.3));
            Vec6 k, c;
            for (int i = 0; i < 6; ++i) { k[i] = in(S("k" + o + "_", i), 1.0 + 0.25 * i, "lin"); c[i] = in(S("c" + o + "_", i), 0.5 + 0.125 * i, "lin"); }
            frc = Force::LinearBushing(forces, A, XF, B, XM, k, c);
        } else { fprintf(stderr, "unknown element %s\n", el.c_str()); exit(2); }

        State s = initState(M);
        M.system.realize(s, Stage::Velocity);
        int nu = s.getNU(), nq = s.getNQ();
        symfp::note("nu", std::to_string(nu)); symfp::note("nq", std::to_string(nq)); symfp::note("nb", std::to_string(nb));
        if (attach.find(':') != std::string::npos) {
            symfp::note("uix", std::to_string((int)A.getFirstUIndex(s) + coord));
            symfp::note("qix", std::to_string((int)A.getFirstQIndex(s) + coord));
        }
        outVec("qdot", s.getQDot());
        for (int b = 1; b < nb; ++b) {
            outXform(S("X_GB", b), M.bodies[b].getBodyTransform(s));
            outSV(S("V_GB", b), M.bodies[b].getBodyVelocity(s));
        }
        // potential energy asked for before any force has been computed in this state (elements with lazy caches take another route)
        if (!upd) out("PE0", frc.calcPotentialEnergyContribution(s));
        Dump D{M, frc};
        auto extras = [&]() {     // element-specific accessors, evaluated with the current parameters
            if (el == "Gravity" || el == "GravityVec") {
                const Force::Gravity& g = Force::Gravity::downcast(frc);
                const Vector_<SpatialVec>& Fg = g.getBodyForces(s);
                for (int b = 0; b < Fg.size(); ++b) outSV(S("Fg", b), Fg[b]);
                out("PEg", g.getPotentialEnergy(s));
            }
            if (el == "LinearBushing") {
                const Force::LinearBushing& lb = Force::LinearBushing::downcast(frc);
                for (int i = 0; i < 6; ++i) { out(S("bq_", i), lb.getQ(s)[i]); out(S("bqd_", i), lb.getQDot(s)[i]); out(S("bf_", i), lb.getF(s)[i]); }
                outSV("bF_GM", lb.getF_GM(s)); outSV("bF_GF", lb.getF_GF(s));
                outXform("bX_GF", lb.getX_GF(s)); outXform("bX_GM", lb.getX_GM(s)); outXform("bX_FM", lb.getX_FM(s));
                out("bPE", lb.getPotentialEnergy(s)); out("bpow", lb.getPowerDissipation(s));
            }
        };
        if (!upd) {
            D.forces(s, "", true);
            extras();
            return;
        }
        // update mode ------------------------------------------------------------------------------------------
        // 1. realize with the old parameters so that every cache that could go stale is filled
        M.system.realize(s, Stage::Dynamics);
        Real sink = frc.calcPotentialEnergyContribution(s) + M.system.calcPotentialEnergy(s);
        { Vector_<SpatialVec> Fc; Vector_<Vec3> pc; Vector fc; frc.calcForceContribution(s, Fc, pc, fc); }
        M.system.realize(s, Stage::Acceleration);
        (void)sink;
        // 2. state-level parameter changes
        if (el == "Gravity" || el == "GravityVec") {
            const Force::Gravity& g = Force::Gravity::downcast(frc);
            if (el == "Gravity") {
                Real ga = in("ga", -0.6, "angle"), gb = in("gb", 0.5, "angle");
                g.setDownDirection(s, UnitVec3(dirFromAngles(ga, gb), true));
                g.setMagnitude(s, in("gmag", 1.75, "lin"));
                g.setZeroHeight(s, in("zh", -0.25, "lin"));
            } else {
                g.setGravityVector(s, inV3("gv", Vec3(-0.75, 0.5, 1.5), "param"));
                g.setZeroHeight(s, in("zh", -0.25, "lin"));
            }
        } else if (el == "MobilityLinearSpring") {
            const Force::MobilityLinearSpring& f = Force::MobilityLinearSpring::downcast(frc);
            f.setStiffness(s, in("k", 1.75, "lin")); f.setQZero(s, in("qz", -0.375, "lin"));
        } else if (el == "MobilityLinearDamper") {
            Force::MobilityLinearDamper::downcast(frc).setDamping(s, in("c", 0.75, "lin"));
        } else if (el == "MobilityConstantForce") {
            Force::MobilityConstantForce::downcast(frc).setForce(s, in("fmag", -0.625, "lin"));
        } else if (el == "MobilityLinearStop") {
            const Force::MobilityLinearStop& f = Force::MobilityLinearStop::downcast(frc);
            Real qlo = in("qlo", -0.5, "lin"), qhi = in("qhi", 0.25, "lin");
            f.setBounds(s, qlo, qhi);
            f.setMaterialProperties(s, in("k", 1.75, "lin"), in("d", 0.25, "lin"));
        } else if (el == "LinearBushing") {
            const Force::LinearBushing& f = Force::LinearBushing::downcast(frc);
            Transform XF = inFrame("XF", 2, Vec3(-0.25, 0.375, 0.125), Vec3(-0.3, 0.1, 0.2));
            Transform XM = inFrame("XM", 2, Vec3(0.375, -0.25, -0.125), Vec3(0.2, 0.3, -0.1));
            Vec6 k, c;
            for (int i = 0; i < 6; ++i) { k[i] = in(S("k_", i), 2.0 - 0.125 * i, "lin"); c[i] = in(S("c_", i), 0.25 + 0.25 * i, "lin"); }
            f.setFrameOnBody1(s, XF); f.setFrameOnBody2(s, XM); f.setStiffness(s, k); f.setDamping(s, c);
        }
        D.forces(s, "", true);
        extras();
        // 3. disable / enable
        frc.disable(s);
        D.forces(s, "d", true);
        frc.enable(s);
        D.forces(s, "e", false);
        // 4. exclusions (Gravity only): exclude the attach body, then include it again
        if (el == "Gravity" || el == "GravityVec") {
            const Force::Gravity& g = Force::Gravity::downcast(frc);
            g.setBodyIsExcluded(s, A.getMobilizedBodyIndex(), true);
            D.forces(s, "x", false);
            const Vector_<SpatialVec>& Fg = g.getBodyForces(s);
            for (int b = 0; b < Fg.size(); ++b) outSV(S("Fgx", b), Fg[b]);
            g.setBodyIsExcluded(s, A.getMobilizedBodyIndex(), false);
            D.forces(s, "i", false);
        }
    });
}
