// C23: built-in Measures compute what their definitions say.
//   formula  real|vec3                 Constant, Time, Variable, Sinusoid, Plus, Minus, Scale (+ documented derivatives)
//   integrate real|vec3 [step <integ>]  Integrate: initial condition honoured, zdot = operand, value = z; optional one RKM step on a polynomial operand
//   diff     var|time                  Differentiate (numerical approximation) over a 4-sample sequence of symbolic times/values; analytic pass-through
//   extreme  <Minimum|Maximum|MinAbs|MaxAbs> var|time real|vec3     realize + autoUpdateDiscreteVariables over init + 3 samples
//   extremeint <op> <integ>            the same measure sampled by a real integrator (2 internal steps, operand c + k t)
//   delay    <nsteps>                  Delay of a source that is linear in time, manual stepping with symbolic times
// The measures live in the GeneralForceSubsystem of a MultibodySystem; the stepping protocol is the integrator's own:
// realize(Acceleration) -> read -> autoUpdateDiscreteVariables() -> advance time / change the operand.
#include "common.h"
#include <csetjmp>
#include <csignal>
using namespace vh;
typedef Measure_<Vec3> MeasureV;

static void initMeasures(const MultibodySystem& sys, State& s) {
    HandleEventsOptions o; HandleEventsResults r;
    sys.realize(s, Stage::Model);
    sys.handleEvents(s, Event::Cause::Initialization, Array_<EventId>(), o, r);
}
static Integrator* makeInteg(const std::string& n, const System& sys) {
    if (n == "ExplicitEuler") return new ExplicitEulerIntegrator(sys);
    if (n == "RungeKutta3") return new RungeKutta3Integrator(sys);
    if (n == "RungeKuttaMerson") return new RungeKuttaMersonIntegrator(sys);
    if (n == "Verlet") return new VerletIntegrator(sys);
    fprintf(stderr, "unknown integrator %s\n", n.c_str()); exit(2);
}

int main(int argc, char** argv) {
    return guarded([&] {
        std::string mode = argOr(argc, argv, 1, "formula"), a2 = argOr(argc, argv, 2, "real"), a3 = argOr(argc, argv, 3, ""), a4 = argOr(argc, argv, 4, "");
        MultibodySystem sys; SimbodyMatterSubsystem matter(sys); GeneralForceSubsystem forces(sys);
        Body::Rigid body(MassProperties(1.0, Vec3(0), Inertia(1)));
        MobilizedBody::Slider slider(matter.Ground(), Transform(), body, Transform());

        if (mode == "formula" && a2 == "real") {
            const Real c = in("c", 0.625, "lin"), v = in("v", -0.375, "lin"), k = in("k", 1.5, "param"), amp = in("amp", 0.75, "lin");
            const Real w = in("w", 2.0, "fixed"), ph = in("ph", 0.4, "angle"), t = in("t", 0.3, "angle");
            Measure::Constant mc(forces, c); Measure::Time mt(forces); Measure::Variable mv(forces, Stage::Position, 0.0);
            Measure::Sinusoid ms(forces, amp, w, ph);
            Measure::Plus mp(forces, mv, ms); Measure::Minus mm(forces, mv, mt); Measure::Scale msc(forces, k, mp);
            Measure::Plus in1(forces, mc, mt); Measure::Minus in2(forces, in1, mv); Measure::Scale tree(forces, k, in2);
            Measure::Zero mz(forces); Measure::One mo(forces);
            State s = sys.realizeTopology(); sys.realizeModel(s);
            s.setTime(t); mv.setValue(s, v);
            sys.realize(s, Stage::Acceleration);
            out("c", c); out("v", v); out("k", k); out("amp", amp); out("w", w); out("t", t);
            out("sin_arg", std::sin(w * t + ph)); out("cos_arg", std::cos(w * t + ph));
            out("constant", mc.getValue(s)); out("constant_d1", mc.getValue(s, 1));
            out("zero", mz.getValue(s)); out("one", mo.getValue(s));
            out("time", mt.getValue(s)); out("time_d1", mt.getValue(s, 1)); out("time_d2", mt.getValue(s, 2));
            out("variable", mv.getValue(s)); out("variable_d1", mv.getValue(s, 1));
            for (int d = 0; d <= 3; ++d) out(S("sinusoid_d", d), ms.getValue(s, d));
            out("plus", mp.getValue(s)); out("minus", mm.getValue(s)); out("scale", msc.getValue(s)); out("tree", tree.getValue(s));
            // a changed variable and a changed time are seen by dependent measures after re-realization
            const Real v2 = in("v2", 0.875, "lin"), t2 = in("t2", 0.6, "angle");
            mv.setValue(s, v2); s.setTime(t2);
            sys.realize(s, Stage::Acceleration);
            out("v2", v2); out("t2", t2); out("sin_arg2", std::sin(w * t2 + ph));
            out("plus2", mp.getValue(s)); out("minus2", mm.getValue(s)); out("scale2", msc.getValue(s)); out("tree2", tree.getValue(s));
            return;
        }
        if (mode == "formula" && a2 == "vec3") {
            const Vec3 c = inV3("c", Vec3(0.625, -0.25, 0.5), "lin"), v = inV3("v", Vec3(-0.375, 0.75, 0.125), "lin");
            const Real k = in("k", 1.5, "param");
            MeasureV::Constant mc(forces, c); MeasureV::Variable mv(forces, Stage::Position, Vec3(0));
            MeasureV::Plus mp(forces, mv, mc); MeasureV::Minus mm(forces, mv, mc); MeasureV::Scale msc(forces, k, mp);
            MeasureV::Minus in2(forces, mp, msc); MeasureV::Scale tree(forces, k, in2);
            State s = sys.realizeTopology(); sys.realizeModel(s);
            mv.setValue(s, v);
            sys.realize(s, Stage::Acceleration);
            outV3("c", c); outV3("v", v); out("k", k);
            outV3("constant", mc.getValue(s)); outV3("constant_d1", mc.getValue(s, 1)); outV3("variable", mv.getValue(s)); outV3("variable_d1", mv.getValue(s, 1));
            outV3("plus", mp.getValue(s)); outV3("minus", mm.getValue(s)); outV3("scale", msc.getValue(s)); outV3("tree", tree.getValue(s));
            return;
        }
        if (mode == "integrate") {
            const bool vec = a2 == "vec3";
            const Real k = in("k", 1.5, "param"), t0 = in("t0", 0.25, "fixed");
            Measure::Time mt(forces);
            if (!vec) {
                const Real v = in("v", -0.25, "lin"), c0 = in("ic", 0.625, "lin"), k2 = in("k2", 0.75, "param");
                Measure::Variable mv(forces, Stage::Position, 0.0); Measure::Scale kt(forces, k, mt);
                // operand  v + k t + k2 (k t)(... ) : keep it a polynomial in t of degree 1 (manual) or 2 (stepping)
                Measure::Plus lin(forces, mv, kt);
                Measure::Variable icv(forces, Stage::Position, 0.0);
                Measure::Integrate I(forces, lin, icv);
                Measure::Integrate II(forces, I, Measure::Constant(forces, k2));      // integral of the integral, constant initial condition
                State s = sys.realizeTopology(); sys.realizeModel(s);
                s.setTime(t0); mv.setValue(s, v); icv.setValue(s, c0);
                out("t0", t0); out("k", k); out("v", v); out("ic", c0); out("k2", k2);
                if (a3 == "step") {
                    Integrator* integ = makeInteg(a4, sys);
                    const Real h = in("h", 0.125, "time");
                    integ->setFixedStepSize(h); integ->setAccuracy(0.01); integ->setReturnEveryInternalStep(true);
                    integ->initialize(s);
                    const State& s0 = integ->getState();
                    out("I_init", I.getValue(s0)); out("II_init", II.getValue(s0));
                    integ->stepTo(Infinity); integ->stepTo(Infinity);
                    const State& s1 = integ->getState();
                    sys.realize(s1, Stage::Acceleration);
                    out("h", h); out("t1", s1.getTime()); out("I_1", I.getValue(s1)); out("II_1", II.getValue(s1)); out("I_1_d1", I.getValue(s1, 1));
                    symfp::note("nsteps", std::to_string(integ->getNumStepsTaken()));
                    delete integ;
                    return;
                }
                initMeasures(sys, s);
                out("z_init_0", s.getZ()[0]); out("z_init_1", s.getZ()[1]);
                sys.realize(s, Stage::Acceleration);
                out("I_init", I.getValue(s)); out("II_init", II.getValue(s));
                out("operand", lin.getValue(s)); out("zdot_0", s.getZDot()[0]); out("zdot_1", s.getZDot()[1]);
                out("I_d1", I.getValue(s, 1)); out("II_d1", II.getValue(s, 1)); out("II_d2", II.getValue(s, 2));
                const Real x = in("x", 1.125, "lin");
                I.setValue(s, x);
                sys.realize(s, Stage::Acceleration);
                out("x", x); out("I_set", I.getValue(s)); out("z_set_0", s.getZ()[0]); out("zdot_set_1", s.getZDot()[1]);
            } else {
                const Vec3 v = inV3("v", Vec3(-0.375, 0.75, 0.125), "lin"), c0 = inV3("ic", Vec3(0.625, -0.25, 0.5), "lin");
                MeasureV::Variable mv(forces, Stage::Position, Vec3(0)); MeasureV::Scale kv(forces, k, mv);
                MeasureV::Constant icc(forces, c0);
                MeasureV::Integrate I(forces, kv, icc);
                State s = sys.realizeTopology(); sys.realizeModel(s);
                s.setTime(t0); mv.setValue(s, v);
                initMeasures(sys, s);
                outV3("v", v); outV3("ic", c0); out("k", k);
                for (int i = 0; i < 3; ++i) out(S("z_init_", i), s.getZ()[i]);
                sys.realize(s, Stage::Acceleration);
                outV3("I_init", I.getValue(s)); outV3("operand", kv.getValue(s)); outV3("I_d1", I.getValue(s, 1));
                for (int i = 0; i < 3; ++i) out(S("zdot_", i), s.getZDot()[i]);
            }
            return;
        }
        if (mode == "diff") {
            // operand f = v (+ k t): no analytic derivative through Plus -> numerical approximation is used
            const bool timeDep = a2 == "time";
            const Real k = timeDep ? in("k", 1.5, "param") : Real(0);
            Measure::Time mt(forces); Measure::Variable mv(forces, Stage::Time, 0.0); Measure::Scale kt(forces, k, mt);
            Measure::Plus f(forces, mv, kt);
            Measure::Differentiate D(forces, f);
            State s = sys.realizeTopology(); sys.realizeModel(s);
            symfp::note("approx", D.isUsingApproximation() ? "1" : "0");
            const int N = 4;
            Real t = in("t0", 0.25, "fixed");
            static const Real dts[] = {0, 0.125, 0.1875, 0.0625}, vs[] = {0.5, 0.875, 0.25, 0.625};
            for (int i = 0; i < N; ++i) {
                if (i > 0) t = t + in(S("dt", i), dts[i], "time");
                const Real v = in(S("f", i), vs[i], "lin");
                s.setTime(t); mv.setValue(s, v);
                if (i == 0) initMeasures(sys, s);
                sys.realize(s, Stage::Acceleration);
                out(S("t", i), t); out(S("fval", i), f.getValue(s)); out(S("D", i), D.getValue(s));
                if (a3 == "same" && i == 2) {     // a second realization at the same time after the update: derivative is carried over
                    s.autoUpdateDiscreteVariables();
                    s.setTime(t);
                    sys.realize(s, Stage::Acceleration);
                    out("D_same", D.getValue(s));
                }
                s.autoUpdateDiscreteVariables();
            }
            return;
        }
        if (mode == "diffanalytic") {
            // operand supplies its own derivative: Differentiate = operand's derivative measure (no approximation)
            static sigjmp_buf jb;
            struct H { static void h(int) { siglongjmp(jb, 1); } };
            const Real amp = in("amp", 0.75, "lin"), w = in("w", 2.0, "fixed"), ph = in("ph", 0.4, "angle"), t = in("t", 0.3, "angle"), k = in("k", 1.5, "param"), v = in("v", -0.25, "lin");
            Measure::Time mt(forces); Measure::Variable mv(forces, Stage::Time, 0.0); Measure::Scale kt(forces, k, mt); Measure::Plus f(forces, mv, kt);
            Measure::Sinusoid ms(forces, amp, w, ph);
            Measure::Differentiate Ds(forces, ms);
            Measure::Integrate If(forces, f, Measure::Zero(forces));
            Measure::Differentiate DI(forces, If);            // d/dt of an integral = the integrand
            State s = sys.realizeTopology(); sys.realizeModel(s);
            symfp::note("approx_s", Ds.isUsingApproximation() ? "1" : "0"); symfp::note("approx_I", DI.isUsingApproximation() ? "1" : "0");
            s.setTime(t); mv.setValue(s, v);
            sys.realize(s, Stage::Velocity);
            out("amp", amp); out("w", w); out("k", k); out("v", v); out("t", t); out("cos_arg", std::cos(w * t + ph));
            out("Ds", Ds.getValue(s)); out("DI", DI.getValue(s));
            signal(SIGSEGV, H::h); signal(SIGABRT, H::h);
            if (sigsetjmp(jb, 1) == 0) {
                sys.realize(s, Stage::Acceleration);
                symfp::note("crash", "0");
                out("Ds_acc", Ds.getValue(s)); out("DI_acc", DI.getValue(s));
            } else {
                symfp::note("crash", "1");
            }
            signal(SIGSEGV, SIG_DFL); signal(SIGABRT, SIG_DFL);
            return;
        }
        if (mode == "extreme") {
            const std::string op = a2; const bool timeDep = a3 == "time", vec = a4 == "vec3";
            Measure::Extreme::Operation o = op == "Minimum" ? Measure::Extreme::Minimum : op == "Maximum" ? Measure::Extreme::Maximum
                                          : op == "MinAbs" ? Measure::Extreme::MinAbs : Measure::Extreme::MaxAbs;
            const int N = 4;   // initialization sample + 3 samples
            Real t = in("t0", 0.25, "fixed");
            static const Real dts[] = {0, 0.125, 0.1875, 0.0625};
            if (!vec) {
                const Real k = timeDep ? in("k", 1.5, "param") : Real(0);
                Measure::Time mt(forces); Measure::Variable mv(forces, Stage::Time, 0.0); Measure::Scale kt(forces, k, mt);
                Measure::Plus f(forces, mv, kt);
                Measure::Extreme E(forces, timeDep ? (const Measure&)f : (const Measure&)mv, o);
                State s = sys.realizeTopology(); sys.realizeModel(s);
                static const Real vs[] = {0.5, 0.875, -0.25, 0.625};
                for (int i = 0; i < N; ++i) {
                    if (i > 0) t = t + in(S("dt", i), dts[i], "time");
                    const Real v = (timeDep && i > 0) ? Real(0) : in(S("v", i), vs[i], "lin");
                    s.setTime(t); if (!(timeDep && i > 0)) mv.setValue(s, v);
                    if (i == 0) initMeasures(sys, s);
                    sys.realize(s, Stage::Acceleration);
                    out(S("t", i), t); out(S("x", i), timeDep ? f.getValue(s) : mv.getValue(s));
                    out(S("E", i), E.getValue(s)); out(S("tE", i), E.getTimeOfExtremeValue(s));
                    s.autoUpdateDiscreteVariables();
                }
            } else {
                MeasureV::Variable mv(forces, Stage::Time, Vec3(0));
                MeasureV::Extreme E(forces, mv, (MeasureV::Extreme::Operation)o);
                State s = sys.realizeTopology(); sys.realizeModel(s);
                static const Real vs[][3] = {{0.5, -0.25, 0.125}, {0.875, -0.5, 0.25}, {-0.25, 0.375, -0.625}, {0.625, 0.75, 0.0625}};
                for (int i = 0; i < N; ++i) {
                    if (i > 0) t = t + in(S("dt", i), dts[i], "time");
                    const Vec3 v = inV3(S("v", i), Vec3(vs[i][0], vs[i][1], vs[i][2]), "lin");
                    s.setTime(t); mv.setValue(s, v);
                    if (i == 0) initMeasures(sys, s);
                    sys.realize(s, Stage::Acceleration);
                    outV3(S("x", i), mv.getValue(s)); outV3(S("E", i), E.getValue(s));
                    s.autoUpdateDiscreteVariables();
                }
            }
            return;
        }
        if (mode == "extremeint") {
            const std::string op = a2;
            Measure::Extreme::Operation o = op == "Minimum" ? Measure::Extreme::Minimum : op == "Maximum" ? Measure::Extreme::Maximum
                                          : op == "MinAbs" ? Measure::Extreme::MinAbs : Measure::Extreme::MaxAbs;
            const Real k = in("k", 1.5, "param"), c = in("c", -0.5, "lin"), t0 = in("t0", 0.25, "fixed"), h = in("h", 0.125, "time");
            Measure::Time mt(forces); Measure::Constant mc(forces, c); Measure::Scale kt(forces, k, mt); Measure::Plus f(forces, mc, kt);
            Measure::Extreme E(forces, f, o);
            State s = sys.realizeTopology(); sys.realizeModel(s);
            s.setTime(t0);
            Integrator* integ = makeInteg(a3, sys);
            integ->setFixedStepSize(h); integ->setAccuracy(0.01); integ->setReturnEveryInternalStep(true);
            integ->initialize(s);
            out("k", k); out("c", c);
            for (int i = 0; i < 3; ++i) {
                integ->stepTo(Infinity);
                const State& si = integ->getState();
                sys.realize(si, Stage::Acceleration);
                out(S("t", i), si.getTime()); out(S("x", i), f.getValue(si)); out(S("E", i), E.getValue(si)); out(S("tE", i), E.getTimeOfExtremeValue(si));
            }
            symfp::note("nsteps", std::to_string(integ->getNumStepsTaken()));
            delete integ;
            return;
        }
        if (mode == "delay") {
            const int N = atoi(a2.c_str());
            const Real k = in("k", 1.5, "param"), c = in("c", -0.5, "lin"), d = in("delay", 0.15625, "time");
            Measure::Time mt(forces); Measure::Constant mc(forces, c); Measure::Scale kt(forces, k, mt); Measure::Plus f(forces, mc, kt);
            Measure::Delay D(forces, f, d);
            State s = sys.realizeTopology(); sys.realizeModel(s);
            Real t = in("t0", 0.25, "fixed");
            static const Real dts[] = {0, 0.125, 0.09375, 0.0625, 0.21875, 0.03125};
            out("k", k); out("c", c); out("delay", d);
            for (int i = 0; i < N; ++i) {
                if (i > 0) t = t + in(S("dt", i), dts[i], "time");
                s.setTime(t);
                if (i == 0) initMeasures(sys, s);
                sys.realize(s, Stage::Acceleration);
                out(S("t", i), t); out(S("x", i), f.getValue(s)); out(S("D", i), D.getValue(s));
                s.autoUpdateDiscreteVariables();
            }
            return;
        }
        fprintf(stderr, "unknown mode\n"); exit(2);
    });
}
