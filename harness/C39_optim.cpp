// C39: LBFGS / LBFGSB on a convex quadratic f(x) = 1/2 x^T A x - b^T x with analytic gradient.
// args: <LBFGS|LBFGSB> <n> <bounds> <opts>
//   bounds: one letter per coordinate: b both, l lower only, u upper only, n none ("-" = no limits declared at all)
//   opts: comma list: diag (A diagonal), hist1 (limited-memory history 1)
// A = J J^T + d I with symbolic J, d > 0: symmetric positive definite for every value of the inputs.
#include "common.h"
using namespace vh;

struct Eval { std::vector<Real> x; Real f; };
static std::vector<Eval> g_log;
static int g_ngrad = 0;
static const int MAXEVAL = 14;

class Quad : public OptimizerSystem {
public:
    Quad(int n, const Matrix& A, const Vector& b) : OptimizerSystem(n), A(A), b(b) {}
    Real value(const Vector& x) const {
        const int n = getNumParameters();
        Real q = 0, l = 0;
        for (int i = 0; i < n; ++i) {
            Real r = 0;
            for (int j = 0; j < n; ++j) r = r + A(i, j) * x[j];
            q = q + x[i] * r;
            l = l + b[i] * x[i];
        }
        return 0.5 * q - l;
    }
    int objectiveFunc(const Vector& x, bool new_x, Real& f) const override {
        if ((int)g_log.size() >= MAXEVAL) throw std::runtime_error("evaluation budget of the harness exhausted");
        f = value(x);
        Eval e; e.f = f;
        for (int i = 0; i < getNumParameters(); ++i) e.x.push_back(x[i]);
        g_log.push_back(e);
        return 0;
    }
    int gradientFunc(const Vector& x, bool new_x, Vector& g) const override {
        const int n = getNumParameters();
        ++g_ngrad;
        for (int i = 0; i < n; ++i) {
            Real r = 0;
            for (int j = 0; j < n; ++j) r = r + A(i, j) * x[j];
            g[i] = r - b[i];
        }
        return 0;
    }
    Matrix A; Vector b;
};

int main(int argc, char** argv) {
    return guarded([&] {
        std::string alg = argOr(argc, argv, 1, "LBFGS");
        int n = atoi(argOr(argc, argv, 2, "2").c_str());
        std::string bnd = argOr(argc, argv, 3, "-");
        std::string opts = "," + argOr(argc, argv, 4, "") + ",";
        auto has = [&](const char* o) { return opts.find(std::string(",") + o + ",") != std::string::npos; };
        std::vector<std::vector<Real>> J(n, std::vector<Real>(n));
        for (int i = 0; i < n; ++i)
            for (int j = 0; j < n; ++j) {
                int v = ((i * 3 + j * 5 + 2) % 7) - 3;
                J[i][j] = (has("diag") && i != j) ? Real(0) : in(S("J", i, j), 0.25 * (v == 0 ? 2 : v), "param");
            }
        Real d = in("d", 0.5, "pos");
        Matrix A(n, n);
        for (int i = 0; i < n; ++i)
            for (int j = 0; j < n; ++j) {
                Real s = (i == j) ? d : Real(0);
                for (int k = 0; k < n; ++k) s = s + J[i][k] * J[j][k];
                A(i, j) = s;
            }
        Vector b(n), x(n), lo(n), up(n);
        for (int i = 0; i < n; ++i) b[i] = in(S("b", i), 0.5 - 0.375 * i, "lin");
        for (int i = 0; i < n; ++i) x[i] = in(S("x0_", i), -0.75 + 0.5 * i, "start");
        Quad sys(n, A, b);
        bool limits = (bnd != "-");
        if (limits) {
            for (int i = 0; i < n; ++i) {
                char c = i < (int)bnd.size() ? bnd[i] : 'n';
                lo[i] = (c == 'b' || c == 'l') ? in(S("lo", i), -1.0 + 0.25 * i, "bound") : Real(-Infinity);
                up[i] = (c == 'b' || c == 'u') ? in(S("up", i), 0.25 + 0.25 * i, "bound") : Real(Infinity);
            }
            sys.setParameterLimits(lo, up);
        }
        outMat("A", A); outVec("b", b); outVec("x0", x);
        out("f0", sys.value(x));
        Optimizer opt(sys, alg == "LBFGSB" ? LBFGSB : LBFGS);
        Real tol = in("tol", 0.25, "tol");
        opt.setConvergenceTolerance(tol);
        out("tol", tol);
        if (has("hist1")) opt.setLimitedMemoryHistory(1);
        opt.useNumericalGradient(false);
        if (alg == "LBFGSB") opt.setAdvancedRealOption("factr", 1e13);    // stop once the relative reduction of f is below 1e13*epsmch ~ 2e-3
        symfp::note("limits", limits ? "1" : "0");
        Real fret = opt.optimize(x);
        out("fret", fret);
        outVec("xret", x);
        symfp::note("nev", std::to_string((int)g_log.size()));
        symfp::note("ngrad", std::to_string(g_ngrad));
        symfp::note("n", std::to_string(n));
        for (size_t k = 0; k < g_log.size(); ++k) {
            out(S("evf", (int)k), g_log[k].f);
            for (int i = 0; i < n; ++i) out(S("ev", (int)k, i), g_log[k].x[i]);
        }
        if (limits) for (int i = 0; i < n; ++i) { out(S("lo", i), lo[i]); out(S("up", i), up[i]); }
    });
}
