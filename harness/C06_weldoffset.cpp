// C06(d): the whole model re-attached to Ground through a Weld with a symbolic rigid offset X: Ground-frame results change only by X.
// args: <treeSpec> <euler 0|1>
// Model A: the tree on Ground. Model B: Ground -Weld(X)-> W, the same tree on W (same frames, mass properties, q, u, mobility
// forces); gravity and the applied body force of A are rotated by R_X for B.
#include "pairs.h"
using namespace vh;

struct Sys {
    MultibodySystem system; SimbodyMatterSubsystem matter; GeneralForceSubsystem forces;
    std::vector<MobilizedBody> bodies;
    Sys() : matter(system), forces(system) {}
};

int main(int argc, char** argv) {
    return guarded([&] {
        auto desc = parseTree(argOr(argc, argv, 1, "Pin:0,Gimbal:1"));
        bool euler = argOr(argc, argv, 2, "0") == "1";
        std::vector<BodyParams> P;
        for (int k = 1; k <= (int)desc.size(); ++k) P.push_back(makeParams(desc[k - 1], k));
        Transform X = inFrame("X", 2, Vec3(0.375, -0.25, 0.5), Vec3(0.5, -0.3, 0.2));
        outXform("X", X);
        Vec3 g = inV3("g", Vec3(0.5, -9.8125, 1.25), "lin");
        SpatialVec Fext = inSV("Fext", SpatialVec(Vec3(0.25, -0.5, 0.75), Vec3(-1.25, 0.5, 0.375)));
        Sys A, B;
        A.bodies.push_back(A.matter.Ground());
        B.bodies.push_back(B.matter.Ground());
        B.bodies.push_back(MobilizedBody::Weld(B.matter.Ground(), X, Body::Rigid(MassProperties(1, Vec3(0), Inertia(1))), Transform()));
        for (auto& p : P) {
            A.bodies.push_back(instantiate(A.bodies[p.d.parent], p, p.X_PF, p.X_BM, p.d.reversed));
            B.bodies.push_back(instantiate(B.bodies[p.d.parent + 1], p, p.X_PF, p.X_BM, p.d.reversed));
        }
        Force::UniformGravity(A.forces, A.matter, g);
        Force::UniformGravity(B.forces, B.matter, X.R() * g);
        Force::DiscreteForces dA(A.forces, A.matter), dB(B.forces, B.matter);
        A.system.realizeTopology(); B.system.realizeTopology();
        State sA = A.system.getDefaultState(), sB = B.system.getDefaultState();
        if (euler) { A.matter.setUseEulerAngles(sA, true); B.matter.setUseEulerAngles(sB, true); }
        A.system.realizeModel(sA); B.system.realizeModel(sB);
        int nq = sA.getNQ(), nu = sA.getNU(), nb = A.matter.getNumBodies();
        if (sB.getNQ() != nq || sB.getNU() != nu) { fprintf(stderr, "state size mismatch\n"); exit(2); }
        StateVals v = makeStateVals(desc, euler, nu);
        for (int i = 0; i < nq; ++i) if (v.kind[i] != 'x') { sA.updQ()[i] = v.q[i]; sB.updQ()[i] = v.q[i]; }
        for (int i = 0; i < nu; ++i) { sA.updU()[i] = v.u[i]; sB.updU()[i] = v.u[i]; }
        Vector f = inVec("f", nu, 0.375, -0.25);
        dA.setAllMobilityForces(sA, f); dB.setAllMobilityForces(sB, f);
        // external spatial force on the last body, at its origin, given in Ground for A; rotated with the model for B
        dA.setOneBodyForce(sA, A.bodies.back(), Fext);
        dB.setOneBodyForce(sB, B.bodies.back(), SpatialVec(X.R() * Fext[0], X.R() * Fext[1]));
        A.system.realize(sA, Stage::Acceleration); B.system.realize(sB, Stage::Acceleration);
        symfp::note("nu", std::to_string(nu)); symfp::note("nq", std::to_string(nq)); symfp::note("nb", std::to_string(nb));
        Vector_<SpatialVec> rA, rB;
        A.matter.calcMobilizerReactionForces(sA, rA); B.matter.calcMobilizerReactionForces(sB, rB);
        for (int k = 1; k < nb; ++k) {
            const MobilizedBody &a = A.bodies[k], &b = B.bodies[k + 1];
            outXform(S("A_X", k), a.getBodyTransform(sA));   outXform(S("B_X", k), b.getBodyTransform(sB));
            outSV(S("A_V", k), a.getBodyVelocity(sA));        outSV(S("B_V", k), b.getBodyVelocity(sB));
            outSV(S("A_A", k), a.getBodyAcceleration(sA));    outSV(S("B_A", k), b.getBodyAcceleration(sB));
            outSV(S("A_R", k), rA[a.getMobilizedBodyIndex()]); outSV(S("B_R", k), rB[b.getMobilizedBodyIndex()]);
        }
        outVec("A_udot", sA.getUDot()); outVec("B_udot", sB.getUDot());
        outVec("A_qdot", sA.getQDot()); outVec("B_qdot", sB.getQDot());
        out("A_KE", A.system.calcKineticEnergy(sA)); out("B_KE", B.system.calcKineticEnergy(sB));
        out("A_PE", A.system.calcPotentialEnergy(sA)); out("B_PE", B.system.calcPotentialEnergy(sB));
        // total mass and mass centre (for the potential energy offset)
        out("A_mass", A.matter.calcSystemMass(sA));
        outV3("A_com", A.matter.calcSystemMassCenterLocationInGround(sA));
    });
}
