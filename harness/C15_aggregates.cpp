// C15: system aggregates equal per-body sums. args: <treeSpec> <euler 0|1>
// Every mobilizer gets an acceleration-level Motion prescribing symbolic udot, so that the reported accelerations are
// A = J udot + JDot u for arbitrary (q, u, udot) and no hinge-matrix inverse enters.
#include "common.h"
#include "motions.h"
using namespace vh;

static void outSym33(const std::string& n, const SymMat33& m) { for (int i = 0; i < 3; ++i) for (int j = 0; j < 3; ++j) out(S(n + "_", i, j), m.elt(i, j)); }

int main(int argc, char** argv) {
    return guarded([&] {
        Model M;
        buildTree(M, argOr(argc, argv, 1, "Pin:0,Gimbal:1"), argOr(argc, argv, 2, "0") == "1");
        MotionTables tab;
        for (int k = 1; k < (int)M.bodies.size(); ++k)
            if (M.desc[k - 1].type != "Weld") addTableMotion(M, k, Motion::Acceleration, &tab);
        State s = initState(M);
        tab.A = inVec("a", s.getNU(), 0.375, -0.25);
        const SimbodyMatterSubsystem& mat = M.matter;
        const int nu = s.getNU(), nb = mat.getNumBodies();
        symfp::note("nu", std::to_string(nu)); symfp::note("nb", std::to_string(nb));
        { std::string ps; for (int b = 0; b < nb; ++b) ps += " " + std::to_string(b == 0 ? -1 : (int)mat.getMobilizedBody(MobilizedBodyIndex(b)).getParentMobilizedBody().getMobilizedBodyIndex()); symfp::note("parents", ps); }
        M.system.realize(s, Stage::Acceleration);
        outVec("udot", s.getUDot());

        // per-body reports
        for (int b = 1; b < nb; ++b) {
            const MobilizedBody& mb = mat.getMobilizedBody(MobilizedBodyIndex(b));
            outXform(S("X_GB", b), mb.getBodyTransform(s));
            outSV(S("V_GB", b), mb.getBodyVelocity(s));
            outSV(S("A_GB", b), mb.getBodyAcceleration(s));
            const MassProperties& mp = mb.getBodyMassProperties(s);
            out(S("m", b), mp.getMass());
            outV3(S("com", b), mp.getMassCenter());
            outSym33(S("I", b), mp.getInertia().asSymMat33());      // about body origin, in B
        }

        // aggregates
        out("sysMass", mat.calcSystemMass(s));
        outV3("sysCOM", mat.calcSystemMassCenterLocationInGround(s));
        outV3("sysCOMv", mat.calcSystemMassCenterVelocityInGround(s));
        outV3("sysCOMa", mat.calcSystemMassCenterAccelerationInGround(s));
        const MassProperties smp = mat.calcSystemMassPropertiesInGround(s);
        out("smpMass", smp.getMass());
        outV3("smpCOM", smp.getMassCenter());
        outSym33("smpI", smp.getInertia().asSymMat33());            // about Ground origin, in G
        outSym33("sysIc", mat.calcSystemCentralInertiaInGround(s).asSymMat33());
        outSV("momG", mat.calcSystemMomentumAboutGroundOrigin(s));
        outSV("momC", mat.calcSystemCentralMomentum(s));
        out("KE", mat.calcKineticEnergy(s));
        Array_<SpatialInertia, MobilizedBodyIndex> R;
        mat.calcCompositeBodyInertias(s, R);
        for (int b = 1; b < nb; ++b) {
            const SpatialInertia& Rb = R[MobilizedBodyIndex(b)];
            out(S("Rm", b), Rb.getMass());
            outV3(S("Rc", b), Rb.getMassCenter());                  // from body origin, in G
            outSym33(S("RG", b), Rb.getUnitInertia().asSymMat33()); // unit inertia about body origin, in G
        }
    });
}
