// C16: realization results depend only on current state values. args: <scriptSeed> <length>
// A pseudo-random history of variable changes / realizations / queries (values symbolic, kind "lin":
// always free) ends by setting every variable to its FINAL symbolic value; a fresh State receives only
// the final values. All outputs of both states are emitted (prefix h_ / f_).
#include "common.h"
using namespace vh;

struct Sys {
    MultibodySystem sys; SimbodyMatterSubsystem matter; GeneralForceSubsystem forces;
    MobilizedBody::Pin* b1; MobilizedBody::Slider* b2; MobilizedBody::Pin* b3;
    Force::Gravity* grav; Force::MobilityLinearSpring* spring; Force::MobilityLinearDamper* damper;
    Force::MobilityDiscreteForce* mdf; Force::DiscreteForces* df; Force::TwoPointLinearSpring* tps;
    Force::MobilityLinearStop* stop;
    Sys() : matter(sys), forces(sys) {
        Body::Rigid body(MassProperties(1.5, Vec3(0.125, -0.25, 0.0625), Inertia(0.75, 0.875, 1.0, 0.0625, -0.0625, 0.03125).shiftFromMassCenter(Vec3(0.125, -0.25, 0.0625), 1.5)));
        b1 = new MobilizedBody::Pin(matter.Ground(), Transform(Rotation(0.5, YAxis), Vec3(0.25, 0, 0.5)), body, Transform(Vec3(0, 0.5, 0)));
        b2 = new MobilizedBody::Slider(*b1, Transform(Rotation(-0.25, ZAxis), Vec3(0, -0.5, 0.25)), body, Transform(Vec3(0.125, 0, 0)));
        b3 = new MobilizedBody::Pin(*b1, Transform(Rotation(0.75, XAxis), Vec3(-0.25, 0.25, 0)), body, Transform(Vec3(0, 0, 0.375)));
        grav = new Force::Gravity(forces, matter, UnitVec3(0, -1, 0), 9.75, 0.5);
        spring = new Force::MobilityLinearSpring(forces, *b2, MobilizerQIndex(0), 8.0, 0.25);
        damper = new Force::MobilityLinearDamper(forces, *b3, MobilizerUIndex(0), 0.5);
        mdf = new Force::MobilityDiscreteForce(forces, *b1, MobilizerUIndex(0), 0.0);
        df = new Force::DiscreteForces(forces, matter);
        tps = new Force::TwoPointLinearSpring(forces, *b2, Vec3(0.125, 0.25, 0), *b3, Vec3(0, 0.125, -0.25), 3.0, 0.5);
        stop = new Force::MobilityLinearStop(forces, *b2, MobilizerQIndex(0), 20.0, 0.25, -2.0, 2.0);
        sys.realizeTopology();
    }
};

struct Vals {   // one complete assignment of the variables
    Real t, q[3], u[3], g, zh, k, q0, c, fmob, fb[3], lockv;
    bool springOff, damperOff, tpsOff, excl2, lock2, gravOff, downZ; Real gvec; int gvAxis;
};

static Vals symVals(const std::string& p, bool flagsFrom, unsigned flags) {
    Vals v;
    v.t = in(p + "t", 0.5, "lin");
    v.q[0] = in(p + "q0", 0.375, "angle"); v.q[1] = in(p + "q1", 0.25, "lin"); v.q[2] = in(p + "q2", -0.5, "angle");
    for (int i = 0; i < 3; ++i) v.u[i] = in(p + "u" + std::to_string(i), 0.5 - 0.375 * i, "lin");
    v.g = in(p + "g", 9.75, "lin");
    v.zh = in(p + "zh", 0.5, "lin"); v.k = in(p + "k", 8.0, "lin"); v.q0 = in(p + "q0s", 0.25, "lin"); v.c = in(p + "c", 0.5, "lin");
    v.fmob = in(p + "fmob", 1.25, "lin");
    for (int i = 0; i < 3; ++i) v.fb[i] = in(p + "fb" + std::to_string(i), 0.75 - 0.5 * i, "lin");
    v.lockv = in(p + "lockv", 0.125, "lin");
    v.springOff = flags & 1; v.damperOff = flags & 2; v.tpsOff = flags & 4; v.excl2 = flags & 8; v.lock2 = flags & 16; v.gravOff = flags & 32; v.downZ = flags & 64; v.gvAxis = (flags >> 7) & 3; v.gvec = v.g;
    return v;
}

// setters; 'which' selects one variable (history) or -1 = all (final assignment, in the given order permutation)
static void applyOne(Sys& S, State& s, const Vals& v, int which) {
    switch (which) {
    case 0: s.setTime(v.t); break;
    case 1: s.updQ()[0] = v.q[0]; break;
    case 2: s.updQ()[1] = v.q[1]; break;
    case 3: s.updQ()[2] = v.q[2]; break;
    case 4: s.updU()[0] = v.u[0]; break;
    case 5: s.updU()[1] = v.u[1]; break;
    case 6: s.updU()[2] = v.u[2]; break;
    case 7: S.grav->setMagnitude(s, v.g); break;
    case 8: S.grav->setDownDirection(s, v.downZ ? UnitVec3(0, 0, -1) : UnitVec3(0, -1, 0)); break;
    case 9: S.grav->setZeroHeight(s, v.zh); break;
    case 10: S.spring->setStiffness(s, v.k); break;
    case 11: S.spring->setQZero(s, v.q0); break;
    case 12: S.damper->setDamping(s, v.c); break;
    case 13: S.mdf->setMobilityForce(s, v.fmob); break;
    case 14: S.df->setOneBodyForce(s, *S.b3, SpatialVec(Vec3(v.fb[0], 0, v.fb[1]), Vec3(0, v.fb[2], 0))); break;
    case 15: if (v.springOff) S.spring->disable(s); else S.spring->enable(s); break;
    case 16: if (v.damperOff) S.damper->disable(s); else S.damper->enable(s); break;
    case 17: if (v.tpsOff) S.tps->disable(s); else S.tps->enable(s); break;
    case 18: S.grav->setBodyIsExcluded(s, S.b2->getMobilizedBodyIndex(), v.excl2); break;
    case 19: if (v.lock2) S.b2->lockAt(s, v.lockv, Motion::Velocity); else S.b2->unlock(s); break;
    case 20: if (v.gravOff) S.grav->disable(s); else S.grav->enable(s); break;
    case 21: { Real m = v.gvec; S.grav->setGravityVector(s, v.gvAxis == 0 ? Vec3(0, -m, 0) : v.gvAxis == 1 ? Vec3(0, 0, -m) : v.gvAxis == 2 ? Vec3(m, 0, 0) : Vec3(0, m, 0)); } break;
    }
}
static const int NVARS = 22;

static void emit(Sys& Y, State& s, const std::string& p) {
    Sys& S_ = Y;
    S_.sys.realize(s, Stage::Time);
    S_.sys.prescribeQ(s);
    S_.sys.realize(s, Stage::Position);
    S_.sys.prescribeU(s);
    S_.sys.realize(s, Stage::Acceleration);
    outVec(p + "udot", s.getUDot());
    outVec(p + "u", s.getU());
    outVec(p + "qdot", s.getQDot());
    out(p + "pe", S_.sys.calcPotentialEnergy(s));
    out(p + "ke", S_.sys.calcKineticEnergy(s));
    const Vector_<SpatialVec>& F = S_.sys.getRigidBodyForces(s, Stage::Dynamics);
    for (int b = 0; b < F.size(); ++b) outSV(vh::S(p + "F", b), F[b]);
    outVec(p + "f", S_.sys.getMobilityForces(s, Stage::Dynamics));
    for (int b = 1; b < S_.matter.getNumBodies(); ++b) {
        const MobilizedBody& mb = S_.matter.getMobilizedBody(MobilizedBodyIndex(b));
        outSV(vh::S(p + "A", b), mb.getBodyAcceleration(s));
        outV3(vh::S(p + "p", b), mb.getBodyOriginLocation(s));
    }
    Vector_<SpatialVec> reac;
    S_.matter.calcMobilizerReactionForces(s, reac);
    for (int b = 0; b < reac.size(); ++b) outSV(vh::S(p + "R", b), reac[b]);
    out(p + "gravpe", S_.grav->getPotentialEnergy(s));
    out(p + "springpe", S_.spring->calcPotentialEnergyContribution(s));
}

int main(int argc, char** argv) {
    return guarded([&] {
        unsigned seed = (unsigned)atoi(argOr(argc, argv, 1, "1").c_str());
        int len = atoi(argOr(argc, argv, 2, "8").c_str());
        auto rnd = [&]() { seed = seed * 1664525u + 1013904223u; return (seed >> 10); };
        Sys S;
        unsigned finalFlags = rnd() & 511;
        Vals fin = symVals("fin_", true, finalFlags);
        // gravity is set only through setGravityVector (case 21): cases 7/8 (magnitude / direction setters) are exercised
        // as OLD values only, the final gravity vector is fin.g along the axis fin.gvAxis
        auto isFinalVar = [](int w) { return w != 7 && w != 8; };
        auto doRealize = [&](State& st, int stg, std::string& script) {
            try {
                if (stg >= (int)Stage::Position) { S.sys.realize(st, Stage::Time); S.sys.prescribeQ(st); }
                if (stg >= (int)Stage::Velocity) { S.sys.realize(st, Stage::Position); S.sys.prescribeU(st); }
                S.sys.realize(st, Stage(stg));
            } catch (const std::exception& e) { script += " (realize threw)"; }
            script += " realize" + std::to_string(stg);
        };
        // ---- history
        State h = S.sys.getDefaultState();
        S.sys.realizeModel(h);
        std::string script;
        // 1. checkpoint: every variable gets its final value (random order), then everything is realized
        int order[NVARS];
        for (int i = 0; i < NVARS; ++i) order[i] = i;
        for (int i = NVARS - 1; i > 0; --i) { int j = rnd() % (i + 1); std::swap(order[i], order[j]); }
        for (int i = 0; i < NVARS; ++i) if (isFinalVar(order[i])) applyOne(S, h, fin, order[i]);
        doRealize(h, 4 + rnd() % 4, script);      // Position .. Acceleration
        // 2. rounds: a few variables go to OLD values (with realizations / queries in between) and come back to the final ones
        int rounds = 2 + len / 2;
        for (int r = 0; r < rounds; ++r) {
            int k = 1 + rnd() % 3;
            int sel[3];
            for (int i = 0; i < k; ++i) sel[i] = rnd() % NVARS;
            // every other round pairs a parameter with a coordinate (q writes invalidate Position-stage caches)
            if (k >= 2 && (r & 1)) sel[k - 1] = 1 + rnd() % 3;
            Vals old = symVals("old" + std::to_string(r) + "_", true, rnd() & 511);
            for (int i = 0; i < k; ++i) {
                Vals o = old;
                applyOne(S, h, o, sel[i]);
                script += " old" + std::to_string(sel[i]);
                // a gravity vector of the SAME magnitude as the final one but another direction is a legal old value too:
                // written after an unrelated one, so that setters which compare with the current value see "same magnitude"
                if (sel[i] == 21 && (rnd() & 1)) {
                    Vals o2 = o; o2.gvec = fin.g; if (o2.gvAxis == fin.gvAxis) o2.gvAxis = (o2.gvAxis + 1) & 3;
                    if (rnd() & 1) doRealize(h, 6, script);
                    applyOne(S, h, o2, 21); script += " old21'";
                    if (rnd() & 1) doRealize(h, 6 + rnd() % 2, script);
                }
                if (rnd() % 3 == 0) doRealize(h, 2 + rnd() % 6, script);
            }
            if (rnd() % 2 == 0) {
                try { S.sys.realize(h, Stage::Time); S.sys.prescribeQ(h); S.sys.realize(h, Stage::Position); S.sys.prescribeU(h);
                      S.sys.realize(h, Stage::Dynamics);
                      volatile double sink = symfp::value(S.sys.calcPotentialEnergy(h)) + symfp::value(S.sys.getMobilityForces(h, Stage::Dynamics)[0]); (void)sink;
                } catch (const std::exception& e) { script += " (query threw)"; }
                script += " query";
            }
            // back to the final values: only the touched variables are written again (7/8 touched gravity: restore through 21)
            // restore order is random, and realizations may happen between the restores (a cache filled while some variables
            // still hold old values must not survive the restore of those variables)
            for (int i = k - 1; i > 0; --i) { int j = rnd() % (i + 1); std::swap(sel[i], sel[j]); }
            for (int i = k - 1; i >= 0; --i) {
                if (i < k - 1 && (rnd() & 1)) doRealize(h, 5 + rnd() % 3, script);
                int w = sel[i];
                if (w == 7 || w == 8) w = 21;
                applyOne(S, h, fin, w);
                script += " fin" + std::to_string(w);
                // a lock prescribes (i.e. overwrites) the slider's u when the state is realized: that is a change of a state
                // VARIABLE made by the history, so the final value of that variable is written again as well
                if (w == 19) { applyOne(S, h, fin, 5); applyOne(S, h, fin, 2); script += " fin5 fin2"; }
            }
            if (rnd() % 2 == 0) doRealize(h, 2 + rnd() % 6, script);
        }
        symfp::note("script", script);
        emit(S, h, "h_");
        // ---- fresh state, canonical order, final values only
        State f = S.sys.getDefaultState();
        S.sys.realizeModel(f);
        for (int i = 0; i < NVARS; ++i) if (isFinalVar(i)) applyOne(S, f, fin, i);
        emit(S, f, "f_");
    });
}
