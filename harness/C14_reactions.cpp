// C14: mobilizer reaction forces satisfy Newton-Euler for every body.
// args: <treeSpec> <euler 0|1> <mode> <massless body index, 0 = none>
//   mode 0: free dynamics with symbolic applied mobility forces f and body forces F (Ground included)
//   mode 1: additionally every mobilizer carries an acceleration-level Motion with symbolic udot (prescribed motion)
//   mode 2: only body 1's mobilizer is prescribed, the others are free
#include "common.h"
#include "motions.h"
using namespace vh;

static void outSym33(const std::string& n, const SymMat33& m) { for (int i = 0; i < 3; ++i) for (int j = 0; j < 3; ++j) out(S(n + "_", i, j), m.elt(i, j)); }

int main(int argc, char** argv) {
    return guarded([&] {
        Model M;
        buildTree(M, argOr(argc, argv, 1, "Pin:0,Gimbal:1"), argOr(argc, argv, 2, "0") == "1");
        const int mode = atoi(argOr(argc, argv, 3, "0").c_str());
        const int massless = atoi(argOr(argc, argv, 4, "0").c_str());
        if (massless > 0) M.bodies[massless].setDefaultMassProperties(MassProperties(0, Vec3(0), Inertia(0)));
        Force::DiscreteForces df(M.forces, M.matter);
        MotionTables tab;
        for (int k = 1; k < (int)M.bodies.size(); ++k)
            if (M.desc[k - 1].type != "Weld" && (mode == 1 || (mode == 2 && k == 1))) addTableMotion(M, k, Motion::Acceleration, &tab);
        State s = initState(M);
        const SimbodyMatterSubsystem& mat = M.matter;
        const int nu = s.getNU(), nb = mat.getNumBodies();
        symfp::note("nu", std::to_string(nu)); symfp::note("nb", std::to_string(nb));
        { std::string ps; for (int b = 0; b < nb; ++b) ps += " " + std::to_string(b == 0 ? -1 : (int)mat.getMobilizedBody(MobilizedBodyIndex(b)).getParentMobilizedBody().getMobilizedBodyIndex()); symfp::note("parents", ps); }
        if (mode != 0) tab.A = inVec("a", nu, 0.375, -0.25);
        Vector f = inVec("f", nu, 0.5, -0.125);
        Vector_<SpatialVec> F(nb);
        for (int b = 0; b < nb; ++b)
            F[b] = inSV(S("F", b), SpatialVec(Vec3(0.25, -0.5, 0.375) * (1 + 0.5 * b), Vec3(-0.625, 0.125, 0.75) * (1 - 0.25 * b)));
        df.setAllMobilityForces(s, f);
        df.setAllBodyForces(s, F);
        M.system.realize(s, Stage::Acceleration);

        for (int b = 1; b < nb; ++b) {
            const MobilizedBody& mb = mat.getMobilizedBody(MobilizedBodyIndex(b));
            outXform(S("X_GB", b), mb.getBodyTransform(s));
            outSV(S("V_GB", b), mb.getBodyVelocity(s));
            outSV(S("A_GB", b), mb.getBodyAcceleration(s));
            const MassProperties& mp = mb.getBodyMassProperties(s);
            out(S("m", b), mp.getMass());
            outV3(S("com", b), mp.getMassCenter());
            outSym33(S("I", b), mp.getInertia().asSymMat33());          // about body origin, in B
            outV3(S("pBM", b), mb.getOutboardFrame(s).p());             // M origin in B
            outV3(S("pPF", b), mb.getInboardFrame(s).p());              // F origin in parent
            outSV(S("onB_M", b), mb.findMobilizerReactionOnBodyAtMInGround(s));
            outSV(S("onB_O", b), mb.findMobilizerReactionOnBodyAtOriginInGround(s));
            outSV(S("onP_F", b), mb.findMobilizerReactionOnParentAtFInGround(s));
            outSV(S("onP_O", b), mb.findMobilizerReactionOnParentAtOriginInGround(s));
        }
        Vector_<SpatialVec> reac, reacFB;
        mat.calcMobilizerReactionForces(s, reac);
        for (int b = 0; b < nb; ++b) outSV(S("reac", b), reac[b]);
        mat.calcMobilizerReactionForcesUsingFreebodyMethod(s, reacFB);
        for (int b = 0; b < nb; ++b) outSV(S("reacFB", b), reacFB[b]);
    });
}
