// C20: accuracy of the integrators (solver-decidable core).
//   order  <integ> <sys>        one accepted internal step of SYMBOLIC size h: y0, f0, y1, embedded error estimate
//   interp <integ> <sys>        one step of size h, then an interpolated report at t0 + r (0 < r < h symbolic)
//   adjust <integ> <scenario>   the real adjustStepSize() on symbolic (err, current step, accuracy, user min/max)
//   ctrl   <integ> <sys>        real stepTo with error control active; every adjustStepSize call is recorded
// systems (ODE right-hand sides are polynomials in (t, y) so that one explicit step is a polynomial in h):
//   lin   z' = lam z                     quadK  z' = sum_{k<K} a_k t^k  (K = 1..6)
//   nl    z0' = a z0 z1 + b t, z1' = c z0^2 + d t z1 + e
//   mbs   Slider with MobilityLinearSpring + MobilityLinearDamper + MobilityConstantForce (Simbody's own q,u dynamics)
//   mbsF  Slider with MobilityConstantForce only (exact solution quadratic in t)
// The integrator objects are the library's own *IntegratorRep classes; the probe subclass only RECORDS the arguments/results of
// the virtual attemptDAEStep() and adjustStepSize() and forwards to the real implementation.
#include "common.h"
#include "AbstractIntegratorRep.h"
#include "ExplicitEulerIntegratorRep.h"
#include "RungeKutta2IntegratorRep.h"
#include "RungeKutta3IntegratorRep.h"
#include "RungeKuttaFeldbergIntegratorRep.h"
#include "RungeKuttaMersonIntegratorRep.h"
#include "SemiExplicitEuler2IntegratorRep.h"
#include "SemiExplicitEulerIntegratorRep.h"
#include "VerletIntegratorRep.h"
using namespace vh;

struct Attempt { Real t1; std::vector<Real> err; int errOrder; bool conv; };
struct Adjust { Real err, hBefore, hAfter; int order; bool limited, success; };
static std::vector<Attempt> g_att;
static std::vector<Adjust> g_adj;

template <class REP> struct Probe : REP {
    Probe(Integrator* h, const System& s) : REP(h, s) {}
    bool attemptDAEStep(Real t1, Vector& e, int& o, int& n) override {
        bool ok = REP::attemptDAEStep(t1, e, o, n);
        Attempt a; a.t1 = t1; a.errOrder = o; a.conv = ok;
        for (int i = 0; i < e.size(); ++i) a.err.push_back(e[i]);
        g_att.push_back(a);
        return ok;
    }
    bool adjustStepSize(Real err, int o, bool lim) override {
        Adjust a; a.err = err; a.order = o; a.limited = lim; a.hBefore = this->getPredictedNextStepSize();
        a.success = REP::adjustStepSize(err, o, lim);
        a.hAfter = this->getPredictedNextStepSize();
        g_adj.push_back(a);
        return a.success;
    }
    bool callAdjust(Real err, int o, bool lim) { return adjustStepSize(err, o, lim); }
};
struct ProbeBase : Integrator { virtual bool callAdjust(Real err, int o, bool lim) = 0; };
template <class REP> struct ProbeInteg : ProbeBase {
    ProbeInteg(const System& s) { rep = new Probe<REP>(this, s); }
    bool callAdjust(Real err, int o, bool lim) override { return static_cast<Probe<REP>*>(rep)->callAdjust(err, o, lim); }
};
static ProbeBase* makeProbe(const std::string& n, const System& sys) {
    if (n == "ExplicitEuler") return new ProbeInteg<ExplicitEulerIntegratorRep>(sys);
    if (n == "RungeKutta2") return new ProbeInteg<RungeKutta2IntegratorRep>(sys);
    if (n == "RungeKutta3") return new ProbeInteg<RungeKutta3IntegratorRep>(sys);
    if (n == "RungeKuttaFeldberg") return new ProbeInteg<RungeKuttaFeldbergIntegratorRep>(sys);
    if (n == "RungeKuttaMerson") return new ProbeInteg<RungeKuttaMersonIntegratorRep>(sys);
    if (n == "Verlet") return new ProbeInteg<VerletIntegratorRep>(sys);
    if (n == "SemiExplicitEuler") return new ProbeInteg<SemiExplicitEulerIntegratorRep>(sys);
    if (n == "SemiExplicitEuler2") return new ProbeInteg<SemiExplicitEuler2IntegratorRep>(sys);
    fprintf(stderr, "unknown integrator %s\n", n.c_str()); exit(2);
}

// z' = f(t, z), defined through a custom force element that owns the z variables
class PolyODE : public Force::Custom::Implementation {
public:
    PolyODE(const GeneralForceSubsystem& f, const std::string& kind, const std::vector<Real>& p) : forces(f), kind(kind), p(p) {}
    int nz() const { return kind == "nl" ? 2 : 1; }
    void calcForce(const State&, Vector_<SpatialVec>&, Vector_<Vec3>&, Vector&) const override {}
    Real calcPotentialEnergy(const State&) const override { return 0; }
    bool dependsOnlyOnPositions() const override { return false; }
    void realizeTopology(State& s) const override { zix = forces.allocateZ(s, Vector(nz(), Real(0))); }
    void realizeAcceleration(const State& s) const override {
        const Vector& z = forces.getZ(s);
        Vector& zd = forces.updZDot(s);
        const Real t = s.getTime();
        if (kind == "lin") zd[zix] = p[0] * z[zix];
        else if (kind == "nl") {
            zd[zix] = p[0] * z[zix] * z[zix + 1] + p[1] * t;
            zd[zix + 1] = p[2] * z[zix] * z[zix] + p[3] * t * z[zix + 1] + p[4];
        } else {   // quadK
            Real acc = 0, tk = 1;
            for (size_t k = 0; k < p.size(); ++k) { acc = acc + p[k] * tk; tk = tk * t; }
            zd[zix] = acc;
        }
    }
    const GeneralForceSubsystem& forces; std::string kind; std::vector<Real> p; mutable ZIndex zix;
};

int main(int argc, char** argv) {
    return guarded([&] {
        std::string mode = argOr(argc, argv, 1, "order"), iname = argOr(argc, argv, 2, "RungeKuttaMerson"), sysk = argOr(argc, argv, 3, "lin");
        MultibodySystem sys; SimbodyMatterSubsystem matter(sys); GeneralForceSubsystem forces(sys);
        const bool mbs = sysk.substr(0, 3) == "mbs";
        const Real mass = mbs ? in("m", 1.0, "fixed") : Real(1);
        Body::Rigid body(MassProperties(mass, Vec3(0), Inertia(1)));
        MobilizedBody::Slider slider(matter.Ground(), Transform(), body, Transform());
        std::vector<Real> p;
        if (mode == "adjust") sysk = "free";
        if (sysk == "lin") p.push_back(in("lam", -0.75, "param"));
        else if (sysk == "nl") { static const Real sd[] = {0.5, -0.75, -0.25, 0.375, 0.625}; for (int i = 0; i < 5; ++i) p.push_back(in(S("c", i), sd[i], "param")); }
        else if (sysk.substr(0, 4) == "quad") { int K = atoi(sysk.c_str() + 4); static const Real sd[] = {0.5, -0.75, 1.25, 0.375, -0.625, 0.875}; for (int i = 0; i < K; ++i) p.push_back(in(S("a", i), sd[i], "lin")); }
        else if (sysk == "mbs") {
            Force::MobilityLinearSpring(forces, slider, MobilizerUIndex(0), in("k", 2.5, "param"), in("qz", 0.125, "param"));
            Force::MobilityLinearDamper(forces, slider, MobilizerUIndex(0), in("cd", 0.75, "param"));
            Force::MobilityConstantForce(forces, slider, MobilizerUIndex(0), in("F", 0.625, "lin"));
        } else if (sysk == "mbsF") Force::MobilityConstantForce(forces, slider, MobilizerUIndex(0), in("F", 0.625, "lin"));
        PolyODE* ode = 0;
        if (!mbs && sysk != "free") { ode = new PolyODE(forces, sysk.substr(0, 4) == "quad" ? "quad" : sysk, p); Force::Custom(forces, ode); }
        State s = sys.realizeTopology();
        sys.realizeModel(s);
        const Real t0 = in("t0", 0.25, "fixed");
        s.setTime(t0);
        if (mbs) { s.updQ()[0] = in("q0", 0.375, "coord"); s.updU()[0] = in("u0", -0.5, "lin"); }
        else { s.updQ()[0] = 0; s.updU()[0] = 0; }
        if (ode) { static const Real zs[] = {0.75, -0.5}; for (int i = 0; i < ode->nz(); ++i) s.updZ()[i] = in(S("z0_", i), zs[i], "lin"); }
        const int nq = s.getNQ(), nu = s.getNU(), nz = s.getNZ(), ny = nq + nu + nz;
        symfp::note("nq", std::to_string(nq)); symfp::note("nu", std::to_string(nu)); symfp::note("nz", std::to_string(nz));
        ProbeBase* integ = makeProbe(iname, sys);
        out("t0", t0);

        if (mode == "adjust") {
            // sysk (argv[3]) is the scenario: flags separated by '+': min, max, lim, o2/o3/o4 ; seeds chosen by the spec through the input seeds
            std::string sc = "+" + argOr(argc, argv, 3, "") + "+";
            auto has = [&](const char* o) { return sc.find(std::string("+") + o + "+") != std::string::npos; };
            const Real hcur = in("hcur", 0.125, "pos"), acc = in("acc", 0.0625, "pos");
            Real err = has("inf") ? Real(Infinity) : has("nan") ? Real(NaN) : in("err", 0.03125, "pos");
            Real hmin = -1, hmax = -1;
            if (has("min")) { hmin = in("hmin", 0.0625, "pos"); integ->setMinimumStepSize(hmin); }
            if (has("max")) { hmax = in("hmax", 0.25, "pos"); integ->setMaximumStepSize(hmax); }
            integ->setInitialStepSize(hcur);
            integ->setAccuracy(acc);
            integ->initialize(s);
            const int order = has("o2") ? 2 : has("o3") ? 3 : 4;
            out("h_init", integ->getPredictedNextStepSize());
            out("acc", integ->getAccuracyInUse());
            bool ok = integ->callAdjust(err, order, has("lim"));
            out("err", err); out("hcur", hcur);
            if (has("min")) out("hmin", hmin);
            if (has("max")) out("hmax", hmax);
            out("h_before", g_adj[0].hBefore); out("h_after", g_adj[0].hAfter);
            symfp::note("success", ok ? "1" : "0"); symfp::note("limited", has("lim") ? "1" : "0"); symfp::note("order", std::to_string(order));
            delete integ;
            return;
        }

        const Real h = in("h", 0.125, "time");
        out("h", h);
        if (mode == "ctrl") {
            const Real acc = in("acc", 0.015625, "pos");
            integ->setInitialStepSize(h);
            integ->setAccuracy(acc);
            if (sysk == "lin") integ->setUseInfinityNorm(true);
            integ->setReturnEveryInternalStep(true);
            integ->initialize(s);
            out("acc", integ->getAccuracyInUse());
            integ->stepTo(Infinity);                              // StartOfContinuousInterval
            int nsteps = 2;
            for (int c = 0; c < nsteps; ++c) { integ->stepTo(Infinity); out(S("t_step", c), integ->getTime()); }
            symfp::note("nadj", std::to_string(g_adj.size()));
            for (size_t i = 0; i < g_adj.size(); ++i) {
                out(S("adj_err", i), g_adj[i].err); out(S("adj_hb", i), g_adj[i].hBefore); out(S("adj_ha", i), g_adj[i].hAfter);
                symfp::note(S("adj_ok", i).c_str(), g_adj[i].success ? "1" : "0"); symfp::note(S("adj_lim", i).c_str(), g_adj[i].limited ? "1" : "0");
                symfp::note(S("adj_order", i).c_str(), std::to_string(g_adj[i].order));
            }
            symfp::note("nsteps_taken", std::to_string(integ->getNumStepsTaken()));
            delete integ;
            return;
        }

        integ->setFixedStepSize(h);
        integ->setAccuracy(0.01);
        integ->setReturnEveryInternalStep(mode == "order");
        integ->initialize(s);
        {   // the system's own derivative at the initial state
            const State& s0 = integ->getState();
            sys.realize(s0, Stage::Acceleration);
            for (int i = 0; i < ny; ++i) { out(S("y0_", i), s0.getY()[i]); out(S("f0_", i), s0.getYDot()[i]); }
        }
        integ->stepTo(Infinity);                                  // StartOfContinuousInterval
        if (mode == "order") {
            Integrator::SuccessfulStepStatus st = integ->stepTo(Infinity);
            symfp::note("status", std::to_string((int)st));
            out("t1", integ->getTime());
            const State& s1 = integ->getState();
            for (int i = 0; i < ny; ++i) out(S("y1_", i), s1.getY()[i]);
            symfp::note("nattempts", std::to_string(g_att.size()));
            symfp::note("nsteps_taken", std::to_string(integ->getNumStepsTaken()));
            if (!g_att.empty()) {
                const Attempt& a = g_att.back();
                symfp::note("errOrder", std::to_string(a.errOrder)); symfp::note("converged", a.conv ? "1" : "0");
                symfp::note("hasErrorControl", integ->methodHasErrorControl() ? "1" : "0");
                for (size_t i = 0; i < a.err.size(); ++i) out(S("e_", i), a.err[i]);
            }
        } else {   // interp
            const Real r = in("r", 0.046875, "time");
            Integrator::SuccessfulStepStatus st = integ->stepTo(t0 + r);
            symfp::note("status", std::to_string((int)st));
            symfp::note("interpolated", integ->isStateInterpolated() ? "1" : "0");
            out("r", r);
            out("t_rep", integ->getTime());
            out("t_adv", integ->getAdvancedTime());
            const State& sr = integ->getState();
            for (int i = 0; i < ny; ++i) out(S("yr_", i), sr.getY()[i]);
            const State& s1 = integ->getAdvancedState();
            for (int i = 0; i < ny; ++i) out(S("y1_", i), s1.getY()[i]);
            symfp::note("nsteps_taken", std::to_string(integ->getNumStepsTaken()));
        }
        delete integ;
    });
}
