// C34: contact surface queries on the analytic shapes. args: <shape> <query>
//   shape: halfspace sphere cylinder ellipsoid torus brick
//   query: nearest | grad | support | bsphere | ray
#include "common.h"
using namespace vh;

static ContactGeometry makeShape(const std::string& s) {
    if (s == "halfspace") return ContactGeometry::HalfSpace();
    if (s == "sphere")    return ContactGeometry::Sphere(in("r", 1.25, "pos"));
    if (s == "cylinder")  return ContactGeometry::Cylinder(in("r", 0.75, "pos"));
    if (s == "ellipsoid") return ContactGeometry::Ellipsoid(Vec3(in("ra", 0.75, "pos"), in("rb", 1.25, "pos"), in("rc", 1.0, "pos")));
    if (s == "torus")     return ContactGeometry::Torus(in("R", 1.5, "pos"), in("r", 0.5, "pos"));
    if (s == "brick")     return ContactGeometry::Brick(Vec3(in("ha", 0.75, "pos"), in("hb", 1.25, "pos"), in("hc", 0.5, "pos")));
    fprintf(stderr, "unknown shape %s\n", s.c_str()); exit(2);
}

int main(int argc, char** argv) {
    return guarded([&] {
        std::string shape = argOr(argc, argv, 1, "sphere"), query = argOr(argc, argv, 2, "nearest");
        ContactGeometry g = makeShape(shape);
        bool implicit = shape != "brick";
        if (query == "nearest") {
            Vec3 p = inV3("p", Vec3(0.5, -0.875, 1.25), "coord");
            // the query is run twice with different values of the out-parameters on entry: a query that
            // does not assign them is seen as a difference between the two runs
            bool insA = false, insB = true;
            UnitVec3 nA(XAxis), nB(YAxis);
            Vec3 np = g.findNearestPoint(p, insA, nA);
            Vec3 npB = g.findNearestPoint(p, insB, nB);
            outV3("np", np); outV3("n", nA);
            out("inside", insA ? 1 : 0); out("insideB", insB ? 1 : 0);
            outV3("nB", nB);
            out("f_np", g.calcSurfaceValue(np));
            out("f_p", g.calcSurfaceValue(p));
            outV3("g_np", g.calcSurfaceGradient(np));
            // a competitor point x (hypothesis of the spec: it lies on the surface, f_x = 0)
            Vec3 x = inV3("x", Vec3(-0.25, 0.625, 0.375), "coord");
            out("f_x", g.calcSurfaceValue(x));
        } else if (query == "nearest0") {
            // degenerate query points: exactly on the cylinder axis / at the sphere centre (the gradient of the implicit
            // function vanishes there). Any surface point at distance r is a correct answer; it must still be ON the
            // surface, with a unit normal that is the surface normal there.
            Real z = in("pz", 0.625, "coord");
            Vec3 p = shape == "cylinder" ? Vec3(0, 0, z) : Vec3(0, 0, 0);
            bool ins = false; UnitVec3 n(XAxis);
            Vec3 np = g.findNearestPoint(p, ins, n);
            bool fin = true;
            for (int i = 0; i < 3; ++i) if (!symfp::is_symbolic(np[i]) && !isFinite(np[i])) fin = false;
            symfp::note("finite", fin ? "1" : "0");
            if (fin) {
                outV3("np", np); outV3("n", n); out("inside", ins ? 1 : 0);
                out("f_np", g.calcSurfaceValue(np));
                outV3("g_np", g.calcSurfaceGradient(np));
                out("pz_out", z);
            }
        } else if (query == "grad") {
            Vec3 p = inV3("p", Vec3(0.5, -0.875, 1.25), "coord");
            out("f", g.calcSurfaceValue(p));
            outV3("g", g.calcSurfaceGradient(p));
            outM33("H", g.calcSurfaceHessian(p));
            // the Function object returned by getImplicitFunction(): value, first and second partials
            const Function& F = g.getImplicitFunction();
            Vector pv(3); for (int i = 0; i < 3; ++i) pv[i] = p[i];
            out("F", F.calcValue(pv));
            for (int i = 0; i < 3; ++i) { Array_<int> c(1, i); out(S("F_", i), F.calcDerivative(c, pv)); }
            for (int i = 0; i < 3; ++i) for (int j = 0; j < 3; ++j) {
                Array_<int> c(2); c[0] = i; c[1] = j; out(S("F_", i, j), F.calcDerivative(c, pv)); }
            outV3("un", g.calcSurfaceUnitNormal(p));
        } else if (query == "support") {
            // direction given as an (assumed) unit vector: the spec adds the hypothesis d.d = 1
            Vec3 dv = inV3("d", Vec3(0.375, -0.5, 0.75), "coord");
            UnitVec3 d(dv, true);
            Vec3 s = g.calcSupportPoint(d);
            outV3("s", s);
            if (implicit) { out("f_s", g.calcSurfaceValue(s)); outV3("g_s", g.calcSurfaceGradient(s)); }
            Vec3 c; Real rad; g.getBoundingSphere(c, rad);
            outV3("bc", c); out("brad", rad);
            // competitor point x inside or on the shape
            Vec3 x = inV3("x", Vec3(-0.25, 0.375, 0.25), "coord");
            if (implicit) out("f_x", g.calcSurfaceValue(x));
            else { const Vec3& h = ContactGeometry::Brick::getAs(g).getHalfLengths(); outV3("h", h); }
        } else if (query == "bsphere") {
            Vec3 c; Real rad; g.getBoundingSphere(c, rad);
            outV3("bc", c); out("brad", rad);
            Vec3 x = inV3("x", Vec3(-0.25, 0.375, 0.25), "coord");
            out("f_x", g.calcSurfaceValue(x));
        } else if (query == "ray") {
            Vec3 o = inV3("o", Vec3(2.5, -0.25, 0.375), "coord");
            Vec3 dv = inV3("d", Vec3(-0.75, 0.25, -0.125), "coord");
            UnitVec3 d(dv, true);   // spec hypothesis: d.d = 1
            Real dist = -1; UnitVec3 n(ZAxis);
            bool hit = g.intersectsRay(o, d, dist, n);
            symfp::note("hit", hit ? "1" : "0");
            out("hit", hit ? 1 : 0);
            if (hit) {
                out("dist", dist); outV3("n", n);
                Vec3 h = o + dist * d;
                out("f_h", g.calcSurfaceValue(h));
                outV3("g_h", g.calcSurfaceGradient(h));
            }
            out("f_o", g.calcSurfaceValue(o));
            // an arbitrary other ray parameter s (spec: 0 <= s, and s < dist when there is a hit)
            Real s = in("s", 0.5, "coord");
            out("f_s", g.calcSurfaceValue(o + s * d));
        } else { fprintf(stderr, "unknown query\n"); exit(2); }
    });
}
