// C27: Rotation_/InverseRotation_/Transform_/UnitVec/Quaternion_ constructors, conversions and algebra.
// args: <mode> [params]
//   one <axis> | two <B|S> <i> <j> | three <B|S> <i> <j> <k> | angleaxis | quat | oneaxis <axis> | twoaxes <i> <j>
//   | algebra | unitvec | lock <B|S> <i> <j> <k>
#include "common.h"
using namespace vh;

static CoordinateAxis ax(const std::string& s) { return CoordinateAxis(s == "X" ? 0 : s == "Y" ? 1 : 2); }
static BodyOrSpaceType bs(const std::string& s) { return s == "B" ? BodyRotationSequence : SpaceRotationSequence; }
static Real ang(const std::string& n, Real seed) { Real a = in(n, seed, "angle"); out("sin_" + n, sin(a)); out("cos_" + n, cos(a)); return a; }
static void outV4(const std::string& n, const Vec4& v) { for (int i = 0; i < 4; ++i) out(S(n + "_", i), v[i]); }
static void outM44(const std::string& n, const Mat44& m) { for (int i = 0; i < 4; ++i) for (int j = 0; j < 4; ++j) out(S(n + "_", i, j), m(i, j)); }

// quaternion and angle-axis round trips of a rotation
static void roundTrips(const Rotation& R) {
    Quaternion q = R.convertRotationToQuaternion();
    outV4("cq", q.asVec4());
    Rotation Rq(q);                                         outRot("Rq", Rq);
    Quaternion q2(R);                                       outV4("cq2", q2.asVec4());
    Vec4 aa = R.convertRotationToAngleAxis();               outV4("aa", aa);
    Rotation Raa(aa[0], UnitVec3(Vec3(aa[1], aa[2], aa[3]), true));    outRot("Raa", Raa);
    Rotation Rap(R.asMat33());                              outRot("Rap", Rap);   // setRotationFromApproximateMat33 on an exact rotation
}

int main(int argc, char** argv) {
    return guarded([&] {
        std::string mode = argOr(argc, argv, 1, "one");
        symfp::note("mode", mode);
        if (mode == "one") {
            std::string a1 = argOr(argc, argv, 2, "X");
            Real a = ang("a0", 0.4);
            Rotation R(a, ax(a1));                          outRot("R", R);
            Rotation Rt = a1 == "X" ? Rotation(a, XAxis) : a1 == "Y" ? Rotation(a, YAxis) : Rotation(a, ZAxis);   outRot("Rt", Rt);
            Rotation Rs; Real c = cos(a), s = sin(a);
            if (a1 == "X") Rs.setRotationFromAngleAboutX(c, s); else if (a1 == "Y") Rs.setRotationFromAngleAboutY(c, s); else Rs.setRotationFromAngleAboutZ(c, s);
            outRot("Rs", Rs);
            Rotation Rm; if (a1 == "X") Rm.setRotationFromAngleAboutX(a); else if (a1 == "Y") Rm.setRotationFromAngleAboutY(a); else Rm.setRotationFromAngleAboutZ(a);
            outRot("Rm", Rm);
            Real th = R.convertOneAxisRotationToOneAngle(ax(a1));     out("th", th);
            Rotation Rrt(th, ax(a1));                       outRot("Rrt", Rrt);
            roundTrips(R);
        } else if (mode == "two") {
            BodyOrSpaceType t = bs(argOr(argc, argv, 2, "B"));
            CoordinateAxis i = ax(argOr(argc, argv, 3, "X")), j = ax(argOr(argc, argv, 4, "Y"));
            Real a0 = ang("a0", 0.4), a1 = ang("a1", -0.6);
            Rotation R(t, a0, i, a1, j);                    outRot("R", R);
            Vec2 th = R.convertTwoAxesRotationToTwoAngles(t, i, j);   out("th_0", th[0]); out("th_1", th[1]);
            Rotation Rrt(t, th[0], i, th[1], j);            outRot("Rrt", Rrt);
        } else if (mode == "three" || mode == "lock") {
            BodyOrSpaceType t = bs(argOr(argc, argv, 2, "B"));
            CoordinateAxis i = ax(argOr(argc, argv, 3, "X")), j = ax(argOr(argc, argv, 4, "Y")), k = ax(argOr(argc, argv, 5, "Z"));
            Real a0 = ang("a0", 0.4), a2 = ang("a2", 0.9);
            // lock: middle angle fixed at the singular value of the sequence (pi/2 for three distinct axes, 0 for iji)
            Real a1 = mode == "lock" ? in("a1", i.isSameAxis(k) ? 0.0 : (argOr(argc, argv, 6, "+") == "+" ? 1 : -1) * (Pi / 2), "fixed") : ang("a1", -0.6);
            if (mode == "lock") { out("sin_a1", sin(a1)); out("cos_a1", cos(a1)); }
            Rotation R(t, a0, i, a1, j, a2, k);             outRot("R", R);
            Vec3 th = R.convertThreeAxesRotationToThreeAngles(t, i, j, k);   outV3("th", th);
            Rotation Rrt(t, th[0], i, th[1], j, th[2], k);  outRot("Rrt", Rrt);
            if (mode == "three" && argOr(argc, argv, 6, "") == "rt") roundTrips(R);
        } else if (mode == "angleaxis") {
            Real a = ang("a0", 0.8);
            Vec3 v = inV3("v", Vec3(0.5, -0.25, 0.75), "param");
            UnitVec3 u(v);                                  outV3("u", u.asVec3());
            UnitVec3 u3(v[0], v[1], v[2]);                  outV3("u3", u3.asVec3());
            Rotation R(a, u);                               outRot("R", R);
            Rotation Rn(a, v);                              outRot("Rn", Rn);
            Quaternion qa; qa.setQuaternionFromAngleAxis(Vec4(a, v[0], v[1], v[2]));   outV4("qa", qa.asVec4());
            Rotation Rqa(qa);                               outRot("Rqa", Rqa);
            roundTrips(R);
        } else if (mode == "quat") {
            // default seeds have rational norm (1): when one quaternion is pinned its normalisation is exact
            Vec4 e(in("e0", 0.2, "param"), in("e1", 0.4, "param"), in("e2", -0.4, "param"), in("e3", 0.8, "param"));
            Vec4 f(in("f0", 0.5, "param"), in("f1", -0.5, "param"), in("f2", 0.5, "param"), in("f3", 0.5, "param"));
            Quaternion q(e), p(f[0], f[1], f[2], f[3]);     outV4("q", q.asVec4()); outV4("p", p.asVec4());
            Rotation R(q), Rp(p);                           outRot("R", R); outRot("Rp", Rp);
            Quaternion qp = q * p;                          outV4("qp", qp.asVec4());
            Rotation Rqp; Rqp.setRotationFromQuaternion(qp);   outRot("Rqp", Rqp);
            outV4("qn", Quaternion(e, true).normalize().asVec4());
            // non-canonical quaternion (q0 may be negative) straight to angle-axis: reaches the angle > pi wrap-around
            Vec4 aq = q.convertQuaternionToAngleAxis();         outV4("aq", aq);
            Rotation Raq(aq[0], UnitVec3(Vec3(aq[1], aq[2], aq[3]), true));    outRot("Raq", Raq);
            roundTrips(R);
        } else if (mode == "oneaxis") {
            CoordinateAxis i = ax(argOr(argc, argv, 2, "X"));
            Vec3 v = inV3("v", Vec3(0.5, -0.25, 0.75), "param");
            UnitVec3 u(v);                                  outV3("u", u.asVec3());
            Rotation R(u, i);                               outRot("R", R);
            outV3("perp", u.perp().asVec3());
        } else if (mode == "twoaxes") {
            CoordinateAxis i = ax(argOr(argc, argv, 2, "X")), j = ax(argOr(argc, argv, 3, "Y"));
            Vec3 v = inV3("v", Vec3(0.5, -0.25, 0.75), "param"), w = inV3("w", Vec3(-0.375, 0.625, 0.25), "param");
            UnitVec3 u(v);                                  outV3("u", u.asVec3());
            Rotation R(u, i, w, j);                         outRot("R", R);
        } else if (mode == "algebra") {
            Rotation R1 = inRot("r1", Vec3(0.3, -0.2, 0.5)), R2 = inRot("r2", Vec3(-0.4, 0.1, 0.2));
            Vec3 p1 = inV3("p1", Vec3(0.25, -0.5, 0.375), "lin"), p2 = inV3("p2", Vec3(-0.125, 0.25, 0.5), "lin"), v = inV3("v", Vec3(0.5, 0.75, -0.25), "lin");
            outRot("R1", R1); outRot("R2", R2);
            outRot("R1R2", R1 * R2);
            outRot("R1iR2", ~R1 * R2);
            outRot("R1R2i", R1 * ~R2);
            outRot("R1iR2i", Rotation(~R1 * ~R2));
            outRot("R1inv", Rotation(~R1));
            outRot("R1invert", Rotation(R1.invert()));
            { Rotation T = R1; T *= R2; outRot("R1mulEqR2", T); }
            { Rotation T = R1; T /= R2; outRot("R1divEqR2", T); }
            { Rotation T = R1; T *= ~R2; outRot("R1mulEqR2i", T); }
            { Rotation T = R1; T /= ~R2; outRot("R1divEqR2i", T); }
            outRot("R1divR2", R1 / R2);
            outV3("R1v", R1 * v); outV3("R1iv", ~R1 * v);
            { Row3 r = ~v * R1; outV3("vTR1", Vec3(r[0], r[1], r[2])); }
            outV3("R1x", R1.x().asVec3()); outV3("R1y", R1.y().asVec3()); outV3("R1z", R1.z().asVec3());
            outV3("R1row1", Vec3(R1.row(1)[0], R1.row(1)[1], R1.row(1)[2]));
            SymMat33 Sm(in("s00", 0.5, "lin"), in("s10", 0.125, "lin"), in("s11", 0.75, "lin"), in("s20", -0.25, "lin"), in("s21", 0.375, "lin"), in("s22", 1.0, "lin"));
            { SymMat33 Rs = R1.reexpressSymMat33(Sm); outM33("reexS", Mat33(Rs)); }
            { SymMat33 Rs = (~R1).reexpressSymMat33(Sm); outM33("reexSi", Mat33(Rs)); }
            Transform X1(R1, p1), X2(R2, p2);
            outXform("X1X2", X1 * X2); outXform("X1iX2", ~X1 * X2); outXform("X1X2i", X1 * ~X2); outXform("X1iX2i", ~X1 * ~X2);
            outXform("X1inv", Transform(~X1));
            outV3("X1v", X1 * v); outV3("X1iv", ~X1 * v);
            outV3("X1xf", X1.xformFrameVecToBase(v)); outV3("X1xb", X1.xformBaseVecToFrame(v));
            outV3("X1sf", X1.shiftFrameStationToBase(v)); outV3("X1sb", X1.shiftBaseStationToFrame(v));
            outV3("X1pInv", X1.pInv());
            { Transform T = X1; T.setPInv(v); outV3("setPInv_p", T.p()); }
            { Transform T = X1; T += v; outV3("X1plus_p", T.p()); T -= p2; outV3("X1plusminus_p", T.p()); }
            outM44("X1m44", X1.toMat44());
            outM44("X1im44", (~X1).toMat44());
            outV4("X1v4s", X1 * Vec4(v[0], v[1], v[2], 1)); outV4("X1v4v", X1 * Vec4(v[0], v[1], v[2], 0));
        } else if (mode == "unitvec") {
            Vec3 v = inV3("v", Vec3(0.5, -0.25, 0.75), "param");
            UnitVec3 u(v);                                  outV3("u", u.asVec3());
            outV3("perp", u.perp().asVec3());
            outV3("neg", (-u).asVec3());
            outV3("abs", u.abs().asVec3());
            UnitRow<Real,1> r(~v);                                 outV3("r", Vec3(r[0], r[1], r[2]));
            UnitRow<Real,1> rp = r.perp();                         outV3("rperp", Vec3(rp[0], rp[1], rp[2]));
        }
    });
}
