// C46: simulation is deterministic and isolated. args: <integrator> <variant>
// run A -> o1 ; unrelated work ; run A again (rebuilt from the same symbolic definition) -> o2.
#include "common.h"
using namespace vh;

struct Defn { Real m[3], len, k, q0s, g, q[8], u[8], hx, hy, hz; };

static Integrator* makeInteg(const std::string& n, const System& sys) {
    if (n == "ExplicitEuler") return new ExplicitEulerIntegrator(sys);
    if (n == "RungeKutta2") return new RungeKutta2Integrator(sys);
    if (n == "RungeKutta3") return new RungeKutta3Integrator(sys);
    if (n == "RungeKuttaFeldberg") return new RungeKuttaFeldbergIntegrator(sys);
    if (n == "RungeKuttaMerson") return new RungeKuttaMersonIntegrator(sys);
    if (n == "Verlet") return new VerletIntegrator(sys);
    if (n == "SemiExplicitEuler2") return new SemiExplicitEuler2Integrator(sys);
    if (n == "CPodes") return new CPodesIntegrator(sys);
    fprintf(stderr, "unknown integrator %s\n", n.c_str()); exit(2);
}

static void simulate(const Defn& d, const std::string& iname, int variant, const std::string& prefix) {
    MultibodySystem sys; SimbodyMatterSubsystem matter(sys); GeneralForceSubsystem forces(sys);
    Body::Rigid b0(MassProperties(d.m[0], Vec3(0, -d.len / 2, 0), Inertia(d.m[0] * 0.25, d.m[0] * 0.125, d.m[0] * 0.25).shiftFromMassCenter(Vec3(0, -d.len / 2, 0), d.m[0])));
    Body::Rigid b1(MassProperties(d.m[1], Vec3(0.125, 0, 0), Inertia(d.m[1] * 0.5, d.m[1] * 0.375, d.m[1] * 0.25)));
    MobilizedBody::Pin p(matter.Ground(), Transform(Vec3(0.125, 0.25, 0)), b0, Transform(Vec3(0, d.len, 0)));
    MobilizedBody mb2;
    if (variant == 0) mb2 = MobilizedBody::Ball(p, Transform(Vec3(0, -d.len, 0)), b1, Transform(Vec3(0, 0.25, 0)));
    else mb2 = MobilizedBody::Gimbal(p, Transform(Vec3(0, -d.len, 0)), b1, Transform(Vec3(0, 0.25, 0)));
    MobilizedBody::Slider s(mb2, Transform(Rotation(0.5, ZAxis), Vec3(0.25, 0, 0)), Body::Rigid(MassProperties(d.m[2], Vec3(0), Inertia(d.m[2] * 0.125))), Transform());
    Force::Gravity(forces, matter, UnitVec3(0, -1, 0), d.g);
    Force::MobilityLinearSpring(forces, s, MobilizerQIndex(0), d.k, d.q0s);
    Force::TwoPointLinearSpring(forces, matter.Ground(), Vec3(0.5, 0, 0.25), s, Vec3(0, 0.125, 0), 3.0, 0.75);
    State st = sys.realizeTopology();
    sys.realizeModel(st);
    for (int i = 0; i < st.getNQ(); ++i) st.updQ()[i] = d.q[i];
    for (int i = 0; i < st.getNU(); ++i) st.updU()[i] = d.u[i];
    Integrator* integ = makeInteg(iname, sys);
    integ->setAccuracy(1e-3);
    integ->initialize(st);
    for (int k = 1; k <= 3; ++k) {
        integ->stepTo(0.03125 * k);
        const State& r = integ->getState();
        for (int i = 0; i < r.getNQ(); ++i) out(prefix + "q" + std::to_string(k) + "_" + std::to_string(i), r.getQ()[i]);
        for (int i = 0; i < r.getNU(); ++i) out(prefix + "u" + std::to_string(k) + "_" + std::to_string(i), r.getU()[i]);
        out(prefix + "t" + std::to_string(k), r.getTime());
    }
    out(prefix + "energy", sys.calcEnergy(integ->getState()));
    {   // a geometry query that belongs to this "simulation": a smooth height map evaluated at symbolic points
        Vector gx(4), gy(4); Matrix gf(4, 4);
        for (int i = 0; i < 4; ++i) { gx[i] = i - 1.5; gy[i] = 0.5 * i - 0.75; for (int j = 0; j < 4; ++j) gf(i, j) = 0.25 * i * i - 0.125 * i * j + 0.0625 * j; }
        BicubicSurface surf(gx, gy, gf, 0);
        ContactGeometry::SmoothHeightMap hm(surf);
        for (int k = 0; k < 2; ++k) {
            Vec3 p(d.hx + 0.125 * k, d.hy, d.hz);
            out(prefix + "hmap_val" + std::to_string(k), hm.calcSurfaceValue(p));
            outV3(prefix + "hmap_grad" + std::to_string(k), hm.calcSurfaceGradient(p));
        }
    }
    symfp::note((prefix + "steps").c_str(), std::to_string(integ->getNumStepsTaken()));
    symfp::note((prefix + "attempts").c_str(), std::to_string(integ->getNumStepsAttempted()));
    delete integ;
}

static void unrelatedWork(int variant) {
    // another model + another integrator
    {
        MultibodySystem sys; SimbodyMatterSubsystem matter(sys); GeneralForceSubsystem forces(sys);
        Body::Rigid b(MassProperties(2.0, Vec3(0.1, 0.2, 0), Inertia(1, 1.5, 2)));
        MobilizedBody::Free f(matter.Ground(), Transform(), b, Transform());
        MobilizedBody::Universal u(f, Transform(Vec3(1, 0, 0)), b, Transform(Vec3(0, 1, 0)));
        Force::UniformGravity(forces, matter, Vec3(0, -9.8, 0));
        Force::GlobalDamper(forces, matter, 0.3);
        State s = sys.realizeTopology(); sys.realizeModel(s);
        s.updU()[0] = 0.7; s.updU()[4] = -0.3; s.updU()[6] = 1.1;
        VerletIntegrator vi(sys); vi.setAccuracy(1e-2); vi.initialize(s); vi.stepTo(0.05);
        RungeKuttaMersonIntegrator rk(sys); rk.setAccuracy(1e-5); rk.initialize(s); rk.stepTo(0.02);
    }
    // geometry queries
    {
        ContactGeometry::Ellipsoid e(Vec3(1, 2, 3)); bool inside; UnitVec3 n;
        volatile double sink = e.findNearestPoint(Vec3(2, 1, 0.5), inside, n)[0];
        ContactGeometry::Sphere sp(1.5); sink = sink + sp.findNearestPoint(Vec3(0.3, 0.2, 0.1), inside, n)[1];
        ContactGeometry::Torus to(2, 0.5); sink = sink + to.findNearestPoint(Vec3(1, 1, 0.2), inside, n)[2];
        // another, different height map evaluated in the same patch region as the simulation's own one
        Vector gx(4), gy(4); Matrix gf(4, 4);
        for (int i = 0; i < 4; ++i) { gx[i] = i - 1.5; gy[i] = 0.5 * i - 0.75; for (int j = 0; j < 4; ++j) gf(i, j) = 1.0 - 0.5 * i + 0.75 * j * j; }
        BicubicSurface surf2(gx, gy, gf, 0);
        ContactGeometry::SmoothHeightMap hm2(surf2);
        sink = sink + hm2.calcSurfaceValue(Vec3(-0.3, -0.2, 0.1)) + hm2.calcSurfaceGradient(Vec3(-0.3, -0.2, 0.1))[0];
        (void)sink;
    }
    // random numbers and an optimizer-free numeric kernel
    {
        Random::Uniform r(0, 1); r.setSeed(12345 + variant); volatile double s = 0; for (int i = 0; i < 50; ++i) s = s + r.getValue();
        Random::Gaussian g(0, 1); for (int i = 0; i < 20; ++i) s = s + g.getValue();
        Vec<4, Complex> roots; Vec<5, Real> coef(1, -2, 0.5, 3, -1);
        Vector c(5), dummy; for (int i = 0; i < 5; ++i) c[i] = coef[i];
        Vector_<Complex> rts(4); PolynomialRootFinder::findRoots(c, rts);
        (void)s;
    }
}

int main(int argc, char** argv) {
    return guarded([&] {
        std::string iname = argOr(argc, argv, 1, "RungeKuttaMerson");
        int variant = atoi(argOr(argc, argv, 2, "0").c_str());
        Defn d;
        for (int i = 0; i < 3; ++i) d.m[i] = in(S("m", i), 1.0 + 0.5 * i, "pos");
        d.len = in("len", 0.5, "pos"); d.k = in("k", 6.0, "pos"); d.q0s = in("q0s", 0.125, "param"); d.g = in("g", 9.75, "pos");
        static const Real q0[8] = {0.375, 0.8, 0.2, -0.4, 0.4, 0.25, 0, 0};
        static const Real q1[8] = {0.375, 0.25, -0.5, 0.125, 0.25, 0, 0, 0};
        for (int i = 0; i < 8; ++i) d.q[i] = in(S("q", i), variant == 0 ? q0[i] : q1[i], "lin");
        for (int i = 0; i < 8; ++i) d.u[i] = in(S("u", i), 0.5 - 0.25 * (i % 4), "lin");
        d.hx = in("hx", -0.375, "lin"); d.hy = in("hy", -0.25, "lin"); d.hz = in("hz", 0.5, "lin");
        size_t dec0 = symfp::num_decisions();
        simulate(d, iname, variant, "r1_");
        size_t dec1 = symfp::num_decisions();
        unrelatedWork(variant);
        size_t dec2 = symfp::num_decisions();
        simulate(d, iname, variant, "r2_");
        size_t dec3 = symfp::num_decisions();
        symfp::note("decisions_run1", std::to_string(dec1 - dec0));
        symfp::note("decisions_unrelated", std::to_string(dec2 - dec1));
        symfp::note("new_decisions_run2", std::to_string(dec3 - dec2));
    });
}
