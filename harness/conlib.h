// Constraint catalogue shared by harnesses that need "one built-in constraint from a spec string" with symbolic parameters
// (same syntax as C07_constraints.cpp: Type:a,b[,c][:opt]); input names carry the given prefix so that several constraints can
// coexist in one model.
#pragma once
#include "common.h"
namespace vh {

// f(x) = c + sum a_i x_i + sum_{i<=j} b_ij x_i x_j with symbolic coefficients (derivatives to any order)
class QuadFn : public Function {
public:
    int n; Real c; std::vector<Real> a, b;
    QuadFn(const std::string& nm, int n_) : n(n_), a(n_), b(n_ * n_, 0.0) {
        c = in(nm + "_c", 0.125, "param");
        for (int i = 0; i < n; ++i) a[i] = in(S(nm + "_a", i), 0.5 + 0.25 * i, "param");
        for (int i = 0; i < n; ++i) for (int j = i; j < n; ++j) b[i * n + j] = in(S(nm + "_b", i, j), 0.25 - 0.125 * (i + j), "param");
    }
    Real bs(int i, int j) const { return i <= j ? b[i * n + j] : b[j * n + i]; }
    Real calcValue(const Vector& x) const override {
        Real r = c;
        for (int i = 0; i < n; ++i) r += a[i] * x[i];
        for (int i = 0; i < n; ++i) for (int j = i; j < n; ++j) r += b[i * n + j] * x[i] * x[j];
        return r;
    }
    Real calcDerivative(const Array_<int>& d, const Vector& x) const override {
        if (d.size() == 1) {
            int k = d[0]; Real r = a[k];
            for (int j = 0; j < n; ++j) r += (j == k ? 2.0 : 1.0) * bs(k, j) * x[j];
            return r;
        }
        if (d.size() == 2) return d[0] == d[1] ? 2.0 * bs(d[0], d[0]) : bs(d[0], d[1]);
        return 0;
    }
    int getArgumentSize() const override { return n; }
    int getMaxDerivativeOrder() const override { return 1000; }
    QuadFn* clone() const override { return new QuadFn(*this); }
};

inline UnitVec3 inAxis(const std::string& n, const Vec3& aseed) { return UnitVec3(inRot(n, aseed).z()); }
inline Transform inX(const std::string& n, const Vec3& p, const Vec3& a) { return inFrame(n, 2, p, a); }


inline Constraint makeConstraint(SimbodyMatterSubsystem& mat, std::vector<MobilizedBody>& bodies, const std::string& cs, const std::string& pre) {
        auto parts = split(cs, ':');
        std::string type = parts[0];
        std::vector<int> bi;
        for (auto& t : split(parts.size() > 1 ? parts[1] : "0,1", ',')) bi.push_back(atoi(t.c_str()));
        std::string opt = parts.size() > 2 ? parts[2] : "";
        auto B = [&](int k) -> MobilizedBody& { return bodies[bi[k]]; };
        auto oi = [&](int k) { return k < (int)opt.size() ? opt[k] - '0' : 0; };
        Vec3 p1 = inV3(pre + "p1", Vec3(0.25, -0.375, 0.5)), p2 = inV3(pre + "p2", Vec3(-0.5, 0.125, 0.375));
        Constraint con;
        if (type == "Rod") con = Constraint::Rod(B(0), p1, B(1), p2, in(pre + "len", 0.75, "pos"));
        else if (type == "Ball") con = Constraint::Ball(B(0), p1, B(1), p2);
        else if (type == "Weld") con = Constraint::Weld(B(0), inX(pre + "X1", Vec3(0.25, -0.375, 0.5), Vec3(0.3, 0.6, -0.4)),
                                                        B(1), inX(pre + "X2", Vec3(-0.5, 0.125, 0.375), Vec3(-0.2, 0.5, 0.7)));
        else if (type == "PointInPlane") con = Constraint::PointInPlane(B(0), inAxis(pre + "n", Vec3(0.4, -0.3, 0.2)), in(pre + "h", 0.375, "param"), B(1), p2);
        else if (type == "PointOnLine") con = Constraint::PointOnLine(B(0), inAxis(pre + "n", Vec3(0.4, -0.3, 0.2)), p1, B(1), p2);
        else if (type == "ConstantAngle") con = Constraint::ConstantAngle(B(0), inAxis(pre + "n1", Vec3(0.4, -0.3, 0.2)), B(1), inAxis(pre + "n2", Vec3(-0.5, 0.6, 0.1)), in(pre + "ang", 1.25, "angle"));
        else if (type == "ConstantOrientation") con = Constraint::ConstantOrientation(B(0), inRot(pre + "R1", Vec3(0.3, 0.6, -0.4)), B(1), inRot(pre + "R2", Vec3(-0.2, 0.5, 0.7)));
        else if (type == "NoSlip1D") con = Constraint::NoSlip1D(B(0), p1, inAxis(pre + "n", Vec3(0.4, -0.3, 0.2)), B(1), B(2));
        else if (type == "ConstantCoordinate") con = Constraint::ConstantCoordinate(B(0), MobilizerQIndex(oi(0)), in(pre + "val", 0.375, "param"));
        else if (type == "ConstantSpeed") con = Constraint::ConstantSpeed(B(0), MobilizerUIndex(oi(0)), in(pre + "val", 0.375, "param"));
        else if (type == "ConstantAcceleration") con = Constraint::ConstantAcceleration(B(0), MobilizerUIndex(oi(0)), in(pre + "val", 0.375, "param"));
        else if (type == "CoordinateCoupler") {
            Array_<MobilizedBodyIndex> mb; Array_<MobilizerQIndex> qi;
            for (int k = 0; k < (int)bi.size(); ++k) { mb.push_back(B(k).getMobilizedBodyIndex()); qi.push_back(MobilizerQIndex(oi(k))); }
            con = Constraint::CoordinateCoupler(mat, new QuadFn(pre + "f", (int)bi.size()), mb, qi);
        } else if (type == "SpeedCoupler" || type == "SpeedCouplerQ") {
            Array_<MobilizedBodyIndex> mb; Array_<MobilizerUIndex> ui;
            for (int k = 0; k < (int)bi.size(); ++k) { mb.push_back(B(k).getMobilizedBodyIndex()); ui.push_back(MobilizerUIndex(oi(k))); }
            if (type == "SpeedCoupler") con = Constraint::SpeedCoupler(mat, new QuadFn(pre + "f", (int)bi.size()), mb, ui);
            else { // the function also depends on one coordinate of every listed mobilizer
                Array_<MobilizerQIndex> qi;
                for (int k = 0; k < (int)bi.size(); ++k) qi.push_back(MobilizerQIndex(oi(k)));
                con = Constraint::SpeedCoupler(mat, new QuadFn(pre + "f", 2 * (int)bi.size()), mb, ui, mb, qi);
            }
        } else if (type == "PrescribedMotion") con = Constraint::PrescribedMotion(mat, new QuadFn(pre + "f", 1), B(0).getMobilizedBodyIndex(), MobilizerQIndex(oi(0)));
        else if (type == "PointOnPlaneContact") con = Constraint::PointOnPlaneContact(B(0), inX(pre + "X1", Vec3(0.25, -0.375, 0.5), Vec3(0.3, 0.6, -0.4)), B(1), p2);
        else if (type == "SphereOnPlaneContact" || type == "SphereOnPlaneContactNR")
            con = Constraint::SphereOnPlaneContact(B(0), inX(pre + "X1", Vec3(0.25, -0.375, 0.5), Vec3(0.3, 0.6, -0.4)), B(1), p2, in(pre + "r", 0.375, "pos"), type == "SphereOnPlaneContact");
        else if (type == "SphereOnSphereContact" || type == "SphereOnSphereContactNR")
            con = Constraint::SphereOnSphereContact(B(0), p1, in(pre + "r1", 0.375, "pos"), B(1), p2, in(pre + "r2", 0.25, "pos"), type == "SphereOnSphereContact");
        else if (type == "LineOnLineContact" || type == "LineOnLineContactNR")
            con = Constraint::LineOnLineContact(B(0), inX(pre + "X1", Vec3(0.25, -0.375, 0.5), Vec3(0.3, 0.6, -0.4)), in(pre + "h1", 0.75, "pos"),
                                                B(1), inX(pre + "X2", Vec3(-0.5, 0.125, 0.375), Vec3(-0.2, 0.5, 0.7)), in(pre + "h2", 0.5, "pos"), type == "LineOnLineContact");
        else { fprintf(stderr, "unknown constraint %s\n", type.c_str()); exit(2); }

        return con;
}

} // namespace vh
