// C08 (partial): disabled constraints have no effect; disabling at Instance stage removes exactly that constraint's rows from G.
// args: <treeSpec> <euler 0|1> <constraint1> <constraint2> <disabledByDefault 0|1>
// Model A: tree + gravity + mobility forces + two constraints. Model B: the same without any constraint.
//  * both constraints disabled in A (by disable(state), or by setDisabledByDefault before realizeTopology) vs B:
//    udot, qdot, body accelerations, mobilizer reaction forces, energies, after realize(Acceleration)
//  * calcG with both enabled, with only constraint 1 disabled, with only constraint 2 disabled (Velocity stage: no multipliers)
#include "pairs.h"
#include "conlib.h"
using namespace vh;

struct Sys {
    MultibodySystem system; SimbodyMatterSubsystem matter; GeneralForceSubsystem forces;
    std::vector<MobilizedBody> bodies;
    Sys() : matter(system), forces(system) {}
};

int main(int argc, char** argv) {
    return guarded([&] {
        auto desc = parseTree(argOr(argc, argv, 1, "Pin:0,Gimbal:1"));
        bool euler = argOr(argc, argv, 2, "0") == "1";
        std::string cs1 = argOr(argc, argv, 3, "Rod:0,2"), cs2 = argOr(argc, argv, 4, "ConstantSpeed:1:0");
        bool byDefault = argOr(argc, argv, 5, "0") == "1";
        std::vector<BodyParams> P;
        for (int k = 1; k <= (int)desc.size(); ++k) P.push_back(makeParams(desc[k - 1], k));
        Vec3 g = inV3("g", Vec3(0.5, -9.8125, 1.25), "lin");
        Sys A, B;
        A.bodies.push_back(A.matter.Ground()); B.bodies.push_back(B.matter.Ground());
        for (auto& p : P) {
            A.bodies.push_back(instantiate(A.bodies[p.d.parent], p, p.X_PF, p.X_BM, p.d.reversed));
            B.bodies.push_back(instantiate(B.bodies[p.d.parent], p, p.X_PF, p.X_BM, p.d.reversed));
        }
        Constraint c1 = makeConstraint(A.matter, A.bodies, cs1, "c1_");
        Constraint c2 = makeConstraint(A.matter, A.bodies, cs2, "c2_");
        if (byDefault) { c1.setDisabledByDefault(true); c2.setDisabledByDefault(true); }
        Force::UniformGravity(A.forces, A.matter, g); Force::UniformGravity(B.forces, B.matter, g);
        Force::DiscreteForces dA(A.forces, A.matter), dB(B.forces, B.matter);
        A.system.realizeTopology(); B.system.realizeTopology();
        State sA = A.system.getDefaultState(), sB = B.system.getDefaultState();
        if (euler) { A.matter.setUseEulerAngles(sA, true); B.matter.setUseEulerAngles(sB, true); }
        A.system.realizeModel(sA); B.system.realizeModel(sB);
        int nq = sA.getNQ(), nu = sA.getNU(), nb = A.matter.getNumBodies();
        if (sB.getNQ() != nq || sB.getNU() != nu) { fprintf(stderr, "state size mismatch\n"); exit(2); }
        StateVals v = makeStateVals(desc, euler, nu);
        Real t = in("t", 0.5, "param");
        sA.setTime(t); sB.setTime(t);
        for (int i = 0; i < nq; ++i) if (v.kind[i] != 'x') { sA.updQ()[i] = v.q[i]; sB.updQ()[i] = v.q[i]; }
        for (int i = 0; i < nu; ++i) { sA.updU()[i] = v.u[i]; sB.updU()[i] = v.u[i]; }
        Vector f = inVec("f", nu, 0.375, -0.25);
        dA.setAllMobilityForces(sA, f); dB.setAllMobilityForces(sB, f);
        symfp::note("nu", std::to_string(nu)); symfp::note("nq", std::to_string(nq)); symfp::note("nb", std::to_string(nb));

        // ---- constraint matrix with both / one / the other enabled (Velocity stage only)
        auto Gof = [&](bool on1, bool on2, const std::string& name) {
            State s = sA;
            if (on1) c1.enable(s); else c1.disable(s);
            if (on2) c2.enable(s); else c2.disable(s);
            A.system.realize(s, Stage::Velocity);
            Matrix G; A.matter.calcG(s, G);
            outMat(name, G);
            symfp::note((name + "_rows").c_str(), std::to_string(G.nrow()));
            symfp::note((name + "_nqerr").c_str(), std::to_string(s.getNQErr()) + " " + std::to_string(s.getNUErr()) + " " + std::to_string(s.getNUDotErr()));
            if (on1 && on2) {
                int mp, mv, ma;
                c1.getNumConstraintEquationsInUse(s, mp, mv, ma);
                symfp::note("m1", std::to_string(mp) + " " + std::to_string(mv) + " " + std::to_string(ma));
                c2.getNumConstraintEquationsInUse(s, mp, mv, ma);
                symfp::note("m2", std::to_string(mp) + " " + std::to_string(mv) + " " + std::to_string(ma));
            }
        };
        Gof(true, true, "G12"); Gof(false, true, "G2"); Gof(true, false, "G1"); Gof(false, false, "G0");
        symfp::note("nquat", std::to_string(A.matter.getNumQuaternionsInUse(sA)));

        // ---- both disabled vs no constraints at all
        State s0 = sA;
        c1.disable(s0); c2.disable(s0);
        A.system.realize(s0, Stage::Acceleration); B.system.realize(sB, Stage::Acceleration);
        symfp::note("A_nmult", std::to_string(s0.getNMultipliers()));
        Vector_<SpatialVec> rA, rB;
        A.matter.calcMobilizerReactionForces(s0, rA); B.matter.calcMobilizerReactionForces(sB, rB);
        for (int k = 1; k < nb; ++k) {
            outSV(S("A_A", k), A.bodies[k].getBodyAcceleration(s0)); outSV(S("B_A", k), B.bodies[k].getBodyAcceleration(sB));
            outSV(S("A_R", k), rA[A.bodies[k].getMobilizedBodyIndex()]); outSV(S("B_R", k), rB[B.bodies[k].getMobilizedBodyIndex()]);
        }
        outVec("A_udot", s0.getUDot()); outVec("B_udot", sB.getUDot());
        outVec("A_qdot", s0.getQDot()); outVec("B_qdot", sB.getQDot());
        outVec("A_qdotdot", s0.getQDotDot()); outVec("B_qdotdot", sB.getQDotDot());
        out("A_KE", A.system.calcKineticEnergy(s0)); out("B_KE", B.system.calcKineticEnergy(sB));
        out("A_PE", A.system.calcPotentialEnergy(s0)); out("B_PE", B.system.calcPotentialEnergy(sB));
    });
}
