// C13 (compliant contact part): Newton's third law for CompliantContactSubsystem sphere-sphere (Hertz) contact between two
// MOVING bodies whose contact spheres are mounted OFF the body origins. args: <variant: free | pinball>
#include "common.h"
using namespace vh;
int main(int argc, char** argv) {
    return guarded([&] {
        std::string variant = argOr(argc, argv, 1, "free");
        MultibodySystem sys; SimbodyMatterSubsystem matter(sys); GeneralForceSubsystem forces(sys);
        ContactTrackerSubsystem tracker(sys);
        CompliantContactSubsystem contact(sys, tracker);
        contact.setTransitionVelocity(in("vt", 0.125, "pos"));
        Real r1 = in("r1", 0.5, "fixed"), r2 = in("r2", 0.75, "fixed");
        Vec3 off1 = inV3("off1", Vec3(0.25, -0.125, 0.0625), "fixed"), off2 = inV3("off2", Vec3(-0.125, 0.25, 0.125), "fixed");
        Real k1 = in("k1", 64.0, "pos"), k2 = in("k2", 128.0, "pos"), c1 = in("c1", 0.25, "pos"), c2 = in("c2", 0.125, "pos");
        Real mu = in("mu", 0.5, "pos");
        Body::Rigid b1(MassProperties(1.5, Vec3(0.0625, 0, 0.125), Inertia(0.75, 0.875, 1.0).shiftFromMassCenter(Vec3(0.0625, 0, 0.125), 1.5)));
        Body::Rigid b2 = b1;
        b1.addContactSurface(Transform(off1), ContactSurface(ContactGeometry::Sphere(r1), ContactMaterial(k1, c1, mu, mu, 0)));
        b2.addContactSurface(Transform(off2), ContactSurface(ContactGeometry::Sphere(r2), ContactMaterial(k2, c2, mu, mu, 0)));
        MobilizedBody A, B;
        if (variant == "free") {
            A = MobilizedBody::Free(matter.Ground(), Transform(), b1, Transform());
            B = MobilizedBody::Free(matter.Ground(), Transform(), b2, Transform());
        } else {
            A = MobilizedBody::Pin(matter.Ground(), Transform(Vec3(0.125, 0, 0)), b1, Transform(Vec3(0, 0.25, 0)));
            B = MobilizedBody::Ball(A, Transform(Vec3(0.25, 0.5, 0)), b2, Transform(Vec3(0, -0.25, 0)));
        }
        State s = sys.realizeTopology(); sys.realizeModel(s);
        int nq = s.getNQ(), nu = s.getNU();
        // seeds chosen so that the two spheres overlap (penetration ~0.1)
        static const Real qfree[14] = {1, 0, 0, 0, 0, 0, 0,   1, 0, 0, 0, 1.0, 0.375, 0.0625};
        static const Real qpb[5] = {0.25, 1, 0, 0, 0};
        for (int i = 0; i < nq; ++i) s.updQ()[i] = in(S("q", i), variant == "free" ? qfree[i] : qpb[i], "fixed");
        for (int i = 0; i < nu; ++i) s.updU()[i] = in(S("u", i), 0.25 - 0.125 * (i % 5), "lin");
        sys.realize(s, Stage::Dynamics);
        symfp::note("ncontacts", std::to_string(contact.getNumContactForces(s)));
        const Vector_<SpatialVec>& F = sys.getRigidBodyForces(s, Stage::Dynamics);
        symfp::note("nb", std::to_string(F.size()));
        for (int b = 0; b < F.size(); ++b) {
            outSV(S("F", b), F[b]);
            outV3(S("p", b), matter.getMobilizedBody(MobilizedBodyIndex(b)).getBodyOriginLocation(s));
        }
        outVec("f", sys.getMobilityForces(s, Stage::Dynamics));
        if (contact.getNumContactForces(s) > 0) {
            const ContactForce& cf = contact.getContactForce(s, 0);
            outV3("cf_point", cf.getContactPoint());
            outSV("cf_F", cf.getForceOnSurface2());
            out("cf_pe", cf.getPotentialEnergy());
        }
    });
}
