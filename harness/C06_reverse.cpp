// C06(c): reversed instead of forward mobilizer with the parent/child roles swapped gives the same body motion and dynamics.
// args: <YType> <euler 0|1> <frameStyle>
// Model A: Ground -Free-> P -Y(forward; F on P = X_PF, M on C = X_BM)-> C
// Model B: Ground -Free-> C' -Y(REVERSED; inboard frame on C' = X_BM, outboard frame on P' = X_PF)-> P'
// Same mass properties, same q,u for Y, same gravity, Ground-frame body forces and mobility forces on Y. B's Free base is placed
// by setQToFitTransform/setUToFitVelocity at the pose and velocity that C has in model A.
#include "pairs.h"
using namespace vh;

struct Sys {
    MultibodySystem system; SimbodyMatterSubsystem matter; GeneralForceSubsystem forces;
    Sys() : matter(system), forces(system) {}
};

int main(int argc, char** argv) {
    return guarded([&] {
        std::string Y = argOr(argc, argv, 1, "Pin");
        bool euler = argOr(argc, argv, 2, "0") == "1";
        int frames = atoi(argOr(argc, argv, 3, "2").c_str());
        std::vector<BodyDesc> desc(2);
        desc[0].type = "Free"; desc[0].parent = 0; desc[0].reversed = false; desc[0].frames = 1;
        desc[1].type = Y; desc[1].parent = 1; desc[1].reversed = false; desc[1].frames = frames;
        BodyParams pP = makeParams(desc[0], 1), pC = makeParams(desc[1], 2);
        Vec3 g = inV3("g", Vec3(0.5, -9.8125, 1.25), "lin");
        SpatialVec FP = inSV("FP", SpatialVec(Vec3(0.25, -0.5, 0.75), Vec3(-1.25, 0.5, 0.375)));
        SpatialVec FC = inSV("FC", SpatialVec(Vec3(-0.375, 0.25, 0.5), Vec3(0.75, -0.625, 1.0)));
        Sys A, B;
        MobilizedBody G_A = A.matter.Ground(), G_B = B.matter.Ground();
        MobilizedBody P_A = instantiate(G_A, pP, pP.X_PF, pP.X_BM, false);
        MobilizedBody C_A = instantiate(P_A, pC, pC.X_PF, pC.X_BM, false);
        MobilizedBody C_B = instantiate(G_B, pC, Transform(), Transform(), false, "Free");
        BodyParams pPy = pP; pPy.pitch = pC.pitch; pPy.radii = pC.radii; pPy.len = pC.len;   // P's mass properties, Y's option values
        MobilizedBody P_B = instantiate(C_B, pPy, pC.X_BM, pC.X_PF, true, Y);     // roles swapped, direction reversed
        Force::UniformGravity(A.forces, A.matter, g); Force::UniformGravity(B.forces, B.matter, g);
        Force::DiscreteForces dA(A.forces, A.matter), dB(B.forces, B.matter);
        A.system.realizeTopology(); B.system.realizeTopology();
        State sA = A.system.getDefaultState(), sB = B.system.getDefaultState();
        if (euler) { A.matter.setUseEulerAngles(sA, true); B.matter.setUseEulerAngles(sB, true); }
        A.system.realizeModel(sA); B.system.realizeModel(sB);
        int nq = sA.getNQ(), nu = sA.getNU();
        if (sB.getNQ() != nq || sB.getNU() != nu) { fprintf(stderr, "state size mismatch\n"); exit(2); }
        StateVals v = makeStateVals(desc, euler, nu);
        for (int i = 0; i < nq; ++i) if (v.kind[i] != 'x') sA.updQ()[i] = v.q[i];
        for (int i = 0; i < nu; ++i) sA.updU()[i] = v.u[i];
        const int nqY = C_A.getNumQ(sA), nuY = C_A.getNumU(sA), q0 = nq - nqY, u0 = nu - nuY;
        A.system.realize(sA, Stage::Velocity);
        // place model B: Y's coordinates first (same values), then the base so that C' coincides with C
        for (int i = 0; i < nqY; ++i) if (v.kind[q0 + i] != 'x') sB.updQ()[q0 + i] = v.q[q0 + i];
        for (int i = 0; i < nuY; ++i) sB.updU()[u0 + i] = v.u[u0 + i];
        C_B.setQToFitTransform(sB, C_A.getBodyTransform(sA));
        C_B.setUToFitVelocity(sB, C_A.getBodyVelocity(sA));
        Vector fY = inVec("fY", nuY, 0.375, -0.25);
        for (int i = 0; i < nuY; ++i) { dA.setOneMobilityForce(sA, C_A, MobilizerUIndex(i), fY[i]); dB.setOneMobilityForce(sB, P_B, MobilizerUIndex(i), fY[i]); }
        dA.setOneBodyForce(sA, P_A, FP); dA.setOneBodyForce(sA, C_A, FC);
        dB.setOneBodyForce(sB, P_B, FP); dB.setOneBodyForce(sB, C_B, FC);
        A.system.realize(sA, Stage::Acceleration); B.system.realize(sB, Stage::Acceleration);
        symfp::note("nuY", std::to_string(nuY)); symfp::note("nqY", std::to_string(nqY));
        outXform("A_XP", P_A.getBodyTransform(sA)); outXform("B_XP", P_B.getBodyTransform(sB));
        outXform("A_XC", C_A.getBodyTransform(sA)); outXform("B_XC", C_B.getBodyTransform(sB));
        outSV("A_VP", P_A.getBodyVelocity(sA)); outSV("B_VP", P_B.getBodyVelocity(sB));
        outSV("A_VC", C_A.getBodyVelocity(sA)); outSV("B_VC", C_B.getBodyVelocity(sB));
        outSV("A_AP", P_A.getBodyAcceleration(sA)); outSV("B_AP", P_B.getBodyAcceleration(sB));
        outSV("A_AC", C_A.getBodyAcceleration(sA)); outSV("B_AC", C_B.getBodyAcceleration(sB));
        for (int i = 0; i < nuY; ++i) { out(S("A_udotY_", i), sA.getUDot()[u0 + i]); out(S("B_udotY_", i), sB.getUDot()[u0 + i]); }
        for (int i = 0; i < nqY; ++i) { out(S("A_qdotY_", i), sA.getQDot()[q0 + i]); out(S("B_qdotY_", i), sB.getQDot()[q0 + i]); }
        out("A_KE", A.system.calcKineticEnergy(sA)); out("B_KE", B.system.calcKineticEnergy(sB));
        out("A_PE", A.system.calcPotentialEnergy(sA)); out("B_PE", B.system.calcPotentialEnergy(sB));
    });
}
