// C41: Function_<Real> subclasses, smooth step helpers, interpolating splines.
// args: constant | linear <n> | poly <deg> | sinusoid | step <x0seed> <x1seed> <xseed> | stepfuncs | spline <degree> <nknots>
#include "common.h"
using namespace vh;

static Vector one(Real x) { Vector v(1); v[0] = x; return v; }

int main(int argc, char** argv) {
    return guarded([&] {
        std::string mode = argOr(argc, argv, 1, "poly");
        symfp::note("mode", mode);
        auto seed = [&](int i, double d) { return i < argc ? atof(argv[i]) : d; };
        if (mode == "constant") {
            Real c = in("c", 0.75, "lin");
            Vector x(2); x[0] = in("x_0", 0.25, "param"); x[1] = in("x_1", -0.5, "param");
            Function::Constant f(c, 2);
            out("v", f.calcValue(x));
            out("d_0", f.calcDerivative(Array_<int>{0}, x)); out("d_1", f.calcDerivative(Array_<int>{1}, x)); out("d_01", f.calcDerivative(Array_<int>{0, 1}, x));
            out("d_std", f.calcDerivative(std::vector<int>{1, 1, 0}, x));
            symfp::note("argsize", std::to_string(f.getArgumentSize()));
        } else if (mode == "linear") {
            int n = atoi(argOr(argc, argv, 2, "3").c_str());
            symfp::note("n", std::to_string(n));
            Vector cf = inVec("c", n + 1, 0.5, -0.375, "lin"), x = inVec("x", n, 0.25, 0.5, "param");
            Function::Linear f(cf);
            out("v", f.calcValue(x));
            for (int i = 0; i < n; ++i) {
                out(S("d_", i), f.calcDerivative(Array_<int>{i}, x));
                for (int j = 0; j < n; ++j) out(S("d_", i, j), f.calcDerivative(Array_<int>{i, j}, x));
            }
            symfp::note("argsize", std::to_string(f.getArgumentSize()));
        } else if (mode == "poly") {
            int deg = atoi(argOr(argc, argv, 2, "4").c_str());
            symfp::note("deg", std::to_string(deg));
            Vector cf = inVec("c", deg + 1, 0.5, -0.375, "lin");
            Real x = in("x", 0.625, "param");
            Function::Polynomial f(cf);
            out("d0", f.calcValue(one(x)));
            for (int k = 1; k <= deg + 2; ++k) out(S("d", k), f.calcDerivative(Array_<int>(k, 0), one(x)));
        } else if (mode == "sinusoid") {
            Real a = in("a", 1.5, "lin"), w = in("w", 0.75, "param"), p = in("p", 0.3, "angle"), t = in("t", 0.5, "param");
            Function::Sinusoid f(a, w, p);
            out("d0", f.calcValue(one(t)));
            out("d0b", f.calcDerivative(Array_<int>(), one(t)));
            for (int k = 1; k <= 6; ++k) out(S("d", k), f.calcDerivative(Array_<int>(k, 0), one(t)));
        } else if (mode == "step") {
            Real y0 = in("y0", 0.5, "lin"), y1 = in("y1", 2.0, "lin"), x0 = in("x0", seed(2, 1.0), "param"), x1 = in("x1", seed(3, 3.0), "param"), x = in("x", seed(4, 1.75), "param");
            Function::Step f(y0, y1, x0, x1);
            out("d0", f.calcValue(one(x)));
            for (int k = 1; k <= 3; ++k) out(S("d", k), f.calcDerivative(Array_<int>(k, 0), one(x)));
        } else if (mode == "stepfuncs") {
            Real x = in("x", 0.375, "param");
            out("up0", stepUp(x)); out("up1", dstepUp(x)); out("up2", d2stepUp(x)); out("up3", d3stepUp(x));
            out("dn0", stepDown(x)); out("dn1", dstepDown(x)); out("dn2", d2stepDown(x)); out("dn3", d3stepDown(x));
            Real y0 = in("y0", 0.5, "lin"), yr = in("yr", 1.5, "lin"), x0 = in("x0", 1.0, "param"), oox = in("oox", 0.5, "param"), xa = in("xa", 1.75, "param");
            out("an0", stepAny(y0, yr, x0, oox, xa)); out("an1", dstepAny(yr, x0, oox, xa)); out("an2", d2stepAny(yr, x0, oox, xa)); out("an3", d3stepAny(yr, x0, oox, xa));
            // end values (concrete arguments)
            out("e_up0_0", stepUp(0.0)); out("e_up0_1", stepUp(1.0)); out("e_up1_0", dstepUp(0.0)); out("e_up1_1", dstepUp(1.0)); out("e_up2_0", d2stepUp(0.0)); out("e_up2_1", d2stepUp(1.0));
            out("e_dn0_0", stepDown(0.0)); out("e_dn0_1", stepDown(1.0)); out("e_dn1_0", dstepDown(0.0)); out("e_dn1_1", dstepDown(1.0)); out("e_dn2_0", d2stepDown(0.0)); out("e_dn2_1", d2stepDown(1.0));
        } else if (mode == "spline") {
            int degree = atoi(argOr(argc, argv, 2, "3").c_str()), n = atoi(argOr(argc, argv, 3, "6").c_str());
            symfp::note("degree", std::to_string(degree)); symfp::note("n", std::to_string(n));
            Vector xk(n), yk(n);
            static const Real gaps[] = {0.5, 0.75, 0.375, 1.0, 0.625, 0.5, 0.875, 0.25, 0.75, 0.5};
            Real acc = 0.25;
            for (int i = 0; i < n; ++i) { xk[i] = in(S("xk_", i), acc, "fixed"); acc += gaps[i % 10]; yk[i] = in(S("y_", i), 0.5 - 0.375 * (i % 3) + 0.125 * i, "lin"); }
            Spline sp = SplineFitter<Real>::fitForSmoothingParameter(degree, xk, yk, 0).getSpline();
            for (int i = 0; i < n; ++i) {
                out(S("s_", i), sp.calcValue(xk[i]));
                for (int k = 1; k < degree; ++k) out(S("sd" + std::to_string(k) + "_", i), sp.calcDerivative(k, xk[i]));
            }
            // evaluation points strictly inside each interval, for AD of the piece left and right of each interior knot
            for (int i = 0; i + 1 < n; ++i) {
                Real xm = in(S("xm_", i), 0.5 * (symfp::value(xk[i]) + symfp::value(xk[i + 1])), "param");
                out(S("m_", i), sp.calcValue(xm));
                for (int k = 1; k <= degree; ++k) out(S("md" + std::to_string(k) + "_", i), sp.calcDerivative(k, xm));
            }
        }
    });
}
