// C11 (differential form): energy and momentum rates from the code's own forward dynamics.
// args: <treeSpec> <euler 0|1> <forceSet>
//   forceSet: '+'-separated subset of
//     grav      Force::Gravity (symbolic direction, magnitude, zero height)
//     ugrav     Force::UniformGravity
//     spring    TwoPointLinearSpring between body 1 (or Ground if the tree has one body) and the last body
//     gspring   TwoPointLinearSpring between Ground and the last body
//     mspring   MobilityLinearSpring on coordinate <mcoord> of body <mbody>  (written mspring:<body>:<coord>)
//     damper    TwoPointLinearDamper between body 1 and the last body
//     mdamper   MobilityLinearDamper (mdamper:<body>:<coord>)
//     gdamper   GlobalDamper
//     bushing   LinearBushing between body 1 and the last body, symbolic stiffness and damping
//     bushing0  LinearBushing with damping exactly 0
// outputs: qdot, udot (realize(Acceleration)), KE, PE, momentum about the Ground origin, body poses/velocities, zdot, bushing power
#include "common.h"
using namespace vh;

int main(int argc, char** argv) {
    return guarded([&] {
        std::string tree = argOr(argc, argv, 1, "Pin:0,Slider:1");
        bool euler = argOr(argc, argv, 2, "0") == "1";
        std::string fset = argOr(argc, argv, 3, "grav+spring");
        Model M;
        buildTree(M, tree, euler);
        const SimbodyMatterSubsystem& mat = M.matter;
        GeneralForceSubsystem& forces = M.forces;
        int nb = (int)M.bodies.size();
        const MobilizedBody& first = nb > 2 ? M.bodies[1] : M.bodies[0];
        const MobilizedBody& last = M.bodies[nb - 1];
        symfp::note("first", std::to_string(nb > 2 ? 1 : 0));
        Force::LinearBushing bush;
        bool haveBush = false;
        std::vector<std::pair<int, int>> mob;   // for notes
        for (auto& tok : split(fset, '+')) {
            auto parts = split(tok, ':');
            const std::string& f = parts[0];
            if (f == "grav") {
                Real ga = in("ga", 0.4, "angle"), gb = in("gb", -0.3, "angle");
                Vec3 d(std::cos(ga) * std::cos(gb), std::sin(ga) * std::cos(gb), std::sin(gb));
                Force::Gravity(forces, mat, UnitVec3(d, true), in("gmag", 2.5, "lin"), in("zh", 0.375, "lin"));
            } else if (f == "ugrav") {
                Force::UniformGravity(forces, mat, inV3("gv", Vec3(0.5, -2.0, 0.25), "lin"), in("uzh", 0.375, "lin"));
            } else if (f == "spring" || f == "gspring") {
                std::string n = f == "spring" ? "sp" : "gsp";
                Force::TwoPointLinearSpring(forces, f == "spring" ? first : M.bodies[0], inV3(n + "_st1", Vec3(0.25, -0.375, 0.5)), last,
                                            inV3(n + "_st2", Vec3(-0.5, 0.625, 0.125)), in(n + "_k", 2.5, "lin"), in(n + "_x0", 0.75, "lin"));
            } else if (f == "damper") {
                Force::TwoPointLinearDamper(forces, first, inV3("da_st1", Vec3(0.125, 0.5, -0.25)), last, inV3("da_st2", Vec3(0.375, -0.125, 0.25)), in("da_c", 1.5, "lin"));
            } else if (f == "mspring" || f == "mdamper") {
                int b = atoi(parts[1].c_str()), c = atoi(parts[2].c_str());
                std::string n = f + parts[1] + "_" + parts[2];
                if (f == "mspring") Force::MobilityLinearSpring(forces, M.bodies[b], MobilizerQIndex(c), in(n + "_k", 1.75, "lin"), in(n + "_qz", 0.125, "lin"));
                else Force::MobilityLinearDamper(forces, M.bodies[b], MobilizerUIndex(c), in(n + "_c", 0.75, "lin"));
            } else if (f == "gdamper") {
                Force::GlobalDamper(forces, mat, in("gd_c", 0.5, "lin"));
            } else if (f == "bushing" || f == "bushing0") {
                Transform XF = inFrame("XF", 2, Vec3(0.25, -0.125, 0.375), Vec3(0.2, -0.3, 0.1));
                Transform XM = inFrame("XM", 2, Vec3(-0.125, 0.25, 0.5), Vec3(-0.1, 0.2, 0.3));
                Vec6 k, c(0);
                for (int i = 0; i < 6; ++i) { k[i] = in(S("bk_", i), 1.0 + 0.25 * i, "lin"); if (f == "bushing") c[i] = in(S("bc_", i), 0.5 + 0.125 * i, "lin"); }
                bush = Force::LinearBushing(forces, first, XF, last, XM, k, c);
                haveBush = true;
            } else { fprintf(stderr, "unknown force %s\n", f.c_str()); exit(2); }
        }
        State s = initState(M);
        M.system.realize(s, Stage::Acceleration);
        int nu = s.getNU(), nq = s.getNQ();
        symfp::note("nu", std::to_string(nu)); symfp::note("nq", std::to_string(nq)); symfp::note("nb", std::to_string(nb));
        outVec("qdot", s.getQDot());
        outVec("udot", s.getUDot());
        for (int b = 1; b < nb; ++b) {
            outXform(S("X_GB", b), M.bodies[b].getBodyTransform(s));
            outSV(S("V_GB", b), M.bodies[b].getBodyVelocity(s));
        }
        out("KE", M.system.calcKineticEnergy(s));
        out("PE", M.system.calcPotentialEnergy(s));
        out("E", M.system.calcEnergy(s));
        outSV("mom", mat.calcSystemMomentumAboutGroundOrigin(s));
        outSV("cmom", mat.calcSystemCentralMomentum(s));
        outV3("com", mat.calcSystemMassCenterLocationInGround(s));
        outVec("zdot", s.getZDot());
        symfp::note("nz", std::to_string(s.getNZ()));
        if (haveBush) {
            out("bpow", bush.getPowerDissipation(s));
            for (int i = 0; i < 6; ++i) out(S("bqd_", i), bush.getQDot(s)[i]);
        }
        for (auto& tok : split(fset, '+')) {
            auto parts = split(tok, ':');
            if (parts[0] == "mdamper" || parts[0] == "mspring") {
                int b = atoi(parts[1].c_str()), c = atoi(parts[2].c_str());
                symfp::note((parts[0] + parts[1] + "_" + parts[2] + "_uix").c_str(), std::to_string((int)M.bodies[b].getFirstUIndex(s) + c));
            }
        }
    });
}
