// C04: Jacobian operators map speeds to the velocities the state reports. args: <treeSpec> <euler 0|1> <realized 0|1>
// realized=1: additionally realize(Acceleration) with symbolic applied forces and compare the reported accelerations
//             with J*udot + JDot*u evaluated by the library on the reported udot.
#include "common.h"
using namespace vh;

static void outV3s(const std::string& n, const Vector_<Vec3>& v) { for (int i = 0; i < v.size(); ++i) outV3(S(n, i), v[i]); }
static void outSVs(const std::string& n, const Vector_<SpatialVec>& v) { for (int i = 0; i < v.size(); ++i) outSV(S(n, i), v[i]); }

int main(int argc, char** argv) {
    return guarded([&] {
        Model M;
        buildTree(M, argOr(argc, argv, 1, "Pin:0,Gimbal:1"), argOr(argc, argv, 2, "0") == "1");
        const bool realized = argOr(argc, argv, 3, "0") == "1";
        Force::DiscreteForces df(M.forces, M.matter);
        State s = initState(M);
        const SimbodyMatterSubsystem& mat = M.matter;
        const int nu = s.getNU(), nq = s.getNQ(), nb = mat.getNumBodies();
        // task list: one task per body (Ground included) and the last body once more with another station
        Array_<MobilizedBodyIndex> bodies; Array_<Vec3> stations;
        for (int b = 0; b < nb; ++b) {
            bodies.push_back(MobilizedBodyIndex(b));
            stations.push_back(inV3(S("st", b), Vec3(0.25 + 0.125 * b, -0.375, 0.5 - 0.25 * b)));
        }
        bodies.push_back(MobilizedBodyIndex(nb - 1));
        stations.push_back(inV3(S("st", nb), Vec3(-0.5, 0.125, 0.375)));
        const int nt = (int)bodies.size();
        symfp::note("nu", std::to_string(nu)); symfp::note("nq", std::to_string(nq)); symfp::note("nb", std::to_string(nb)); symfp::note("nt", std::to_string(nt));
        { std::string tb; for (int t = 0; t < nt; ++t) tb += " " + std::to_string((int)bodies[t]); symfp::note("task_bodies", tb); }

        Vector x = inVec("x", nu, 0.625, -0.25), ud = inVec("ud", nu, 0.125, 0.375);
        Vector_<SpatialVec> FB(nb); Vector_<Vec3> FS(nt); Vector_<SpatialVec> FF(nt);
        for (int b = 0; b < nb; ++b) FB[b] = inSV(S("FB", b), SpatialVec(Vec3(0.25, -0.5, 0.375), Vec3(-0.625, 0.125, 0.75)));
        for (int t = 0; t < nt; ++t) FS[t] = inV3(S("FS", t), Vec3(0.5, -0.25, 0.125), "lin");
        for (int t = 0; t < nt; ++t) FF[t] = inSV(S("FF", t), SpatialVec(Vec3(-0.25, 0.5, 0.625), Vec3(0.375, -0.125, 0.25)));
        Vector f;
        if (realized) { f = inVec("f", nu, 0.5, -0.125); df.setAllMobilityForces(s, f); }

        M.system.realize(s, Stage::Velocity);
        outVec("qdot", s.getQDot());
        // reported velocities
        for (int b = 0; b < nb; ++b) outSV(S("V_GB", b), mat.getMobilizedBody(bodies[b]).getBodyVelocity(s));
        for (int t = 0; t < nt; ++t) outV3(S("st_v", t), mat.getMobilizedBody(bodies[t]).findStationVelocityInGround(s, stations[t]));

        // system Jacobian
        Vector_<SpatialVec> Ju, Jx, Jud; Matrix_<SpatialVec> J; Matrix Jflat; Vector JtF;
        mat.multiplyBySystemJacobian(s, s.getU(), Ju);   outSVs("Ju", Ju);
        mat.multiplyBySystemJacobian(s, x, Jx);          outSVs("Jx", Jx);
        mat.multiplyBySystemJacobian(s, ud, Jud);        outSVs("Jud", Jud);
        mat.calcSystemJacobian(s, J);
        for (int b = 0; b < nb; ++b) for (int j = 0; j < nu; ++j) outSV(S("J", b, j), J(b, j));
        mat.calcSystemJacobian(s, Jflat);                outMat("Jflat", Jflat);
        mat.multiplyBySystemJacobianTranspose(s, FB, JtF); outVec("JtF", JtF);

        // station Jacobian
        Vector_<Vec3> JSu, JSx; Matrix_<Vec3> JS; Matrix JSflat; Vector JStF, JStF1; RowVector_<Vec3> JS1; Matrix JS1flat;
        mat.multiplyByStationJacobian(s, bodies, stations, s.getU(), JSu);   outV3s("JSu", JSu);
        mat.multiplyByStationJacobian(s, bodies, stations, x, JSx);          outV3s("JSx", JSx);
        mat.calcStationJacobian(s, bodies, stations, JS);
        for (int t = 0; t < nt; ++t) for (int j = 0; j < nu; ++j) outV3(S("JS", t, j), JS(t, j));
        mat.calcStationJacobian(s, bodies, stations, JSflat);                outMat("JSflat", JSflat);
        mat.multiplyByStationJacobianTranspose(s, bodies, stations, FS, JStF); outVec("JStF", JStF);
        outV3("oneJSx", mat.multiplyByStationJacobian(s, bodies[nt - 1], stations[nt - 1], x));
        mat.multiplyByStationJacobianTranspose(s, bodies[nt - 1], stations[nt - 1], FS[nt - 1], JStF1); outVec("oneJStF", JStF1);
        mat.calcStationJacobian(s, bodies[nt - 1], stations[nt - 1], JS1);
        for (int j = 0; j < nu; ++j) outV3(S("oneJS", j), JS1[j]);
        mat.calcStationJacobian(s, bodies[nt - 1], stations[nt - 1], JS1flat); outMat("oneJSflat", JS1flat);

        // frame Jacobian
        Vector_<SpatialVec> JFu, JFx; Matrix_<SpatialVec> JF; Matrix JFflat; Vector JFtF, JFtF1; RowVector_<SpatialVec> JF1; Matrix JF1flat;
        mat.multiplyByFrameJacobian(s, bodies, stations, s.getU(), JFu);     outSVs("JFu", JFu);
        mat.multiplyByFrameJacobian(s, bodies, stations, x, JFx);            outSVs("JFx", JFx);
        mat.calcFrameJacobian(s, bodies, stations, JF);
        for (int t = 0; t < nt; ++t) for (int j = 0; j < nu; ++j) outSV(S("JF", t, j), JF(t, j));
        mat.calcFrameJacobian(s, bodies, stations, JFflat);                  outMat("JFflat", JFflat);
        mat.multiplyByFrameJacobianTranspose(s, bodies, stations, FF, JFtF); outVec("JFtF", JFtF);
        outSV("oneJFx", mat.multiplyByFrameJacobian(s, bodies[nt - 1], stations[nt - 1], x));
        mat.multiplyByFrameJacobianTranspose(s, bodies[nt - 1], stations[nt - 1], FF[nt - 1], JFtF1); outVec("oneJFtF", JFtF1);
        mat.calcFrameJacobian(s, bodies[nt - 1], stations[nt - 1], JF1);
        for (int j = 0; j < nu; ++j) outSV(S("oneJF", j), JF1[j]);
        mat.calcFrameJacobian(s, bodies[nt - 1], stations[nt - 1], JF1flat); outMat("oneJFflat", JF1flat);

        // bias terms JDot*u
        Vector_<SpatialVec> bias, biasF; Vector biasflat, biasSflat, biasFflat; Vector_<Vec3> biasS;
        mat.calcBiasForSystemJacobian(s, bias);          outSVs("bias", bias);
        mat.calcBiasForSystemJacobian(s, biasflat);      outVec("biasflat", biasflat);
        for (int b = 0; b < nb; ++b) outSV(S("cor", b), mat.getTotalCoriolisAcceleration(s, MobilizedBodyIndex(b)));
        mat.calcBiasForStationJacobian(s, bodies, stations, biasS);      outV3s("biasS", biasS);
        mat.calcBiasForStationJacobian(s, bodies, stations, biasSflat);  outVec("biasSflat", biasSflat);
        outV3("onebiasS", mat.calcBiasForStationJacobian(s, bodies[nt - 1], stations[nt - 1]));
        mat.calcBiasForFrameJacobian(s, bodies, stations, biasF);        outSVs("biasF", biasF);
        mat.calcBiasForFrameJacobian(s, bodies, stations, biasFflat);    outVec("biasFflat", biasFflat);
        outSV("onebiasF", mat.calcBiasForFrameJacobian(s, bodies[nt - 1], stations[nt - 1]));

        // accelerations from an arbitrary udot
        Vector_<SpatialVec> A;
        mat.calcBodyAccelerationFromUDot(s, ud, A);      outSVs("A_ud", A);
        Vector_<SpatialVec> A0;
        mat.calcBodyAccelerationFromUDot(s, Vector(), A0); outSVs("A_0", A0);   // zero length = all zero (documented)

        if (realized) {
            M.system.realize(s, Stage::Acceleration);
            const Vector& udot = s.getUDot();
            Vector_<SpatialVec> Judot, JFudot, A2; Vector_<Vec3> JSudot;
            for (int b = 0; b < nb; ++b) outSV(S("A_GB", b), mat.getMobilizedBody(bodies[b]).getBodyAcceleration(s));
            for (int t = 0; t < nt; ++t) outV3(S("st_a", t), mat.getMobilizedBody(bodies[t]).findStationAccelerationInGround(s, stations[t]));
            mat.multiplyBySystemJacobian(s, udot, Judot);                        outSVs("Judot", Judot);
            mat.multiplyByStationJacobian(s, bodies, stations, udot, JSudot);    outV3s("JSudot", JSudot);
            mat.multiplyByFrameJacobian(s, bodies, stations, udot, JFudot);      outSVs("JFudot", JFudot);
            mat.calcBodyAccelerationFromUDot(s, udot, A2);                       outSVs("A_udot", A2);
        }
    });
}
