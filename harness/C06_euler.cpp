// C06(a): converting a state between quaternion and Euler-angle coordinates preserves every body's pose, velocity and acceleration.
// args: <treeSpec> <start 0=quaternion state | 1=Euler state> <kin|dyn>   (kin: poses and velocities only; dyn: also accelerations)
// S0 (symbolic q,u, gravity, mobility forces) -> convert -> S1; both realized to Acceleration. (Both directions are separate
// instances; chaining the two conversions in one run nests two layers of inverse trigonometry, which the solver cannot digest.)
#include "common.h"
using namespace vh;
int main(int argc, char** argv) {
    return guarded([&] {
        Model M;
        bool startEuler = argOr(argc, argv, 2, "0") == "1";
        const bool dyn = argOr(argc, argv, 3, "dyn") == "dyn";
        buildTree(M, argOr(argc, argv, 1, "Ball:0"), startEuler);
        Vec3 g = inV3("g", Vec3(0.5, -9.8125, 1.25), "lin");
        Force::UniformGravity(M.forces, M.matter, g);
        Force::DiscreteForces df(M.forces, M.matter);
        State s0 = initState(M, true);
        if (!startEuler) {
            // unit quaternions parametrised by three half angles each: q = qx(a/2) qy(b/2) qz(c/2). Every unit quaternion is of this
            // form; with the angles pinned at the driver's exact points the quaternion and the rotation matrix are rational, and an
            // angle may be left free without leaving the unit sphere.
            for (int st : M.quatStarts) {
                Real h[3], sn[3], cs[3];
                static const Real seed[3] = {0.6, -0.4, 0.9};
                for (int k = 0; k < 3; ++k) { h[k] = in(S("e", st, k), seed[k], "angle"); sn[k] = std::sin(h[k] / 2); cs[k] = std::cos(h[k] / 2); }
                // (w,x,y,z) of qx*qy
                Real w1 = cs[0] * cs[1], x1 = sn[0] * cs[1], y1 = cs[0] * sn[1], z1 = sn[0] * sn[1];
                // times qz = (c2, 0, 0, s2)
                Real w = w1 * cs[2] - z1 * sn[2], x = x1 * cs[2] + y1 * sn[2], y = y1 * cs[2] - x1 * sn[2], z = z1 * cs[2] + w1 * sn[2];
                s0.updQ()[st] = w; s0.updQ()[st + 1] = x; s0.updQ()[st + 2] = y; s0.updQ()[st + 3] = z;
            }
        }
        int nu = s0.getNU(), nb = M.matter.getNumBodies();
        Vector f = inVec("f", nu, 0.375, -0.25);
        df.setAllMobilityForces(s0, f);
        State s1;
        if (startEuler) M.matter.convertToQuaternions(s0, s1);
        else            M.matter.convertToEulerAngles(s0, s1);
        symfp::note("nu", std::to_string(nu)); symfp::note("nb", std::to_string(nb));
        State* st[2] = {&s0, &s1};
        for (int k = 0; k < 2; ++k) {
            State& s = *st[k];
            M.system.realize(s, dyn ? Stage::Acceleration : Stage::Velocity);
            std::string pre = S("S", k) + "_";
            for (int b = 1; b < nb; ++b) {
                const MobilizedBody& mb = M.matter.getMobilizedBody(MobilizedBodyIndex(b));
                outXform(pre + S("X", b), mb.getBodyTransform(s));
                outSV(pre + S("V", b), mb.getBodyVelocity(s));
                if (dyn) outSV(pre + S("A", b), mb.getBodyAcceleration(s));
            }
            outVec(pre + "u", s.getU());
            if (dyn) outVec(pre + "udot", s.getUDot());
            out(pre + "t", s.getTime());
        }
    });
}
