"""Helpers shared by the tree-dynamics specs (C02, C04, C10, C14, C15)."""
from engine.driver import poly as P
from engine.driver.core import Ob
from engine.driver.encode import Constraint


def is_coord(n):
    return n.startswith("q") and n[1:].isdigit()


def subst_affine(R, p, sub):
    """p[x_j := sub[x_j]] for a polynomial p that is affine in the variables x_j (checked)"""
    coef, rest = {}, {}
    for m, c in p.items():
        hit = [(v, e) for (v, e) in m if v in sub]
        if not hit:
            rest[m] = c
            continue
        if len(hit) != 1 or hit[0][1] != 1:
            raise RuntimeError("polynomial is not affine in the substituted inputs")
        v = hit[0][0]
        coef.setdefault(v, {})[tuple(x for x in m if x[0] != v)] = c
    out = rest
    for v, cp in coef.items():
        out = P.add(out, R.mul(cp, sub[v]))
    return out


def cleared(enc, name, pairs, twin=None):
    """conjunction of equalities l = r. Denominators (hinge-inertia inverses, quaternion norms) are cleared exactly in the
    encoder (l - r = 0 <=> cleared = 0 given I*den = 1 for every inverse variable), so that the solver sees no inverse variable."""
    R = enc.ring
    goal = []
    for i, (l, r) in enumerate(pairs):
        d = P.sub(l, r)
        if any(R.kind[v] == "inv" for v in R.vars_of(d)):
            d = enc.clear_inverses(d)[0]
        goal.append(Constraint(1, d, "%s[%d]" % (name, i)))
    if long_path(enc):
        # a satisfying assignment of a long path condition (LU pivot comparisons over inverse variables) costs nlsat minutes;
        # non-vacuity of this obligation is established by its twins on the other free sets / base points of the same
        # instance, and reachability of this path by its own seed (checked numerically by the driver)
        twin = None
    elif twin is None:
        twin = pick_twin(enc, name, pairs)
    return Ob(name, goal, (), twin)


def pick_twin(enc, name, pairs):
    """deliberately wrong goal 'lhs = 2 rhs' taken from a pair whose right-hand side is numerically non-zero at the seed and
    still mentions a variable: a right-hand side that is zero only semantically (e.g. through root/inverse variables) would make
    the twin provable and the obligation look vacuous"""
    R = enc.ring
    best = None
    for l, r in pairs:
        if not r:
            continue
        d = P.sub(l, P.scale(r, 2))
        if P.is_const(d):
            continue
        try:
            val = abs(R.evalf(r, enc.vals))
        except Exception:
            continue
        if val > 1e-6 and (best is None or len(d) < best[0]):
            best = (len(d), d)
            if len(d) < 200:
                break
    if best is None:
        return None
    return [Constraint(1, best[1], name + " [twin: lhs = 2 rhs]")]


def teqs(enc, name, pairs, hyps=()):
    """conjunction of equalities (no denominator clearing) with a numerically vetted twin"""
    goal = [Constraint(1, P.sub(l, r), "%s[%d]" % (name, i)) for i, (l, r) in enumerate(pairs)]
    return Ob(name, goal, hyps, None if long_path(enc) else pick_twin(enc, name, pairs))


def long_path(enc, limit=8):
    n = getattr(enc, "_treeutil_pc_len", None)
    if n is None:
        n = enc._treeutil_pc_len = len(enc.path_condition())
    return n > limit


class LA:
    """tiny linear algebra over polynomials"""

    def __init__(self, R):
        self.R = R

    def add(self, a, b):
        return [P.add(x, y) for x, y in zip(a, b)]

    def sub(self, a, b):
        return [P.sub(x, y) for x, y in zip(a, b)]

    def scale(self, s, a):
        return [self.R.mul(s, x) for x in a]

    def dot(self, a, b):
        r = {}
        for x, y in zip(a, b):
            r = P.add(r, self.R.mul(x, y))
        return r

    def cross(self, a, b):
        m = self.R.mul
        return [P.sub(m(a[1], b[2]), m(a[2], b[1])), P.sub(m(a[2], b[0]), m(a[0], b[2])), P.sub(m(a[0], b[1]), m(a[1], b[0]))]

    def mv(self, A, v):
        return [self.dot(row, v) for row in A]

    def mm(self, A, B):
        return [[self.dot(A[i], [B[k][j] for k in range(3)]) for j in range(3)] for i in range(3)]

    def T(self, A):
        return [[A[j][i] for j in range(3)] for i in range(3)]

    def madd(self, A, B):
        return [[P.add(A[i][j], B[i][j]) for j in range(3)] for i in range(3)]

    def msub(self, A, B):
        return [[P.sub(A[i][j], B[i][j]) for j in range(3)] for i in range(3)]

    def mscale(self, s, A):
        return [[self.R.mul(s, A[i][j]) for j in range(3)] for i in range(3)]

    def point_inertia(self, m, d):
        """m (|d|^2 1 - d d^T)"""
        dd = self.dot(d, d)
        return [[self.R.mul(m, P.sub(dd if i == j else {}, self.R.mul(d[i], d[j]))) for j in range(3)] for i in range(3)]

    def zero3(self):
        return [{}, {}, {}]

    def zero33(self):
        return [[{}, {}, {}] for _ in range(3)]


THOROUGH = dict(base_points=4, max_terms=30000)   # thorough tier: 4 base points, k=2, up to 6 free-coordinate choices per base point


def tier_caps(insts, tier, big_base_points=None):
    """per-instance driver settings for the thorough tier (keeps the whole check inside its 30 min budget);
    big_base_points: base points for the 5-body trees (names '5:...') of checks whose obligations carry forward dynamics"""
    if tier == "thorough":
        for i in insts:
            for k, v in THOROUGH.items():
                i.setdefault(k, v)
            if big_base_points and i["name"].startswith("5:"):
                i["base_points"] = big_base_points
    return insts


def cap_sets(fs, tier, n=6, inst=None, big_n=None):
    if tier != "thorough":
        return fs
    if big_n and inst is not None and inst["name"].startswith("5:"):
        return fs[:big_n]
    return fs[:n]
