"""C21 Integrators keep constrained states on the manifold (partial: quaternion normalisation and prescribed motion)."""
import sys
from fractions import Fraction

from engine.driver import poly as P
from engine.driver.core import Ob, eq, eqs
from engine.driver.encode import Constraint, EncodeError

if hasattr(sys, "set_int_max_str_digits"):
    sys.set_int_max_str_digits(0)      # exact rational base points of multi-stage steps have numerators of several thousand digits

ID = "C21"
HARNESS = "C21_manifold.cpp"
EXPLANATION = ("Real integrators (ExplicitEuler, RungeKuttaMerson; RungeKutta3 and Verlet in the thorough tier) advance an unconstrained quaternion body (Ball, Free; "
               "non-spherical inertia, exactly unit initial quaternion) by 1-2 internal steps of SYMBOLIC size with SYMBOLIC initial angular/linear velocity, "
               "and a Pin driven by Motion::Steady / Motion::Sinusoid (position and velocity level) next to a free spring-loaded slider. For every state "
               "returned by stepTo (start state, step states, interpolated report states at symbolic report times) the solver proves: with projection "
               "forced, the quaternion has exactly unit norm (the projection path is SimbodyMatterSubsystem::projectQ -> normalizeQuaternions, no LAPACK); "
               "with a symbolic constraint tolerance, path-wise either the quaternion was normalised (norm exactly 1) or its error | |q| - 1 | is within the "
               "tolerance in use, and the reported qerr is |q| - 1; the prescribed mobilizer's u (Steady, Sinusoid/Velocity) resp. q and u "
               "(Sinusoid/Position) equal the prescribed functions of the returned state's own time, also for interpolated states, and the Steady "
               "mobilizer's q advances by rate * elapsed time.")
BOUNDS = ("1 quaternion per model (Ball, Free); 1-2 internal steps; free: step size, report offsets, tolerance, initial angular velocity (ExplicitEuler: "
          "step size and angular velocity; RungeKuttaMerson and the other multi-stage methods: report offsets and tolerance free, step "
          "size and velocities at exact base points), prescribed amplitude/phase/rate; initial unit quaternion at 2 (quick) / 4 "
          "(thorough) exact rational base points; path budget 2 quick / 10 thorough for the tolerance variant; obligations that are identities (forced projection, prescribed motion) are proved without the path condition; thorough adds RungeKutta3 and Verlet")
NOT_COVERED = ("position and velocity CONSTRAINT satisfaction (projection onto the constraint manifold runs through LAPACK QTZ factorisation: symbolic values "
               "cannot pass through the external binary, 'shadow != native'); event before-states; CPodes; more than one quaternion (the RMS norm over several "
               "quaternion errors) in the tolerance variant; interpolated states with projection switched off (documented as not projected)")
ASSUMPTIONS = ["step size in (1/1024, 1), report offset r in (0, h), tolerance in (0, 1/2)"]


def _instances(tier, seed):
    th = tier == "thorough"
    out = []
    integs = ("ExplicitEuler", "RungeKuttaMerson") + (("RungeKutta3", "Verlet") if th else ())
    for ig in integs:
        extra = ig in ("RungeKutta3", "Verlet")
        for mob in ("Ball", "Free"):
            for opt in ("force", "tol"):
                for rep in ("", "interp"):
                    ns = 2 if ig == "ExplicitEuler" else 1
                    if (not th or extra) and mob == "Free" and (rep == "interp") and ig != "ExplicitEuler":
                        continue
                    if opt == "tol" and mob == "Free" and (not th or extra):
                        continue
                    out.append(dict(name="quat/%s/%s/%s%s" % (mob, ig, opt, "/interp" if rep else ""), args=["quat", mob, ig, opt, str(ns)] + ([rep] if rep else []),
                                    base_points=(2 if (not th or ig != "ExplicitEuler") else 4) if opt == "force" else 1, paths=1 if opt == "force" else (2 if not th else 10), flips_per_path=(2 if not th else 3),
                                    seedcase=(None if ig == "ExplicitEuler" else dict(h=0.5, u0=1.5, u1=-2.0, u2=1.0) if ig == "RungeKuttaMerson"
                                              else dict(h=0.1875, u0=0.75, u1=-1.0, u2=0.5)),
                                    max_terms=(3000 if opt == "force" else 40000), abstract_big=True, pc_max_terms=(1 if opt == "force" else (6000 if ig == "ExplicitEuler" else 1500))))
        if ig == "RungeKuttaMerson":
            # known finding: with the step size pinned at the user minimum a DAE step that failed to converge (projection refused) is accepted
            out.append(dict(name="quat/Ball/Verlet/force/minstep", args=["quat", "Ball", "Verlet", "force", "1"], base_points=1, paths=1,
                            seedcase=dict(h=0.625, u0=1.875, u1=-2.5, u2=1.25), max_terms=3000, abstract_big=True, pc_max_terms=1))
        for mo in ("steady", "sinP", "sinV"):
            for rep in ("step", "interp"):
                out.append(dict(name="presc/%s/%s/%s" % (mo, ig, rep), args=["presc", mo, ig, rep], base_points=1 if not th else 2, paths=1, max_terms=4000,
                                abstract_big=True, pc_max_terms=1))
    return out


def instances(tier, seed):
    out = _instances(tier, seed)
    for i in out:
        # wall-clock bounds: a twin (satisfiable by design) that nlsat cannot settle quickly is simply not counted as refuted
        i.setdefault("twin_timeout_ms", 15000)
        i.setdefault("z3_timeout_ms", 120000)
    return out


def adjust_seeds(inst, seeds, angle_pins, rng, g):
    # multi-stage methods: a large step and spin so that an unprojected (interpolated) quaternion is visibly off the unit sphere
    for k, v in (inst.get("seedcase") or {}).items():
        if k in seeds:
            seeds[k] = v * (1 + 0.25 * g)



def free_sets(inst, tr, tier, rng):
    a = inst["args"]
    names = [n for n, k, _, _ in tr.inputs]
    if a[0] == "quat":
        fr = ["h", "r0", "r1", "tol"]
        if a[2] == "ExplicitEuler":
            fr += ["u0", "u1"] + (["u2"] if a[3] == "force" else [])
        else:
            # multi-stage methods evaluate the rotation of non-unit stage quaternions (one inverse variable per stage): with h or u free the
            # advanced quaternion exceeds the polynomial size budget. Free: report offsets and tolerance; h and u at exact base points.
            fr = ["r0", "r1", "tol"]
        return [[n for n in fr if n in names]]
    fr = ["h", "r0", "r1", "amp", "phase"] + (["rate", "qp0"] if a[1] == "steady" else [])
    return [[n for n in fr if n in names]]


def _inp(enc, n):
    return enc.poly(enc.t.input_by_name[n][2])


def input_domain(enc, inst):
    cs = []
    names = enc.t.input_by_name
    if "h" in names:
        h = _inp(enc, "h")
        if enc.is_free("h"):
            cs.append(Constraint(2, P.sub(h, P.const(Fraction(1, 1024))), "h>1/1024"))
            cs.append(Constraint(4, P.sub(h, P.const(1)), "h<1"))
        for r in ("r0", "r1"):
            if r in names and enc.is_free(r):
                cs.append(Constraint(2, P.sub(_inp(enc, r), P.const(Fraction(1, 4096))), r + ">0"))
                cs.append(Constraint(4, P.sub(_inp(enc, r), h), r + "<h"))
    if "tol" in names and enc.is_free("tol"):
        cs.append(Constraint(2, P.sub(_inp(enc, "tol"), P.const(Fraction(1, 100000))), "tol>1e-5"))
        cs.append(Constraint(4, P.sub(_inp(enc, "tol"), P.const(Fraction(1, 2))), "tol<1/2"))
    return cs


def obligations(enc, inst, tr):
    if tr.note("exception"):
        return [Ob("no exception", [Constraint(1, P.const(1), "exception: " + tr.note("exception")[:100])])]
    return (ob_quat if inst["args"][0] == "quat" else ob_presc)(enc, inst, tr)


def find_literal(enc, p):
    """index of a path-condition literal whose polynomial is p up to a constant factor, else None"""
    if not p:
        return None
    key = P.key(P.monic(p)[1])
    for idx, c in enc.path_condition():
        if c.p and P.key(P.monic(c.p)[1]) == key:
            return idx
    return None


def ob_quat(enc, inst, tr):
    R = enc.ring
    o = enc.out
    a = inst["args"]
    opt, interp = a[3], (len(a) > 5 and a[5] == "interp")
    nret, ns = int(tr.note("nret")), int(a[4])
    obs = [Ob("the run returned the start state and %d %s states after %d internal steps" % (ns, "interpolated report" if interp else "step", ns),
              [Constraint(1, P.const(0 if (nret == ns + 1 and tr.note("nsteps") == str(ns) and all(tr.note("interp%d" % c) == ("1" if (interp and c > 0) else "0") for c in range(nret))) else 1), "shape")])]
    tol = o("tol")
    for c in range(nret):
        q = [o("q%d_%d" % (c, i)) for i in range(4)]
        n2 = {}
        for x in q:
            n2 = P.add(n2, R.mul(x, x))
        what = "start state" if c == 0 else ("interpolated report state %d" % c if interp else "step state %d" % c)
        n2_seed = R.evalf(n2, enc.vals)
        normalised = abs(n2_seed - 1.0) < 1e-13
        if opt == "force" or normalised:
            # (the refutable twin |q|^2 = 2 is only asked where the coefficients are short: with pinned multi-stage data the satisfiable query
            #  over algebraic numbers with thousands of digits takes minutes)
            ob = eq(enc, "%s: quaternion has exactly unit norm%s" % (what, "" if opt == "force" else " (normalised on this path)"), n2, P.const(1),
                    twin=(a[2] == "ExplicitEuler"))
            ob.pc_only = set()          # an identity of the normalisation: no path literal needed
            obs.append(ob)
        else:
            qe = o("qerr%d" % c)
            q1 = P.add(qe, P.const(1))
            obs.append(Ob("%s: reported quaternion error is |q| - 1" % what, [Constraint(1, P.sub(R.mul(q1, q1), n2), "(qerr+1)^2=|q|^2")], pc_only=set()))
            obs.append(Ob("%s: 1 + qerr >= 0" % what, [Constraint(3, q1, "qerr+1>=0")], pc_only=set()))
            # |qerr| as the code forms it (RMS norm of the single quaternion error = sqrt(qerr^2)): the same algebraic number as in the path literal
            absq = enc.root(R.mul(qe, qe), 2, abs(R.evalf(qe, enc.vals)))
            lit = find_literal(enc, P.sub(absq, tol))   # the code's own comparison of this error with the tolerance, if it is on the path
            obs.append(Ob("%s: quaternion error |qerr| = sqrt(qerr^2) within the constraint tolerance in use (not normalised on this path)" % what,
                          [Constraint(5, P.sub(absq, tol), "|qerr|<=tol")], pc_only=(None if lit is None else {lit}),
                          twin=([Constraint(5, P.sub(absq, P.scale(tol, Fraction(1, 1000))), "[twin: within tol/1000]")]
                                if any(R.kind[v] == "free" and R.names[v] != "x_tol" for v in R.vars_of(n2)) else None)))
    return obs


def ob_presc(enc, inst, tr):
    R = enc.ring
    o = enc.out
    mo, ig, rep = inst["args"][1:4]
    nret = int(tr.note("nret"))
    interp = rep == "interp"
    obs = [Ob("the run returned the start state and 2 %s states after 2 internal steps" % ("interpolated report" if interp else "step"),
              [Constraint(1, P.const(0 if (nret == 3 and tr.note("nsteps") == "2" and all(tr.note("interp%d" % c) == ("1" if (interp and c > 0) else "0") for c in range(nret))) else 1), "shape")])]
    rate, amp = o("rate"), o("amp")
    for c in range(nret):
        what = "start state" if c == 0 else ("interpolated report state %d" % c if interp else "step state %d" % c)
        if mo == "steady":
            obs.append(eq(enc, "%s: prescribed speed u = rate" % what, o("up%d" % c), rate))
            obs.append(eq(enc, "%s: q advanced by rate * elapsed time" % what, o("qp%d" % c), P.add(o("qp_init"), R.mul(rate, P.sub(o("t%d" % c), o("t0"))))))
        elif mo == "sinP":
            obs.append(eqs(enc, "%s: q = a sin(w t + p), u = a w cos(w t + p) at the state's own time" % what,
                           [(o("qp%d" % c), R.mul(amp, o("sin%d" % c))), (o("up%d" % c), R.mul(R.mul(amp, rate), o("cos%d" % c)))]))
        else:
            obs.append(eq(enc, "%s: u = a sin(w t + p) at the state's own time" % what, o("up%d" % c), R.mul(amp, o("sin%d" % c))))
    return obs
