"""C14 Mobilizer reaction forces satisfy Newton-Euler for every body."""
from engine.driver import poly as P
from engine.driver.core import Ob, eq, eqs
from engine.driver.encode import Constraint
from spec import catalogue as cat
from spec.treeutil import LA, cleared, is_coord, tier_caps, cap_sets

ID = "C14"
HARNESS = "C14_reactions.cpp"
EXPLANATION = ("calcMobilizerReactionForces, calcMobilizerReactionForcesUsingFreebodyMethod and MobilizedBody::findMobilizerReactionOn"
               "BodyAtMInGround / OnBodyAtOriginInGround / OnParentAtFInGround / OnParentAtOriginInGround of the real library are executed after "
               "realize(Acceleration) on symbolic trees with symbolic applied mobility forces f and body forces F (through Force::DiscreteForces, "
               "Ground included), in three modes: free dynamics, every mobilizer prescribed by an acceleration-level Motion with symbolic udot, "
               "and only the base mobilizer prescribed. Proved for all real u, f, F, prescribed udot and all values of the free coordinates, "
               "from the reported poses, velocities, accelerations and mass properties: for every body (and for Ground) "
               "m a_com = F_applied + R_b - sum_children R_c and I_O alpha + w x I_O w + m r x a_O = moments of the same forces about the body "
               "origin (reactions applied at the M frame origins); the reaction on the parent at F (and at the parent origin) is minus the "
               "reaction on the child shifted from M; the at-origin form is the shifted at-M form; both calculation methods agree.")
BOUNDS = ("tree catalogue (spec/catalogue.py) incl. Weld, plus three 3-body chains with a massless intermediate body; all built-in mobilizers "
          "forward/reversed, quaternion/Euler; u, f, F, prescribed udot free; k free coordinates at a time (1 quick / 2 thorough, up to 6 choices per base point; quick tier: one "
          "choice of free coordinate per base point plus the all-coordinates-pinned set where forward dynamics is involved, two choices in the all-prescribed mode; quick tier, multi-body trees containing Free/FreeLine/Bushing/CantileverFreeBeam/Ellipsoid with forward dynamics: coordinates pinned only), other "
          "coordinates and mass/frame parameters pinned at exact rational base points (2 quick / 4 thorough); fallback to linear inputs only "
          "when the encoder's term limit is exceeded; hinge-inertia inverses assumed to exist (division side conditions); LU pivoting "
          "path of 6-dof hinge matrices fixed by the path condition")
NOT_COVERED = ("thorough tier: the 5-body trees get 2 base points and 2 choices of free coordinates only; constraint forces (multipliers are computed by LAPACK, see C08); position/velocity-level Motions and locks (C10 covers their "
               "kinematics); trees beyond the catalogue; more than k simultaneously free coordinates; float; rounding")

MASSLESS = [("3C:Pin-Slider*-Pin", "Pin:0,Slider:1,Pin:2", 2), ("3C:Universal-Weld*-Ball", "Universal:0,Weld:1,Ball:2", 2),
            ("3C:Gimbal-Pin*-Cylinder:rev", "Gimbal:0,Pin:1/1,Cylinder:2r", 2)]


def instances(tier, seed):
    out = []
    for i in cat.tree_instances(tier, seed, "C14"):
        nbodies = len(i["args"][0].split(","))
        out.append(dict(name=i["name"], args=i["args"] + ["0", "0"], mode=0))
        out.append(dict(name=i["name"] + "|prescribed", args=i["args"] + ["1", "0"], mode=1))
        if nbodies > 1:
            out.append(dict(name=i["name"] + "|base-prescribed", args=i["args"] + ["2", "0"], mode=2))
    for n, spec, ml in MASSLESS:
        out.append(dict(name=n, args=[spec, "0", "0", str(ml)], mode=0))
        out.append(dict(name=n + "|base-prescribed", args=[spec, "0", "2", str(ml)], mode=2))
    return tier_caps(out, tier, big_base_points=2)


HEAVY = ("Free", "FreeLine", "Bushing", "CantileverFreeBeam", "Ellipsoid")   # LU-inverted 5/6-dof hinge matrices, non-trig use of angles


def free_sets(inst, tr, tier, rng):
    fs = list(cat.coordinate_free_sets(inst, tr, tier, rng, always=("u", "f_", "F", "a_")))
    if tier != "quick":
        return cap_sets(fs, tier, inst=inst, big_n=2)
    if inst.get("mode") == 1:
        return fs[:2]           # no hinge-matrix inverses: cheap
    # quick tier, forward dynamics involved: one free-coordinate set per base point + the set with every coordinate pinned;
    # multi-body trees containing a HEAVY mobilizer: coordinates pinned only (their polynomials carry 500-digit coefficients)
    lin = [n for n in fs[0] if not is_coord(n)]
    mobs = [t.split(":")[0] for t in inst["args"][0].split(",")]
    if len(mobs) > 1 and any(m in HEAVY for m in mobs):
        return [lin]
    return fs[:1] + ([lin] if lin not in fs[:1] else [])


def obligations(enc, inst, tr):
    R = enc.ring
    L = LA(R)
    nb = int(tr.note("nb"))
    parents = [int(x) for x in tr.note("parents").split()]
    o = enc.out
    inp = lambda n: enc.poly(tr.input_by_name[n][2])
    v3 = lambda n: [o("%s_%d" % (n, i)) for i in range(3)]
    m33 = lambda n: [[o("%s_%d_%d" % (n, i, j)) for j in range(3)] for i in range(3)]
    v3in = lambda n: [inp("%s_%d" % (n, i)) for i in range(3)]
    bodies = range(1, nb)
    I3 = [[P.const(1 if i == j else 0) for j in range(3)] for i in range(3)]
    Rb = {0: I3}
    p = {0: L.zero3()}
    for b in bodies:
        Rb[b] = m33("X_GB%d_R" % b)
        p[b] = v3("X_GB%d_p" % b)
    w = {b: v3("V_GB%d_w" % b) for b in bodies}
    al = {b: v3("A_GB%d_w" % b) for b in bodies}
    a = {b: v3("A_GB%d_v" % b) for b in bodies}
    m = {b: o("m%d" % b) for b in bodies}
    cB = {b: v3("com%d" % b) for b in bodies}
    IB = {b: m33("I%d" % b) for b in bodies}
    Fw = {b: v3in("F%d_w" % b) for b in range(nb)}      # applied torque
    Fv = {b: v3in("F%d_v" % b) for b in range(nb)}      # applied force at the body origin
    reac = {b: (v3("reac%d_w" % b), v3("reac%d_v" % b)) for b in range(nb)}
    pM = {0: L.zero3()}                                   # location of the M frame origin in Ground
    pF = {}                                               # location of the F frame origin (on the parent) in Ground
    for b in bodies:
        pM[b] = L.add(p[b], L.mv(Rb[b], v3("pBM%d" % b)))
        pF[b] = L.add(p[parents[b]], L.mv(Rb[parents[b]], v3("pPF%d" % b)))

    def shift(sf, frm, to):
        """spatial force (moment, force) applied at point frm, re-expressed as applied at point to"""
        t, f = sf
        return (L.add(t, L.cross(L.sub(frm, to), f)), f)

    def neg(sf):
        return ([P.neg(x) for x in sf[0]], [P.neg(x) for x in sf[1]])

    obs = []
    ne = []
    for b in range(nb):
        # total spatial force on b about its origin: applied + own mobilizer reaction - reactions it exerts on its children
        tot_t, tot_f = Fw[b], Fv[b]
        t, f = shift(reac[b], pM[b], p[b])
        tot_t, tot_f = L.add(tot_t, t), L.add(tot_f, f)
        for c in bodies:
            if parents[c] == b:
                t, f = shift(reac[c], pM[c], p[b])
                tot_t, tot_f = L.sub(tot_t, t), L.sub(tot_f, f)
        if b == 0:
            lhs_f, lhs_t = L.zero3(), L.zero3()
        else:
            r = L.mv(Rb[b], cB[b])
            IG = L.mm(L.mm(Rb[b], IB[b]), L.T(Rb[b]))
            acom = L.add(L.add(a[b], L.cross(al[b], r)), L.cross(w[b], L.cross(w[b], r)))
            lhs_f = L.scale(m[b], acom)
            lhs_t = L.add(L.add(L.mv(IG, al[b]), L.cross(w[b], L.mv(IG, w[b]))), L.scale(m[b], L.cross(r, a[b])))
        ne.append((b, list(zip(lhs_f, tot_f)), list(zip(lhs_t, tot_t))))
    for b, pf, pt in ne:
        nm = "Ground" if b == 0 else "body %d" % b
        tw = [Constraint(1, P.sub(pf[0][1], P.add(P.scale(pf[0][0], 2), P.const(1))), "NE force x [twin]")]
        obs.append(cleared(enc, "Newton: %s: m a_com = applied + reaction - children's reactions" % nm, [(y, x) for x, y in pf], twin=tw))
        obs.append(cleared(enc, "Euler: %s: I alpha + w x I w + m r x a = moments about the body origin" % nm, [(y, x) for x, y in pt], twin=tw))
    pairs_m, pairs_o, pairs_f, pairs_po, pairs_fb = [], [], [], [], []
    flat = lambda sf: sf[0] + sf[1]
    sv = lambda n: (v3(n + "_w"), v3(n + "_v"))
    for b in bodies:
        pairs_m += list(zip(flat(sv("onB_M%d" % b)), flat(reac[b])))
        pairs_o += list(zip(flat(sv("onB_O%d" % b)), flat(shift(reac[b], pM[b], p[b]))))
        pairs_f += list(zip(flat(sv("onP_F%d" % b)), flat(neg(shift(reac[b], pM[b], pF[b])))))
        pairs_po += list(zip(flat(sv("onP_O%d" % b)), flat(neg(shift(reac[b], pM[b], p[parents[b]])))))
    for b in range(nb):
        pairs_fb += list(zip(flat(sv("reacFB%d" % b)), flat(reac[b])))
    obs.append(cleared(enc, "findMobilizerReactionOnBodyAtMInGround = calcMobilizerReactionForces entry", pairs_m))
    obs.append(cleared(enc, "reaction on body at origin = at-M reaction shifted to the body origin", pairs_o))
    obs.append(cleared(enc, "reaction on parent at F = -(reaction on child at M shifted to F)", pairs_f))
    obs.append(cleared(enc, "reaction on parent at parent origin = -(reaction on child shifted to the parent origin)", pairs_po))
    obs.append(cleared(enc, "calcMobilizerReactionForcesUsingFreebodyMethod = calcMobilizerReactionForces", pairs_fb))
    return obs
