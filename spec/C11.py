"""C11 (partial, differential form) Energy and momentum conservation."""
from fractions import Fraction

from engine.driver import poly as P
from engine.driver.core import Ob, eq, eqs
from engine.driver.encode import Constraint
from spec import catalogue as cat
from spec import forcelaws as FL

ID = "C11"
HARNESS = "C11_energy.cpp"
EXPLANATION = ("Differential form only. Models with symbolic mass properties, frames, force parameters, q and u are realized to "
               "Stage::Acceleration; the code's own udot (forward dynamics), qdot, calcKineticEnergy, calcPotentialEnergy and "
               "calcSystemMomentumAboutGroundOrigin are outputs. d/dt is the exact forward-mode derivative of the output DAGs along "
               "q -> qdot_code, u -> udot_code. Proved: conservative force sets (Gravity/UniformGravity, two-point springs, mobility springs, "
               "undamped LinearBushing; no constraints): d(KE+PE)/dt = 0; free-floating models (Free base mobilizer, internal forces only): "
               "d/dt of all six components of calcSystemMomentumAboutGroundOrigin = 0 (also with internal dampers); with dampers: d(KE+PE)/dt = -(sum of documented dissipation terms c s^2) [equality] and each term <= 0 [inequality], "
               "for LinearBushing dE/dt = -getPowerDissipation = -zdot of its dissipated-energy state variable.")
BOUNDS = ("models of spec/C11.py (1-3 bodies); u and all 'lin' force parameters free, coordinates pinned at exact base points (2 quick / 6 thorough) "
          "plus, where the encoder size limit allows, one free coordinate at a time (falls back to pinned coordinates otherwise: recorded in evidence 'extra')")
NOT_COVERED = ("drift of energy/momentum over simulated intervals as a function of integrator accuracy (an error bound over thousands of error-control "
               "decisions, not an identity) is NOT covered; constrained models (multipliers go through LAPACK); prescribed motion; models beyond 3 bodies; "
               "contact and cable elements; float; rounding")


def _inst(name, tree, fset, kind, euler=False, **kw):
    d = dict(name=name, args=[tree, "1" if euler else "0", fset], kind=kind)
    d.update(kw)
    return d


def instances(tier, seed):
    th = tier == "thorough"
    out = [
        _inst("cons:Pin-Slider:grav+spring", "Pin:0,Slider:1", "grav+spring", "cons"),
        _inst("cons:Gimbal:grav+gspring+mspring", "Gimbal:0", "grav+gspring+mspring:1:1", "cons"),
        _inst("cons:Pin-Pin:ugrav+gspring+mspring", "Pin:0,Pin:1/1", "ugrav+gspring+mspring:2:0", "cons"),
        _inst("cons:Slider-Pin:bushing0+grav", "Slider:0/1,Pin:1/1", "bushing0+grav", "cons", pinq=True),
        _inst("free:Free-Pin:spring+mspring", "Free:0,Pin:1/1", "spring+mspring:2:0", "free", euler=True, pinq=True),
        _inst("free:Free-Slider:spring+damper+mdamper", "Free:0,Slider:1/1", "spring+damper+mdamper:2:0", "free", euler=True, pinq=True),
        _inst("diss:Pin-Slider:grav+spring+damper+mdamper+gdamper", "Pin:0,Slider:1", "grav+spring+damper+mdamper:2:0+gdamper", "diss"),
        _inst("diss:Slider-Pin:bushing+grav", "Slider:0/1,Pin:1/1", "bushing+grav", "diss", pinq=True),
    ]
    if th:
        out += [
            _inst("cons:Universal-Pin:grav+spring+mspring", "Universal:0,Pin:1", "grav+spring+mspring:1:1", "cons"),
            _inst("cons:Planar-Pin-Pin:grav+spring", "Planar:0,Pin:1/1,Pin:1/1", "grav+spring+gspring", "cons"),
            _inst("cons:Ball:grav+gspring", "Ball:0", "grav+gspring", "cons"),
            _inst("cons:Ball:grav+gspring:euler", "Ball:0", "grav+gspring", "cons", euler=True),
            _inst("cons:Cylinder-Slider:ugrav+spring", "Cylinder:0,Slider:1", "ugrav+spring+mspring:1:1", "cons"),
            _inst("free:Free-Pin:quat:spring", "Free:0,Pin:1/1", "spring+mspring:2:0", "free", pinq=True),
            _inst("free:Free-Universal:bushing", "Free:0,Universal:1/1", "bushing", "free", euler=True, pinq=True),
            _inst("free:Free-Pin-Pin:spring+damper", "Free:0,Pin:1/1,Slider:2/1", "spring+damper+mspring:3:0", "free", euler=True, pinq=True),
            _inst("diss:Gimbal-Pin:grav+damper+gdamper", "Gimbal:0,Pin:1/1", "grav+gspring+damper+gdamper", "diss"),
            _inst("diss:Universal:mdamper", "Universal:0", "grav+mspring:1:0+mdamper:1:1+gdamper", "diss"),
        ]
    return out


def free_sets(inst, tr, tier, rng):
    lin = [n for n, kind, _, _ in tr.inputs if kind == "lin"]
    if inst.get("pinq"):
        return [lin]
    sets = cat.coordinate_free_sets(inst, tr, tier, rng, always=(), k=1, maxsets=2 if tier == "quick" else 4)
    return [lin + [n for n in s if n not in lin] for s in sets]


class _Inst(dict):
    pass


def obligations(enc, inst, tr):
    if tr.note("exception"):
        raise RuntimeError("harness exception: " + tr.note("exception"))
    R = enc.ring
    m = R.mul
    nu, nq, nb = int(tr.note("nu")), int(tr.note("nq")), int(tr.note("nb"))
    inp = lambda n: enc.poly(tr.input_by_name[n][2])
    tang = {}
    for i in range(nq):
        if ("q%d" % i) in tr.input_by_name:
            tang["q%d" % i] = enc.out("qdot_%d" % i)
    for i in range(nu):
        tang["u%d" % i] = enc.out("udot_%d" % i)
    tag = "traj"
    dKE = enc.out_tangent("KE", tang, tag)
    dPE = enc.out_tangent("PE", tang, tag)
    dE = P.add(dKE, dPE)
    unit = cat.unit_quaternion_hyps(enc, tr)
    kind = inst["kind"]
    fset = inst["args"][2].split("+")
    obs = []
    obs.append(eq(enc, "calcEnergy = calcKineticEnergy + calcPotentialEnergy", enc.out("E"), P.add(enc.out("KE"), enc.out("PE"))))
    diss_terms = [f for f in fset if f.split(":")[0] in ("damper", "mdamper", "gdamper", "bushing")]
    if kind == "free":
        pairs = []
        for part in ("w", "v"):
            for i in range(3):
                pairs.append((enc.out_tangent("mom_%s_%d" % (part, i), tang, tag), {}))
        mom = [enc.out("mom_v_%d" % i) for i in range(3)]
        ob = eqs(enc, "free-floating, internal forces only: d/dt calcSystemMomentumAboutGroundOrigin = 0 (angular and linear)", pairs, hyps=unit)
        # twin: the angular momentum itself is not identically zero / its derivative w.r.t. a wrong tangent is not zero
        wrong = dict(tang)
        wrong["u0"] = P.add(tang["u0"], P.const(1))
        ob.twin = [Constraint(1, enc.out_tangent("mom_w_0", wrong, tag + "-wrong"), "d/dt with perturbed udot_0 [twin]")]
        obs.append(ob)
    if not diss_terms:
        ob = eq(enc, "conservative model: d/dt (KE + PE) = 0 along the code's own qdot, udot", dKE, P.neg(dPE), hyps=unit)
        obs.append(ob)
        return obs
    # documented dissipation: sum c_i s_i^2
    doc = {}
    ctx = None
    for f in diss_terms:
        parts = f.split(":")
        if parts[0] == "gdamper":
            c = inp("gd_c")
            for i in range(nu):
                doc = P.add(doc, m(c, m(inp("u%d" % i), inp("u%d" % i))))
        elif parts[0] == "mdamper":
            n = "mdamper%s_%s" % (parts[1], parts[2])
            ui = inp("u%d" % int(tr.note(n + "_uix")))
            doc = P.add(doc, m(inp(n + "_c"), m(ui, ui)))
        elif parts[0] == "damper":
            fake = _Inst(args=["TwoPointLinearDamper", inst["args"][0], inst["args"][1], "%s%d" % (tr.note("first"), nb - 1), "law"])
            ctx = FL.Ctx(enc, fake, tr)
            v = ctx.v
            r1, P1, v1 = ctx.station(ctx.a, ctx.inp3("da_st1"))
            r2, P2, v2 = ctx.station(ctx.b, ctx.inp3("da_st2"))
            r = v.sub(P2, P1)
            d = enc.root(v.dot(r, r), 2, None)
            s = m(v.dot(v.sub(v2, v1), r), enc.inv(d))            # separation rate
            doc = P.add(doc, m(inp("da_c"), m(s, s)))
        elif parts[0] == "bushing":
            bp = {}
            for i in range(6):
                qd = enc.out("bqd_%d" % i)
                bp = P.add(bp, m(inp("bc_%d" % i), m(qd, qd)))
            doc = P.add(doc, bp)
            obs.append(eq(enc, "LinearBushing: reported power dissipation = sum c_i qdot_i^2", enc.out("bpow"), bp))
            obs.append(eq(enc, "LinearBushing: zdot of the dissipated-energy state = reported power dissipation", enc.out("zdot_0"), enc.out("bpow")))
    obs.append(eq(enc, "dissipative model: d/dt (KE + PE) = -(sum of documented dissipation terms c s^2)", dE, P.neg(doc), hyps=unit))
    from spec.C12 import term_nonpositive

    class _C:
        pass
    c = _C()
    c.R, c.enc = R, enc
    obs.append(term_nonpositive(c, "each dissipation term -(c s^2) is <= 0 for c >= 0 (so dE/dt <= 0)", "damping"))
    if kind == "diss" and "bushing" in fset:
        obs.append(eq(enc, "LinearBushing model: d/dt (KE + PE) = -zdot(dissipated energy): the report accounts for the loss", dE, P.neg(enc.out("zdot_0")), hyps=unit))
    return obs
