"""Force::LinearBushing: documented law (Force_LinearBushing.h 'Theory') as obligations over harness/C38_forces.cpp outputs."""
from fractions import Fraction

from engine.driver import poly as P
from engine.driver.core import Ob, eq, eqs
from engine.driver.encode import Constraint
from spec import forcelaws as FL


def rot_xyz(ctx, sc):
    """body-fixed X-Y-Z rotation matrix from [(s0,c0),(s1,c1),(s2,c2)]: Rx(q0) Ry(q1) Rz(q2)"""
    one, z = P.const(1), {}
    (s0, c0), (s1, c1), (s2, c2) = sc
    Rx = [[one, z, z], [z, c0, P.neg(s0)], [z, s0, c0]]
    Ry = [[c1, z, s1], [z, one, z], [P.neg(s1), z, c1]]
    Rz = [[c2, P.neg(s2), z], [s2, c2, z], [z, z, one]]
    return ctx.v.mm(ctx.v.mm(Rx, Ry), Rz)


def frame_from_inputs(ctx, name):
    """Transform(Rotation(BodyRotationSequence, ax, X, ay, Y, az, Z), p) built by vh::inFrame(name, 2, ...)"""
    e, tr = ctx.enc, ctx.tr
    sc = [e.sincos(tr.input_by_name["%s_a%s" % (name, ax)][2]) for ax in "xyz"]
    return rot_xyz(ctx, sc), ctx.inp3(name + "_p")


def bushing(ctx):
    """returns dict with oracle frames, coordinates' trig pairs, documented generalized forces and the Law (body forces, PE)"""
    enc, R, v = ctx.enc, ctx.R, ctx.v
    m = R.mul
    a, b = ctx.a, ctx.b
    RF_B, pF_B = frame_from_inputs(ctx, "XF")
    RM_B, pM_B = frame_from_inputs(ctx, "XM")
    R1, p1, R2, p2 = ctx.Rb(a), ctx.pb(a), ctx.Rb(b), ctx.pb(b)
    R_GF, p_GF = v.mm(R1, RF_B), v.add(p1, v.mv(R1, pF_B))
    R_GM, p_GM = v.mm(R2, RM_B), v.add(p2, v.mv(R2, pM_B))
    R_FM = v.mm(v.mt(R_GF), R_GM)
    p_FM = v.mtv(R_GF, v.sub(p_GM, p_GF))
    q = [ctx.out("bq_%d" % i) for i in range(6)]
    qd = [ctx.out("bqd_%d" % i) for i in range(6)]
    k = [ctx.inp("k_%d" % i) for i in range(6)]
    c = [ctx.inp("c_%d" % i) for i in range(6)]
    # (sin, cos) of the code's inferred Euler angles: the output nodes are atan2 nodes -> derived angle atoms
    sc = []
    for i in range(3):
        o = ctx.tr.outputs["bq_%d" % i]
        if o[0] == "c":
            import math
            raise RuntimeError("concrete bushing angle")
        sc.append(enc.sincos(o[1]))
    f = [P.neg(P.add(m(k[i], q[i]), m(c[i], qd[i]))) for i in range(6)]       # f_i = -(k_i q_i + c_i qdot_i)
    PE = {}
    powd = {}
    for i in range(6):
        PE = P.add(PE, P.scale(m(k[i], m(q[i], q[i])), Fraction(1, 2)))        # e_i = k_i q_i^2 / 2
        powd = P.add(powd, m(c[i], m(qd[i], qd[i])))                           # p_i = c_i qdot_i^2
    # moment on body 2 expressed in M: ~N f_rot with qdot = N(q) w_FM_M for a body-fixed 1-2-3 sequence, i.e. the moment whose
    # virtual power m.w equals sum f_i qdot_i. Rows of N^-1 (w_M = Ninv qdot): columns h0=(c1 c2,-c1 s2,s1), h1=(s2,c2,0), h2=(0,0,1)
    (s0, c0), (s1, c1), (s2, c2) = sc
    ic1 = enc.inv(c1)
    N = [[m(c2, ic1), P.neg(m(s2, ic1)), {}],
         [s2, c2, {}],
         [P.neg(m(m(s1, c2), ic1)), m(m(s1, s2), ic1), P.const(1)]]
    mM = v.mtv(N, f[:3])
    mG = v.mv(R_GM, mM)
    fG = v.mv(R_GF, f[3:])                     # translational forces are aligned with F's axes, act on body 2 at OM
    L = FL.Law(ctx.nb, ctx.nu)
    rM2 = v.sub(p_GM, p2)                      # OM measured from body 2's origin, in G
    rM1 = v.sub(p_GM, p1)                      # the reaction acts on body 1 at the same point of space
    L.apply_at(ctx, b, rM2, fG); L.torque(ctx, b, mG)
    L.apply_at(ctx, a, rM1, v.neg(fG)); L.torque(ctx, a, v.neg(mG))
    L.PE = PE
    L.power_diss = powd
    return dict(R_GF=R_GF, p_GF=p_GF, R_GM=R_GM, p_GM=p_GM, R_FM=R_FM, p_FM=p_FM, q=q, qd=qd, sc=sc, f=f, PE=PE, pow=powd, L=L,
                mG=mG, fG=fG, k=k, c=c)


def _mat_pairs(ctx, name, Rm, p):
    pairs = [(ctx.out("%s_R_%d_%d" % (name, i, j)), Rm[i][j]) for i in range(3) for j in range(3)]
    pairs += [(ctx.out("%s_p_%d" % (name, i)), p[i]) for i in range(3)]
    return pairs


def nonsingular_hyp(ctx, B):
    # documented: singular when the middle angle is near 90 degrees (cos q1 = 0); the code's branch Rsum > 4 eps is in the path condition
    return []


def definition_obligations(ctx, B, label=""):
    enc, v = ctx.enc, ctx.v
    tag = "LinearBushing: "
    obs = []
    obs.append(eqs(enc, tag + "getX_GF/getX_GM/getX_FM = frames composed from body poses%s" % label,
                   _mat_pairs(ctx, "bX_GF", B["R_GF"], B["p_GF"]) + _mat_pairs(ctx, "bX_GM", B["R_GM"], B["p_GM"]) + _mat_pairs(ctx, "bX_FM", B["R_FM"], B["p_FM"])))
    Rq = rot_xyz(ctx, B["sc"])
    obs.append(eqs(enc, tag + "getQ: body-fixed XYZ rotation by (q0,q1,q2) reproduces R_FM%s" % label,
                   [(Rq[i][j], B["R_FM"][i][j]) for i in range(3) for j in range(3)]))
    obs.append(eqs(enc, tag + "getQ: (q3,q4,q5) = p_FM%s" % label, [(B["q"][3 + i], B["p_FM"][i]) for i in range(3)]))
    tang = ctx.q_tangents()
    obs.append(eqs(enc, tag + "getQDot = d/dt getQ along the motion%s" % label,
                   [(B["qd"][i], enc.out_tangent("bq_%d" % i, tang, "qdot")) for i in range(6)]))
    obs.append(eqs(enc, tag + "getF: f_i = -(k_i q_i + c_i qdot_i)%s" % label, [(ctx.out("bf_%d" % i), B["f"][i]) for i in range(6)]))
    obs.append(eqs(enc, tag + "PE: potential energy = sum k_i q_i^2/2 (contribution, accessor, system)%s" % label,
                   [(ctx.out("PE"), B["PE"]), (ctx.out("bPE"), B["PE"]), (ctx.out("sysPE"), B["PE"])]))
    obs.append(eq(enc, tag + "getPowerDissipation = sum c_i qdot_i^2%s" % label, ctx.out("bpow"), B["pow"]))
    FM = ctx.outsv("bF_GM")
    FF = ctx.outsv("bF_GF")
    obs.append(eqs(enc, tag + "getF_GM = (~N f_rot re-expressed in G, R_GF f_trans)%s" % label, list(zip(FM[0], B["mG"])) + list(zip(FM[1], B["fG"]))))
    # reaction at F's origin: equal and opposite, shifted from OM to OF
    pFM_G = v.sub(B["p_GM"], B["p_GF"])
    mF = v.neg(v.add(B["mG"], v.cross(pFM_G, B["fG"])))
    obs.append(eqs(enc, tag + "getF_GF = reaction shifted to OF%s" % label, list(zip(FF[0], mF)) + list(zip(FF[1], v.neg(B["fG"])))))
    return obs


def force_pairs(ctx, L, pre, sfx):
    F, f = ctx.code_forces(pre, sfx)
    pairs = []
    for b in range(ctx.nb):
        for k in range(2):
            pairs += list(zip(F[b][k], L.F[b][k]))
    return pairs + [(x, {}) for x in f]


def obligations_c38(ctx, mode):
    enc = ctx.enc
    tag = "LinearBushing: "
    B = bushing(ctx)
    L = B["L"]
    lab = "" if mode == "law" else " after set...(state, new)"
    obs = definition_obligations(ctx, B, lab)
    obs.append(eqs(enc, tag + "system body/mobility forces = documented law%s" % lab, force_pairs(ctx, L, "F", "")))
    obs.append(eqs(enc, tag + "calcForceContribution = documented law%s" % lab, force_pairs(ctx, L, "Fc", "")))
    if mode == "law":
        obs.append(eq(enc, tag + "PE: calcPotentialEnergyContribution before any force evaluation = sum k_i q_i^2/2", ctx.out("PE0"), B["PE"]))
        return obs
    tr = ctx.tr
    olds = [n for n, kind, _, _ in tr.inputs if "_old" in n]
    names = [n for n in tr.output_order if n[0] in "Ffb" or n.startswith("PE") or n.startswith("sysPE")]
    pairs = []
    for o in olds:
        tg = {o: P.const(1)}
        for n in names:
            pairs.append((enc.out_tangent(n, tg, "d/d" + o), {}))
    obs.append(eqs(enc, tag + "no output after the update depends on an old parameter value (d out / d old = 0)", pairs))
    zero = [(x, {}) for pre in ("F", "Fc") for b in range(ctx.nb) for k in range(2) for x in ctx.outsv("%sd%d" % (pre, b))[k]]
    zero += [(ctx.out("%sd_%d" % (pre, i)), {}) for pre in ("f", "fc") for i in range(ctx.nu)]
    obs.append(eqs(enc, tag + "disabled: all forces zero", zero))
    obs.append(eqs(enc, tag + "PE: disabled: potential energy zero", [(ctx.out("PEd"), {}), (ctx.out("sysPEd"), {})]))
    obs.append(eqs(enc, tag + "system body/mobility forces after enable = documented law", force_pairs(ctx, L, "F", "e")))
    obs.append(eqs(enc, tag + "PE: potential energy after enable", [(ctx.out("PEe"), B["PE"]), (ctx.out("sysPEe"), B["PE"])]))
    return obs
