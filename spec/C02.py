"""C02 Forward and inverse dynamics of trees are exact inverses."""
from engine.driver import poly as P
from engine.driver.core import Ob, eq, eqs
from engine.driver.encode import Constraint
from spec import catalogue as cat
from spec.treeutil import cleared, is_coord, subst_affine, tier_caps, cap_sets

ID = "C02"
HARNESS = "C02_dynamics.cpp"
EXPLANATION = ("calcAccelerationIgnoringConstraints, calcResidualForceIgnoringConstraints, realize(Acceleration) with the "
               "same forces applied through Force::DiscreteForces, multiplyBySystemJacobianTranspose and multiplyByM of the real "
               "library are executed on trees whose mass properties, frames, coordinates, speeds u, mobility forces f, body forces F "
               "(Ground included) and trial accelerations a are all symbolic. Proved for all real f, F, u, a and all values of the "
               "free coordinates: residual(f,F,udot_fwd(f,F)) = 0; udot from realize = udot from the operator; "
               "udot_fwd(f + residual(f,F,a), F) = a (the library itself composes the two operators); "
               "residual(f,F,a) - residual(f,0,a) = -J^T F; residual(f,F,a) - residual(0,F,a) = -f (zero-length argument vectors "
               "exercised); residual(0,0,0) = -M udot_fwd(0,0) (velocity-dependent terms agree in both directions); "
               "residual(f,F,a) = M a + residual(0,0,0) - f - J^T F. With a free coordinate, 'inverse dynamics / multiplyByM applied to "
               "udot_fwd' is the exact substitution a := udot_fwd into the executed operator's output polynomial (affine in the free a, no "
               "decision depends on a: checked); in the '|composed' instances (coordinates pinned, u,f,F,a free) the library itself "
               "runs those operators on the symbolic udot, and A_GB from realize is compared with A_GB returned by the operator.")
BOUNDS = ("tree catalogue (spec/catalogue.py): every built-in mobilizer forward and reversed as a single body, quaternion and Euler mode, "
          "2- and 3-body chains/branches (up to 5 bodies thorough), general/translation-only frames; u, f, F, a free (all reals); "
          "k free coordinates at a time (k=1 quick, 2 thorough; 3 quick / 6 thorough choices per base point), the other coordinates and all "
          "mass/frame parameters pinned at exact rational base points (2 quick / 4 thorough) chosen from VERIF_SEED; when the polynomials "
          "exceed the encoder's term limit with a free coordinate the free set falls back to u,f,F,a only (counted in the evidence under "
          "extra.free_sets_reduced_to_linear_inputs_by_size_limit); hinge-inertia inverses D^-1 and quaternion norms assumed non-zero "
          "(division side conditions); for 6-dof mobilizers (Free, FreeLine, Bushing) D is inverted by the modelled LAPACK LU whose pivot "
          "comparisons enter the path condition: the claim holds on the executed pivoting path only")
NOT_COVERED = ("thorough tier: the 5-body trees get 2 base points and 2 choices of free coordinates only; trees beyond the catalogue (more than 3/5 bodies, 12-body chains); more than k simultaneously free coordinates; "
               "Custom/FunctionBased mobilizers; constraints and prescribed motion (C08, C10); calcAcceleration/calcResidualForce with "
               "constraints; float precision; rounding error; mass/frame parameters are varied only over the listed base points; "
               "other LU pivoting paths of 6-dof hinge matrices")


def instances(tier, seed):
    out = []
    for i in cat.tree_instances(tier, seed, "C02"):
        out.append(dict(name=i["name"], args=i["args"] + ["0"]))
        # same tree, all coordinates pinned: the library itself composes the operators (harness level), body accelerations compared
        out.append(dict(name=i["name"] + "|composed", args=i["args"] + ["1"], composed=True))
    return tier_caps(out, tier, big_base_points=2)


def free_sets(inst, tr, tier, rng):
    fs = list(cat.coordinate_free_sets(inst, tr, tier, rng, always=("u", "f_", "F", "a_")))
    if inst.get("composed"):
        return [[n for n in fs[0] if not is_coord(n)]]
    return cap_sets(fs, tier, inst=inst, big_n=2)


def obligations(enc, inst, tr):
    R = enc.ring
    nu, nb = int(tr.note("nu")), int(tr.note("nb"))
    inp = lambda n: enc.poly(tr.input_by_name[n][2])
    vec = lambda n: [enc.out("%s_%d" % (n, i)) for i in range(nu)]
    f = [inp("f_%d" % i) for i in range(nu)]
    a = [inp("a_%d" % i) for i in range(nu)]
    avar = [enc.input_var["a_%d" % i] for i in range(nu)]
    udot, udot_r = vec("udot"), vec("udot_realize")
    ra, ra_noF, ra_nof = vec("res_a"), vec("res_a_noF"), vec("res_a_nof")
    udot_a, JtF, c, udot0, Ma = vec("udot_of_res"), vec("JtF"), vec("coriolis"), vec("udot0"), vec("Ma")
    # The operators' outputs are polynomials in the free trial vector a that describe the executed code for every real a
    # provided no recorded decision depends on a; then "operator applied to udot" is the substitution a := udot.
    for _, cc in enc.path_condition():
        if R.vars_of(cc.p) & set(avar):
            raise RuntimeError("a decision of the executed path depends on the trial acceleration a")
    r_sub = [subst_affine(R, ra[i], dict(zip(avar, udot))) for i in range(nu)]
    Mudot0_sub = [subst_affine(R, Ma[i], dict(zip(avar, udot0))) for i in range(nu)]
    obs = []
    obs.append(cleared(enc, "residual(f,F,udot_fwd(f,F)) = 0", [(r_sub[i], {}) for i in range(nu)],
                       twin=[Constraint(1, P.sub(r_sub[0], P.add(f[0], P.const(1))), "res[0] = f[0]+1 [twin]")]))
    obs.append(cleared(enc, "udot(realize with DiscreteForces) = udot(calcAccelerationIgnoringConstraints)", list(zip(udot_r, udot))))
    obs.append(cleared(enc, "udot_fwd(f + residual(f,F,a), F) = a", list(zip(udot_a, a))))
    obs.append(cleared(enc, "residual(f,F,a) - residual(f,0,a) = -J^T F", [(P.sub(ra[i], ra_noF[i]), P.neg(JtF[i])) for i in range(nu)]))
    obs.append(cleared(enc, "residual(f,F,a) - residual(0,F,a) = -f", [(P.sub(ra[i], ra_nof[i]), P.neg(f[i])) for i in range(nu)]))
    obs.append(cleared(enc, "residual(0,0,0) = -M udot_fwd(0,0)", [(c[i], P.neg(Mudot0_sub[i])) for i in range(nu)]))
    obs.append(cleared(enc, "residual(f,F,a) = M a + f_inertial - f - J^T F",
                       [(ra[i], P.sub(P.add(Ma[i], c[i]), P.add(f[i], JtF[i]))) for i in range(nu)]))
    if inst.get("composed"):
        # the same compositions executed by the library itself on the symbolic udot (harness level), and the body accelerations
        r, Mudot0 = vec("res_udot"), vec("Mudot0")
        obs.append(cleared(enc, "[harness composition] residual(f,F,udot_fwd(f,F)) = 0", [(r[i], {}) for i in range(nu)],
                           twin=[Constraint(1, P.sub(r[0], P.add(f[0], P.const(1))), "res[0] = f[0]+1 [twin]")]))
        obs.append(cleared(enc, "[harness composition] residual(0,0,0) = -multiplyByM(udot_fwd(0,0))", [(c[i], P.neg(Mudot0[i])) for i in range(nu)]))
        pairs = []
        for b in range(nb):
            for part in "wv":
                for i in range(3):
                    pairs.append((enc.out("A_realize%d_%s_%d" % (b, part, i)), enc.out("A_op%d_%s_%d" % (b, part, i))))
        obs.append(cleared(enc, "A_GB(realize) = A_GB(operator)", pairs))
    return obs
