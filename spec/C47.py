"""C47 Geodesics lie on their surfaces and agree with closed forms (analytic sphere / cylinder geodesics)."""
from fractions import Fraction

from engine.driver import poly as P
from engine.driver.core import Ob, eq, eqs
from engine.driver.encode import Constraint
from spec.geomlib import G, EQ, GT, GE, LT, LE, NE, zeros, sincos_input

ID = "C47"
HARNESS = "C47_geodesic.cpp"
EXPLANATION = ("Analytic geodesics of ContactGeometry::Sphere and ::Cylinder of the real library: "
               "shootGeodesicInDirectionUntilLengthReachedAnalytical (sphere; Geodesic object with 12 samples), "
               "shootGeodesicInDirectionAnalytically (sphere and cylinder; knot sink) and calcGeodesicAnalytical (two-point, both shapes). "
               "The start frame is a symbolic rotation, the requested length is (steps * phi * r) with phi a symbolic angle. Proved for every "
               "knot: point on the surface (the library's own calcSurfaceValue = 0), tangent of unit length and orthogonal to the surface "
               "gradient, frame normal parallel to the gradient, arc-length bookkeeping (s_0 = 0, s_i = i/(N-1) of the total, total = requested "
               "length), first knot = start point/direction; sphere end point and end tangent equal the great-circle closed form "
               "r (n_P cos(L/r) + t_P sin(L/r)); for both shapes the exact derivative (AD over the executed DAG) of every knot point with respect "
               "to the requested length equals (d s_i/dL) * tangent_i (the curve is traversed at unit speed along its reported tangent) and "
               "the derivative of the tangent is parallel to the surface normal (zero geodesic curvature) - with the proved start conditions "
               "this characterises the great circle / helix; cylinder: z-progress of the helix p_z = z_0 + s_i t_z and two-point end heights.")
BOUNDS = ("radius and start-frame angles pinned at exact rational/Pythagorean base points (2 quick / 6 thorough), the length angle phi free "
          "(every real length, both signs by path flipping), plus one start-frame angle (quick) or two (thorough) free at a time; cylinder "
          "shooting: requested length L, start height and radius free, start azimuth/slope angles one at a time; knots: 12 (Geodesic object), "
          "4 (quick) / 6 (thorough) for the knot-sink API")
NOT_COVERED = ("implicit shooting (GeodesicIntegrator: error-controlled RKM, agreement only to its tolerance), ellipsoid and torus geodesics, "
               "geodesic Newton solvers (calcGeodesic, calcGeodesicUsingOrthogonalMethod); a requested length of exactly zero (precondition L != 0: "
               "Sphere's setGeodesicToArc then uses orientation = sign(0) = 0 and builds its frames from a zero tangent - on the stock build "
               "the reported start tangent is the negative of the requested one; reported as a low-severity finding); Cylinder::shootGeodesicInDirectionUntilLengthReached"
               "Analytical / ...UntilPlaneHitAnalytical are empty stubs in the library (TODO) and return an empty geodesic; "
               "calcGeodesicAnalytical (two-point): the far end point Q and the closed-form length are not proved because the knot angles "
               "i*angle/11 of an atan2 result are outside the encoder's exact trig fragment (only knot-local clauses, bookkeeping, heights and the sphere's P end are proved); Jacobi-field (sensitivity) scalars; sphere ...UntilPlaneHitAnalytical; rounding")


def instances(tier, seed):
    nk = 4 if tier == "quick" else 6
    out = []

    def add(name, args, shape, method, paths, part):
        out.append(dict(name=name, args=args, shape=shape, method=method, paths=paths, part=part, tier=tier))

    # 'len': only the length angle free, both signs by flipping; 'frame': a start-frame angle free as well, no flips
    # (an angle changed by a flip would have to be free in every free set of the instance)
    add("sphere:shootLength/len", ["sphere", "shootLength"], "sphere", "shootLength", 2, "len")
    add("sphere:shootLength/frame", ["sphere", "shootLength"], "sphere", "shootLength", 1, "frame")
    add("sphere:shootKnots/len", ["sphere", "shootKnots", str(nk)], "sphere", "shootKnots", 2, "len")
    add("sphere:shootKnots/frame", ["sphere", "shootKnots", str(nk)], "sphere", "shootKnots", 1, "frame")
    add("sphere:twoPoint", ["sphere", "twoPoint"], "sphere", "twoPoint", 1, "frame")
    add("cylinder:shootKnots", ["cylinder", "shootKnots", str(nk)], "cylinder", "shootKnots", 1, "frame")
    add("cylinder:twoPoint", ["cylinder", "twoPoint"], "cylinder", "twoPoint", 3, "len")
    for i in out:
        i.setdefault("twin_timeout_ms", 10000)     # twins are model searches; an undecided twin is only a lost vacuity witness
    return out


def free_sets(inst, tr, tier, rng):
    shape, method = inst["shape"], inst["method"]
    F = ["F_ax", "F_ay", "F_az"]
    if shape == "sphere" and method in ("shootLength", "shootKnots"):
        # (the scale k of the start point stays pinned: free, it leaves 14 nested square roots of the frame normalisations)
        if inst["part"] == "len":
            return [["phi"]]
        sets = [["phi", rng.choice(F)]]
        if tier == "thorough":
            sets = [["phi", a] for a in F] + [["phi", "F_ax", "F_az"]]
        return sets
    if shape == "sphere":
        return [["th"], ["th", rng.choice(F)]]
    if method == "shootKnots":
        sets = [["L", "z0", "r"], ["L", "z0", "r", "beta"], ["L", "z0", "r", "a0"]]
        if tier == "thorough":
            sets.append(["L", "z0", "r", "a0", "beta"])
        return sets
    return [["z0", "z1", "a0", "a1"]]


def input_domain(enc, inst):
    """precondition: the requested length is not zero (a zero-length request makes setGeodesicToArc build frames from a zero
    tangent: sign(0) = 0; reported separately, see NOT_COVERED)"""
    g = G(enc, enc.t)
    cons = []
    if inst["shape"] == "sphere" and inst["method"] in ("shootLength", "shootKnots") and g.is_free("phi"):
        cons.append(Constraint(NE, g.inp("phi"), "requested length != 0"))
    return cons


def knots(g, n, with_frame):
    K = []
    for i in range(n):
        d = dict(p=g.ov("p%d" % i), t=g.ov("t%d" % i), s=g.out("s%d" % i), f=g.out("f%d" % i), g=g.ov("g%d" % i))
        if with_frame:
            d["n"] = g.ov("n%d" % i)
            d["b"] = g.ov("b%d" % i)
        K.append(d)
    return K


def local_clauses(g, tag, K, with_frame, hyps=()):
    """per-knot clauses that do not depend on the parametrisation"""
    obs = []
    obs.append(zeros(tag + "every knot lies on the surface (calcSurfaceValue = 0)", [k["f"] for k in K], hyps=hyps))
    obs.append(zeros(tag + "every tangent has unit length", [P.sub(g.norm2(k["t"]), P.const(1)) for k in K], hyps=hyps))
    obs.append(zeros(tag + "every tangent is orthogonal to the surface gradient", [g.dot(k["t"], k["g"]) for k in K], hyps=hyps))
    if with_frame:
        obs.append(zeros(tag + "frame normal is parallel to the surface gradient", [c for k in K for c in g.cross(k["n"], k["g"])], hyps=hyps))
        obs.append(zeros(tag + "frame normal has unit length and binormal = tangent x normal",
                         [P.sub(g.norm2(k["n"]), P.const(1)) for k in K] +
                         [c for k in K for c in g.vsub(k["b"], g.cross(k["t"], k["n"]))], hyps=hyps))
    return obs


def speed_clauses(g, enc, tag, K, var, hyps=()):
    """d p_i / d var = (d s_i / d var) t_i  and  d t_i / d var parallel to the gradient (zero geodesic curvature)"""
    T = {var: P.const(1)}
    vel, curv = [], []
    for i, k in enumerate(K):
        ds = enc.out_tangent("s%d" % i, T, "d" + var)
        for c in range(3):
            dp = enc.out_tangent("p%d_%d" % (i, c), T, "d" + var)
            vel.append(P.sub(dp, g.mul(ds, k["t"][c])))
        dt = [enc.out_tangent("t%d_%d" % (i, c), T, "d" + var) for c in range(3)]
        curv += g.cross(dt, k["g"])
    return [zeros(tag + "d(knot point)/d(length) = d(arc length)/d(length) * tangent (unit-speed along the reported tangent)", vel, hyps=hyps),
            zeros(tag + "d(tangent)/d(length) is parallel to the surface normal (zero geodesic curvature)", curv, hyps=hyps)]


def obligations(enc, inst, tr):
    g = G(enc, tr)
    shape, method = inst["shape"], inst["method"]
    n = int(tr.note("npoints"))
    tag = "%s %s: " % (shape, method)
    obs = []
    if n == 0:
        return [eq(enc, tag + "a geodesic with at least two knots is produced", P.const(n), P.const(2), twin=False)]
    old = method in ("shootLength", "twoPoint")
    K = knots(g, n, old)
    r = g.inp("r")
    pos = g.pos_hyps(["r", "k"])
    obs += local_clauses(g, tag, K, old, hyps=pos)
    if shape == "sphere" and method in ("shootLength", "shootKnots"):
        nP, tP, L = g.ov("nP"), g.ov("tP"), g.out("L")
        steps = n - 1
        Lval = tr.out_value("L")
        sgn = 1 if Lval > 0 else -1
        st, ct = sincos_input(enc, "phi", steps)
        # arc-length bookkeeping
        if method == "shootLength":
            # arc lengths are reported non-negative; the curve runs backwards for a negative requested length
            want = [P.scale(L, Fraction(sgn * i, steps)) for i in range(n)]
            obs.append(eq(enc, tag + "total length = |requested length|", g.out("length"), P.scale(L, sgn)))
        else:
            want = [P.scale(L, Fraction(i, steps)) for i in range(n)]
        obs.append(eqs(enc, tag + "arc length of knot i = i/(N-1) of the requested length", [(K[i]["s"], want[i]) for i in range(n)]))
        # first knot
        obs.append(eqs(enc, tag + "first knot = start point projected to the sphere, first tangent = start direction",
                       [(K[0]["p"][c], g.mul(r, nP[c])) for c in range(3)] +
                       [(K[0]["t"][c], P.scale(tP[c], sgn if method == "shootLength" else 1)) for c in range(3)], hyps=pos))
        # closed form: great circle
        endp = [P.add(g.mul(g.mul(r, nP[c]), ct), g.mul(g.mul(r, tP[c]), st)) for c in range(3)]
        endt = [P.add(P.neg(g.mul(nP[c], st)), g.mul(tP[c], ct)) for c in range(3)]
        if method == "shootLength":
            endt = [P.scale(x, sgn) for x in endt]
        obs.append(eqs(enc, tag + "end point = r (n_P cos(L/r) + t_P sin(L/r))  (great circle)", list(zip(K[-1]["p"], endp)), hyps=pos))
        obs.append(eqs(enc, tag + "end tangent = -n_P sin(L/r) + t_P cos(L/r)", list(zip(K[-1]["t"], endt)), hyps=pos))
        obs += speed_clauses(g, enc, tag, K, "phi", hyps=pos)
    elif shape == "sphere":
        nP = g.ov("nP")
        obs.append(eqs(enc, tag + "first knot = P projected to the sphere", [(K[0]["p"][c], g.mul(r, nP[c])) for c in range(3)], hyps=pos))
        obs.append(eqs(enc, tag + "arc length of knot i = i/11 of the total, starting at 0",
                       [(P.scale(K[i]["s"], 11), P.scale(K[-1]["s"], i)) for i in range(n)]))
        obs.append(eq(enc, tag + "getLength() = last arc length", g.out("length"), K[-1]["s"]))
    elif method == "shootKnots":
        xP, tP, L, z0 = g.ov("xP"), g.ov("tP"), g.inp("L"), g.inp("z0")
        steps = n - 1
        obs.append(eqs(enc, tag + "arc length of knot i = i/(N-1) of the requested length",
                       [(K[i]["s"], P.scale(L, Fraction(i, steps))) for i in range(n)]))
        obs.append(eqs(enc, tag + "first knot = start point, first tangent = start direction",
                       list(zip(K[0]["p"], xP)) + list(zip(K[0]["t"], tP)), hyps=pos))
        obs.append(eqs(enc, tag + "helix: height of knot i = z_0 + s_i t_z and the axial tangent component is constant",
                       [(K[i]["p"][2], P.add(z0, g.mul(K[i]["s"], tP[2]))) for i in range(n)] +
                       [(K[i]["t"][2], tP[2]) for i in range(n)], hyps=pos))
        obs += speed_clauses(g, enc, tag, K, "L", hyps=pos)
    else:
        xP, xQ = g.ov("xP"), g.ov("xQ")
        obs.append(eq(enc, tag + "first knot is at the height of P", K[0]["p"][2], xP[2]))
        obs.append(eqs(enc, tag + "heights: knot i is at z_P + i/11 (z_Q - z_P); last knot at z_Q",
                       [(P.scale(K[i]["p"][2], 11), P.add(P.scale(xP[2], 11 - i), P.scale(xQ[2], i))) for i in range(n)], hyps=pos))
        obs.append(eqs(enc, tag + "arc length of knot i = i/11 of the total, starting at 0",
                       [(P.scale(K[i]["s"], 11), P.scale(K[-1]["s"], i)) for i in range(n)]))
        obs.append(eq(enc, tag + "getLength() = last arc length", g.out("length"), K[-1]["s"]))
    return obs
