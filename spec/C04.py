"""C04 Jacobian operators map speeds to the velocities the state reports."""
from engine.driver import poly as P
from engine.driver.core import Ob, eq, eqs
from engine.driver.encode import Constraint
from spec import catalogue as cat
from spec.treeutil import tier_caps, cap_sets, teqs

ID = "C04"
HARNESS = "C04_jacobians.cpp"
EXPLANATION = ("System, station and frame Jacobians of the real library (O(n) operators multiplyBy*Jacobian, their transposes, the explicit "
               "calc*Jacobian matrices in SpatialVec/Vec3 and flat scalar forms, the single-task convenience signatures, the bias terms "
               "calcBiasFor*Jacobian, getTotalCoriolisAcceleration, calcBodyAccelerationFromUDot) are executed on symbolic trees for a task "
               "list containing every body (Ground included) plus a repeated body with a second station. Proved for all real u, x, udot, "
               "force vectors and all values of the free coordinates: J u = reported V_GB; JS u = reported station velocities; "
               "JF u = (reported angular velocity, station velocity); operator(x) = explicit matrix * x in every form; "
               "<F, J x> = <J^T F, x> for the three Jacobians; calcBodyAccelerationFromUDot(udot) = J udot + bias; all forms of the bias "
               "agree and equal the exact time derivative D(J(q) u; q -> qdot) with u held fixed (forward-mode AD over the executed DAG, "
               "qdot = the code's own N(q)u). In the '|realized' instances (quick: coordinates pinned, thorough: also with free coordinates; u and applied mobility forces free) the "
               "accelerations reported after realize(Acceleration) satisfy A_GB = J udot + JDot u, station accelerations = JS udot + JSDot u, "
               "frame accelerations likewise, with udot the reported one.")
BOUNDS = ("tree catalogue (spec/catalogue.py): every built-in mobilizer forward/reversed, quaternion/Euler, 1-3 bodies quick (5 thorough); "
          "u, x, udot, FB, FS, FF (and f) free; k free coordinates at a time (1 quick / 2 thorough; up to 3 quick / 6 thorough choices per base point), other coordinates, stations, mass and frame "
          "parameters pinned at exact rational base points (2 quick / 4 thorough); fallback to linear inputs only when the encoder's term limit "
          "is exceeded (counted in the evidence); task list = all bodies incl. Ground + one repeated body; stations symbolic-then-pinned")
NOT_COVERED = ("random task lists beyond the fixed one; trees beyond the catalogue; more than k simultaneously free coordinates; reported "
               "accelerations after realize with a free coordinate in the quick tier (only at pinned coordinates there); Custom/FunctionBased mobilizers; float; rounding")


def instances(tier, seed):
    out = []
    for i in cat.tree_instances(tier, seed, "C04"):
        out.append(dict(name=i["name"], args=i["args"] + ["0"]))
        out.append(dict(name=i["name"] + "|realized", args=i["args"] + ["1"], realized=True))
    return tier_caps(out, tier)


def is_coord(n):
    return n.startswith("q") and n[1:].isdigit()


def free_sets(inst, tr, tier, rng):
    fs = list(cat.coordinate_free_sets(inst, tr, tier, rng, always=("u", "x_", "FB", "FS", "FF", "f_")))
    if inst.get("realized"):
        return (fs[:2] if tier == "thorough" else []) + [[n for n in fs[0] if not is_coord(n)]]
    return cap_sets(fs, tier)


def obligations(enc, inst, tr):
    R = enc.ring
    nu, nq, nb, nt = (int(tr.note(k)) for k in ("nu", "nq", "nb", "nt"))
    tb = [int(x) for x in tr.note("task_bodies").split()]
    inp = lambda n: enc.poly(tr.input_by_name[n][2])
    o = enc.out
    WV = [("w", 0), ("w", 1), ("w", 2), ("v", 0), ("v", 1), ("v", 2)]
    sv = lambda n: [o("%s_%s_%d" % (n, p, i)) for p, i in WV]
    v3 = lambda n: [o("%s_%d" % (n, i)) for i in range(3)]
    svin = lambda n: [inp("%s_%s_%d" % (n, p, i)) for p, i in WV]
    v3in = lambda n: [inp("%s_%d" % (n, i)) for i in range(3)]
    x = [inp("x_%d" % i) for i in range(nu)]
    ud = [inp("ud_%d" % i) for i in range(nu)]

    def dot(a, b):
        r = {}
        for p, q in zip(a, b):
            r = P.add(r, R.mul(p, q))
        return r

    def flat(lst):
        return [e for v in lst for e in v]

    obs = []
    # ---- reported velocities
    V = [sv("V_GB%d" % b) for b in range(nb)]
    stv = [v3("st_v%d" % t) for t in range(nt)]
    obs.append(teqs(enc, "multiplyBySystemJacobian(u) = reported V_GB", list(zip(flat(sv("Ju%d" % b) for b in range(nb)), flat(V)))))
    obs.append(teqs(enc, "multiplyByStationJacobian(u) = reported station velocities", list(zip(flat(v3("JSu%d" % t) for t in range(nt)), flat(stv)))))
    obs.append(teqs(enc, "multiplyByFrameJacobian(u) = (reported angular velocity, station velocity)",
                   list(zip(flat(sv("JFu%d" % t) for t in range(nt)), flat(V[tb[t]][:3] + stv[t] for t in range(nt))))))
    # ---- operator = explicit matrix * x, all forms
    J = [[sv("J%d_%d" % (b, j)) for j in range(nu)] for b in range(nb)]
    Jx = [sv("Jx%d" % b) for b in range(nb)]
    obs.append(teqs(enc, "multiplyBySystemJacobian(x) = calcSystemJacobian * x",
                   [(Jx[b][k], dot([J[b][j][k] for j in range(nu)], x)) for b in range(nb) for k in range(6)]))
    obs.append(teqs(enc, "calcSystemJacobian: scalar form = SpatialVec form",
                   [(o("Jflat_%d_%d" % (6 * b + k, j)), J[b][j][k]) for b in range(nb) for j in range(nu) for k in range(6)]))
    JS = [[v3("JS%d_%d" % (t, j)) for j in range(nu)] for t in range(nt)]
    JSx = [v3("JSx%d" % t) for t in range(nt)]
    obs.append(teqs(enc, "multiplyByStationJacobian(x) = calcStationJacobian * x",
                   [(JSx[t][k], dot([JS[t][j][k] for j in range(nu)], x)) for t in range(nt) for k in range(3)]))
    obs.append(teqs(enc, "calcStationJacobian: scalar form and single-task forms agree",
                   [(o("JSflat_%d_%d" % (3 * t + k, j)), JS[t][j][k]) for t in range(nt) for j in range(nu) for k in range(3)]
                   + [(o("oneJS%d_%d" % (j, k)), JS[nt - 1][j][k]) for j in range(nu) for k in range(3)]
                   + [(o("oneJSflat_%d_%d" % (k, j)), JS[nt - 1][j][k]) for j in range(nu) for k in range(3)]
                   + [(o("oneJSx_%d" % k), JSx[nt - 1][k]) for k in range(3)]))
    JF = [[sv("JF%d_%d" % (t, j)) for j in range(nu)] for t in range(nt)]
    JFx = [sv("JFx%d" % t) for t in range(nt)]
    obs.append(teqs(enc, "multiplyByFrameJacobian(x) = calcFrameJacobian * x",
                   [(JFx[t][k], dot([JF[t][j][k] for j in range(nu)], x)) for t in range(nt) for k in range(6)]))
    one = sv("oneJFx")
    obs.append(teqs(enc, "calcFrameJacobian: scalar form and single-task forms agree",
                   [(o("JFflat_%d_%d" % (6 * t + k, j)), JF[t][j][k]) for t in range(nt) for j in range(nu) for k in range(6)]
                   + [(sv("oneJF%d" % j)[k], JF[nt - 1][j][k]) for j in range(nu) for k in range(6)]
                   + [(o("oneJFflat_%d_%d" % (k, j)), JF[nt - 1][j][k]) for j in range(nu) for k in range(6)]
                   + [(one[k], JFx[nt - 1][k]) for k in range(6)]))
    # ---- transposes are the adjoints
    FB = [svin("FB%d" % b) for b in range(nb)]
    FS = [v3in("FS%d" % t) for t in range(nt)]
    FF = [svin("FF%d" % t) for t in range(nt)]
    vec = lambda n: [o("%s_%d" % (n, i)) for i in range(nu)]
    obs.append(teqs(enc, "<F, J x> = <J^T F, x> (system)", [(dot(flat(FB), flat(Jx)), dot(vec("JtF"), x))]))
    obs.append(teqs(enc, "<F, JS x> = <JS^T F, x> (station)", [(dot(flat(FS), flat(JSx)), dot(vec("JStF"), x))]))
    obs.append(teqs(enc, "<F, JF x> = <JF^T F, x> (frame)", [(dot(flat(FF), flat(JFx)), dot(vec("JFtF"), x))]))
    obs.append(teqs(enc, "single-task station transpose", [(dot(FS[nt - 1], JSx[nt - 1]), dot(vec("oneJStF"), x))]))
    obs.append(teqs(enc, "single-task frame transpose", [(dot(FF[nt - 1], JFx[nt - 1]), dot(vec("oneJFtF"), x))]))
    # ---- bias terms
    bias = [sv("bias%d" % b) for b in range(nb)]
    biasS = [v3("biasS%d" % t) for t in range(nt)]
    biasF = [sv("biasF%d" % t) for t in range(nt)]
    Jud = [sv("Jud%d" % b) for b in range(nb)]
    obs.append(teqs(enc, "calcBodyAccelerationFromUDot(udot) = J udot + calcBiasForSystemJacobian",
                   [(sv("A_ud%d" % b)[k], P.add(Jud[b][k], bias[b][k])) for b in range(nb) for k in range(6)]))
    obs.append(teqs(enc, "bias forms agree (scalar forms, single-task forms, getTotalCoriolisAcceleration, udot of zero length)",
                   [(o("biasflat_%d" % (6 * b + k)), bias[b][k]) for b in range(nb) for k in range(6)]
                   + [(sv("cor%d" % b)[k], bias[b][k]) for b in range(nb) for k in range(6)]
                   + [(sv("A_0%d" % b)[k], bias[b][k]) for b in range(nb) for k in range(6)]
                   + [(o("biasSflat_%d" % (3 * t + k)), biasS[t][k]) for t in range(nt) for k in range(3)]
                   + [(o("biasFflat_%d" % (6 * t + k)), biasF[t][k]) for t in range(nt) for k in range(6)]
                   + [(v3("onebiasS")[k], biasS[nt - 1][k]) for k in range(3)]
                   + [(sv("onebiasF")[k], biasF[nt - 1][k]) for k in range(6)]))
    if not inst.get("realized"):
        # JDot u = d/dt (J(q) u) with u held fixed, along qdot = N(q) u as computed by the code
        qdot = [o("qdot_%d" % i) for i in range(nq)]
        tang = {"q%d" % i: qdot[i] for i in range(nq) if ("q%d" % i) in tr.input_by_name}
        dt = lambda name: enc.out_tangent(name, tang, "qdot")
        dsv = lambda n: [dt("%s_%s_%d" % (n, p, i)) for p, i in WV]
        dv3 = lambda n: [dt("%s_%d" % (n, i)) for i in range(3)]
        dV = [dsv("V_GB%d" % b) for b in range(nb)]
        dst = [dv3("st_v%d" % t) for t in range(nt)]
        obs.append(teqs(enc, "calcBiasForSystemJacobian = D(J(q) u; q->qdot)", list(zip(flat(bias), flat(dV)))))
        obs.append(teqs(enc, "calcBiasForStationJacobian = D(JS(q) u; q->qdot)", list(zip(flat(biasS), flat(dst)))))
        obs.append(teqs(enc, "calcBiasForFrameJacobian = D(JF(q) u; q->qdot)",
                       list(zip(flat(biasF), flat(dV[tb[t]][:3] + dst[t] for t in range(nt))))))
    else:
        A = [sv("A_GB%d" % b) for b in range(nb)]
        sta = [v3("st_a%d" % t) for t in range(nt)]
        obs.append(teqs(enc, "reported A_GB = J udot + JDot u (udot as reported after realize)",
                       [(A[b][k], P.add(sv("Judot%d" % b)[k], bias[b][k])) for b in range(nb) for k in range(6)]))
        obs.append(teqs(enc, "reported A_GB = calcBodyAccelerationFromUDot(reported udot)",
                       [(A[b][k], sv("A_udot%d" % b)[k]) for b in range(nb) for k in range(6)]))
        obs.append(teqs(enc, "reported station accelerations = JS udot + JSDot u",
                       [(sta[t][k], P.add(v3("JSudot%d" % t)[k], biasS[t][k])) for t in range(nt) for k in range(3)]))
        obs.append(teqs(enc, "reported frame accelerations = JF udot + JFDot u",
                       [((A[tb[t]][:3] + sta[t])[k], P.add(sv("JFudot%d" % t)[k], biasF[t][k])) for t in range(nt) for k in range(6)]))
    return obs
