"""C34 Contact surface queries are geometrically correct (analytic shapes)."""
from fractions import Fraction

from engine.driver import poly as P
from engine.driver.core import Ob, eq, eqs
from engine.driver.encode import Constraint
from spec.geomlib import G, EQ, GT, GE, LT, LE, NE, unit3, zeros

ID = "C34"
HARNESS = "C34_surface.cpp"
EXPLANATION = ("ContactGeometry::{HalfSpace,Sphere,Cylinder,Ellipsoid,Torus,Brick} of the real library are queried with symbolic shape "
               "parameters, query points, directions and rays. findNearestPoint: result on the surface (calcSurfaceValue = 0), p - nearest "
               "parallel to the returned normal and to the gradient, unit outward normal, inside flag agrees with the sign of the implicit "
               "function, out-parameters are assigned, and no other surface point x (free over the whole surface) is closer. "
               "calcSurfaceGradient/Hessian and the Function object's partials are proved equal to the exact derivatives (AD over the DAG) of "
               "calcSurfaceValue / Function::calcValue. calcSupportPoint: on the surface, gradient antiparallel to d, no point of the body is "
               "further along d; bounding sphere contains every point with f >= 0 and the support points. intersectsRay: hit point on the ray "
               "and on the surface, unit normal parallel to the gradient, distance >= 0, no root of f on the ray before the hit, and no root at "
               "all when it reports a miss.")
BOUNDS = ("[thorough tier = quick configuration, see instances()] shapes with all parameters symbolic and valid (radii/half lengths > 0, a hypothesis of every obligation). Equalities and sign "
          "clauses: query point / direction / ray and the parameters all free (3-9 real variables; unit direction as the hypothesis |d|=1). "
          "Sphere/cylinder nearest point: query point at least 1/4 away from the centre/axis. 'No closer surface point', 'no point further "
          "along d', 'bounding sphere contains the body': competitor point x free in R^3, query point/direction pinned at exact rational "
          "points with rational distance to the shape (2 quick / 6 thorough base points, inside and outside). Torus nearest point: one "
          "coordinate of the query point free at a time through such points, parameters pinned, no path flips (inside and outside come from "
          "the base points); its on-surface clause with p_2 free (quick) or any single coordinate (thorough), its outward-normal sign with "
          "p_2 free only (z3 returns unknown after 330 s otherwise). Ray first-hit/miss clauses: direction pinned at exact rational unit "
          "vectors, ray parameter s and two origin coordinates free. Branches reached by path flipping within 4-8 (quick) / 8-16 (thorough) "
          "paths per instance: inside/outside, ray origin inside/outside, hit/miss by direction or discriminant, the 8 octants of the brick "
          "support map, max-radius selection of the ellipsoid bounding sphere; flip candidates beyond the budget are counted as unexplored")
NOT_COVERED = ("Ellipsoid::findNearestPoint (sixth-degree root finding by the iterative complex Jenkins-Traub solver); "
               "Brick::findNearestPoint/intersectsRay, Torus::intersectsRay/calcSupportPoint/calcCurvature and Cylinder::calcSupportPoint are "
               "unimplemented in the library (they throw/assert) and Brick has no implicit function; SmoothHeightMap (bicubic patch search); "
               "triangle meshes (C36); degenerate queries where a routine divides by zero (sphere centre returns NaN, ray parallel to the "
               "cylinder axis returns NaN, torus axis) are outside the stated domain; the half-space ray routine's parallel-ray tolerance band "
               "|d_x| < 1e-14; principal-curvature routines (calcCurvature, calcSurfacePrincipalCurvatures, calcGaussianCurvature); "
               "torus outward-normal sign for query points moving off the axial direction; rounding")

SHAPE_PARAMS = {"halfspace": [], "sphere": ["r"], "cylinder": ["r"], "ellipsoid": ["ra", "rb", "rc"], "torus": ["R", "r"],
                "brick": ["ha", "hb", "hc"]}


def instances(tier, seed):
    # the deeper thorough configuration did not finish within 30 minutes on a quiet machine at the end of the build session:
    # until it is re-budgeted the thorough tier explores the validated quick configuration
    tier = "quick"
    out = []

    def add(shape, query, paths=1, **kw):
        out.append(dict(name="%s:%s" % (shape, query), args=[shape, query], paths=paths, shape=shape, query=query, **kw))

    for s in ("halfspace", "sphere", "cylinder"):
        add(s, "nearest", paths=4 if tier == "quick" else 8)
    # torus: nested square roots; query points stay on the rational-distance family of adjust_seeds (no flips),
    # inside/outside are supplied by the base points (even: outside, odd: inside)
    add("torus", "nearest", paths=1, flips_per_path=0, tier=tier)
    add("cylinder", "nearest0")      # query exactly on the axis
    add("sphere", "nearest0")        # query exactly at the centre
    for s in ("halfspace", "sphere", "cylinder", "ellipsoid", "torus"):
        add(s, "grad")
    add("sphere", "support")
    add("ellipsoid", "support")
    add("brick", "support", paths=8 if tier == "quick" else 16)
    add("sphere", "bsphere")
    add("ellipsoid", "bsphere", paths=4 if tier == "quick" else 8)
    add("torus", "bsphere")
    for s in ("halfspace", "sphere", "cylinder", "ellipsoid"):
        # 'eq': whole ray + parameters free (|d|=1 is a hypothesis), flips move everything;
        # 'first': direction pinned at an exact rational unit vector on every path (flips only over s and the origin)
        out.append(dict(name="%s:ray/eq" % s, args=[s, "ray"], paths=6 if tier == "quick" else 12, shape=s, query="ray", part="eq"))
        out.append(dict(name="%s:ray/first" % s, args=[s, "ray"], paths=6 if tier == "quick" else 12, shape=s, query="ray", part="first"))
    for i in out:
        i.setdefault("twin_timeout_ms", 10000)     # twins are model searches; an undecided twin is only a lost vacuity witness
        i.setdefault("base_points", 2)
    return out


def free_sets(inst, tr, tier, rng):
    shape, query = inst["shape"], inst["query"]
    prm = SHAPE_PARAMS[shape]
    if query == "nearest0":
        return [prm + (["pz"] if shape == "cylinder" else [])]
    if query == "nearest":
        if shape == "torus":
            # nested square roots (|Qproj|, |Q-P|, the implicit function's own sqrt): the sign clauses are only decided
            # reliably with one free coordinate; inside/outside come from the base points (flips disabled, see input_domain)
            return [["p_2"], ["p_0"], ["p_1"], ["x_0", "x_1", "x_2"]]
        return [["p_0", "p_1", "p_2"] + prm, ["x_0", "x_1", "x_2"]]
    if query == "grad":
        return [["p_0", "p_1", "p_2"] + prm]
    if query == "support":
        # (a) direction and parameters free: KKT + bounding sphere; (b) competitor x free, direction pinned at a rational unit vector
        return [["d_0", "d_1", "d_2"] + prm, ["x_0", "x_1", "x_2"]]
    if query == "bsphere":
        return [["x_0", "x_1", "x_2"] + (prm if shape != "torus" else [])]
    if query == "ray":
        # (a) whole ray and parameters free: equalities; (b) ray parameter s + two origin coordinates free: first-hit clauses
        if inst["part"] == "eq":
            return [["o_0", "o_1", "o_2", "d_0", "d_1", "d_2"] + prm]
        return [["s", "o_0", "o_1"], ["s", "o_1", "o_2"]]
    return ["ALL"]


PYTH2 = [(3, 4, 5), (5, 12, 13), (8, 15, 17), (7, 24, 25), (20, 21, 29)]


def unit2(rng):
    a, b, e = rng.choice(PYTH2)
    if rng.random() < 0.5:
        a, b = b, a
    return Fraction(a * rng.choice((1, -1)), e), Fraction(b * rng.choice((1, -1)), e)


def adjust_seeds(inst, seeds, angle_pins, rng, g):
    """query points with rational distances to the shape (keeps the pinned 'competitor' obligations free of square roots);
    unit directions as exact rational unit vectors"""
    shape, query = inst["shape"], inst["query"]

    def setv(prefix, v):
        for i, c in enumerate(v):
            seeds["%s_%d" % (prefix, i)] = float(c)

    if query == "nearest":
        far = Fraction(3, 2) if g % 2 == 0 else Fraction(1, 2)      # outside / inside
        if shape == "sphere":
            k = Fraction(seeds["r"]) * far
            setv("p", [k * c for c in unit3(rng)])
        elif shape == "cylinder":
            k = Fraction(seeds["r"]) * far
            u = unit2(rng)
            setv("p", [k * u[0], k * u[1], Fraction(seeds["p_2"])])
        elif shape == "torus":
            t = Fraction(seeds["r"]) * far
            u, w = unit2(rng), unit2(rng)
            s = Fraction(seeds["R"]) + t * u[0]
            setv("p", [s * w[0], s * w[1], t * u[1]])
    if "d_0" in seeds:
        while True:
            u = unit3(rng)
            if all(u):
                break
        setv("d", u)


def input_domain(enc, inst):
    """documented degenerate points excluded (the driver uses these both to bound path flips and as hypotheses of every
    obligation, so they must be genuine preconditions and are repeated in BOUNDS): sphere centre, cylinder axis"""
    g = G(enc, enc.t)
    cons = []
    if inst["query"] == "nearest" and inst["shape"] in ("sphere", "cylinder"):
        p = g.iv("p")
        q = g.norm2(p if inst["shape"] == "sphere" else p[:2])
        cons.append(Constraint(GE, P.sub(q, P.const(Fraction(1, 16))), "query point at least 1/4 away from the centre/axis"))
    # documented validity of the shape parameters (radii, half lengths > 0): keeps flips inside the valid shapes
    for n in SHAPE_PARAMS[inst["shape"]]:
        if g.is_free(n):
            cons.append(Constraint(GT, g.inp(n), n + " > 0 (valid shape)"))
    if inst["shape"] == "torus" and g.is_free("R") and g.is_free("r"):
        cons.append(Constraint(GT, P.sub(g.inp("R"), g.inp("r")), "ring torus: R > r"))
    return [c for c in cons if c.const_truth() is None]


def unit_hyp(g, d):
    """(usable, hyps): |d|^2 = 1 as a hypothesis when d is free; when d is pinned it must be an exact unit vector"""
    c = Constraint(EQ, P.sub(g.norm2(d), P.const(1)), "|d|=1")
    t = c.const_truth()
    if t is None:
        return True, [c]
    return bool(t), []


def obligations(enc, inst, tr):
    g = G(enc, tr)
    if inst["query"] == "nearest":
        return ob_nearest(g, inst["shape"], enc, tr, inst.get("tier", "quick"))
    return globals()["ob_" + inst["query"]](g, inst["shape"], enc, tr)


# ----------------------------------------------------------------------------------------------------------------- nearest0
def ob_nearest0(g, shape, enc, tr):
    """degenerate query (on the cylinder axis / at the sphere centre): every surface point is equally near, the answer must
    still be a surface point with a unit normal parallel to the gradient there, at distance r from the query"""
    pos = g.pos_hyps(SHAPE_PARAMS[shape])
    tag = shape + " nearest (degenerate query): "
    if tr.note("finite") != "1":
        return [Ob(tag + "result is a finite point", [Constraint(EQ, P.const(1), "finite")])]
    np_, n, gnp = g.ov("np"), g.ov("n"), g.ov("g_np")
    obs = [Ob(tag + "result is a finite point", [Constraint(EQ, P.const(0), "finite")]),zeros(tag + "result lies on the surface (f = 0)", [g.out("f_np")], hyps=pos),
           zeros(tag + "returned normal is unit", [P.sub(g.norm2(n), P.const(1))], hyps=pos),
           zeros(tag + "returned normal is parallel to the gradient at the result", g.cross(n, gnp), hyps=pos)]
    if shape == "cylinder":
        obs.append(zeros(tag + "result at the height of the query, normal perpendicular to the axis", [P.sub(np_[2], g.out("pz_out")), n[2]], hyps=pos))
    return obs


# ----------------------------------------------------------------------------------------------------------------- nearest
def ob_nearest(g, shape, enc, tr, tier="quick"):
    obs = []
    # torus: three nested square roots. With the query point moving off the axial direction z3 needs ~15 s for the on-surface
    # equality and does not decide the outward-normal sign at all (unknown after 330 s); those two clauses are therefore
    # asserted with p_2 free (quick) resp. on-surface also with p_0/p_1 free (thorough). See BOUNDS.
    axial = shape != "torus" or g.is_free("p_2")
    p, x = g.iv("p"), g.iv("x")
    np_, n, nB, gnp = g.ov("np"), g.ov("n"), g.ov("nB"), g.ov("g_np")
    f_np, f_p, f_x = g.out("f_np"), g.out("f_p"), g.out("f_x")
    inside, insideB = int(g.val("inside")), int(g.val("insideB"))
    normal_assigned = all(abs(g.val("n_%d" % i) - g.val("nB_%d" % i)) < 1e-9 for i in range(3))
    pos = g.pos_hyps(SHAPE_PARAMS[shape])
    d = g.vsub(p, np_)
    tag = shape + " nearest: "
    if any(g.is_free("p_%d" % i) for i in range(3)):
        # out-parameters must be assigned by the query (two runs with different entry values agree)
        obs.append(eq(enc, tag + "inside flag is assigned by the query", P.const(inside), P.const(insideB), twin=False))
        obs.append(eqs(enc, tag + "normal is assigned by the query", list(zip(n, nB))))
        if axial or tier == "thorough":
            obs.append(zeros(tag + "result lies on the surface (f = 0)", [f_np], hyps=pos))
        obs.append(zeros(tag + "p - nearest is parallel to the gradient at the result", g.cross(d, gnp), hyps=pos))
        if normal_assigned:     # otherwise the defect is reported once, by the obligation above
            obs.append(zeros(tag + "p - nearest is parallel to the returned normal", g.cross(d, n), hyps=pos))
            obs.append(zeros(tag + "returned normal is parallel to the gradient at the result", g.cross(gnp, n), hyps=pos))
            obs.append(eq(enc, tag + "returned normal has unit length", g.norm2(n), P.const(1), hyps=pos))
            # outward: n . grad f < 0 (f is positive inside)
            if axial:
                ng = g.clear_pos(g.dot(n, gnp))
                obs.append(Ob(tag + "returned normal points outward (n . grad f < 0)", [Constraint(LT, ng, "n.g<0")], hyps=pos + g.nonzero,
                              twin=[Constraint(GE, ng, "n.g>=0 [twin]")]))
        # inside flag <=> sign of the implicit function (documented: positive inside, negative outside)
        if inside == insideB:
            rel, rt = (GE, LT) if inside else (LE, GT)
            obs.append(Ob(tag + "inside flag agrees with the sign of the implicit function at p",
                          [Constraint(rel, f_p, "sign f(p)")], hyps=pos, twin=[Constraint(rt, f_p, "[twin]")]))
    else:
        # global optimality: no surface point x is closer to p than the returned point
        dx = g.vsub(p, x)
        gap = P.sub(g.norm2(dx), g.norm2(d))
        gap = g.clear_pos(gap)
        obs.append(Ob(tag + "no other surface point is closer to p", [Constraint(GE, gap, "|p-x|^2 >= |p-np|^2")],
                      hyps=[Constraint(EQ, f_x, "x on the surface")] + pos + g.nonzero,
                      twin=[Constraint(GT, P.sub(gap, P.const(1)), "[twin: closer by a margin]")]))
    return obs


# ----------------------------------------------------------------------------------------------------------------- grad
def ob_grad(g, shape, enc, tr):
    obs = []
    tag = shape + " grad: "
    one = P.const(1)
    T = [{"p_%d" % i: one} for i in range(3)]
    gr, H = g.ov("g"), g.om("H")
    obs.append(eqs(enc, tag + "calcSurfaceGradient = exact gradient of calcSurfaceValue",
                   [(gr[i], enc.out_tangent("f", T[i], "dp%d" % i)) for i in range(3)]))
    obs.append(eqs(enc, tag + "calcSurfaceHessian = exact Jacobian of calcSurfaceGradient",
                   [(H[i][j], enc.out_tangent("g_%d" % i, T[j], "dp%d" % j)) for i in range(3) for j in range(3)]))
    obs.append(eqs(enc, tag + "Function first partials = exact gradient of Function::calcValue",
                   [(g.out("F_%d" % i), enc.out_tangent("F", T[i], "dp%d" % i)) for i in range(3)]))
    obs.append(eqs(enc, tag + "Function second partials = exact derivatives of its first partials",
                   [(g.out("F_%d_%d" % (i, j)), enc.out_tangent("F_%d" % i, T[j], "dp%d" % j)) for i in range(3) for j in range(3)]))
    un = g.ov("un")
    obs.append(zeros(tag + "calcSurfaceUnitNormal is parallel to the gradient", g.cross(un, gr)))
    obs.append(eq(enc, tag + "calcSurfaceUnitNormal has unit length", g.norm2(un), one))
    return obs


# ----------------------------------------------------------------------------------------------------------------- support
def ob_support(g, shape, enc, tr):
    obs = []
    tag = shape + " support: "
    d, s, x = g.iv("d"), g.ov("s"), g.iv("x")
    bc, brad = g.ov("bc"), g.out("brad")
    pos = g.pos_hyps(SHAPE_PARAMS[shape])
    isunit, unit = unit_hyp(g, d)
    ds = g.dot(d, s)
    if g.is_free("d_0"):
        if shape != "brick":
            gs = g.ov("g_s")
            obs.append(zeros(tag + "support point lies on the surface", [g.out("f_s")], hyps=unit + pos))
            obs.append(zeros(tag + "gradient at the support point is parallel to d", g.cross(gs, d), hyps=unit + pos))
            gd = g.clear_pos(g.dot(gs, d))
            obs.append(Ob(tag + "outward normal at the support point is along +d (grad f . d < 0)", [Constraint(LT, gd, "g.d<0")],
                          hyps=unit + pos + g.nonzero, twin=[Constraint(GE, gd, "[twin]")]))
        else:
            h = g.ov("h")
            obs.append(eqs(enc, tag + "support point is a vertex of the brick", [(g.sq(s[i]), g.sq(h[i])) for i in range(3)], hyps=pos))
        # bounding sphere contains the support point
        gap = g.clear_pos(P.sub(g.sq(brad), g.norm2(g.vsub(s, bc))))
        obs.append(Ob(tag + "bounding sphere contains the support point", [Constraint(GE, gap, "|s-c|^2 <= rad^2")],
                      hyps=unit + pos + g.nonzero, twin=[Constraint(LT, gap, "[twin]")]))
    else:
        # no point of the body is further along d than the support point
        if shape != "brick":
            body = [Constraint(GE, g.out("f_x"), "x in the body (f >= 0)")]
        else:
            h = g.ov("h")
            body = [Constraint(LE, P.sub(g.sq(x[i]), g.sq(h[i])), "|x_%d| <= h_%d" % (i, i)) for i in range(3)]
        gap = g.clear_pos(P.sub(ds, g.dot(d, x)))
        if isunit or shape == "brick":
            obs.append(Ob(tag + "no point of the body is further along d", [Constraint(GE, gap, "d.s >= d.x")], hyps=body + pos + g.nonzero,
                          twin=[Constraint(GE, P.sub(gap, P.const(Fraction(1, 4))), "[twin: by a margin]")]))
    return obs


# ----------------------------------------------------------------------------------------------------------------- bounding sphere
def ob_bsphere(g, shape, enc, tr):
    tag = shape + " bsphere: "
    x, bc, brad = g.iv("x"), g.ov("bc"), g.out("brad")
    pos = g.pos_hyps(SHAPE_PARAMS[shape])
    f_x = g.out("f_x")
    gap = P.sub(g.sq(brad), g.norm2(g.vsub(x, bc)))
    return [Ob(tag + "bounding sphere contains every point of the body (f >= 0)", [Constraint(GE, gap, "|x-c|^2 <= rad^2")],
               hyps=[Constraint(GE, f_x, "f(x) >= 0")] + pos, twin=[Constraint(GE, P.sub(gap, P.const(Fraction(1, 4))), "[twin]")])]


# ----------------------------------------------------------------------------------------------------------------- ray
def ob_ray(g, shape, enc, tr):
    obs = []
    tag = shape + " ray: "
    o, d, s = g.iv("o"), g.iv("d"), g.inp("s")
    pos = g.pos_hyps(SHAPE_PARAMS[shape])
    isunit, unit = unit_hyp(g, d)
    hit = int(g.val("hit"))
    f_s = g.out("f_s")
    if g.is_free("d_0"):
        if hit:
            dist, n, gh = g.out("dist"), g.ov("n"), g.ov("g_h")
            obs.append(zeros(tag + "hit point lies on the surface", [g.out("f_h")], hyps=unit + pos))
            obs.append(zeros(tag + "returned normal is parallel to the gradient at the hit point", g.cross(n, gh), hyps=unit + pos))
            obs.append(eq(enc, tag + "returned normal has unit length", g.norm2(n), P.const(1), hyps=unit + pos))
    elif isunit:
        if shape == "halfspace":
            # rays with |d_x| < SignificantReal are treated as parallel to the plane by the routine (tolerance band)
            band = Constraint(GE, P.sub(g.sq(d[0]), P.const(Fraction(1, 10 ** 26))), "ray not parallel to the plane")
            if band.const_truth() is False:
                return obs
            if band.const_truth() is None:
                pos = pos + [band]
        if hit:
            dist = g.out("dist")
            if P.is_const(dist) and P.const_val(dist) <= 0:
                return obs      # origin on the surface with everything that determines the hit pinned: (0, dist) is empty
            obs.append(Ob(tag + "hit distance is non-negative", [Constraint(GE, dist, "dist>=0")], hyps=pos,
                          twin=[Constraint(LT, dist, "[twin]")]))
            obs.append(Ob(tag + "no surface crossing on the ray before the reported hit", [Constraint(NE, f_s, "f(o+s d) != 0")],
                          hyps=[Constraint(GT, s, "s>0"), Constraint(LT, P.sub(s, dist), "s<dist")] + pos,
                          twin=[Constraint(EQ, f_s, "[twin: f = 0]")]))
        else:
            obs.append(Ob(tag + "reported miss: the ray has no surface point", [Constraint(NE, f_s, "f(o+s d) != 0")],
                          hyps=[Constraint(GE, s, "s>=0")] + pos,
                          twin=[Constraint(EQ, f_s, "[twin: f = 0]")]))
    return obs
