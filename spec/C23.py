"""C23 Measures compute what their definitions say (partial)."""
from fractions import Fraction

from engine.driver import poly as P
from engine.driver.core import Ob, eq, eqs
from engine.driver.encode import Constraint, EncodeError

ID = "C23"
HARNESS = "C23_measures.cpp"
EXPLANATION = ("The library's Measure classes (header templates, instantiated in the harness and in libSimTKcommon) are placed in the force subsystem of a "
               "MultibodySystem and evaluated on states whose time, variable values, constants, scale factors, amplitudes and phases are SYMBOLIC. "
               "Proved for all values: Constant/Zero/One/Time/Variable/Sinusoid/Plus/Minus/Scale (Real; Vec3 where the type allows) return their formula, "
               "their documented time derivatives (Sinusoid orders 1-3 also checked against d/dt of the value by AD over the DAG), and follow a changed "
               "variable/time after re-realization; Integrate: z = initial-condition measure after initialization, zdot = operand, value = z, derivative "
               "orders pass through to the operand, setValue is reflected by getValue, and one real RK3/RKM step integrates a polynomial operand exactly; "
               "Differentiate (numerical): 0 at initialization, first-order slope after one update, 2(f-f0)/(t-t0) - fdot0 afterwards, carried over when "
               "t = t0; Differentiate (analytic operand): equals the operand's derivative and survives realize(Acceleration); "
               "Minimum/Maximum/MinAbs/MaxAbs after initialization + 3 realize/autoUpdateDiscreteVariables samples: the value is one of the operand "
               "samples so far and is extreme among them (elementwise for Vec3), the reported time of the extreme is the time of such a sample, on every "
               "explored ordering (path); the same through 2 internal steps of a real integrator; Delay of a source linear in time over 5 manual steps "
               "with symbolic times: initial value before the start, exact value at t - delay when the buffer has two entries.")
BOUNDS = ("Real and Vec3 value types; expression trees of depth <= 3; sample sequences of 4 (initialization + 3); path budget per instance 8 quick / 40 thorough "
          "(orderings of the samples), several seed orderings; integrators ExplicitEuler, RungeKutta3, RungeKuttaMerson for the stepped variants; "
          "Delay with 5 steps, linear interpolation/extrapolation (the only mode implemented)")
NOT_COVERED = ("Integrate equal to the time integral 'to integrator accuracy' for non-polynomial operands (C20-type bound); long trajectories; Measure::SampleAndHold "
               "(declared NOT IMPLEMENTED YET in Measure.h: no code to execute); Delay when the delayed time falls inside the very first step (single buffer entry: "
               "documented flat extrapolation) and for sources that are not linear in time (interpolation error); Measure_<Vector>; Result measures; extreme isolation "
               "by events (documented as not implemented); Sinusoid over Vec3 (does not compile for non-scalar T)")
ASSUMPTIONS = ["sample times strictly increasing (dt > 0), delay > 0"]


def _instances(tier, seed):
    th = tier == "thorough"
    out = []
    for ty in ("real", "vec3"):
        out.append(dict(name="formula/%s" % ty, args=["formula", ty], base_points=2 if not th else 4))
        out.append(dict(name="integrate/%s" % ty, args=["integrate", ty], base_points=2 if not th else 4))
    for ig in ("RungeKuttaMerson", "RungeKutta3"):
        out.append(dict(name="integrate/step/%s" % ig, args=["integrate", "real", "step", ig], base_points=1 if not th else 3, pc_max_terms=40))
    for v in ("var", "time"):
        out.append(dict(name="diff/%s" % v, args=["diff", v, "same"], base_points=2 if not th else 4, paths=1))
    out.append(dict(name="diffanalytic", args=["diffanalytic"], base_points=1 if not th else 3))
    # extreme measures: seed orderings x path flips
    orders = {"inc": [0.25, 0.5, 0.625, 0.875], "dec": [0.875, 0.5, 0.25, -0.125], "mid": [0.5, 0.875, -0.25, 0.625], "neg": [-0.5, 0.25, -0.875, 0.375]}
    for op in ("Minimum", "Maximum", "MinAbs", "MaxAbs"):
        for on, vs in orders.items():
            if not th and on in ("inc",) and op in ("MinAbs",):
                continue
            out.append(dict(name="extreme/%s/var/%s" % (op, on), args=["extreme", op, "var", "real"], base_points=1, paths=(4 if not th else 24),
                            flips_per_path=(3 if not th else 6), seedcase={"v%d" % i: v for i, v in enumerate(vs)}))
        for kn, kv in (("up", 1.5), ("down", -1.5)):
            out.append(dict(name="extreme/%s/time/%s" % (op, kn), args=["extreme", op, "time", "real"], base_points=1, paths=(2 if not th else 8),
                            flips_per_path=2, seedcase={"k": kv, "v0": (0.5 if op in ("Minimum", "Maximum") else -0.75)}))
        out.append(dict(name="extreme/%s/vec3" % op, args=["extreme", op, "var", "vec3"], base_points=1, paths=(3 if not th else 16), flips_per_path=3))
        for ig in (("RungeKuttaMerson", "ExplicitEuler") if th or op in ("Minimum", "MaxAbs") else ("RungeKuttaMerson",)):
            for kn, kv in (("up", 1.5), ("down", -1.5)):
                out.append(dict(name="extremeint/%s/%s/%s" % (op, ig, kn), args=["extremeint", op, ig], base_points=1, paths=1, seedcase={"k": kv}, pc_max_terms=40))
    for dn, dv in (("short", 0.046875), ("medium", 0.15625), ("long", 0.75)):
        out.append(dict(name="delay/%s" % dn, args=["delay", "5"], base_points=1, paths=(2 if not th else 10), flips_per_path=2, seedcase={"delay": dv},
                        flip_linear_only=True))
    return out


def instances(tier, seed):
    out = _instances(tier, seed)
    for i in out:
        # wall-clock bounds: a twin (satisfiable by design) that nlsat cannot settle quickly is simply not counted as refuted
        i.setdefault("twin_timeout_ms", 15000)
        i.setdefault("z3_timeout_ms", 120000)
    return out


def adjust_seeds(inst, seeds, angle_pins, rng, g):
    for k, v in inst.get("seedcase", {}).items():
        if k in seeds:
            seeds[k] = v


def free_sets(inst, tr, tier, rng):
    return [[n for n, k, _, _ in tr.inputs if k != "fixed"]]


def _inp(enc, n):
    return enc.poly(enc.t.input_by_name[n][2])


def input_domain(enc, inst):
    cs = []
    for n, k, node, _ in enc.t.inputs:
        if k == "time" and enc.is_free(n):
            cs.append(Constraint(2, P.sub(enc.poly(node), P.const(Fraction(1, 1024))), n + ">1/1024"))
            cs.append(Constraint(4, P.sub(enc.poly(node), P.const(4)), n + "<4"))
    return cs


def V3(enc, n):
    return [enc.out("%s_%d" % (n, i)) for i in range(3)]


def exception_ob(tr):
    if tr.note("exception"):
        return [Ob("no exception", [Constraint(1, P.const(1), "exception: " + tr.note("exception")[:100])])]
    return None


def obligations(enc, inst, tr):
    e = exception_ob(tr)
    if e:
        return e
    mode = inst["args"][0]
    return {"formula": ob_formula, "integrate": ob_integrate, "diff": ob_diff, "diffanalytic": ob_diffanalytic, "extreme": ob_extreme,
            "extremeint": ob_extremeint, "delay": ob_delay}[mode](enc, inst, tr)


def ob_formula(enc, inst, tr):
    R = enc.ring
    o = enc.out
    obs = []
    if inst["args"][1] == "real":
        c, v, k, amp, w, t = o("c"), o("v"), o("k"), o("amp"), o("w"), o("t")
        sn, cs = o("sin_arg"), o("cos_arg")
        obs.append(eqs(enc, "Constant = c, Zero = 0, One = 1, constant derivative = 0", [(o("constant"), c), (o("zero"), {}), (o("one"), P.const(1)), (o("constant_d1"), {})]))
        obs.append(eqs(enc, "Time = t, dTime/dt = 1, d2Time/dt2 = 0", [(o("time"), t), (o("time_d1"), P.const(1)), (o("time_d2"), {})]))
        obs.append(eqs(enc, "Variable = value set, derivative 0", [(o("variable"), v), (o("variable_d1"), {})]))
        w2 = R.mul(w, w)
        sin_f = [R.mul(amp, sn), R.mul(R.mul(w, amp), cs), P.neg(R.mul(R.mul(w2, amp), sn)), P.neg(R.mul(R.mul(R.mul(w2, w), amp), cs))]
        for d in range(4):
            obs.append(eq(enc, "Sinusoid derivative order %d = documented formula" % d, o("sinusoid_d%d" % d), sin_f[d]))
        for d in range(3):
            obs.append(eq(enc, "Sinusoid order %d value is d/dt of order %d (AD over the DAG)" % (d + 1, d), o("sinusoid_d%d" % (d + 1)),
                          enc.out_tangent("sinusoid_d%d" % d, {"t": P.const(1)}, "dt")))
        plus = P.add(v, sin_f[0])
        obs.append(eq(enc, "Plus = left + right", o("plus"), plus))
        obs.append(eq(enc, "Minus = left - right", o("minus"), P.sub(v, t)))
        obs.append(eq(enc, "Scale = factor * operand", o("scale"), R.mul(k, plus)))
        obs.append(eq(enc, "nested tree Scale(k, Minus(Plus(Constant, Time), Variable))", o("tree"), R.mul(k, P.sub(P.add(c, t), v))))
        v2, t2, sn2 = o("v2"), o("t2"), o("sin_arg2")
        plus2 = P.add(v2, R.mul(amp, sn2))
        obs.append(eqs(enc, "after Variable::setValue and a new time, dependent measures follow", [(o("plus2"), plus2), (o("minus2"), P.sub(v2, t2)), (o("scale2"), R.mul(k, plus2)),
                                                                                                   (o("tree2"), R.mul(k, P.sub(P.add(c, t2), v2)))]))
    else:
        c, v, k = V3(enc, "c"), V3(enc, "v"), o("k")
        obs.append(eqs(enc, "Vec3 Constant and Variable values, zero derivatives", [(a, b) for a, b in zip(V3(enc, "constant"), c)] + [(a, b) for a, b in zip(V3(enc, "variable"), v)]
                       + [(a, {}) for a in V3(enc, "constant_d1") + V3(enc, "variable_d1")]))
        plus = [P.add(a, b) for a, b in zip(v, c)]
        sc = [R.mul(k, x) for x in plus]
        obs.append(eqs(enc, "Vec3 Plus", list(zip(V3(enc, "plus"), plus))))
        obs.append(eqs(enc, "Vec3 Minus", list(zip(V3(enc, "minus"), [P.sub(a, b) for a, b in zip(v, c)]))))
        obs.append(eqs(enc, "Vec3 Scale", list(zip(V3(enc, "scale"), sc))))
        obs.append(eqs(enc, "Vec3 nested tree Scale(k, Minus(Plus, Scale))", list(zip(V3(enc, "tree"), [R.mul(k, P.sub(a, b)) for a, b in zip(plus, sc)]))))
    return obs


def ob_integrate(enc, inst, tr):
    R = enc.ring
    o = enc.out
    a = inst["args"]
    obs = []
    if a[1] == "vec3":
        v, ic, k = V3(enc, "v"), V3(enc, "ic"), o("k")
        kv = [R.mul(k, x) for x in v]
        obs.append(eqs(enc, "Vec3 Integrate: z and value after initialization = initial-condition measure", [(o("z_init_%d" % i), ic[i]) for i in range(3)] + list(zip(V3(enc, "I_init"), ic))))
        obs.append(eqs(enc, "Vec3 Integrate: zdot = operand = first derivative of the measure", [(o("zdot_%d" % i), kv[i]) for i in range(3)] + list(zip(V3(enc, "operand"), kv)) + list(zip(V3(enc, "I_d1"), kv))))
        return obs
    t0, k, v, ic, k2 = o("t0"), o("k"), o("v"), o("ic"), o("k2")
    if len(a) > 2 and a[2] == "step":
        h = o("h")
        obs.append(Ob("one internal step was taken", [Constraint(1, P.const(0 if tr.note("nsteps") == "1" else 1), "nsteps=1")]))
        obs.append(eqs(enc, "Integrate: value at Integrator::initialize = initial-condition measures", [(o("I_init"), ic), (o("II_init"), k2)]))
        obs.append(eq(enc, "step advanced by h", o("t1"), P.add(t0, h)))
        h2, h3 = R.mul(h, h), R.mul(R.mul(h, h), h)
        I1 = P.add(P.add(ic, R.mul(v, h)), R.mul(k, P.add(R.mul(t0, h), P.scale(h2, Fraction(1, 2)))))
        II1 = P.add(P.add(P.add(k2, R.mul(ic, h)), P.scale(R.mul(v, h2), Fraction(1, 2))), R.mul(k, P.add(P.scale(R.mul(t0, h2), Fraction(1, 2)), P.scale(h3, Fraction(1, 6)))))
        obs.append(eq(enc, "Integrate(v + k t) after one step = exact time integral", o("I_1"), I1))
        obs.append(eq(enc, "Integrate(Integrate(v + k t)) after one step = exact double integral", o("II_1"), II1))
        obs.append(eq(enc, "first derivative of the integral at the new state = operand there", o("I_1_d1"), P.add(v, R.mul(k, P.add(t0, h)))))
        return obs
    operand = P.add(v, R.mul(k, t0))
    obs.append(eqs(enc, "Integrate: z after initialization = initial-condition measure (Variable and Constant)", [(o("z_init_0"), ic), (o("z_init_1"), k2), (o("I_init"), ic), (o("II_init"), k2)]))
    obs.append(eqs(enc, "Integrate: zdot = operand measure value", [(o("operand"), operand), (o("zdot_0"), operand), (o("zdot_1"), ic)]))
    obs.append(eqs(enc, "Integrate: derivative orders pass through to the operand", [(o("I_d1"), operand), (o("II_d1"), ic), (o("II_d2"), operand)]))
    x = o("x")
    obs.append(eq(enc, "Integrate::setValue writes the state variable", o("z_set_0"), x))
    obs.append(eqs(enc, "Integrate::setValue is seen by getValue and by dependent derivatives at the same time", [(o("I_set"), x), (o("zdot_set_1"), x)]))
    return obs


def ob_diff(enc, inst, tr):
    R = enc.ring
    o = enc.out
    obs = [Ob("numerical approximation in use for an operand without derivative", [Constraint(1, P.const(0 if tr.note("approx") == "1" else 1), "approx")])]
    k = _inp(enc, "k") if "k" in tr.input_by_name else {}
    t = [o("t%d" % i) for i in range(4)]
    f = [o("fval%d" % i) for i in range(4)]
    obs.append(eqs(enc, "operand samples f_i = v_i + k t_i", [(f[i], P.add(_inp(enc, "f%d" % i), R.mul(k, t[i]))) for i in range(4)]))
    obs.append(eq(enc, "Differentiate: initial derivative is zero", o("D0"), {}, twin=False))
    slope = lambda i: R.mul(P.sub(f[i], f[i - 1]), enc.inv(P.sub(t[i], t[i - 1])))
    D1 = slope(1)
    obs.append(eq(enc, "Differentiate: first-order estimate (f-f0)/(t-t0) when no previous derivative", o("D1"), D1))
    D2 = P.sub(P.scale(slope(2), 2), o("D1"))
    obs.append(eq(enc, "Differentiate: second-order estimate 2(f-f0)/(t-t0) - fdot0", o("D2"), D2))
    obs.append(eq(enc, "Differentiate: t = t0 carries the previous derivative over", o("D_same"), o("D2")))
    # after the extra update at the same time, the stored sample is (t2, f2, D_same)
    D3 = P.sub(P.scale(slope(3), 2), o("D_same"))
    obs.append(eq(enc, "Differentiate: second-order estimate on the next sample", o("D3"), D3))
    return obs


def ob_diffanalytic(enc, inst, tr):
    R = enc.ring
    o = enc.out
    obs = [Ob("analytic derivative in use for operands that supply one", [Constraint(1, P.const(0 if (tr.note("approx_s") == "0" and tr.note("approx_I") == "0") else 1), "not approx")])]
    ds = R.mul(R.mul(o("w"), o("amp")), o("cos_arg"))
    di = P.add(o("v"), R.mul(o("k"), o("t")))
    obs.append(eq(enc, "Differentiate(Sinusoid) = w a cos(w t + p)", o("Ds"), ds))
    obs.append(eq(enc, "Differentiate(Integrate(f)) = f", o("DI"), di))
    obs.append(Ob("Differentiate of an analytic operand survives realize(Acceleration)", [Constraint(1, P.const(0 if tr.note("crash") == "0" else 1), "no crash")]))
    if tr.note("crash") == "0":
        obs.append(eqs(enc, "values unchanged at Acceleration stage", [(o("Ds_acc"), ds), (o("DI_acc"), di)]))
    return obs


def extreme_clauses(enc, op, xs, E, tag, tE=None, ts=None):
    """E is one of xs and extreme among them; optional: tE is the time of a sample equal to E"""
    R = enc.ring
    obs = []
    mem = [Constraint(1, P.sub(E, x), "E=x%d" % j) for j, x in enumerate(xs)]
    obs.append(Ob("%s: value is one of the operand samples so far" % tag, mem, any=True))
    goal = []
    for j, x in enumerate(xs):
        if op == "Minimum":
            goal.append(Constraint(5, P.sub(E, x), "E<=x%d" % j))
        elif op == "Maximum":
            goal.append(Constraint(3, P.sub(E, x), "E>=x%d" % j))
        elif op == "MaxAbs":
            goal.append(Constraint(3, P.sub(R.mul(E, E), R.mul(x, x)), "|E|>=|x%d|" % j))
        else:
            goal.append(Constraint(5, P.sub(R.mul(E, E), R.mul(x, x)), "|E|<=|x%d|" % j))
    wrong = {"Minimum": 2, "Maximum": 4, "MaxAbs": 4, "MinAbs": 2}[op]
    twin = None
    if len(xs) > 1:
        q = (lambda a: R.mul(a, a)) if op in ("MaxAbs", "MinAbs") else (lambda a: a)
        twin = [Constraint(wrong, P.sub(q(E), q(xs[-1])), "[twin: strictly on the wrong side of the newest sample]")]
    obs.append(Ob("%s: value is the %s of the samples so far" % (tag, op), goal, twin=twin))
    if tE is not None:
        parts = " ".join("(and (= %s %s) (= %s %s))" % (R.smt(E), R.smt(x), R.smt(tE), R.smt(tt)) for x, tt in zip(xs, ts))
        obs.append(Ob("%s: time of the extreme is the time of a sample with that value" % tag, [], extra_smt=["(not (or %s))" % parts]))
    return obs


def ob_extreme(enc, inst, tr):
    o = enc.out
    op, kind, ty = inst["args"][1:4]
    obs = []
    if ty == "real":
        xs = [o("x%d" % i) for i in range(4)]
        ts = [o("t%d" % i) for i in range(4)]
        for i in range(4):
            obs += extreme_clauses(enc, op, xs[:i + 1], o("E%d" % i), "sample %d" % i, o("tE%d" % i), ts[:i + 1])
    else:
        for i in range(4):
            for c in range(3):
                xs = [o("x%d_%d" % (j, c)) for j in range(i + 1)]
                obs += extreme_clauses(enc, op, xs, o("E%d_%d" % (i, c)), "sample %d component %d" % (i, c))
    return obs


def ob_extremeint(enc, inst, tr):
    R = enc.ring
    o = enc.out
    op = inst["args"][1]
    obs = [Ob("two internal steps", [Constraint(1, P.const(0 if tr.note("nsteps") == "2" else 1), "nsteps=2")])]
    xs = [o("x%d" % i) for i in range(3)]
    ts = [o("t%d" % i) for i in range(3)]
    obs.append(eqs(enc, "operand at the returned states = c + k t", [(xs[i], P.add(o("c"), R.mul(o("k"), ts[i]))) for i in range(3)]))
    for i in range(3):
        obs += extreme_clauses(enc, op, xs[:i + 1], o("E%d" % i), "returned state %d" % i, o("tE%d" % i), ts[:i + 1])
    return obs


def ob_delay(enc, inst, tr):
    R = enc.ring
    o = enc.out
    n = int(inst["args"][1])
    k, c, d = o("k"), o("c"), o("delay")
    ts = [o("t%d" % i) for i in range(n)]
    obs = [eqs(enc, "source samples = c + k t", [(o("x%d" % i), P.add(c, R.mul(k, ts[i]))) for i in range(n)])]
    t0 = ts[0]
    x0 = o("x0")
    for i in range(n):
        tD = P.sub(ts[i], d)
        before = R.evalf(P.sub(tD, t0), enc.vals) <= 0
        if before:
            obs.append(Ob("step %d: delayed time is not after the start on this path" % i, [Constraint(5, P.sub(tD, t0), "t-d<=t0")]))
            obs.append(eq(enc, "step %d: Delay = initial source value for times before the start" % i, o("D%d" % i), x0))
        elif i >= 2:
            obs.append(Ob("step %d: delayed time is after the start on this path" % i, [Constraint(3, P.sub(tD, t0), "t-d>=t0")]))
            obs.append(eq(enc, "step %d: Delay = source value at t - delay" % i, o("D%d" % i), P.add(c, R.mul(k, tD))))
        # i == 1 with t - d > t0: single buffer entry, documented flat extrapolation (not covered)
    return obs
