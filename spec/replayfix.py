"""Helper shared by the C05-C09 specs: make the driver's replay encoder cheap.

core.handle_sat re-encodes the replayed trace with angle_pins={}; every formerly pinned angle then becomes a symbolic
(S,C) atom and large obligations exceed the encoder's size limit ('replay encode failed'), so that a real counterexample
would be filed as an abstraction counter-model. The replay is only evaluated numerically, so here every non-free angle input
of such an encoder is pinned to the (dyadic, exact-as-double) sine and cosine of its replay value."""
import math
from fractions import Fraction
from engine.driver import poly as P


def _short(x):
    # short rationals (error < 1e-12, far below the replay tolerance) keep the float evaluation of high-degree terms in range
    return Fraction(x).limit_denominator(1 << 20)


def numeric_replay(enc, tr):
    if enc.free_all or enc.angle_pins:
        return False
    done = False
    for name, kind, nid, seed in tr.inputs:
        if kind != "angle" or enc.is_free(name):
            continue
        # with angle_pins empty the encoder treats a non-free angle input as an opaque constant-angle atom ('n', node id)
        for key in (("in", name), ("n", nid)):
            if key in enc.atoms:
                continue
            L = enc.atom_L.get(key, 1)
            enc.atoms[key] = dict(L=L, exact=(P.const(_short(math.sin(seed / L))), P.const(_short(math.cos(seed / L)))), seed=seed / L)
            done = True
    return done
