"""C19 Integrators honour the step/report/final-time contract."""
from engine.driver import poly as P
from engine.driver.core import Ob
from engine.driver.encode import Constraint

ID = "C19"
HARNESS = "C19_stepcontract.cpp"
EXPLANATION = "Each integrator's real stepTo() is executed on a free-slider system (every method is exact on it, so error estimates vanish and all decisions are comparisons of times; a spring/pendulum variant with active error control is explored in the thorough tier with large error expressions abstracted) with SYMBOLIC final time, report-time increments, scheduled-event time and step size. Every comparison on a symbolic time or error estimate is a recorded decision; the driver flips decisions (generational search) to reach other paths. On each explored path the solver proves, for all real values of the symbolic times satisfying the path condition: returned time <= min(report, scheduled, final); time non-decreasing; advanced time <= min(scheduled, final); ReachedReportTime => time = report (or = final when the final time precedes the report); ReachedScheduledEvent => time = scheduled; EndOfSimulation => time = final, returned once, and a further stepTo throws."
BOUNDS = "integrators ExplicitEuler, RK2, RK3, RKF, RKM, Verlet, SemiExplicitEuler, SemiExplicitEuler2 (CPodes thorough); option sets {default, every-step, no-interpolation, fixed step, scheduled event, step limit}; scripts of <= 9 stepTo calls over 4 symbolic report times; path budget 10 (quick) / 150 (thorough) per instance; 1 base point quick / 3 thorough"
NOT_COVERED = "event windows (no event triggers in this system: see C22); paths beyond the budget; rounding of t0+h (real semantics); stepBy; CPodes in quick tier"
ASSUMPTIONS = ["report times non-decreasing and > 0, final time > 0, step size > 0 (input domain used when flipping decisions)"]
ALLOW_INCONCLUSIVE = False

INTEGS = ["ExplicitEuler", "RungeKutta2", "RungeKutta3", "RungeKuttaFeldberg", "RungeKuttaMerson", "Verlet", "SemiExplicitEuler", "SemiExplicitEuler2"]
OPTS = ["", "every", "nointerp", "fixed", "sched", "limit", "sched,every", "nointerp,sched"]


def instances(tier, seed):
    out = []
    for ig in INTEGS + (["CPodes"] if tier == "thorough" else []):
        for o in OPTS:
            if ig == "SemiExplicitEuler" and "fixed" in o:
                continue
            if ig == "CPodes" and "fixed" in o:
                continue
            if tier == "quick" and o in ("sched,every", "nointerp,sched") and ig not in ("RungeKuttaMerson", "ExplicitEuler"):
                continue
            out.append(dict(name="%s[%s]" % (ig, o), args=[ig, o], paths=10 if tier == "quick" else 150,
                            base_points=1 if tier == "quick" else 3, flips_per_path=10 if tier == "quick" else 40,
                            abstract_big=True, max_terms=400, pc_filter="linear-first", flip_linear_only=True))
    if tier == "thorough":
        for ig in ("RungeKuttaMerson", "ExplicitEuler", "RungeKutta3"):
            out.append(dict(name="%s[dyn]" % ig, args=[ig, "dyn"], paths=12, base_points=1, flips_per_path=8, abstract_big=True, max_terms=400,
                            pc_filter="linear-first", flip_linear_only=True))
    return out


def free_sets(inst, tr, tier, rng):
    return [[n for n, k, _, _ in tr.inputs if k == "time"]]


def input_domain(enc, inst):
    cs = []
    for n, k, node, _ in enc.t.inputs:
        if k == "time":
            cs.append(Constraint(2, P.sub(enc.poly(node), P.const(P.Fraction(1, 64))), n + ">1/64"))
            cs.append(Constraint(4, P.sub(enc.poly(node), P.const(8)), n + "<8"))
    return cs


def obligations(enc, inst, tr):
    n = int(tr.note("ncalls"))
    tf = enc.out("tf_out")
    obs = []
    prev = P.const(0)
    ended = 0
    for c in range(n):
        st = int(tr.note("status%d" % c))
        rep_inf = tr.outputs["rep%d" % c][0] == "c" and tr.outputs["rep%d" % c][1] == float("inf")
        sch_inf = tr.outputs["sch%d" % c][0] == "c" and tr.outputs["sch%d" % c][1] == float("inf")
        t, tadv = enc.out("t%d" % c), enc.out("tadv%d" % c)
        rep = None if rep_inf else enc.out("rep%d" % c)
        sch = None if sch_inf else enc.out("sch%d" % c)
        goal = [Constraint(5, P.sub(t, tf), "t<=final"), Constraint(3, P.sub(t, prev), "t nondecreasing"),
                Constraint(5, P.sub(tadv, tf), "tadv<=final")]
        if not rep_inf:
            goal.append(Constraint(5, P.sub(t, rep), "t<=report"))
        if not sch_inf:
            goal.append(Constraint(5, P.sub(t, sch), "t<=scheduled"))
            goal.append(Constraint(5, P.sub(tadv, sch), "tadv<=scheduled"))
        obs.append(Ob("call %d (status %d): time bounds" % (c, st), goal,
                      twin=[Constraint(5, P.sub(P.scale(t, 2), P.add(tf, P.const(P.Fraction(-1, 64)))), "2t<=final-1/64 [twin]")] if c == n - 1 else None))
        if st == 1 and not rep_inf:     # ReachedReportTime
            obs.append(Ob("call %d: ReachedReportTime => t = report or t = final" % c,
                          [Constraint(1, P.sub(t, rep), "t=report"), Constraint(1, P.sub(t, tf), "t=final")], any=True))
        if st == 3:
            obs.append(Ob("call %d: ReachedScheduledEvent => t = scheduled" % c, [Constraint(1, P.sub(t, sch), "t=sched")]))
        if st == 6:
            ended += 1
            obs.append(Ob("call %d: EndOfSimulation => t = final" % c, [Constraint(1, P.sub(t, tf), "t=final")]))
            thr = tr.note("threw_after_end")
            obs.append(Ob("stepTo after EndOfSimulation is refused", [Constraint(1, P.const(0 if thr == "1" else 1), "threw")]))
        prev = t
    obs.append(Ob("EndOfSimulation returned at most once", [Constraint(1, P.const(0 if ended <= 1 else 1), "once")]))
    return obs
