"""C29 Mass-property and spatial-algebra identities."""
from fractions import Fraction
from engine.driver import poly as P
from engine.driver.core import Ob, eq, eqs
from engine.driver.encode import Constraint
from spec.vmath import LA

ID = "C29"
HARNESS = "C29_massprops.cpp"
EXPLANATION = ("Inertia_, UnitInertia_, SpatialInertia_, ArticulatedInertia_, MassProperties_ (double) and the shift operators of SpatialAlgebra.h are executed with every entry, mass, "
               "mass centre, shift vector, rotation angle and spatial vector symbolic. Proved for all real values: shiftToMassCenter(shiftFromMassCenter(I)) = I (also in-place and "
               "UnitInertia centroid versions) and the parallel-axis formula; pointMassAt = m(|p|^2 1 - p p^T); reexpress(R) = ~R I R and it preserves trace, the sum of the principal 2x2 minors "
               "and the determinant (the coefficients of the characteristic polynomial, i.e. the principal moments); operators; SpatialInertia shift/reexpress/transform agree with "
               "MassProperties calcShiftedMassProps/reexpress/calcTransformedMassProps (mass, mass centre and unit inertia) and with the 6x6 congruence Phi^T-form computed by the spec; shift is additive, "
               "transform(X).transform(~X) = id; M*V = toSpatialMat()*V; 1/2 V.(M V) and F.V are invariant under consistent shiftVelocityBy/shiftForceBy/shift/reexpress/transform; "
               "shiftAccelerationBy is the time derivative of shiftVelocityBy (AD, r fixed in the body); PhiMatrix products equal their 6x6 matrices; ArticulatedInertia::shift(s) = "
               "[1 sx;0 1] P [1 0;-sx 1], agrees with SpatialInertia::shift(-s) on rigid bodies, keeps V.(P V) invariant. isValidInertiaMatrix: on every accepted path the diagonal is >= -Slop "
               "and satisfies the triangle inequalities within the code's Slop; positive semi-definiteness of accepted matrices is asserted as the property states.")
BOUNDS = "free set ALL (every input a solver variable, three rotation angles included); validity test: six matrix entries free, up to 24 paths of isValidInertiaMatrix explored (both tiers)"
NOT_COVERED = ("float; the constructors' errChk (compiled out in the Release/NDEBUG build that is verified; isValidInertiaMatrix is the same family of tests); shape factories (sphere, brick, ...); "
               "rounding")


def instances(tier, seed):
    return [dict(name="inertia", args=["inertia"], base_points=1), dict(name="spatial", args=["spatial"], base_points=1, max_terms=60000),
            dict(name="abi", args=["abi"], base_points=1), dict(name="valid", args=["valid"], base_points=1, paths=24, flips_per_path=14, z3_timeout_ms=60000)]


def free_sets(inst, tr, tier, rng):
    return ["ALL"]


def flip_domain(enc, inst):
    cons = []
    for name, kind, node, seed in enc.t.inputs:
        p = enc.poly(node)
        cons.append(Constraint(3, P.add(p, P.const(8)), "box"))
        cons.append(Constraint(5, P.sub(p, P.const(8)), "box"))
    return cons


def flat(A, B):
    return [(a, b) for ra, rb in zip(A, B) for a, b in zip(ra, rb)]


def sym_in(L, n):
    g = lambda k: L.inp("%s_%s" % (n, k))
    return [[g("xx"), g("xy"), g("xz")], [g("xy"), g("yy"), g("yz")], [g("xz"), g("yz"), g("zz")]]


def point_mass(L, p, m):
    """m (|p|^2 1 - p p^T)"""
    n2 = L.dot(p, p)
    return [[L.mul(m, P.sub(n2 if i == j else {}, L.mul(p[i], p[j]))) for j in range(3)] for i in range(3)]


def char_coeffs(L, A):
    tr = P.add(P.add(A[0][0], A[1][1]), A[2][2])
    m2 = {}
    for i, j in ((0, 1), (0, 2), (1, 2)):
        m2 = P.add(m2, P.sub(L.mul(A[i][i], A[j][j]), L.mul(A[i][j], A[j][i])))
    return tr, m2, L.det3(A)


def smat(L, name):
    return L.mat(name, 6, 6)


def blocks(L, A00, A01, A10, A11):
    return [A00[i] + A01[i] for i in range(3)] + [A10[i] + A11[i] for i in range(3)]


def si_mat(L, m, p, G):
    """6x6 of a spatial inertia: [m G, m px; -m px, m 1]"""
    px = L.crossmat([L.mul(m, x) for x in p])
    mG = L.mscale(G, m)
    return blocks(L, mG, px, [[P.neg(x) for x in r] for r in px], L.mscale(L.eye(3), m))


def obligations(enc, inst, tr):
    L = LA(enc, tr)
    mode = tr.note("mode")
    obs = []
    I3 = L.eye(3)
    S = lambda n: L.mat(n, 3, 3)
    if mode == "inertia":
        ic = sym_in(L, "ic")
        m, p, w = L.inp("m"), L.ivec("p", 3), L.ivec("w", 3)
        R = S("R"); Rt = L.T(R)
        pm = point_mass(L, p, m)
        Io = S("Io")
        obs.append(eqs(enc, "Inertia(SymMat33) stores the matrix", flat(S("Ic"), ic)))
        obs.append(eqs(enc, "pointMassAt(p,m) = m(|p|^2 1 - p p^T) (also Inertia(p,m))", flat(S("pm"), pm) + flat(S("pmCtor"), pm)))
        obs.append(eqs(enc, "shiftFromMassCenter = I + pointMass (parallel axis)", flat(Io, L.madd(ic, pm)) + flat(S("IoIP"), L.madd(ic, pm))))
        obs.append(eqs(enc, "shiftToMassCenter(shiftFromMassCenter(I)) = I", flat(S("Ic2"), ic) + flat(S("Ic2IP"), ic)))
        ref = L.mm(L.mm(Rt, Io), R)
        obs.append(eqs(enc, "reexpress(R_FB) = ~R I R", flat(S("Ir"), ref) + flat(S("IrIP"), ref)))
        refi = L.mm(L.mm(R, Io), Rt)
        obs.append(eqs(enc, "reexpress(~R) = R I ~R", flat(S("Iri"), refi) + flat(S("IriIP"), refi)))
        c0, c1 = char_coeffs(L, Io), char_coeffs(L, S("Ir"))
        obs.append(eqs(enc, "reexpress preserves trace, sum of principal 2x2 minors, determinant", list(zip(c1, c0)) + [(L.out("trIr"), L.out("trIo")), (L.out("trIo"), c0[0])]))
        obs.append(eqs(enc, "Inertia * w", list(zip(L.vec("Iow", 3), L.mv(Io, w)))))
        im = enc.inv(m)
        obs.append(eqs(enc, "Inertia + - * /", flat(S("sum"), L.madd(Io, ic)) + flat(S("dif"), L.msub(Io, ic)) + flat(S("scl"), L.mscale(Io, m)) + flat(S("scl2"), L.mscale(Io, m)) + flat(S("dvd"), L.mscale(Io, im))))
        obs.append(eqs(enc, "toMat33 / getMoments / getProducts", flat(S("toMat33"), Io) + list(zip(L.vec("moments", 3), [Io[0][0], Io[1][1], Io[2][2]])) + list(zip(L.vec("products", 3), [Io[1][0], Io[2][0], Io[2][1]]))))
        one = P.const(1)
        upm = point_mass(L, p, one)
        Go = S("Go")
        obs.append(eqs(enc, "UnitInertia shiftFromCentroid = G + unit point mass; pointMassAt", flat(Go, L.madd(ic, upm)) + flat(S("GoIP"), L.madd(ic, upm)) + flat(S("upm"), upm) + flat(S("G"), ic)))
        obs.append(eqs(enc, "UnitInertia shiftToCentroid(shiftFromCentroid(G)) = G", flat(S("Gc"), ic) + flat(S("GcIP"), ic)))
        obs.append(eqs(enc, "UnitInertia reexpress", flat(S("Gr"), L.mm(L.mm(Rt, Go), R)) + flat(S("Gri"), L.mm(L.mm(R, Go), Rt))))
        obs.append(eqs(enc, "mass * UnitInertia", flat(S("mG"), L.mscale(Go, m))))
    elif mode == "spatial":
        g = sym_in(L, "g")
        m, p, s, s2 = L.inp("m"), L.ivec("p", 3), L.ivec("s", 3), L.ivec("s2", 3)
        R = S("R"); Rt = L.T(R)
        V = L.ivec("V_w", 3) + L.ivec("V_v", 3)
        F = L.ivec("F_w", 3) + L.ivec("F_v", 3)
        A = L.ivec("A_w", 3) + L.ivec("A_v", 3)

        def SI(n):
            return L.out(n + "_m"), L.vec(n + "_p", 3), S(n + "_G")

        def same(name, a, b):
            (ma, pa, Ga), (mb, pb, Gb) = a, b
            obs.append(eqs(enc, name, [(ma, mb)] + list(zip(pa, pb)) + flat(Ga, Gb)))

        one = P.const(1)

        def shifted(mm, pp, GG, sv):
            """reference: shift the 'about' point by sv: G' = G - pm1(p) + pm1(p - s)"""
            pn = L.vsub(pp, sv)
            return mm, pn, L.madd(L.msub(GG, point_mass(L, pp, one)), point_mass(L, pn, one))

        def reexp(mm, pp, GG):
            return mm, L.mv(Rt, pp), L.mm(L.mm(Rt, GG), R)

        base = (m, p, g)
        same("SpatialInertia(m,p,G) / MassProperties(m,p,G) store their arguments", SI("M"), base); same("MassProperties(m,p,G)", SI("mp"), base)
        same("MassProperties(m,p,Inertia=m G) recovers the unit inertia", SI("mpI"), base)
        same("SpatialInertia::shift = parallel-axis reference", SI("Msh"), shifted(*base, s)); same("shiftInPlace", SI("MshIP"), shifted(*base, s))
        same("MassProperties::calcShiftedMassProps = SpatialInertia::shift", SI("mpsh"), SI("Msh"))
        same("SpatialInertia::reexpress = (~R p, ~R G R)", SI("Mre"), reexp(*base)); same("reexpressInPlace", SI("MreIP"), reexp(*base))
        same("SpatialInertia::reexpress(~R)", SI("Mrei"), (m, L.mv(R, p), L.mm(L.mm(R, g), Rt)))
        same("MassProperties::reexpress = SpatialInertia::reexpress", SI("mpre"), SI("Mre"))
        same("SpatialInertia::transform = shift then reexpress", SI("Mtr"), reexp(*shifted(*base, s))); same("transformInPlace", SI("MtrIP"), reexp(*shifted(*base, s)))
        same("MassProperties::calcTransformedMassProps = SpatialInertia::transform", SI("mptr"), SI("Mtr"))
        same("transform(X).transform(~X) = identity", SI("Mtri"), base)
        same("shift(s).shift(s2) = shift(s+s2)", SI("Mshsh"), SI("Mshsum"))
        mG = L.mscale(g, m)
        cen = L.msub(mG, point_mass(L, p, m))
        obs.append(eqs(enc, "MassProperties calcInertia / calcCentralInertia / calcShiftedInertia / calcTransformedInertia",
                       flat(S("mpInertia"), mG) + flat(S("mpCentral"), cen) + flat(S("mpShiftedI"), L.madd(cen, point_mass(L, L.vsub(s, p), m)))
                       + flat(S("mpTransfI"), L.mm(L.mm(Rt, L.madd(cen, point_mass(L, L.vsub(s, p), m))), R))))
        obs.append(eqs(enc, "SpatialInertia calcInertia / calcMassMoment", flat(S("MInertia"), mG) + list(zip(L.vec("MMoment", 3), [L.mul(m, x) for x in p]))))
        Mm = si_mat(L, m, p, g)
        obs.append(eqs(enc, "toSpatialMat = [mG, m px; -m px, m 1]", flat(smat(L, "Mmat"), Mm)))
        MV = L.vec("MV_w", 3) + L.vec("MV_v", 3)
        obs.append(eqs(enc, "M*V = toSpatialMat()*V", list(zip(MV, L.mv(Mm, V)))))
        KE = L.out("KE")
        obs.append(eq(enc, "KE = 1/2 V.(M V) from the 6x6 matrix", P.scale(KE, 2), L.dot(V, L.mv(Mm, V))))
        obs.append(eqs(enc, "kinetic energy invariant under shift / reexpress / transform", [(L.out("KEs"), KE), (L.out("KEr"), KE), (L.out("KEt"), KE)]))
        Pw = L.out("P")
        obs.append(eq(enc, "power = F.V", Pw, L.dot(F, V)))
        obs.append(eqs(enc, "power F.V invariant under shiftForceBy/shiftVelocityBy and re-expression", [(L.out("Ps"), Pw), (L.out("Pr"), Pw), (L.out("Pt"), Pw)]))
        w, v = V[:3], V[3:]
        d = L.vsub(s2, s)
        obs.append(eqs(enc, "shiftVelocityBy/FromTo: (w, v + w x r)", list(zip(L.vec("Vs_w", 3) + L.vec("Vs_v", 3) + L.vec("Vft_w", 3) + L.vec("Vft_v", 3), w + L.vadd(v, L.cross(w, s)) + w + L.vadd(v, L.cross(w, d))))))
        obs.append(eqs(enc, "shiftForceBy/FromTo: (m - r x f, f)", list(zip(L.vec("Fs_w", 3) + L.vec("Fs_v", 3) + L.vec("Fft_w", 3) + L.vec("Fft_v", 3), L.vsub(F[:3], L.cross(s, F[3:])) + F[3:] + L.vsub(F[:3], L.cross(d, F[3:])) + F[3:]))))
        # shiftAccelerationBy = d/dt shiftVelocityBy with V -> A and the body-fixed offset r -> w x r
        tang = {}
        for k in range(3):
            tang["V_w_%d" % k] = A[k]; tang["V_v_%d" % k] = A[3 + k]; tang["s_%d" % k] = L.out("wxs_%d" % k)
        dVs = L.dvec("Vs_w", 3, tang, "acc") + L.dvec("Vs_v", 3, tang, "acc")
        obs.append(eqs(enc, "shiftAccelerationBy = d/dt shiftVelocityBy (offset fixed in the body)", list(zip(L.vec("As_w", 3) + L.vec("As_v", 3), dVs))))
        b, a = A[:3], A[3:]
        obs.append(eqs(enc, "shiftAccelerationFromTo", list(zip(L.vec("Aft_w", 3) + L.vec("Aft_v", 3), b + L.vadd(L.vadd(a, L.cross(b, d)), L.cross(w, L.cross(w, d)))))))
        Z = [[{}] * 3] * 3
        sx = L.crossmat(s)
        phi = blocks(L, I3, sx, Z, I3)
        phiT = L.T(phi)
        obs.append(eqs(enc, "PhiMatrix toSpatialMat and transpose", flat(smat(L, "phi"), phi) + flat(smat(L, "phiT"), phiT)))
        obs.append(eqs(enc, "Phi*V, ~Phi*V", list(zip(L.vec("phiV_w", 3) + L.vec("phiV_v", 3) + L.vec("phiTV_w", 3) + L.vec("phiTV_v", 3), L.mv(phi, V) + L.mv(phiT, V)))))
        obs.append(eqs(enc, "Phi*M, M*Phi, ~Phi*M, M*~Phi", flat(smat(L, "phiM"), L.mm(phi, Mm)) + flat(smat(L, "Mphi"), L.mm(Mm, phi)) + flat(smat(L, "phiTM"), L.mm(phiT, Mm)) + flat(smat(L, "MphiT"), L.mm(Mm, phiT))))
        # rigid shift of the spatial inertia as a 6x6 congruence: M(O+s) = ~Phi(s)^-1 ... : M' = T M T^T with T = [1 -sx... checked through the shifted toSpatialMat
        ms, ps, Gs = shifted(*base, s)
        Tm = blocks(L, I3, [[P.neg(x) for x in r] for r in sx], Z, I3)        # [1 -sx; 0 1]
        obs.append(eqs(enc, "6x6: toSpatialMat(M.shift(s)) = [1 -sx;0 1] toSpatialMat(M) [1 0; sx 1]", flat(si_mat(L, ms, ps, Gs), L.mm(L.mm(Tm, Mm), L.T(Tm)))))
    elif mode == "abi":
        Mm, J = sym_in(L, "am"), sym_in(L, "aj")
        Fm = [[L.inp("af_%d_%d" % (i, j)) for j in range(3)] for i in range(3)]
        s = L.ivec("s", 3)
        V = L.ivec("V_w", 3) + L.ivec("V_v", 3)
        Pm = blocks(L, J, Fm, L.T(Fm), Mm)
        obs.append(eqs(enc, "ArticulatedInertia toSpatialMat = [J F; ~F M]", flat(smat(L, "P"), Pm)))
        sx = L.crossmat(s)
        Z = [[{}] * 3] * 3
        I3_ = L.eye(3)
        Lm = blocks(L, I3_, sx, Z, I3_)
        ref = L.mm(L.mm(Lm, Pm), L.T(Lm))
        obs.append(eqs(enc, "ArticulatedInertia::shift(s) = [1 sx;0 1] P [1 0;-sx 1]", flat(smat(L, "Psh"), ref) + flat(smat(L, "PshIP"), ref)))
        obs.append(eqs(enc, "ArticulatedInertia * V", list(zip(L.vec("PV_w", 3) + L.vec("PV_v", 3), L.mv(Pm, V)))))
        obs.append(eqs(enc, "ArticulatedInertia + -", flat(smat(L, "Psum"), L.madd(Pm, ref)) + flat(smat(L, "Pdif"), L.msub(Pm, ref))))
        obs.append(eq(enc, "V.(P V) invariant under shift(s) with shiftVelocityBy(V,-s)", L.out("Esh"), L.out("E")))
        obs.append(eqs(enc, "ArticulatedInertia(SpatialInertia) = toSpatialMat; ABI.shift(s) = SpatialInertia.shift(-s)", flat(smat(L, "Prb"), smat(L, "Mmat")) + flat(smat(L, "Prbsh"), smat(L, "Mshneg"))))
    elif mode == "valid":
        I = S("I")
        ok = tr.note("valid") == "1"
        if tr.note("validUnit") != tr.note("valid"):
            raise RuntimeError("isValidUnitInertiaMatrix disagrees with isValidInertiaMatrix")
        if ok:
            d = [I[0][0], I[1][1], I[2][2]]
            # Slop = max(sum,1)*Significant >= Significant*... : the triangle inequalities hold up to the code's own slop; we assert them with the slop bounded by
            # Significant*(|d0|+|d1|+|d2|+1) <= 2^-40 (sum+1)  (SignificantReal ~ 1e-14 < 2^-40)
            eps = Fraction(1, 2 ** 40)
            sm = P.add(P.add(d[0], d[1]), d[2])
            slop = P.scale(P.add(sm, P.const(1)), eps)
            tri = [Constraint(3, P.add(P.sub(P.add(d[a], d[b]), d[c]), slop), "d%d+d%d+slop>=d%d" % (a, b, c)) for a, b, c in ((0, 1, 2), (0, 2, 1), (1, 2, 0))]
            obs.append(Ob("accepted inertia: diagonal >= 0 and triangle inequalities (within the code's slop)", [Constraint(3, x, "diag>=0") for x in d] + tri,
                          twin=[Constraint(4, P.add(P.sub(P.add(d[0], d[1]), d[2]), slop), "[twin] d0+d1+slop<d2")]))
            # PSD up to the same slop: principal minors of order k >= -eps (sum+1)^k
            sc = P.add(sm, P.const(1))
            minors = [("I%d%d>=0" % (a, a), I[a][a]) for a in range(3)]
            for a, b in ((0, 1), (0, 2), (1, 2)):
                minors.append(("minor%d%d>=-slop" % (a, b), P.add(P.sub(L.mul(I[a][a], I[b][b]), L.mul(I[a][b], I[a][b])), P.scale(L.R.pow(sc, 2), eps))))
            minors.append(("det>=-slop", P.add(L.det3(I), P.scale(L.R.pow(sc, 3), eps))))
            # one obligation per group of minors (a conjunction over all seven makes the refutation search needlessly hard)
            obs.append(Ob("accepted inertia is positive semi-definite: 2x2 principal minors >= 0 (within slop)", [Constraint(3, pz, nm) for nm, pz in minors[3:6]],
                          twin=[Constraint(4, I[0][0], "[twin] Ixx<0")]))
            obs.append(Ob("accepted inertia is positive semi-definite: determinant >= 0 (within slop)", [Constraint(3, pz, nm) for nm, pz in minors[6:]],
                          twin=[Constraint(4, I[0][0], "[twin] Ixx<0")]))
    return obs
