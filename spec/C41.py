"""C41 Functions, splines and smooth steps are self-consistent."""
from fractions import Fraction
from engine.driver import poly as P
from engine.driver.core import Ob, eq, eqs
from engine.driver.encode import Constraint

ID = "C41"
HARNESS = "C41_functions.cpp"
EXPLANATION = ("Function_<Real>::Constant, Linear, Polynomial, Sinusoid and Step, the helpers stepUp/stepDown/stepAny with their first three derivatives (Scalar.h), and interpolating "
               "splines from SplineFitter (GCVSPL code, smoothing parameter 0) are executed with symbolic parameters and arguments. calcDerivative of order k is proved equal to the exact "
               "derivative (forward-mode AD over the executed DAG) of the order k-1 result, for every supported order (Polynomial up to degree+2, Sinusoid 0..6 incl. the generic formula, "
               "Step 1..3, Linear first and mixed second, Constant); the step helpers form an AD chain, have the documented end values, first and second derivatives vanish at 0 and 1, "
               "dstepUp >= 0 and 0 <= stepUp <= 1 on [0,1] (univariate inequalities); Function::Step equals y0 / y1 with zero derivatives outside its interval (both orientations x0<x1, x0>x1; "
               "paths reached by seeds and by flipping) and is monotone inside (derivative has the sign of (y1-y0)(x1-x0)). Splines: with the knots pinned and all ordinates free (the spline is "
               "linear in them) |S(x_i) - y_i| <= 1e-12 max|y| at every knot (GCVSPL clips the smoothing parameter 0 to 1e-15, so exact interpolation does not hold over the reals; decided as linear arithmetic); calcDerivative(k, x) is the k-th derivative of calcValue at a free evaluation point inside every interval; the polynomial pieces left "
               "and right of each interior knot agree there in value and derivatives 1..degree-1 (pieces are the DAG polynomials in the free evaluation point, evaluated at the knot).")
BOUNDS = ("all parameters and arguments free (Sinusoid phase and time via one angle atom); Linear with 3 arguments, Polynomial degrees 1..6; splines: degree 1 and 3 (quick), 5 and 7 (thorough), 5-10 "
          "knots at pinned rational abscissae, ordinates and one evaluation point per interval free")
NOT_COVERED = ("float / Vec-valued Function_ instantiations; spline smoothing > 0 (GCV search), other fit modes; continuity of spline derivatives is established through the polynomial pieces "
               "(not by limits); stepAny outside its interval relies on the clamp (covered: both clamped paths are explored); rounding")


def instances(tier, seed):
    q = tier == "quick"
    out = [dict(name="constant", args=["constant"], base_points=1), dict(name="linear:3", args=["linear", "3"], base_points=1)]
    for d in ((1, 3, 5) if q else (1, 2, 3, 4, 5, 6)):
        out.append(dict(name="poly:%d" % d, args=["poly", str(d)], base_points=1))
    out.append(dict(name="sinusoid", args=["sinusoid"], base_points=1))
    for nm, s in (("up:inside", ("1", "3", "1.75")), ("up:before", ("1", "3", "0.5")), ("up:after", ("1", "3", "3.5")),
                  ("down:inside", ("3", "1", "2.25")), ("down:before", ("3", "1", "3.5")), ("down:after", ("3", "1", "0.5"))):
        out.append(dict(name="step:" + nm, args=["step"] + list(s), base_points=1, paths=3 if q else 8, flip_timeout_ms=2000))
    out.append(dict(name="stepfuncs", args=["stepfuncs"], base_points=1, paths=4, flip_timeout_ms=2000))
    for deg, n in (((1, 5), (3, 6)) if q else ((1, 5), (3, 6), (3, 9), (5, 8), (7, 10))):
        out.append(dict(name="spline:%d:%d" % (deg, n), args=["spline", str(deg), str(n)], base_points=1, max_terms=100000))
    return out


def free_sets(inst, tr, tier, rng):
    if tr.note("mode") == "spline":
        return [[n for n, k, _, _ in tr.inputs if n.startswith("y_") or n.startswith("xm_")]]
    return ["ALL"]


def chain(enc, tr, names, var, label):
    """names[k] is the code's k-th derivative w.r.t. input `var`: names[k] = d/dvar names[k-1]"""
    obs = []
    one = {var: P.const(1)}
    for k in range(1, len(names)):
        d = enc.out_tangent(names[k - 1], one, "d/d" + var)
        obs.append(eq(enc, "%s: derivative of order %d = d/d%s of order %d" % (label, k, var, k - 1), enc.out(names[k]), d))
    return obs


def obligations(enc, inst, tr):
    R = enc.ring
    m = R.mul
    mode = tr.note("mode")
    inp = lambda n: enc.poly(tr.input_by_name[n][2])
    obs = []
    if mode == "constant":
        c = inp("c")
        obs.append(eq(enc, "Constant: value", enc.out("v"), c))
        obs.append(eqs(enc, "Constant: derivatives of every order are the AD derivatives (0)",
                       [(enc.out("d_0"), enc.out_tangent("v", {"x_0": P.const(1)}, "x0")), (enc.out("d_1"), enc.out_tangent("v", {"x_1": P.const(1)}, "x1")),
                        (enc.out("d_01"), enc.out_tangent("d_0", {"x_1": P.const(1)}, "x1")), (enc.out("d_std"), {})]))
    elif mode == "linear":
        n = int(tr.note("n"))
        ref = inp("c_%d" % n)
        for i in range(n):
            ref = P.add(ref, m(inp("c_%d" % i), inp("x_%d" % i)))
        obs.append(eq(enc, "Linear: value = sum c_i x_i + c_n", enc.out("v"), ref))
        pairs = []
        for i in range(n):
            pairs.append((enc.out("d_%d" % i), enc.out_tangent("v", {"x_%d" % i: P.const(1)}, "x%d" % i)))
            for j in range(n):
                pairs.append((enc.out("d_%d_%d" % (i, j)), enc.out_tangent("d_%d" % i, {"x_%d" % j: P.const(1)}, "x%d" % j)))
        obs.append(Ob("Linear: first and second (mixed) derivatives = AD derivatives", [Constraint(1, P.sub(l, r), "d[%d]" % k) for k, (l, r) in enumerate(pairs)],
                      twin=[Constraint(1, P.sub(pairs[0][0], P.scale(pairs[0][1], 2)), "[twin]")]))
    elif mode == "poly":
        deg = int(tr.note("deg"))
        x = inp("x")
        ref = {}
        for i in range(deg + 1):
            ref = P.add(m(ref, x), inp("c_%d" % i))
        obs.append(eq(enc, "Polynomial: value (Horner, decreasing powers)", enc.out("d0"), ref))
        obs += chain(enc, tr, ["d%d" % k for k in range(deg + 3)], "x", "Polynomial degree %d" % deg)
    elif mode == "sinusoid":
        obs.append(eq(enc, "Sinusoid: calcDerivative(order 0) = calcValue", enc.out("d0b"), enc.out("d0")))
        obs += chain(enc, tr, ["d%d" % k for k in range(7)], "t", "Sinusoid")
    elif mode == "step":
        y0, y1, x0, x1, x = (inp(n) for n in ("y0", "y1", "x0", "x1", "x"))
        if tr.note("exception"):
            # documented: a zero-length switching interval is illegal (exception); reached by flipping x0 != x1
            return [Ob("Step: exception only for x0 == x1", [Constraint(1, P.sub(x0, x1), "x0=x1")], twin=[Constraint(6, P.sub(x0, x1), "[twin] x0 != x1")])]
        d = [enc.out("d%d" % k) for k in range(4)]
        inside = tr.outputs["d1"][0] == "n"
        if inside:
            obs += chain(enc, tr, ["d0", "d1", "d2", "d3"], "x", "Step (inside the transition)")
            # monotone: d1 * (y1-y0) * (x1-x0) >= 0
            obs.append(Ob("Step is monotone inside the transition: d1 (y1-y0)(x1-x0) >= 0", [Constraint(3, m(m(d[1], P.sub(y1, y0)), P.sub(x1, x0)), "monotone")],
                          twin=[Constraint(4, m(m(d[1], P.sub(y1, y0)), P.sub(x1, x0)), "[twin] < 0")]))
            # between the end values: (d0 - y0)(y1 - d0) >= 0
            obs.append(Ob("Step value lies between y0 and y1", [Constraint(3, m(P.sub(d[0], y0), P.sub(y1, d[0])), "between")],
                          twin=[Constraint(4, m(P.sub(d[0], y0), P.sub(y1, d[0])), "[twin] outside")]))
        else:
            # outside: which end? decided by the executed path; the value must be the end value on the side of x
            v = d[0]
            isy0 = (v == y0)
            obs.append(Ob("Step outside the transition: value is the end value y0 or y1, derivatives vanish",
                          [Constraint(1, P.sub(v, y0 if isy0 else y1), "end value")] + [Constraint(1, d[k], "d%d=0" % k) for k in (1, 2, 3)],
                          twin=[Constraint(1, P.sub(v, y1 if isy0 else y0), "[twin] other end value")]))
            # and the side is right: value y0 iff x is on the x0 side: (x - x0)(x1 - x0) <= 0 ; value y1 iff (x - x1)(x1 - x0) >= 0
            side = m(P.sub(x, x0), P.sub(x1, x0)) if isy0 else P.neg(m(P.sub(x, x1), P.sub(x1, x0)))
            obs.append(Ob("Step outside the transition: x is beyond the matching end of the interval", [Constraint(5, side, "side")], twin=[Constraint(2, side, "[twin] wrong side")]))
    elif mode == "stepfuncs":
        obs += chain(enc, tr, ["up0", "up1", "up2", "up3"], "x", "stepUp")
        obs += chain(enc, tr, ["dn0", "dn1", "dn2", "dn3"], "x", "stepDown")
        if tr.outputs["an1"][0] == "n" and enc.out("an1"):
            obs += chain(enc, tr, ["an0", "an1", "an2", "an3"], "xa", "stepAny")
        else:
            # clamped: stepAny is constant in x on this path (value y0 or y0+yRange); the code's derivative helpers return the one-sided polynomial derivative at the clamped end: 0,0 and +-60 c^3
            y0, yr = inp("y0"), inp("yr")
            v = enc.out("an0")
            obs.append(Ob("stepAny clamped outside [x0,x1]: value is an end value, first and second derivative vanish",
                          [Constraint(1, m(P.sub(v, y0), P.sub(v, P.add(y0, yr))), "end value"), Constraint(1, enc.out("an1"), "d1=0"), Constraint(1, enc.out("an2"), "d2=0")],
                          twin=[Constraint(1, P.sub(v, P.add(y0, P.scale(yr, Fraction(1, 2)))), "[twin] midpoint")]))
        x = inp("x")
        obs.append(eq(enc, "stepUp = 10x^3 - 15x^4 + 6x^5", enc.out("up0"), P.add(P.sub(P.scale(R.pow(x, 3), 10), P.scale(R.pow(x, 4), 15)), P.scale(R.pow(x, 5), 6))))
        obs.append(eq(enc, "stepDown = 1 - stepUp", enc.out("dn0"), P.sub(P.const(1), enc.out("up0"))))
        ends = {"e_up0_0": 0, "e_up0_1": 1, "e_up1_0": 0, "e_up1_1": 0, "e_up2_0": 0, "e_up2_1": 0, "e_dn0_0": 1, "e_dn0_1": 0, "e_dn1_0": 0, "e_dn1_1": 0, "e_dn2_0": 0, "e_dn2_1": 0}
        obs.append(Ob("end values: stepUp(0)=0, stepUp(1)=1, first and second derivatives vanish at 0 and 1 (also stepDown)",
                      [Constraint(1, P.sub(enc.out(k), P.const(v)), k) for k, v in ends.items()], twin=[Constraint(1, P.sub(enc.out("e_up0_1"), P.const(2)), "[twin] stepUp(1)=2")]))
        dom = [Constraint(3, x, "x>=0"), Constraint(5, P.sub(x, P.const(1)), "x<=1")]
        obs.append(Ob("dstepUp >= 0 and 0 <= stepUp <= 1 on [0,1] (monotone step)", [Constraint(3, enc.out("up1"), "dstepUp>=0"), Constraint(3, enc.out("up0"), "stepUp>=0"),
                                                                                  Constraint(5, P.sub(enc.out("up0"), P.const(1)), "stepUp<=1"), Constraint(5, enc.out("dn1"), "dstepDown<=0")],
                      hyps=dom, twin=[Constraint(4, enc.out("up1"), "[twin] dstepUp<0")]))
    elif mode == "spline":
        deg, n = int(tr.note("degree")), int(tr.note("n"))
        # GCVSPL never uses smoothing parameter 0: it clips p to eps/el with eps = 1e-15 (gcvspl.cpp, splc_), so over the reals the "interpolating" spline misses the
        # ordinates by O(1e-15) relative. The spline is linear and homogeneous in y; asserted: |y_j| <= 1 for all j  =>  |S(x_i) - y_i| <= 1e-12 (linear arithmetic),
        # i.e. |S(x_i) - y_i| <= 1e-12 max_j |y_j| for all ordinates.
        ys = [inp("y_%d" % j) for j in range(n)]
        box = [c for yj in ys for c in (Constraint(3, P.add(yj, P.const(1)), "y>=-1"), Constraint(5, P.sub(yj, P.const(1)), "y<=1"))]
        tolr = Fraction(1, 10 ** 12)
        goal = []
        for i in range(n):
            df = P.sub(enc.out("s_%d" % i), ys[i])
            if () in df or any(sum(e for _, e in mono) != 1 for mono in df):
                raise RuntimeError("spline value is not linear homogeneous in the ordinates")
            goal += [Constraint(5, P.sub(df, P.const(tolr)), "S(x%d)-y<=tol" % i), Constraint(3, P.add(df, P.const(tolr)), "S(x%d)-y>=-tol" % i)]
        obs.append(Ob("spline degree %d: |S(x_i) - y_i| <= 1e-12 max|y| at every knot (p=0 is clipped to 1e-15 by GCVSPL)" % deg, goal, hyps=box,
                      twin=[Constraint(3, P.sub(P.sub(enc.out("s_0"), ys[0]), P.const(Fraction(1, 10))), "[twin] S(x0)-y0 >= 0.1")]))
        for i in range(n - 1):
            var = "xm_%d" % i
            one = {var: P.const(1)}
            pairs = []
            prev = "m_%d" % i
            for k in range(1, deg + 1):
                cur = "md%d_%d" % (k, i)
                pairs.append((enc.out(cur), enc.out_tangent(prev, one, "d/d" + var)))
                prev = cur
            obs.append(eqs(enc, "spline degree %d: calcDerivative(k,x) = d/dx calcDerivative(k-1,x), k=1..%d, x free in interval %d" % (deg, deg, i), pairs))
        # continuity at interior knots through the polynomial pieces
        knot = [Fraction(tr.input_by_name["xk_%d" % i][3]) for i in range(n)]

        def at(name, i, xv):
            p = enc.out(name)
            vi = enc.input_var.get("xm_%d" % i)
            return R.subs(p, vi, P.const(xv)) if vi is not None and R.degree_in(p, vi) else p

        for i in range(n - 2):
            xv = knot[i + 1]
            pairs = [(at("m_%d" % i, i, xv), at("m_%d" % (i + 1), i + 1, xv)), (at("m_%d" % i, i, xv), enc.out("s_%d" % (i + 1)))]
            for k in range(1, deg):
                pairs.append((at("md%d_%d" % (k, i), i, xv), at("md%d_%d" % (k, i + 1), i + 1, xv)))
                if tr.outputs.get("sd%d_%d" % (k, i + 1)):
                    pairs.append((enc.out("sd%d_%d" % (k, i + 1)), at("md%d_%d" % (k, i), i, xv)))
            obs.append(eqs(enc, "spline degree %d: pieces left and right of knot %d agree in value and derivatives 1..%d (and with calcDerivative at the knot)" % (deg, i + 1, deg - 1), pairs))
    return obs
