"""C28 Angular-velocity rate helpers are exact derivatives."""
from engine.driver import poly as P
from engine.driver.core import Ob, eq, eqs
from engine.driver.encode import Constraint
from spec.vmath import LA

ID = "C28"
HARNESS = "C28_angvel.cpp"
EXPLANATION = ("The static helpers of Rotation_<double> (Rotation.h) are called with symbolic Euler angles / quaternion, angular velocity and "
               "angular acceleration: calcN/NInv/NDotForBodyXYZIn{Body,Parent}Frame, convertAngVelInBodyFrameToBodyXYZDot, convertBodyXYZDotToAngVelInBodyFrame, "
               "convertAngVelDotInBodyFrameToBodyXYZDotDot, convertAngVelInParentToBodyXYZDot, convertAngAccInParentToBodyXYZDotDot, multiplyByBodyXYZ_N_P/NT_P/NInv_P/NInvT_P, "
               "the body-fixed 3-2-1 trio, and calcUnnormalizedN/NInv/NDotForQuaternion, convertAngVelToQuaternionDot, convertQuaternionDotToAngVel, "
               "convertAngVelDotToQuaternionDotDot. R(q) is produced by the real setRotationToBodyFixedXYZ / three-angle constructor / Rotation(Quaternion(q)). "
               "Proved for all values of the free inputs: N NInv = NInv N = I (Euler; side condition cos q1 != 0 is the inverse variable's definition); quaternion: "
               "NInv N = |q|^2 I as documented, hence = I and convertQuaternionDotToAngVel(convertAngVelToQuaternionDot(w)) = w under the hypothesis |q|^2 = 1 "
               "(the header says N NInv != I, so that product is not asserted); qdot helper = N w; d/dt R(q) along q->qdot (forward-mode AD of the executed DAG) "
               "= R [w_B]x (body) resp. [w_P]x R (parent), for the quaternion with R(q/|q|) and arbitrary non-zero unnormalised q; NDot = d/dt N along qdot; "
               "second-derivative helpers = d/dt(first-derivative helper) along q->qdot, w->wdot; documented relations N_B = N_P R, NInv_P = R NInv_B; "
               "fast multiplyBy helpers = explicit matrix products.")
BOUNDS = ("all three Euler angles (resp. all four quaternion components), w, wdot and test vectors simultaneously free (free set ALL): each verdict holds for every real "
          "value with cos q1 != 0 (resp. q != 0); double precision instantiation; one path (no data-dependent branches)")
NOT_COVERED = "float instantiation; rounding; behaviour at the singularity cos q1 = 0 itself"


def instances(tier, seed):
    return [dict(name=m, args=[m], base_points=1) for m in ("xyz", "b321", "quat")]


def free_sets(inst, tr, tier, rng):
    return ["ALL"]


def obligations(enc, inst, tr):
    L = LA(enc, tr)
    mode = tr.note("mode")
    obs = []
    I3 = L.eye(3)
    if mode == "xyz":
        R = L.mat("R", 3, 3)
        obs.append(L.meq("setRotationToBodyFixedXYZ(c,s) = setRotationToBodyFixedXYZ(q)", L.mat("Rcs", 3, 3), R))
        for fr in ("B", "P"):
            N, Ni = L.mat("N" + fr, 3, 3), L.mat("N%si" % fr, 3, 3)
            w, wdot = L.ivec("w" + fr, 3), L.ivec("w%sdot" % fr, 3)
            qd = L.vec("qd" + fr, 3)
            obs.append(L.meq("%s: N NInv = I" % fr, L.mm(N, Ni), I3))
            obs.append(L.meq("%s: NInv N = I" % fr, L.mm(Ni, N), I3))
            obs.append(L.veq("%s: qdot helper = N w" % fr, qd, L.mv(N, w)))
            tang = {"q%d" % i: qd[i] for i in range(3)}
            dR = L.dmat("R", 3, 3, tang, "qd" + fr)
            rhs = L.mm(R, L.crossmat(w)) if fr == "B" else L.mm(L.crossmat(w), R)
            obs.append(L.meq("%s: d/dt R(q) along qdot = %s" % (fr, "R [w_B]x" if fr == "B" else "[w_P]x R"), dR, rhs))
            obs.append(L.meq("%s: NDot = d/dt N along qdot" % fr, L.mat("N%sdot" % fr, 3, 3), L.dmat("N" + fr, 3, 3, tang, "qd" + fr)))
            tang2 = dict(tang)
            for i in range(3):
                tang2["w%s_%d" % (fr, i)] = wdot[i]
            obs.append(L.veq("%s: qdotdot helper = d/dt qdot helper" % fr, L.vec("qdd" + fr, 3), L.dvec("qd" + fr, 3, tang2, "qdd" + fr)))
        obs.append(L.veq("B: convertBodyXYZDotToAngVelInBodyFrame(qdot) = w", L.vec("wB_back", 3), L.ivec("wB", 3)))
        NB, NP, NBi, NPi = L.mat("NB", 3, 3), L.mat("NP", 3, 3), L.mat("NBi", 3, 3), L.mat("NPi", 3, 3)
        obs.append(L.meq("N_B = N_P R_PB", NB, L.mm(NP, R)))
        obs.append(L.meq("NInv_P = R_PB NInv_B", NPi, L.mm(R, NBi)))
        y = L.ivec("y", 3)
        obs.append(L.veq("multiplyByBodyXYZ_N_P(y) = N_P y", L.vec("mulN_P", 3), L.mv(NP, y)))
        obs.append(L.veq("multiplyByBodyXYZ_NT_P(y) = N_P^T y", L.vec("mulNT_P", 3), L.mv(L.T(NP), y)))
        obs.append(L.veq("multiplyByBodyXYZ_NInv_P(y) = NInv_P y", L.vec("mulNInv_P", 3), L.mv(NPi, y)))
        obs.append(L.veq("multiplyByBodyXYZ_NInvT_P(y) = NInv_P^T y", L.vec("mulNInvT_P", 3), L.mv(L.T(NPi), y)))
    elif mode == "b321":
        R = L.mat("R", 3, 3)
        w, wdot = L.ivec("wB", 3), L.ivec("wBdot", 3)
        qd = L.vec("qd", 3)
        tang = {"q%d" % i: qd[i] for i in range(3)}
        obs.append(L.meq("321: d/dt R(q) along convertAngVelToBodyFixed321Dot = R [w_B]x", L.dmat("R", 3, 3, tang, "qd"), L.mm(R, L.crossmat(w))))
        obs.append(L.veq("321: convertBodyFixed321DotToAngVel(convertAngVelToBodyFixed321Dot(w)) = w", L.vec("wB_back", 3), w))
        tang2 = dict(tang)
        for i in range(3):
            tang2["wB_%d" % i] = wdot[i]
        obs.append(L.veq("321: convertAngVelDotToBodyFixed321DotDot = d/dt convertAngVelToBodyFixed321Dot", L.vec("qdd", 3), L.dvec("qd", 3, tang2, "qdd")))
    elif mode == "quat":
        R, Ru = L.mat("R", 3, 3), L.mat("Ru", 3, 3)
        N, Ni = L.mat("N", 4, 3), L.mat("Ni", 3, 4)
        q = [L.inp("q%d" % i) for i in range(4)]
        w, wdot = L.ivec("w", 3), L.ivec("wdot", 3)
        qd = L.vec("qd", 4)
        n2 = L.dot(q, q)
        unit = [Constraint(1, P.sub(n2, P.const(1)), "|q|^2=1")]
        obs.append(L.meq("quat: NInv N = |q|^2 I (documented, any q)", L.mm(Ni, N), L.mscale(I3, n2)))
        obs.append(L.meq("quat: NInv N = I for unit q", L.mm(Ni, N), I3, hyps=unit))
        obs.append(L.veq("quat: convertQuaternionDotToAngVel(convertAngVelToQuaternionDot(w)) = w for unit q", L.vec("w_back", 3), w, hyps=unit))
        obs.append(L.veq("quat: qdot helper = N w", qd, L.mv(N, w)))
        tang = {"q%d" % i: qd[i] for i in range(4)}
        obs.append(L.meq("quat: d/dt R(q/|q|) along qdot = [w_P]x R (any non-zero q)", L.dmat("R", 3, 3, tang, "qd"), L.mm(L.crossmat(w), R)))
        obs.append(L.meq("quat: NDot(qdot) = d/dt N along qdot", L.mat("Ndot", 4, 3), L.dmat("N", 4, 3, tang, "qd")))
        tang2 = dict(tang)
        for i in range(3):
            tang2["w_%d" % i] = wdot[i]
        obs.append(L.veq("quat: qdotdot helper = d/dt qdot helper", L.vec("qdd", 4), L.dvec("qd", 4, tang2, "qdd")))
    return obs
