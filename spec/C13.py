"""C13 Interaction forces obey Newton's third law."""
from engine.driver import poly as P
from engine.driver.core import Ob, eq, eqs
from engine.driver.encode import Constraint
from spec import catalogue as cat
from spec import forcelaws as FL

ID = "C13"
HARNESS = "C38_forces.cpp"
EXPLANATION = ("Interaction elements (TwoPointLinearSpring, TwoPointLinearDamper, TwoPointConstantForce, LinearBushing) are attached to two distinct "
               "bodies, to Ground and a body (both orders), and twice to the same body of a symbolic 2-3 body tree. The spatial-force arrays "
               "(all entries, including Ground's) returned by Force::calcForceContribution and accumulated by realize(Dynamics) are summed "
               "after shifting every entry to the Ground origin with the body-origin locations the code reports: total force = 0 and total "
               "moment = 0 are proved for all values of the free inputs; mobility-force entries of these elements are proved to be zero "
               "(nothing is applied outside the body-force array).")
BOUNDS = ("elements x attachments {12,21,02,20,11,22,(23)} x trees of spec/C13.py; all 'lin' inputs free (u, stiffness, damping, force, rest length); "
          "k free coordinates at a time (1 quick / 2 thorough) for the two-point elements, coordinates pinned for LinearBushing; other inputs "
          "at exact rational base points (2 quick / 6 thorough)")
NOT_COVERED = ("CableSpring/CableSpan (see C45), ElasticFoundation and compliant contact other than the CompliantContactSubsystem sphere-sphere Hertz pair with off-origin surfaces (contact laws: see C37; cables and meshes not reached by this harness); "
               "coincident stations (documented error); float; rounding")

TREES = ["Pin:0,Slider:1", "Gimbal:0,Pin:1/1", "Planar:0,Universal:1/1,Pin:1", "Slider:0/1,Ball:1,Cylinder:2/1"]
TREES_TH = ["Free:0,Pin:1", "Universal:0,Translation:1,Screw:2", "Ball:0,Slider:1,Pin:2/1", "FreeLine:0,Bushing:1"]
ATTS = ["12", "21", "02", "20", "11", "22"]


def instances(tier, seed):
    out = []
    th = tier == "thorough"
    trees = TREES + (TREES_TH if th else [])
    n = 0
    for el in ("TwoPointLinearSpring", "TwoPointLinearDamper", "TwoPointConstantForce", "LinearBushing"):
        for att in ATTS + (["23", "31"] if th else []):
            for ti, t in enumerate(trees):
                nbody = t.count(",") + 1
                if max(int(att[0]), int(att[1])) > nbody:
                    continue
                if not th and (n + ti) % 4 != 0:        # quick: one tree per (element, attachment), rotating
                    continue
                if th and (n + ti) % 3 != 0:            # thorough: every third tree, rotating
                    continue
                if el == "LinearBushing" and not th and att in ("21", "20", "22"):
                    continue
                out.append(dict(name="%s|%s|%s" % (el, t, att), args=[el, t, "0", att, "law"], bushing=(el == "LinearBushing")))
                if el == "LinearBushing":
                    out[-1]["base_points"] = 2
            n += 1
    _ret = out
    return list(_ret) + _compliant_instances(tier)


def free_sets(inst, tr, tier, rng):
    if inst.get("kind") == "compliant":
        lin = [n for n, k, _, _ in tr.inputs if k == "lin"]
        return [lin, lin + ["mu"]]
    lin = [n for n, kind, _, _ in tr.inputs if kind == "lin"]
    if inst.get("bushing"):
        return [lin]
    sets = cat.coordinate_free_sets(inst, tr, tier, rng, always=(), maxsets=3 if tier == "quick" else 4)
    return [lin + [n for n in s if n not in lin] for s in sets]


def _compliant_instances(tier):
    return [dict(name="CompliantContact sphere-sphere (off-origin surfaces)|%s" % v, harness="C13_compliant.cpp", args=[v], kind="compliant",
                 base_points=2 if tier == "quick" else 4, max_terms=40000) for v in ("free", "pinball")]


def _compliant_obligations(enc, inst, tr):
    """sum of the contact's body forces and of their moments about the Ground origin vanish (Ground entry included)"""
    if tr.note("exception"):
        raise RuntimeError("harness exception: " + tr.note("exception"))
    R = enc.ring
    nb = int(tr.note("nb"))
    nc = int(tr.note("ncontacts"))
    if nc != 1:
        raise RuntimeError("expected exactly one contact at the seed, got %d" % nc)

    def cross(a, b):
        m = R.mul
        return [P.sub(m(a[1], b[2]), m(a[2], b[1])), P.sub(m(a[2], b[0]), m(a[0], b[2])), P.sub(m(a[0], b[1]), m(a[1], b[0]))]

    totf, totm = [{}, {}, {}], [{}, {}, {}]
    for b in range(nb):
        mo = [enc.out("F%d_w_%d" % (b, i)) for i in range(3)]
        fo = [enc.out("F%d_v_%d" % (b, i)) for i in range(3)]
        pb = [enc.out("p%d_%d" % (b, i)) for i in range(3)]
        cr = cross(pb, fo)
        for i in range(3):
            totf[i] = P.add(totf[i], fo[i])
            totm[i] = P.add(totm[i], P.add(mo[i], cr[i]))
    fB = [enc.out("F%d_v_%d" % (nb - 1, i)) for i in range(3)]
    twin = None
    for comp in fB:
        if comp:
            twin = [Constraint(1, comp, "force on the last body alone vanishes [twin]")]
            break
    goal = [Constraint(1, totf[i], "sum F [%d] = 0" % i) for i in range(3)] + [Constraint(1, totm[i], "sum (tau + p x F) [%d] = 0" % i) for i in range(3)]
    obs = [Ob("CompliantContactSubsystem sphere-sphere: total force and total moment about the Ground origin vanish", goal, twin=twin)]
    # the force applied to surface 2's body is the reported contact force shifted from the contact point to that body's origin
    pt = [enc.out("cf_point_%d" % i) for i in range(3)]
    cfm = [enc.out("cf_F_w_%d" % i) for i in range(3)]
    cff = [enc.out("cf_F_v_%d" % i) for i in range(3)]
    b2 = nb - 1
    p2 = [enc.out("p%d_%d" % (b2, i)) for i in range(3)]
    r2 = [P.sub(pt[i], p2[i]) for i in range(3)]
    cr = cross(r2, cff)
    pairs = [(enc.out("F%d_v_%d" % (b2, i)), cff[i]) for i in range(3)] + [(enc.out("F%d_w_%d" % (b2, i)), P.add(cfm[i], cr[i])) for i in range(3)]
    obs.append(eqs(enc, "CompliantContactSubsystem sphere-sphere: body force on surface 2's body = reported contact force shifted to the body origin", pairs))
    return obs


def obligations(enc, inst, tr):
    if inst.get("kind") == "compliant":
        return _compliant_obligations(enc, inst, tr)
    if tr.note("exception"):
        raise RuntimeError("harness exception: " + tr.note("exception"))
    nan = FL.nan_obligations(tr)
    if nan:
        return nan
    ctx = FL.Ctx(enc, inst, tr)
    v = ctx.v
    obs = []
    for pre, what in (("F", "system body forces after realize(Dynamics)"), ("Fc", "calcForceContribution")):
        F, f = ctx.code_forces(pre, "")
        tot_f, tot_m = [{}, {}, {}], [{}, {}, {}]
        for b in range(ctx.nb):
            mo, fo = F[b]
            tot_f = v.add(tot_f, fo)
            tot_m = v.add(tot_m, v.add(mo, v.cross(ctx.pb(b), fo)))
        goal = [Constraint(1, tot_f[i], "sum F [%d] = 0" % i) for i in range(3)] + [Constraint(1, tot_m[i], "sum (tau + p x F) [%d] = 0" % i) for i in range(3)]
        # non-vacuity twin: "the action on one of the bodies alone is zero" must be refutable (unless both ends are on the same body)
        twin = None
        if ctx.a != ctx.b:
            for comp in F[ctx.b][1] + F[ctx.b][0]:
                if comp:
                    twin = [Constraint(1, comp, "action on body %d alone vanishes [twin]" % ctx.b)]
                    break
            if twin is None:
                raise RuntimeError("element applies no force to body %d" % ctx.b)
        obs.append(Ob("%s: %s: total force and total moment about the Ground origin vanish (Ground entry included)" % (ctx.el, what), goal, twin=twin))
        obs.append(eqs(enc, "%s: %s: no mobility force" % (ctx.el, what), [(x, {}) for x in f] or [({}, {})]))
        # only the two attachment bodies (and nothing else) are acted upon
        others = [(x, {}) for b in range(ctx.nb) if b not in (ctx.a, ctx.b) for k in range(2) for x in F[b][k]]
        if others:
            obs.append(eqs(enc, "%s: %s: bodies other than the two attachment bodies receive nothing" % (ctx.el, what), others))
    return obs
