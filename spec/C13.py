"""C13 Interaction forces obey Newton's third law."""
from engine.driver import poly as P
from engine.driver.core import Ob, eq, eqs
from engine.driver.encode import Constraint
from spec import catalogue as cat
from spec import forcelaws as FL

ID = "C13"
HARNESS = "C38_forces.cpp"
EXPLANATION = ("Interaction elements (TwoPointLinearSpring, TwoPointLinearDamper, TwoPointConstantForce, LinearBushing) are attached to two distinct "
               "bodies, to Ground and a body (both orders), and twice to the same body of a symbolic 2-3 body tree. The spatial-force arrays "
               "(all entries, including Ground's) returned by Force::calcForceContribution and accumulated by realize(Dynamics) are summed "
               "after shifting every entry to the Ground origin with the body-origin locations the code reports: total force = 0 and total "
               "moment = 0 are proved for all values of the free inputs; mobility-force entries of these elements are proved to be zero "
               "(nothing is applied outside the body-force array).")
BOUNDS = ("elements x attachments {12,21,02,20,11,22,(23)} x trees of spec/C13.py; all 'lin' inputs free (u, stiffness, damping, force, rest length); "
          "k free coordinates at a time (1 quick / 2 thorough) for the two-point elements, coordinates pinned for LinearBushing; other inputs "
          "at exact rational base points (2 quick / 6 thorough)")
NOT_COVERED = ("CableSpring/CableSpan, compliant contact and ElasticFoundation elements (contact: see C37; cables and meshes not reached by this harness); "
               "coincident stations (documented error); float; rounding")

TREES = ["Pin:0,Slider:1", "Gimbal:0,Pin:1/1", "Planar:0,Universal:1/1,Pin:1", "Slider:0/1,Ball:1,Cylinder:2/1"]
TREES_TH = ["Free:0,Pin:1", "Universal:0,Translation:1,Screw:2", "Ball:0,Slider:1,Pin:2/1", "FreeLine:0,Bushing:1"]
ATTS = ["12", "21", "02", "20", "11", "22"]


def instances(tier, seed):
    out = []
    th = tier == "thorough"
    trees = TREES + (TREES_TH if th else [])
    n = 0
    for el in ("TwoPointLinearSpring", "TwoPointLinearDamper", "TwoPointConstantForce", "LinearBushing"):
        for att in ATTS + (["23", "31"] if th else []):
            for ti, t in enumerate(trees):
                nbody = t.count(",") + 1
                if max(int(att[0]), int(att[1])) > nbody:
                    continue
                if not th and (n + ti) % 4 != 0:        # quick: one tree per (element, attachment), rotating
                    continue
                if th and (n + ti) % 3 != 0:            # thorough: every third tree, rotating
                    continue
                if el == "LinearBushing" and not th and att in ("21", "20", "22"):
                    continue
                out.append(dict(name="%s|%s|%s" % (el, t, att), args=[el, t, "0", att, "law"], bushing=(el == "LinearBushing")))
                if el == "LinearBushing":
                    out[-1]["base_points"] = 2
            n += 1
    return out


def free_sets(inst, tr, tier, rng):
    lin = [n for n, kind, _, _ in tr.inputs if kind == "lin"]
    if inst.get("bushing"):
        return [lin]
    sets = cat.coordinate_free_sets(inst, tr, tier, rng, always=(), maxsets=3 if tier == "quick" else 4)
    return [lin + [n for n in s if n not in lin] for s in sets]


def obligations(enc, inst, tr):
    if tr.note("exception"):
        raise RuntimeError("harness exception: " + tr.note("exception"))
    nan = FL.nan_obligations(tr)
    if nan:
        return nan
    ctx = FL.Ctx(enc, inst, tr)
    v = ctx.v
    obs = []
    for pre, what in (("F", "system body forces after realize(Dynamics)"), ("Fc", "calcForceContribution")):
        F, f = ctx.code_forces(pre, "")
        tot_f, tot_m = [{}, {}, {}], [{}, {}, {}]
        for b in range(ctx.nb):
            mo, fo = F[b]
            tot_f = v.add(tot_f, fo)
            tot_m = v.add(tot_m, v.add(mo, v.cross(ctx.pb(b), fo)))
        goal = [Constraint(1, tot_f[i], "sum F [%d] = 0" % i) for i in range(3)] + [Constraint(1, tot_m[i], "sum (tau + p x F) [%d] = 0" % i) for i in range(3)]
        # non-vacuity twin: "the action on one of the bodies alone is zero" must be refutable (unless both ends are on the same body)
        twin = None
        if ctx.a != ctx.b:
            for comp in F[ctx.b][1] + F[ctx.b][0]:
                if comp:
                    twin = [Constraint(1, comp, "action on body %d alone vanishes [twin]" % ctx.b)]
                    break
            if twin is None:
                raise RuntimeError("element applies no force to body %d" % ctx.b)
        obs.append(Ob("%s: %s: total force and total moment about the Ground origin vanish (Ground entry included)" % (ctx.el, what), goal, twin=twin))
        obs.append(eqs(enc, "%s: %s: no mobility force" % (ctx.el, what), [(x, {}) for x in f] or [({}, {})]))
        # only the two attachment bodies (and nothing else) are acted upon
        others = [(x, {}) for b in range(ctx.nb) if b not in (ctx.a, ctx.b) for k in range(2) for x in F[b][k]]
        if others:
            obs.append(eqs(enc, "%s: %s: bodies other than the two attachment bodies receive nothing" % (ctx.el, what), others))
    return obs
