"""Small vector/polynomial helpers shared by the geometry specs (C34, C35, C36, C45, C47)."""
from fractions import Fraction

from engine.driver import poly as P
from engine.driver.core import Ob
from engine.driver.encode import Constraint

EQ, GT, GE, LT, LE, NE = 1, 2, 3, 4, 5, 6

# exact rational unit vectors (Pythagorean quadruples a^2+b^2+c^2 = e^2)
UNIT3 = [(2, 3, 6, 7), (1, 2, 2, 3), (4, 4, 7, 9), (2, 6, 9, 11), (3, 4, 12, 13), (1, 4, 8, 9), (6, 6, 7, 11), (2, 10, 11, 15),
         (0, 3, 4, 5), (2, 5, 14, 15), (8, 9, 12, 17), (1, 12, 12, 17)]


def unit3(rng):
    a, b, c, e = rng.choice(UNIT3)
    v = [a, b, c]
    rng.shuffle(v)
    return [Fraction(x * rng.choice((1, -1)), e) for x in v]


class G:
    """per-encoder convenience wrapper"""

    def __init__(self, enc, tr):
        self.enc, self.tr, self.R = enc, tr, enc.ring
        self.nonzero = []      # side conditions collected by clear_pos (denominators that were multiplied out)

    def inp(self, name):
        return self.enc.poly(self.tr.input_by_name[name][2])

    def has_in(self, name):
        return name in self.tr.input_by_name

    def out(self, name):
        return self.enc.out(name)

    def has(self, name):
        return name in self.tr.outputs

    def val(self, name):
        return self.tr.out_value(name)

    def iv(self, prefix, n=3):
        return [self.inp("%s_%d" % (prefix, i)) for i in range(n)]

    def ov(self, prefix, n=3):
        return [self.out("%s_%d" % (prefix, i)) for i in range(n)]

    def om(self, prefix, n=3, m=3):
        return [[self.out("%s_%d_%d" % (prefix, i, j)) for j in range(m)] for i in range(n)]

    def mul(self, a, b):
        return self.R.mul(a, b)

    def sq(self, a):
        return self.R.mul(a, a)

    def dot(self, a, b):
        r = {}
        for x, y in zip(a, b):
            r = P.add(r, self.R.mul(x, y))
        return r

    def cross(self, a, b):
        m = self.R.mul
        return [P.sub(m(a[1], b[2]), m(a[2], b[1])), P.sub(m(a[2], b[0]), m(a[0], b[2])), P.sub(m(a[0], b[1]), m(a[1], b[0]))]

    def vsub(self, a, b):
        return [P.sub(x, y) for x, y in zip(a, b)]

    def vadd(self, a, b):
        return [P.add(x, y) for x, y in zip(a, b)]

    def vscale(self, a, s):
        """s: polynomial or number"""
        if isinstance(s, dict):
            return [self.R.mul(x, s) for x in a]
        return [P.scale(x, Fraction(s)) for x in a]

    def norm2(self, a):
        return self.dot(a, a)

    def matvec(self, M, v):
        return [self.dot(row, v) for row in M]

    def is_free(self, name):
        return self.enc.is_free(name)

    def clear_pos(self, p):
        """p * (product of even powers of the inverse variables' denominators): same sign as p wherever the
        denominators are non-zero, and no inverse variable left"""
        enc, R = self.enc, self.R
        for vi in reversed(enc.inv_order):
            d = R.degree_in(p, vi)
            if d == 0:
                continue
            self.nonzero.append(Constraint(NE, enc.inv_den[vi], "denominator != 0"))
            D = d + (d & 1)
            den = enc.inv_den[vi]
            pw = [P.const(1)]
            for _ in range(D):
                pw.append(R.mul(pw[-1], den))
            out = {}
            for m, c in p.items():
                e = 0
                rest = []
                for (v, ex) in m:
                    if v == vi:
                        e = ex
                    else:
                        rest.append((v, ex))
                out = P.add(out, R.mul({tuple(rest): c}, pw[D - e]))
            p = out
        return p

    def pos_hyps(self, names):
        """x > 0 for every listed input that is free"""
        return [Constraint(GT, self.inp(n), n + ">0") for n in names if self.has_in(n) and self.is_free(n)]


def ineq(name, rel, p, hyps=(), twin=None, text=None):
    return Ob(name, [Constraint(rel, p, name)], hyps=hyps, twin=twin, text=text)


def zeros(name, polys, hyps=()):
    """conjunction p_i = 0 with a non-vacuity twin (p_k = 1 for the first p_k that is not the zero polynomial): the twin is
    refutable whenever the hypotheses are satisfiable, so an unsatisfiable hypothesis set cannot pass silently"""
    goal = [Constraint(EQ, q, "%s[%d]" % (name, i)) for i, q in enumerate(polys)]
    tw = None
    for q in polys:
        if q:
            tw = [Constraint(EQ, P.sub(q, P.const(1)), name + " [twin: = 1]")]
            break
    return Ob(name, goal, hyps, tw)


def sincos_input(enc, name, mult=1):
    """(sin, cos) polynomials of mult * (angle input `name`), consistent with the encoder's own treatment of that input"""
    at = enc.atom(("in", name))
    if at["exact"] is not None:
        s, c = at["exact"]
    else:
        s, c = enc.ring.v(at["S"]), enc.ring.v(at["C"])
    return enc._multiple(s, c, int(mult * at["L"]))


def path_feasible(enc, extra=(), timeout_ms=5000, rlimit=0, max_chars=60000):
    """False only if the executed path's condition (plus `extra` constraints) is UNSATISFIABLE over the reals: such a path was
    followed by the double execution through comparisons that are ties in exact arithmetic (typically a flip model sitting exactly on
    a decision boundary); it is not a path of the real-number semantics and every obligation on it would be vacuous."""
    from engine.driver.solve import Query, run_z3
    pc = [c for _, c in enc.path_condition()] + list(extra)
    if not pc:
        return True
    q = Query(enc, "path feasible", pc, [])
    smt, names = q.smt()
    smt = smt.replace("(assert (not true)) ; negated goal: path feasible", "").replace("(assert (not true))", "")
    if len(smt) > max_chars:
        return True         # too large to ask cheaply: treated as feasible (obligations are then checked as usual)
    r, _, _ = run_z3(smt, names, rlimit=rlimit, seed=5, timeout_ms=timeout_ms)
    return r != "unsat"


def false_twin():
    """twin goal 'false': refutable exactly when the hypotheses (path condition included) are satisfiable"""
    return [Constraint(EQ, P.const(1), "[twin: false]")]


def eq_cleared(enc, name, lhs, rhs, hyps=()):
    """lhs = rhs decided after multiplying out every inverse variable (exact; valid wherever the denominators are non-zero, which
    the defining constraints I*den = 1 of the encoder assume anyway). Avoids the driver's direct attempt with inverse variables."""
    p = enc.clear_inverses(P.sub(lhs, rhs))[0]
    tw = [Constraint(EQ, P.sub(p, P.const(1)), name + " [twin: = 1]")] if p else None
    return Ob(name, [Constraint(EQ, p, name + " [denominators cleared]")], hyps, tw)
