"""C39 Optimizers return truthful, feasible, improving results (partial: LBFGS, LBFGSB on convex quadratics)."""
import math
from fractions import Fraction

from engine.driver import poly as P
from engine.driver.core import Ob
from engine.driver.encode import Constraint

ID = "C39"
HARNESS = "C39_optim.cpp"
EXPLANATION = ("Optimizer(LBFGS) and Optimizer(LBFGSB) (the real lbfgs_/mcsrch_/mcstep_ and setulb_/mainlb/cauchy/subsm/lnsrlb/dcsrch code, with the BLAS/LAPACK calls they "
               "make modelled by instrumented reference code) minimise f(x) = 1/2 x^T A x - b^T x, A = J J^T + d I symmetric positive definite built from symbolic numbers, "
               "with SYMBOLIC linear term b, start point x0, parameter limits and convergence tolerance; the harness's OptimizerSystem supplies the analytic gradient and logs "
               "every point at which the objective is evaluated. Every comparison in the line searches, the generalized Cauchy point search, the projections onto the limits "
               "and the convergence tests is a recorded decision; decisions are flipped to reach other paths. On each explored path the solver proves for all values of the "
               "free inputs on that path: the returned objective value equals 1/2 x^T A x - b^T x evaluated (by the spec, as a polynomial) at the RETURNED parameters; "
               "the returned value is <= f(x0) for a feasible start; with limits, every evaluated point and the returned point satisfy lower <= x <= upper.")
BOUNDS = ("dimension 1-3 (LBFGS), 1-2 quick / 1-3 thorough (LBFGSB); limits both-sided / one-sided / absent / mixed; history 5 and 1; free inputs in groups of 2-3 (b0, x0_0, limits of "
          "coordinate 0; thorough also the last coordinate), the others and A, tolerance pinned at exact rational base points (1 quick / 2 thorough); the algorithms have no iteration "
          "limit (maxIterations is ignored by both): runs end by their convergence tests (tolerance ~0.25, LBFGSB factr 1e13) after 1-4 iterations, a harness budget of 14 evaluations "
          "cuts longer ones (reported as exception paths, nothing claimed); path budget 6 quick / 8 thorough per instance and base point; products of more than 60 terms are abstracted to opaque reals")
TECHNIQUE = ("Engine S with two additions used by this spec: (1) let-binding: every evaluated point and every operand of a recorded decision gets a variable with its defining equation, so "
             "that path literals are small relations between those variables; (2) each query is first sent to z3 as its linear-arithmetic relaxation over monomials (every non-linear "
             "monomial a fresh real, plus sign axioms) - unsat there is a proof; only the remaining ones go to QF_NRA (nlsat)")
NOT_COVERED = ("the limits clause for those trial points of a line search on a path for which neither the linear relaxation nor nlsat (small deterministic budget) decides it "
               "(feasibility of the generalized Cauchy point needs products of path literals; such points are counted in the evidence assumptions); InteriorPoint/IPOPT (LAPACK beyond the modelled routines), CMA-ES (eigen solver, RNG), CFSQP; convergence to the minimiser; numerical gradients; non-quadratic "
               "objectives; dimension > 3; constraint satisfaction (no constrained algorithm is reachable); BestAvailable selection; paths beyond the budget; rounding")
ASSUMPTIONS = ["lower <= x0 <= upper and lower < upper (feasible start: input domain) for the 'not worse than the start' clause", "tolerance > 0"]


def instances(tier, seed):
    L = [("LBFGS", 1, "-", ""), ("LBFGS", 2, "-", ""), ("LBFGS", 2, "-", "diag"), ("LBFGS", 3, "-", "hist1"),
         ("LBFGSB", 1, "b", ""), ("LBFGSB", 1, "l", ""), ("LBFGSB", 1, "u", ""), ("LBFGSB", 2, "bb", ""), ("LBFGSB", 2, "bn", ""), ("LBFGSB", 2, "lu", "diag"),
         ("LBFGSB", 2, "-", ""), ("LBFGSB", 1, "n", "")]
    if tier == "thorough":
        L += [("LBFGS", 3, "-", ""), ("LBFGS", 2, "-", "hist1"), ("LBFGSB", 2, "bb", "hist1"), ("LBFGSB", 2, "ub", ""), ("LBFGSB", 2, "bb", "diag"), ("LBFGSB", 3, "bbb", "diag")]
    out = []
    for alg, n, bnd, opts in L:
        out.append(dict(name="%s/n%d/%s%s" % (alg, n, bnd, "/" + opts if opts else ""), args=[alg, str(n), bnd, opts],
                        paths=6 if tier == "quick" else 8, base_points=1 if tier == "quick" else 2, flips_per_path=5 if tier == "quick" else 6,
                        abstract_big=True, max_terms=60, lra_first=True, seed_check=True, z3_timeout_ms=120000, twin_timeout_ms=15000, flip_timeout_ms=1500))
    return out


def free_sets(inst, tr, tier, rng):
    names = [n for n, k, _, _ in tr.inputs]
    n = int(inst["args"][1])
    sets = []
    if "lo0" in names or "up0" in names:
        s = [x for x in ("x0_0", "lo0", "up0") if x in names]
        sets.append(s)
        if tier == "thorough":
            sets.append(["b0"] + [x for x in ("lo%d" % (n - 1), "up%d" % (n - 1)) if x in names])
    else:
        sets.append(["b0", "x0_0"])
    if tier == "thorough":
        sets.append(["b%d" % (n - 1), "x0_0"])
    return sets


def _inp(enc, n):
    return enc.poly(enc.t.input_by_name[n][2])


def adjust_seeds(inst, seeds, angle_pins, rng, g):
    n = int(inst["args"][1])
    for i in range(n):
        lo, up = seeds.get("lo%d" % i), seeds.get("up%d" % i)
        x = seeds.get("x0_%d" % i)
        if x is None:
            continue
        if lo is not None and up is not None and not (lo + 0.0625 <= x <= up - 0.0625):
            seeds["x0_%d" % i] = round((lo + up) / 2 * 16) / 16.0
        elif lo is not None and up is None and x < lo + 0.0625:
            seeds["x0_%d" % i] = lo + 0.25
        elif up is not None and lo is None and x > up - 0.0625:
            seeds["x0_%d" % i] = up - 0.25


def input_domain(enc, inst):
    t = enc.t
    cs = []
    n = int(inst["args"][1])
    for i in range(n):
        x = _inp(enc, "x0_%d" % i)
        if "lo%d" % i in t.input_by_name:
            cs.append(Constraint(3, P.sub(x, _inp(enc, "lo%d" % i)), "x0>=lower"))
        if "up%d" % i in t.input_by_name:
            cs.append(Constraint(5, P.sub(x, _inp(enc, "up%d" % i)), "x0<=upper"))
        if "lo%d" % i in t.input_by_name and "up%d" % i in t.input_by_name:
            cs.append(Constraint(4, P.sub(_inp(enc, "lo%d" % i), _inp(enc, "up%d" % i)), "lower<upper"))
    cs.append(Constraint(2, _inp(enc, "tol"), "tol>0"))
    return cs


def flip_domain(enc, inst):
    cs = []
    for n, k, node, _ in enc.t.inputs:
        if k in ("lin", "start", "bound"):
            cs.append(Constraint(3, P.add(enc.poly(node), P.const(4)), n + ">=-4"))
            cs.append(Constraint(5, P.sub(enc.poly(node), P.const(4)), n + "<=4"))
    return cs


def _finite(tr, name):
    o = tr.outputs.get(name)
    if o is None:
        return False
    return not (o[0] == "c" and math.isinf(o[1]))


def _bind_nodes(enc, tr, n, nev):
    """let-binding: every evaluated coordinate and every operand of a recorded decision whose polynomial is not a single
    variable/constant gets a variable L with the DEFINING constraint L = polynomial (exact: not an abstraction). Processed in
    node order so that later polynomials are expressed in the earlier L's: every literal of the path condition becomes a small
    (mostly linear) relation between L's, and the non-linear structure sits in the defining equations."""
    R = enc.ring
    want = {}
    for k in range(nev):
        for i in range(n):
            o = tr.outputs["ev%d_%d" % (k, i)]
            if o[0] == "n":
                want[o[1]] = "X%d_%d" % (k, i)
    for idx, (kind, pred, a, b, taken, kk, fn) in enumerate(tr.decisions):
        for x in (a, b) if kind == 0 else (a,):
            if x in tr.nodes and x not in want:
                want[x] = "L"
    for nid in sorted(want):
        p = enc.poly(nid)
        if len(p) == 0 or (len(p) == 1 and all(len(m) <= 1 and (not m or m[0][1] == 1) for m in p)):
            continue        # constant, or a multiple of a single variable
        vi = R.var("%s_n%d" % (want[nid], nid), "let")
        if vi in enc.vals:
            continue
        enc.vals[vi] = tr.nodes[nid][4]
        enc.defs[vi] = [Constraint(1, P.sub(R.v(vi), p), "let %s = node %d" % (R.names[vi], nid))]
        enc.memo[nid] = R.v(vi)


def _relevant_decisions(tr, fnodes, depth=3):
    """indices of the decisions that compare an objective value with something (sufficient-decrease tests of the line searches),
    and of the decisions on the ingredients of the other side (step length, directional derivative: sign and range checks)"""
    nodes = tr.nodes
    sel = set()
    ingredients = set()
    for idx, (kind, pred, a, b, taken, k, fn) in enumerate(tr.decisions):
        if kind != 0:
            continue
        if a in fnodes or b in fnodes:
            sel.add(idx)
            other = b if a in fnodes else a
            front = [other]
            for _ in range(depth):
                nxt = []
                for x in front:
                    if x in ingredients or x not in nodes:
                        continue
                    ingredients.add(x)
                    op, ca, cb, cc, v = nodes[x]
                    if op in ("add", "sub", "mul", "div"):
                        nxt += [ca, cb]
                    elif op == "neg":
                        nxt.append(ca)
                front = nxt
    ingredients -= fnodes
    for idx, (kind, pred, a, b, taken, k, fn) in enumerate(tr.decisions):
        if kind == 0 and (a in ingredients or b in ingredients):
            oa, ob_ = nodes.get(a), nodes.get(b)
            if (oa and oa[0] == "const") or (ob_ and ob_[0] == "const"):
                sel.add(idx)
    return sel


from spec.budget import PRE_RLIMIT, within_budget as _wb


def _within_budget(enc, hyps, ob):
    return _wb(enc, hyps, ob)


def obligations(enc, inst, tr):
    R = enc.ring
    if tr.note("exception"):
        return [Ob("run cut by the harness's evaluation budget or ended by an optimizer exception: no result returned (nothing to check)", [Constraint(1, {}, "trivial")])]
    n = int(tr.note("n"))
    nev = int(tr.note("nev"))
    _bind_nodes(enc, tr, n, nev)
    A = [[enc.out("A_%d_%d" % (i, j)) for j in range(n)] for i in range(n)]
    b = [enc.out("b_%d" % i) for i in range(n)]
    obs = []

    def F(x):
        q, l = {}, {}
        for i in range(n):
            r = {}
            for j in range(n):
                r = P.add(r, R.mul(A[i][j], x[j]))
            q = P.add(q, R.mul(x[i], r))
            l = P.add(l, R.mul(b[i], x[i]))
        return P.sub(P.scale(q, Fraction(1, 2)), l)

    xret = [enc.out("xret_%d" % i) for i in range(n)]
    x0 = [enc.out("x0_%d" % i) for i in range(n)]
    fret = enc.out("fret")
    # 1. truthful result: polynomial identity (needs no path condition)
    o = Ob("returned objective value = 1/2 x^T A x - b^T x at the returned parameters", [Constraint(1, P.sub(fret, F(xret)), "fret=F(xret)")], pc_only=set())
    if len(tr.decisions) <= 60:     # refuting the twin means solving the defining equations of the whole run: only on short runs
        o.twin = [Constraint(1, P.sub(fret, P.add(F(xret), P.const(1))), "fret=F(xret)+1 [twin]")]
    obs.append(o)
    # 2. descent: the first evaluation is at the start point, and the returned value is not larger than the value there
    # (every obligation has a single-literal goal: the negated goal is then a conjunction, which z3 hands to nlsat; with a disjunction it may
    # choose its Groebner-based arithmetic, which does not honour time limits on these formulas)
    for i in range(n):
        obs.append(Ob("first evaluated point = start point (feasible start), coordinate %d" % i, [Constraint(1, P.sub(enc.out("ev0_%d" % i), x0[i]), "ev0=x0")]))
    obs.append(Ob("value at the first evaluated point = f(x0)", [Constraint(1, P.sub(enc.out("evf0"), enc.out("f0")), "evf0=f(x0)")]))
    fnodes = {tr.outputs["evf%d" % k][1] for k in range(nev) if tr.outputs["evf%d" % k][0] == "n"}
    if tr.outputs["fret"][0] == "n":
        fnodes.add(tr.outputs["fret"][1])
    sel = _relevant_decisions(tr, fnodes)
    obs.append(Ob("returned objective value <= objective at the (feasible) start point", [Constraint(5, P.sub(fret, enc.out("evf0")), "fret<=f(x0)")], pc_only=sel))
    if tr.note("limits") == "1":
        pts = [("evaluated point %d" % k, [enc.out("ev%d_%d" % (k, i)) for i in range(n)]) for k in range(nev)]
        same = [nm for nm, x in pts if all(P.key(a) == P.key(b_) for a, b_ in zip(x, xret))]
        if same:
            # the returned parameters are (as polynomials) one of the evaluated points: one obligation covers both
            pts = [(nm + " (= the returned point)" if nm == same[-1] else nm, x) for nm, x in pts]
        else:
            pts = [("returned point", xret)] + pts
        hyps = [c for _, c in enc.path_condition()] + list(input_domain(enc, inst))
        for nm, x in pts:
            for i in range(n):
                cands = []
                if _finite(tr, "lo%d" % i):
                    cands.append(Ob("%s within the parameter limits: x%d >= lower" % (nm, i), [Constraint(3, P.sub(x[i], enc.out("lo%d" % i)), "x%d>=lower" % i)]))
                if _finite(tr, "up%d" % i):
                    cands.append(Ob("%s within the parameter limits: x%d <= upper" % (nm, i), [Constraint(5, P.sub(x[i], enc.out("up%d" % i)), "x%d<=upper" % i)]))
                for o in cands:
                    if _within_budget(enc, hyps, o):
                        obs.append(o)
                    else:
                        enc.assumptions.append("limits clause left out on a path of %s (%s): neither the linear relaxation nor nlsat (rlimit %d) decides it" % (inst["name"], o.name, PRE_RLIMIT))
    return obs
