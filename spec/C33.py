"""C33 Parallel executors -- partition clause only (PARTIAL) -- Engine K.

The REAL Parallel2DExecutor.cpp (+Impl.h) is compiled with ParallelExecutor replaced by a sequential stub that reports
pass/task boundaries.  The execution is fully determined by (gridSize, numProcessors, rangeType): there are no data
inputs, so the finite space within the bounds is ENUMERATED exhaustively on the g++ build of the real code and on the C
translated from its LLVM IR (both must agree); cbmc additionally checks a small slice of the translated code with
pointer/bounds/overflow checks and unwinding assertions."""
import os, subprocess, sys

from engine.ir2c import kernel as K
from engine.ir2c.kernel import Ctx, Infra, log, REPO, HK

ID = "C33"
DISABLED = True   # not claimed in MANIFEST.json: the check below is an exhaustive enumeration, not solver-decided (see not_applicable)
ENGINE = "kernel"
TECHNIQUE = ("real Parallel2DExecutor.cpp with ParallelExecutor = sequential stub recording passes; EXHAUSTIVE ENUMERATION (no solver: the "
             "partition logic has no data inputs) of (gridSize, processors, rangeType) on the g++ build of the real code and, "
             "differentially, on the C translated from its LLVM IR (ir2c); optional cbmc slice")
EXPLANATION = ("PARTIAL (partition clause only). For every gridSize <= 12, numProcessors 0..8 and the three range types, the real "
               "Parallel2DExecutorImpl (init, addSquare, addTriangle, execute, TriangleTask::execute, SquareTask::execute) executes every "
               "(i,j) of the requested range exactly once and nothing else, two different task indices of one ParallelExecutor::execute "
               "call (one pass) never touch a common row/column index, binStart is non-decreasing from 0 to gridSize, initialize "
               "precedes and finish follows all executions. The input space is finite and has no data inputs: it is enumerated "
               "completely (exhaustive within the bounds), on the g++ build of the real code and on the IR translation. No solver decides "
               "anything here; the opt-in cbmc slice (gridSize <= 4, 2 processors) did not terminate within its cap when measured.")
BOUNDS = "gridSize 0..12, numProcessors 0..8 (=> bins <= 16), range types FullMatrix/HalfMatrix/HalfPlusDiagonal; cbmc slice: gridSize <= 4, numProcessors = 2, unwind 40"
NOT_COVERED = ("EVERYTHING about concurrency: ParallelExecutor / ParallelWorkQueue (ParallelExecutor.cpp, ParallelWorkQueue.cpp are not "
               "compiled): mutual exclusion of finish, initialize/finish per worker thread, wake-up and termination protocol, deadlock "
               "freedom, data races, index striping of threadBody, 'returns only after all have completed', work-queue flush/destruction; "
               "thread interleavings are not explored at all (std::thread/condition_variable live in libstdc++/pthread). Also: "
               "gridSize > 12, more than 8 processors, reuse of one executor with an external ParallelExecutor")
LEVEL_TEXT = ("Exhaustive enumeration within bounds of the real Parallel2DExecutor partition logic (sequential executor stub) on the real "
              "build and on its IR translation (not solver-decided); the concurrency clauses of the property are NOT covered")
LEVEL_NOTE = ("Partial: only 'runs each (i,j) of the requested range exactly once and never two invocations sharing an index in the same "
              "pass'. Trusted: the sequential stub's notion of a pass (= one ParallelExecutor::execute call), clang/g++, engine/ir2c, cbmc. "
              "Bounds: " + BOUNDS + " Not covered: " + NOT_COVERED)
RTN = {0: "FullMatrix", 1: "HalfMatrix", 2: "HalfPlusDiagonal"}


def main(tier, seed):
    return K.main_wrapper(lambda: _main(tier, seed))


def _main(tier, seed):
    ctx = Ctx(ID, tier, seed)
    log("C33 [%s] source root %s, build dir %s" % (tier, REPO, ctx.dir))
    p2d = ctx.src("SimTKcommon/src/Parallel2DExecutor.cpp"); ctx.src("SimTKcommon/src/Parallel2DExecutorImpl.h")
    dfn = ['KERNEL_P2D_CPP="%s"' % p2d]
    ctx.clang_ir("C33_wrap.cpp", "p2d.ll", defines=dfn, exceptions=True, extra=["-fno-access-control"])
    hooks = ("kp_pass_begin", "kp_task_begin", "kp_pass_end", "kp_exec", "kp_init", "kp_finish", "kp_bin")
    info, _m = ctx.translate("p2d.ll", "gen_p2d.c", entries=["k_run"], cuts=[r"^_ZN5SimTK9Exception"], externs=hooks)
    real_fns = [f for f in info["functions"] if not f.startswith("k_")]
    log("  translated %d functions (%d library functions), stubs %s" % (len(info["functions"]), len(real_fns), info["stubs"]))
    gmax = 12; pmax = 8
    total = agree = 0
    for rt in (0, 1, 2):
        gen_bin, real_bin = ctx.build_native_pair("C33_p2d.c", "gen_p2d.c", ["C33_wrap.cpp", "kreal_rt.cpp"], "p2d_rt%d" % rt, wrapper_defines=dfn,
                                                  wrapper_extra=["-fno-access-control"], harness_defines=["RT=%d" % rt, "GMAX=%d" % gmax, "PLO=0", "PHI=%d" % pmax])
        for g in range(gmax + 1):
            for p in range(pmax + 1):
                vec = ctx.p("case_%d_%d_%d.vec" % (rt, g, p))
                open(vec, "w").write("in_g 0 %d\nin_g 1 %d\n" % (g, p))
                a = subprocess.run([gen_bin, "h_partition", vec], capture_output=True, text=True, timeout=60)
                b = subprocess.run([real_bin, "h_partition", vec], capture_output=True, text=True, timeout=60)
                total += 1; ctx.obligations += 1; ctx.queries += 2
                ctx.nontrivial.add((rt, g, p))
                same = a.stdout == b.stdout and a.returncode == b.returncode
                agree += same
                ctx.validation.append(dict(harness="h_partition", salt="%s g=%d p=%d" % (RTN[rt], g, p), agree=same, rc=b.returncode, outputs=len(b.stdout.splitlines())))
                if b.returncode == 0 and same:
                    ctx.discharged += 1
                    if g in (5, 12) and p in (3, 8) and rt == 1: ctx.samples.append("real code, %s gridSize=%d processors=%d: %s" % (RTN[rt], g, p, " ".join(b.stdout.split("\n")[:3])))
                elif b.returncode == 1 or b.returncode < 0:
                    fails = sorted(set(l for l in b.stdout.splitlines() if l.startswith("CHECK-FAIL")))
                    ctx.record_violation(dict(obligation="partition clause for %s gridSize=%d numProcessors=%d" % (RTN[rt], g, p), harness="h_partition", inputs=dict(gridSize=g, numProcessors=p, rangeType=RTN[rt]),
                                              replay_cmd="%s h_partition %s" % (real_bin, vec), replay_on_real_code="\n".join(fails[:5]) + ("" if b.returncode >= 0 else "\n[signal %d]" % -b.returncode), confirmed_on_real_code=True,
                                              summary="real Parallel2DExecutor (sequential stub) violates the partition clause for %s gridSize=%d numProcessors=%d: %s" % (RTN[rt], g, p, "; ".join(fails)[:300])))
                else:
                    ctx.errors.append("case %s g=%d p=%d: gen rc=%d real rc=%d outputs differ=%s" % (RTN[rt], g, p, a.returncode, b.returncode, a.stdout != b.stdout))
    log("  exhaustive enumeration: %d cases, translation and real build agree on %d" % (total, agree))
    # report at most one violation per range type (the smallest case) to keep the output readable
    seen = set(); keep = []
    for v in ctx.violations:
        k = v.get("inputs", {}).get("rangeType")
        if k in seen: continue
        seen.add(k); keep.append(v)
    dropped = len(ctx.violations) - len(keep)
    ctx.extra["violating_cases"] = len(ctx.violations)
    ctx.violations = keep
    # cbmc slice on the translation: same assertions + pointer/bounds/overflow checks + unwinding assertions
    cap = 600 if tier == "quick" else 1500
    jobs = []
    for rt in ((1,) if tier == "quick" else (0, 1, 2)):
        jobs.append(dict(name="cbmc.slice.%s" % RTN[rt], files=["gen_p2d.c", os.path.join(HK, "C33_p2d.c")], function="h_partition", unwind=40, timeout=cap, sweep=(),
                         defines=["GMAX=4", "PLO=2", "PHI=2", "RT=%d" % rt, "RT_ALLOC_MAXUNITS=32"], extra=["--object-bits", "12"]))
    # measured in this sandbox: the slice does not finish within 900 s (heap-resident Array_ headers defeat cbmc's constant
    # propagation, every allocation then fans out over all block sizes), so it is opt-in and its absence is stated in the evidence
    ctx.extra["cbmc_slice"] = "run" if os.environ.get("VERIF_C33_CBMC") == "1" else "not run (opt-in with VERIF_C33_CBMC=1; did not finish within 900 s when measured)"
    if os.environ.get("VERIF_C33_CBMC") == "1":
        res = ctx.run_jobs(jobs)
        viol = ctx.account_jobs(res, lambda j: "cbmc slice " + j["name"])
        for j, r in viol:
            ctx.record_violation(dict(obligation="cbmc slice %s: partition assertions + memory safety on the translated real code" % j["name"], harness=j["name"], violated=r.get("violated"), inputs=r.get("inputs"),
                                      summary="cbmc counterexample in %s: %s" % (j["name"], (r.get("violated") or "")[:200].replace("\n", " "))))
        ctx.samples.append("cbmc %s: forall gridSize<=4, numProcessors=2: harness assertions + pointer/bounds/overflow checks, unwind 40" % jobs[0]["name"])
    ctx.extra["exhaustive"] = True; ctx.extra["cases"] = total
    solver_desc = "exhaustive native enumeration (g++ real build vs gcc build of the ir2c translation); cbmc %s for the slice" % K.tool_version(["cbmc", "--version"])
    assumptions = [
        "ParallelExecutor is replaced by a sequential stub: one ParallelExecutor::execute(task, times) call = one pass whose task indices 0..times-1 may run concurrently in the real executor; the stub calls initialize once, the indices in order, finish once",
        "the partition logic has no data inputs: its behaviour is a function of (gridSize, numProcessors, rangeType), so enumeration within the bounds is exhaustive",
        "heap blocks <= 128 bytes in the cbmc slice (ALLOC-BOUND assertion)",
    ]
    bounds = dict(text=BOUNDS, gridSize_max=gmax, processors_max=pmax, range_types=3, cases=total, cbmc_slice=dict(gridSize_max=4, processors=2, unwind=40))
    return ctx.finish(sys.modules[__name__], solver_desc, assumptions, bounds)
