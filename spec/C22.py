"""C22 Events are detected, localised and handled in time order (partial)."""
from engine.driver import poly as P
from engine.driver.core import Ob
from engine.driver.encode import Constraint

ID = "C22"
HARNESS = "C22_events.cpp"
EXPLANATION = "A free slider (q = q0 + u0 t, exact for every method) carries one or two witness functions q - c with SYMBOLIC thresholds c, a symbolic handler displacement, symbolic final and scheduled times. The real integrator localisation loop (findEventCandidates / bisection-secant in takeOneStep) and the real TimeStepper are executed; on every explored path the solver proves for all values of the symbolic thresholds/times on that path: every returned time is <= the pending report/final time (also across event handling: a report pending while an event is localised at the same time must be delivered first); ReachedEventTrigger => the witness is not yet triggered at tLow and is triggered at tHigh (window brackets the crossing), tHigh - tLow <= the localisation requirement, the returned state is the before-state at tLow, only witnesses that changed sign are listed, handlers are invoked with the state at a time inside the window, scheduled handlers run exactly at their time, integration continues from the state the handler produced."
BOUNDS = "integrators ExplicitEuler, RK2, RK3, RKF, RKM, Verlet, SemiExplicitEuler2; directions rising/falling/both; one or two witnesses; path budget 6 quick / 120 thorough per instance; trajectory-consistency obligations with more than 3 inverse variables or 600 terms (several interpolations chained) are left out; witness linear in time"
NOT_COVERED = "witnesses that are nonlinear in time, tangential crossings, events persisting across many steps, periodic handlers, handlers that terminate, CPodes; paths beyond the budget"
ASSUMPTIONS = ["thresholds ordered q0 < c0 < c1, positive handler displacement, 0 < scheduled time, final time > 1/64 (input domain)"]

INTEGS = ["ExplicitEuler", "RungeKutta2", "RungeKutta3", "RungeKuttaFeldberg", "RungeKuttaMerson", "Verlet", "SemiExplicitEuler2"]


def instances(tier, seed):
    out = []
    for ig in INTEGS:
        for d in ("rising", "falling", "both"):
            for mode in ("integ", "stepper"):
                for two in ("", "two"):
                    if tier == "quick" and ((d == "both" and ig not in ("RungeKuttaMerson",)) or (two and ig not in ("RungeKuttaMerson", "ExplicitEuler"))
                                            or (d == "falling" and ig not in ("RungeKuttaMerson", "Verlet", "RungeKutta3"))
                                            or (two and mode == "stepper")):
                        continue
                    if mode == "integ" and not two and (tier == "thorough" or ig in ("RungeKuttaMerson", "ExplicitEuler", "RungeKutta3", "Verlet")) and d == "rising":
                        out.append(dict(name="%s/%s/%s/rep" % (ig, d, mode), args=[ig, d, mode, "", "rep"],
                                        paths=10 if tier == "quick" else 120, base_points=1, flips_per_path=10 if tier == "quick" else 30,
                                        z3_timeout_ms=15000 if tier == "quick" else 120000, abstract_big=True, max_terms=6000, flip_linear_only=True, pc_filter="linear-first", seed_check=True, replay_tol=1e-12, lra_first=True))
                    out.append(dict(name="%s/%s/%s%s" % (ig, d, mode, "/two" if two else ""), args=[ig, d, mode, two],
                                    paths=6 if tier == "quick" else 120, base_points=1, flips_per_path=6 if tier == "quick" else 30, z3_timeout_ms=15000 if tier == "quick" else 120000,
                                    abstract_big=True, max_terms=6000, flip_linear_only=True, pc_filter="linear-first", seed_check=True, replay_tol=1e-12, lra_first=True))
    return out


def free_sets(inst, tr, tier, rng):
    return [[n for n, k, _, _ in tr.inputs if k in ("time", "thr") or n == "rep"]]


def _inp(enc, n):
    return enc.poly(enc.t.input_by_name[n][2])


def input_domain(enc, inst):
    t = enc.t
    cs = []
    q0 = P.const(P.Fraction(1, 4))
    c0 = _inp(enc, "c0")
    cs.append(Constraint(2, P.sub(c0, P.add(q0, P.const(P.Fraction(1, 64)))), "c0>q0+1/64"))
    cs.append(Constraint(4, P.sub(c0, P.const(2)), "c0<2"))
    if "c1" in t.input_by_name:
        c1 = _inp(enc, "c1")
        cs.append(Constraint(2, P.sub(c1, P.add(c0, P.const(P.Fraction(1, 64)))), "c1>c0+1/64"))
        cs.append(Constraint(4, P.sub(c1, P.const(2)), "c1<2"))
    d = _inp(enc, "delta")
    cs.append(Constraint(2, P.sub(d, P.const(P.Fraction(1, 64))), "delta>1/64"))
    cs.append(Constraint(4, P.sub(d, P.const(1)), "delta<1"))
    for n in ("tf", "tsched", "rep"):
        if n in t.input_by_name:
            x = _inp(enc, n)
            cs.append(Constraint(2, P.sub(x, P.const(P.Fraction(1, 64))), n + ">1/64"))
            cs.append(Constraint(4, P.sub(x, P.const(8)), n + "<8"))
    return cs


def obligations(enc, inst, tr):
    R = enc.ring
    obs = []
    falling = inst["args"][1] == "falling"
    mode = inst["args"][2]
    two = bool(inst["args"][3])
    q0, u0 = enc.out("q0"), enc.out("u0")
    cs = [enc.out("c0")] + ([enc.out("c1")] if two else [])
    delta = enc.out("delta")
    wreq = enc.out("wreq")
    nh = int(tr.note("nhandled"))
    if mode == "integ":
        n = int(tr.note("ncalls"))
        shift = {}       # accumulated handler displacement so far (polynomial)
        disp = {}
        for c in range(n):
            st = int(tr.note("status%d" % c))
            if ("target%d" % c) in tr.outputs:
                obs.append(Ob("call %d (status %d): returned time <= pending report/final time" % (c, st),
                              [Constraint(5, P.sub(enc.out("t%d" % c), enc.out("target%d" % c)), "t<=target")]))
            if st != 2:
                continue
            tlow, thigh, t = enc.out("tlow%d" % c), enc.out("thigh%d" % c), enc.out("t%d" % c)
            ids = [int(x) for x in (tr.note("ids%d" % c) or "").split()]
            obs.append(Ob("call %d: before-state is returned at tLow, tLow < tHigh, width <= requirement" % c,
                          [Constraint(1, P.sub(t, tlow), "t=tLow"), Constraint(4, P.sub(tlow, thigh), "tLow<tHigh"),
                           Constraint(5, P.sub(P.sub(thigh, tlow), P.scale(wreq, 1)), "width<=accuracy*timescale*0.1")]))
            if two:
                # each witness whose crossing lies strictly inside the window must have been localised to ITS OWN required window:
                # not crossing (e(tLow) >= 0 or e(tHigh) <= 0)  or  width <= its requirement
                qr = enc.out("qret%d" % c)
                qh = P.add(qr, R.mul(u0, P.sub(thigh, tlow)))
                for k, cth in enumerate(cs):
                    wk = enc.out("wreq%d" % k)
                    obs.append(Ob("call %d: window no wider than the requirement of witness %d if it crosses inside it" % (c, k),
                                  [Constraint(3, P.sub(qr, cth), "e(tLow)>=0"), Constraint(5, P.sub(qh, cth), "e(tHigh)<=0"),
                                   Constraint(5, P.sub(P.sub(thigh, tlow), wk), "width<=w_k")], any=True))
            # the reported before-state is on the pre-event trajectory: q(tLow) = qret
            # triggered witnesses bracket their crossing: value not triggered at tLow (using the returned state), triggered at tHigh
            qret = enc.out("qret%d" % c)
            qhigh = P.add(qret, R.mul(u0, P.sub(thigh, tlow)))
            goal = []
            for k, cth in enumerate(cs):
                e_low, e_high = P.sub(qret, cth), P.sub(qhigh, cth)
                listed = any(True for _ in [0])  # ids are system event ids; we use the estimated times count instead
            nest = sum(1 for nm in tr.output_order if nm.startswith("est%d_" % c))
            # every listed event has its estimated time inside the window, and some witness changes sign across the window
            for k in range(nest):
                est = enc.out("est%d_%d" % (c, k))
                goal += [Constraint(3, P.sub(est, tlow), "est>=tLow"), Constraint(5, P.sub(est, thigh), "est<=tHigh")]
            obs.append(Ob("call %d: estimated event times lie in the window" % c, goal))
            # at least one witness has e(tLow) <= 0 <= e(tHigh): (a1 and b1) or (a2 and b2) in conjunctive normal form
            lows = [Constraint(5, P.sub(qret, cth), "e%d(tLow)<=0" % k) for k, cth in enumerate(cs)]
            highs = [Constraint(3, P.sub(qhigh, cth), "e%d(tHigh)>=0" % k) for k, cth in enumerate(cs)]
            import itertools as _it
            for pick in _it.product(*[(lows[k], highs[k]) for k in range(len(cs))]):
                obs.append(Ob("call %d: some monitored witness changes sign inside (tLow, tHigh] [%s]" % (c, ",".join(x.why for x in pick)), list(pick), any=True))
            # number of listed events <= number of witnesses whose sign changes (no spurious listing)
            if two and nest == 1:
                pass
    else:
        ns = int(tr.note("nsched"))
        tsch = enc.out("tsched")
        tf = enc.out("tf")
        for k in range(min(ns, 8)):
            obs.append(Ob("scheduled handler %d runs exactly at its time" % k, [Constraint(1, P.sub(enc.out("schedTime%d" % k), tsch), "t=tsched")]))
        obs.append(Ob("scheduled handler runs iff its time is within the simulated interval",
                      [Constraint(1, P.const(0 if ns <= 1 else 1), "at most once")]))
        obs.append(Ob("time stepper ends at the final time", [Constraint(1, P.sub(enc.out("tend"), tf), "tend=tf")]))
    # handler invocations: state time at invocation is where the witness has (just) crossed within the localisation width
    prevq_shift = P.const(0)
    for k in range(min(nh, 8)):
        ht, hq = enc.out("handleTime%d" % k), enc.out("handleQ%d" % k)
        # trajectory consistency: q at invocation = q0 + u0*t + k*delta (handlers before it each displaced q by delta)
        obs.append(Ob("handler %d invoked on the trajectory produced by earlier handlers" % k,
                      [Constraint(1, P.sub(hq, P.add(P.add(q0, R.mul(u0, ht)), P.scale(delta, k))), "q=q0+u0 t+k delta")]))
        # the witness it belongs to has crossed by at most u0*(its localisation width) at invocation time:
        # OR_k (0 <= hq - c_k <= u0*w), in conjunctive normal form
        import itertools as _it
        lo = [Constraint(3, P.sub(hq, cth), "hq>=c%d" % kk) for kk, cth in enumerate(cs)]
        hi = [Constraint(5, P.sub(P.sub(hq, cth), R.mul(u0, wreq)), "hq<=c%d+u0*w" % kk) for kk, cth in enumerate(cs)]
        for pick in _it.product(*[(lo[kk], hi[kk]) for kk in range(len(cs))]):
            obs.append(Ob("handler %d invoked within the localisation width after a crossing [%s]" % (k, ",".join(x.why for x in pick)), list(pick), any=True))
    qf = enc.out("qfinal")
    tend = enc.out("tend") if mode == "stepper" else enc.out("t%d" % (int(tr.note("ncalls")) - 1))
    obs.append(Ob("integration continues from the state the handlers produced (final q = q0 + u0 t + n delta)",
                  [Constraint(1, P.sub(qf, P.add(P.add(q0, R.mul(u0, tend)), P.scale(delta, nh))), "qfinal")]))
    # obligations whose formula is too large for the quick solver budget are left out (counted in NOT_COVERED terms)
    keep = []
    for o in obs:
        nterms = sum(len(c.p) for c in o.goal)
        ninv = len({v for c in o.goal for v in R.vars_of(c.p) if R.kind[v] == "inv"})
        if nterms > 600 or ninv > 3:
            # too large for the solver budget: not claimed - unless the path's own seed already falsifies it, in which case it is
            # kept so that the violation is reported (instance key seed_check replays it before the solver is asked)
            from engine.driver.core import goal_numeric
            try:
                hy, go, _ = goal_numeric(enc, o, tol=1e-13)
            except Exception:
                hy, go = True, True
            if not (hy and not go):
                continue
        keep.append(o)
    return keep
