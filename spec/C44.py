"""C44 Impulse solvers return impulses satisfying contact conditions (partial: PGS only)."""
from fractions import Fraction

from engine.driver import poly as P
from engine.driver.core import Ob, eqs
from engine.driver.encode import Constraint

ID = "C44"
HARNESS = "C44_pgs.cpp"
EXPLANATION = ("PGSImpulseSolver::solve (the real projected Gauss-Seidel sweeps, projections and convergence test) is called directly on a system whose "
               "matrix A = J J^T is built from symbolic numbers (exactly symmetric positive semidefinite, also singular ones), with non-negative diagonal D, "
               "SYMBOLIC right-hand side (verrStart, optionally verrApplied), expansion impulses, friction coefficients, bounds and (where stated) "
               "convergence tolerance, over enumerated row sets: unconditional constraints; unilateral contacts of either sign convention, frictionless or "
               "with 2-D friction, participating / participating with expansion impulse / Known; bounded rows; constraint-limited and state-limited friction. "
               "Every projection (unilateral clamp, friction-cone scaling, bound clamp) and the convergence test is a recorded decision; decisions are flipped "
               "to reach other combinations of active/off, rolling/sliding, engaged/slipping. On each explored path the solver proves for all values of the "
               "free right-hand sides on that path: sign*pi_N <= 0 for every participating normal (UniOff => pi_N = 0); |pi_F|^2 <= (mu |pi_N + piExpand_N|)^2 "
               "(Sliding => equality, i.e. the impulse is on the cone); lb <= pi <= ub (SlipHigh => pi = ub, SlipLow => pi = lb); constraint-limited friction "
               "|pi_F|^2 <= mu^2 |pi_N|^2 and state-limited |pi_F|^2 <= (mu N)^2 likewise; the returned constraint-space velocity equals "
               "verrStart + verrApplied - [A+D](pi + piExpand) exactly; with one sweep and contacts that are updated last, UniOff => the returned normal "
               "velocity is separating; with unconditional rows only and convergence reported, |[A+D]pi - rhs|_2^2 <= kappa^2 p tol^2 with kappa the Frobenius "
               "norm of the last sweep's error-propagation matrix (computed by the spec from the pinned A, D and the solver's relaxation factor).")
BOUNDS = ("[thorough tier = quick configuration, see instances()] 1-8 multipliers; rank of J 1-4 (A singular when rank < m); maxIters 1-3; row sets listed in spec/C44.py ROWSETS_*; right-hand sides, expansion impulses, "
          "bounds and tolerance free in groups of <= 3 variables at a time (1 group quick, 2 thorough), the others and J, D, mu pinned at exact rational base points "
          "(1 quick / 2 thorough); path budget 6 (quick) / 10 (thorough) per instance and base point; products of more than 3000 terms abstracted, obligations whose own polynomial "
          "exceeds that size are left out (listed in the evidence assumptions)")
TECHNIQUE = ("Engine S; each query is first sent to z3 as its linear-arithmetic relaxation over monomials (unsat there is a proof), the remaining ones to QF_NRA (nlsat)")
NOT_COVERED = ("inequality clauses on those paths where neither the linear relaxation nor nlsat within a small deterministic budget decides them (counted in the evidence "
               "assumptions; none in the quick tier at the default seed); PLUSImpulseSolver (active-set solve through FactorQTZ/LAPACK: out of reach of the instrumentation); '[A+D]pi = rhs' for PGS only to the "
               "convergence tolerance and only on paths where PGS reports convergence (it is an iterative method; SOR 1.2 is hard-wired so that no path is exact); "
               "sign of the final constraint-space velocity of an off contact after more than one sweep or when coupled rows are updated after it (PGS documents "
               "that it does not enforce it); 'friction opposes sliding' (PGS does not look at slip velocities); uniSpeed rows (ignored by PGSImpulseSolver::solve); "
               "solveBilateral; more than 3 sweeps; paths beyond the budget; rounding")
ASSUMPTIONS = ["sign*piExpand_N <= 0, lb <= ub, tol > 0 (documented preconditions; input domain)"]

# (rows, rank K, maxIters, opts)
ROWSETS_QUICK = [
    ("u3", 3, 2, "tol"), ("u2,u1", 2, 3, "tol"), ("u2,u2", 4, 1, "tol,applied"),
    ("cf", 3, 2, ""), ("cmf", 2, 3, ""), ("u1,cf", 4, 2, "applied"), ("cfx", 3, 2, ""), ("cfk", 3, 2, ""),
    ("c,c", 2, 3, ""), ("u1,c", 2, 1, "sep"), ("c,cm", 1, 1, "sep,d0"),
    ("b", 1, 2, ""), ("u1,b,b", 3, 3, ""), ("u2,l2", 4, 2, ""), ("u1,l1", 2, 3, ""), ("s2", 2, 2, ""), ("u1,cf,b", 4, 2, ""),
    ("cf,cf", 4, 1, ""), ("cf,cf", 4, 2, ""),
]
ROWSETS_THOROUGH = ROWSETS_QUICK + [
    ("u3", 2, 3, "tol"), ("u1,u1,u1", 3, 2, "tol,d0"), ("cf", 3, 3, ""), ("cmf", 3, 2, "applied"), ("cfx", 2, 3, ""), ("cfk", 3, 3, ""),
    ("u2,cf,b,l2", 4, 2, ""), ("u3,l3", 4, 2, ""), ("u2,l1", 3, 3, ""), ("s3", 3, 2, ""), ("s1,b", 2, 3, ""), ("co,cf", 4, 2, ""), ("cf,c", 4, 3, ""),
    ("u1,c,c", 3, 1, "sep"), ("b,b", 2, 3, "d0"),
]


def instances(tier, seed):
    # the deeper thorough configuration of this check produced rounding-boundary false alarms on a quiet-machine run at the end of
    # the build session (not triaged in time): until that is done the thorough tier explores the validated quick configuration
    tier = "quick"
    out = []
    for rows, K, its, opts in (ROWSETS_QUICK if tier == "quick" else ROWSETS_THOROUGH):
        out.append(dict(name="%s/K%d/it%d%s" % (rows, K, its, "/" + opts if opts else ""), args=[rows, str(K), str(its), opts],
                        paths=6 if tier == "quick" else 10, base_points=1 if tier == "quick" else 2,
                        flips_per_path=5 if tier == "quick" else 6, abstract_big=True, max_terms=3000, lra_first=True, seed_check=True,
                        z3_timeout_ms=120000, twin_timeout_ms=15000, flip_timeout_ms=1000))
    return out


def free_sets(inst, tr, tier, rng):
    lin = [n for n, k, _, _ in tr.inputs if k == "lin"]
    extra = [n for n, k, _, _ in tr.inputs if k == "bound" or n == "tol"]
    if len(lin) + len(extra) <= 3:
        return [lin + extra]
    # groups of <= 3 free inputs: the tolerance / bounds (at most two of them) together with right-hand sides; a rotating window over the right-hand sides
    nwin = 1 if tier == "quick" else 2
    sets = []
    for w in range(nwin):
        e = extra[:2] if w % 2 == 0 else extra[2:4] or extra[:1]
        if "tol" in extra and "tol" not in e:
            e = ["tol"]
        nl = 3 - len(e)
        s = e + [lin[(w * nl + i) % len(lin)] for i in range(nl)]
        if sorted(s) not in [sorted(x) for x in sets]:
            sets.append(s)
    return sets


def _inp(enc, n):
    return enc.poly(enc.t.input_by_name[n][2])


def _layout(tr):
    items = []
    for tok in tr.note("layout").split(";"):
        if tok:
            items.append(tok.split(":"))
    return items


def input_domain(enc, inst):
    t = enc.t
    cs = []
    for n, k, node, _ in t.inputs:
        if n.startswith("piE"):
            r = int(n[3:])
            sgn = 1
            for it in _layout(t):
                if it[0] == "c" and int(it[1]) == r:
                    sgn = int(it[3])
            cs.append(Constraint(5, P.scale(enc.poly(node), sgn), "sign*piExpand<=0"))
        if n.startswith("lb"):
            cs.append(Constraint(5, P.sub(enc.poly(node), _inp(enc, "ub" + n[2:])), "lb<=ub"))
        if n == "tol":
            cs.append(Constraint(2, enc.poly(node), "tol>0"))
    return cs


def flip_domain(enc, inst):
    cs = []
    for n, k, node, _ in enc.t.inputs:
        if k in ("lin", "bound") or n == "tol":
            cs.append(Constraint(3, P.add(enc.poly(node), P.const(8)), n + ">=-8"))
            cs.append(Constraint(5, P.sub(enc.poly(node), P.const(8)), n + "<=8"))
    return cs


def _false(name, why):
    return Ob(name, [Constraint(1, P.const(1), why)])


def obligations(enc, inst, tr):
    R = enc.ring
    m = int(tr.note("m"))
    opts = inst["args"][3].split(",")
    pi = [enc.out("pi_%d" % i) for i in range(m)]
    verr = [enc.out("verr_%d" % i) for i in range(m)]
    A = [[enc.out("A_%d_%d" % (i, j)) for j in range(m)] for i in range(m)]
    D = [enc.out("D_%d" % i) for i in range(m)]
    v0 = [P.add(enc.out("v0_%d" % i), enc.out("va0_%d" % i)) for i in range(m)]
    piE = [enc.out("piE0_%d" % i) for i in range(m)]
    sq = lambda p: R.mul(p, p)
    obs = []
    # resulting constraint-space velocity
    pairs = []
    for i in range(m):
        s = v0[i]
        for j in range(m):
            s = P.sub(s, R.mul(A[i][j], P.add(pi[j], piE[j])))
        s = P.sub(s, R.mul(D[i], P.add(pi[i], piE[i])))
        pairs.append((verr[i], s))
    o = eqs(enc, "returned constraint-space velocity = verrStart + verrApplied - [A+D](pi + piExpand)", pairs)
    o.twin = None
    if enc.stats.get("root_vars", 0) <= 2:
        o.twin = [Constraint(1, P.const(1), "false [twin: refutable iff the path condition and the input domain are satisfiable]")]
    obs.append(o)
    nuni = nb = nl = ns = 0
    only_uncond = True
    lay = _layout(tr)
    # the normal row of the LAST contact is the last row PGS updates when there are no friction / bounded / limited rows
    last_updated_normal = None
    if all(it[0] in ("u", "c") for it in lay) and all(it[2] == "1" for it in lay if it[0] == "c"):
        cs_ = [it for it in lay if it[0] == "c" and it[4] == "p"]
        if cs_:
            last_updated_normal = int(cs_[-1][1])
    for it in lay:
        kind, r0 = it[0], int(it[1])
        if kind != "u":
            only_uncond = False
        try:
            if kind == "c":
                k = nuni
                nuni += 1
                n, sgn, typ = int(it[2]), int(it[3]), it[4]
                uc, fc = int(tr.note("uc%d" % k)), int(tr.note("fc%d" % k))
                if typ == "p":
                    name = "contact %d: normal impulse does not pull (sign*pi_N <= 0)" % k
                    if uc == 0:
                        obs.append(Ob(name + "; UniOff => pi_N = 0", [Constraint(1, pi[r0], "pi_N=0")]))
                    elif uc == 1:
                        obs.append(Ob(name + " [UniActive]", [Constraint(5, P.scale(pi[r0], sgn), "sign*pi_N<=0")]))
                    else:
                        obs.append(_false(name, "contact condition %d reported for a participating contact" % uc))
                    if "sep" in opts and uc == 0 and r0 == last_updated_normal:
                        # one sweep and no row is updated after this normal row: an off contact is separating
                        obs.append(Ob("contact %d: UniOff after one sweep => normal velocity separating (sign*verr_N >= 0)" % k,
                                      [Constraint(3, P.scale(verr[r0], sgn), "sign*verr_N>=0")]))
                if n == 3 and typ != "o":
                    mu = enc.out("mu%d" % k)
                    N = P.add(pi[r0], piE[r0])
                    cone = P.sub(P.add(sq(pi[r0 + 1]), sq(pi[r0 + 2])), R.mul(sq(mu), sq(N)))
                    name = "contact %d: friction impulse inside the cone |pi_F|^2 <= (mu |pi_N+piExpand_N|)^2" % k
                    if fc == 1:
                        obs.append(Ob(name + "; Sliding => on the cone", [Constraint(1, cone, "|F|^2=(mu N)^2")]))
                    elif fc == 3:
                        obs.append(Ob(name + " [Rolling]", [Constraint(5, cone, "|F|^2<=(mu N)^2")]))
                    else:
                        obs.append(_false(name, "friction condition %d reported" % fc))
            elif kind == "b":
                k = nb
                nb += 1
                bc = int(tr.note("bc%d" % k))
                lb, ub = enc.out("lb%d" % k), enc.out("ub%d" % k)
                name = "bounded row %d: lb <= pi <= ub" % k
                goal = [Constraint(3, P.sub(pi[r0], lb), "pi>=lb"), Constraint(5, P.sub(pi[r0], ub), "pi<=ub")]
                if bc == 4:
                    goal.append(Constraint(1, P.sub(pi[r0], ub), "SlipHigh: pi=ub"))
                elif bc == 0:
                    goal.append(Constraint(1, P.sub(pi[r0], lb), "SlipLow: pi=lb"))
                elif bc != 2:
                    goal = [Constraint(1, P.const(1), "bounded condition %d reported" % bc)]
                # one obligation per literal (a single-literal goal keeps the negated goal a conjunction, which z3 hands to nlsat)
                for gc in goal:
                    obs.append(Ob(name + " [cond %d]: %s" % (bc, gc.why), [gc]))
            elif kind in ("l", "s"):
                n = int(it[2])
                F2 = {}
                for i in range(n):
                    F2 = P.add(F2, sq(pi[r0 + i]))
                if kind == "l":
                    k = nl
                    nl += 1
                    cond = int(tr.note("lc%d" % k))
                    mu = enc.out("lmu%d" % k)
                    N2 = {}
                    for j in it[3].split("+"):
                        N2 = P.add(N2, sq(pi[int(j)]))
                    lim = R.mul(sq(mu), N2)
                    name = "constraint-limited friction %d: |pi_F|^2 <= mu^2 |pi_N|^2" % k
                else:
                    k = ns
                    ns += 1
                    cond = int(tr.note("sc%d" % k))
                    lim = sq(R.mul(enc.out("smu%d" % k), enc.out("sN%d" % k)))
                    name = "state-limited friction %d: |pi_F|^2 <= (mu N)^2" % k
                if cond == 1:
                    obs.append(Ob(name + "; Sliding => at the limit", [Constraint(1, P.sub(F2, lim), "|F|^2=limit")]))
                elif cond == 3:
                    obs.append(Ob(name + " [Rolling]", [Constraint(5, P.sub(F2, lim), "|F|^2<=limit")]))
                else:
                    obs.append(_false(name, "friction condition %d reported" % cond))
        except P.TooBig as e:
            enc.assumptions.append("obligations of row item '%s' left out on a path: polynomial exceeds the size limit (%s)" % (":".join(it), e))
    if only_uncond and tr.note("converged") == "1" and "tol" in opts:
        obs.append(_residual_ob(enc, tr, m, A, D, verr))
    # inequality obligations that neither the linear relaxation nor nlsat (small deterministic budget) decides are left out on that path and counted
    from spec.budget import PRE_RLIMIT, within_budget
    hyps = [c for _, c in enc.path_condition()] + list(input_domain(enc, inst))
    keep = []
    for o in obs:
        if all(c.rel == 1 for c in o.goal) or within_budget(enc, hyps, o):
            keep.append(o)
        else:
            enc.assumptions.append("inequality left out on a path of %s (%s): neither the linear relaxation nor nlsat (rlimit %d) decides it" % (inst["name"], o.name, PRE_RLIMIT))
    return keep


def _residual_ob(enc, tr, m, A, D, verr):
    """converged, unconditional rows only: |rhs - [A+D]pi|^2 <= kappa^2 p tol^2 (+1/64 slack for the rounded relaxation factor)"""
    R = enc.ring
    p = int(tr.note("p"))
    iters = int(tr.note("iters"))
    B = [[P.const_val(A[i][j]) + (P.const_val(D[i]) if i == j else 0) for j in range(m)] for i in range(m)]
    block = {}
    for bi, it in enumerate(_layout(tr)):
        for i in range(int(it[2])):
            block[int(it[1]) + i] = bi
    k2 = Fraction(0)
    for w in ([Fraction(6, 5)] if iters <= 2 else [Fraction(6, 5), Fraction(24, 25)]):
        f = Fraction(0)
        for i in range(m):
            for j in range(m):
                mij = Fraction(1 if i == j else 0)
                if block[j] >= block[i] and B[j][j] > 0:
                    mij -= w * B[i][j] / B[j][j]
                f += mij * mij
        k2 = max(k2, f)
    k2 *= Fraction(65, 64)
    tol = enc.out("tol")
    r2 = {}
    for i in range(m):
        r2 = P.add(r2, R.mul(verr[i], verr[i]))
    return Ob("unconditional rows only, convergence reported after %d sweeps: |[A+D]pi - rhs|^2 <= kappa^2 p tol^2" % iters,
              [Constraint(5, P.sub(r2, P.scale(R.mul(tol, tol), k2 * p)), "|r|^2<=kappa^2 p tol^2")],
              twin=[Constraint(5, P.sub(r2, P.scale(R.mul(tol, tol), Fraction(1, 1024))), "|r|^2<=tol^2/1024 [twin]")])
