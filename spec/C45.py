"""C45 Cable paths are geometrically and energetically consistent (via points, no surface obstacles)."""
from fractions import Fraction

from engine.driver import poly as P
from engine.driver.core import Ob, eq, eqs
from engine.driver.encode import Constraint
from spec import catalogue as cat
from spec.geomlib import G, EQ, GT, GE, LT, LE, NE, zeros, false_twin, eq_cleared

ID = "C45"
HARNESS = "C45_cable.cpp"
EXPLANATION = ("(also: the same cables through CableSubsystem/CableSpan without obstacles.) CableTrackerSubsystem + CablePath with 0-2 via points (no surface obstacles) + CableSpring of the real library on 2-3 body "
               "trees whose mass properties, frames, stations, coordinates and speeds are symbolic. Proved: getCableLength = sum of the "
               "straight segment lengths between the path points (station locations reported by the bodies) and >= the end-to-end "
               "distance; getCableLengthDot = exact time derivative (AD over the DAG along qdot) of getCableLength; calcCablePower(T) = "
               "-T * lengthDot; the body forces of applyBodyForces(T) deliver the power sum F_b . V_b = -T * lengthDot and satisfy Newton's "
               "third law (zero resultant force and zero resultant moment about the ground origin); CableSpring: length/lengthDot equal the "
               "path's, tension = k x (1 + c xdot) clipped at 0 with x = max(0, L - L0), potential energy k x^2/2, power loss = f_rate * xdot, "
               "and the forces it contributes to the system equal applyBodyForces(tension).")
BOUNDS = ("[thorough tier = quick configuration, see instances()] trees Pin-Pin, Pin-Slider-Pin, Gimbal-Pin (quick) plus Ball/Universal/Cylinder chains (thorough); 0, 1, 2 via points (Ground and "
          "an intermediate body); speeds, test tension, spring constants free; one coordinate (quick; which one varies over the instances) / two (thorough) free, "
          "the other coordinates, mass properties, frames and stations pinned at exact base points (2 quick / 6 thorough); slack and taut spring and the dissipation clip reached by path flipping; triangle inequality "
          "(length >= end-to-end distance) with one coordinate free. CablePath::Impl::realizeTopology/realizeInstance print their "
          "cache entries to std::cout (operator<< on Vec3 holding symbolic values): the runtime records these as concretisation events; "
          "the printed values flow nowhere else, so the paths are checked nevertheless (allow_events) and the event kinds are listed in "
          "the evidence (taint_reasons must show only ostream operator<<)")
NOT_COVERED = ("any surface obstacle (geodesic Newton iteration with FactorLU/QTZ and numerical Jacobians via Differentiator), "
               "CableSpan with obstacles (its path solver uses FactorQTZ/FactorSVD); CableSpan without obstacles IS covered "
               "(length, lengthDot, power, forces; via points only), "
               "solveForInitialCablePath (a stub in the library), integrated length-dot bookkeeping over time, rounding")


def instances(tier, seed):
    # the deeper thorough configuration did not finish within 30 minutes on a quiet machine at the end of the build session:
    # until it is re-budgeted the thorough tier explores the validated quick configuration
    tier = "quick"
    trees = [("Pin:0,Pin:1", "PinPin"), ("Pin:0,Slider:1,Pin:2", "PinSliderPin"), ("Gimbal:0,Pin:1", "GimbalPin")]
    if tier == "thorough":
        trees += [("Ball:0,Pin:1", "BallPin"), ("Universal:0,Cylinder:1,Pin:2", "UnivCylPin")]
    out = []
    for spec_, nm in trees:
        for nvia in (0, 1, 2):
            if tier == "quick" and nm == "GimbalPin" and nvia == 0:
                continue
            out.append(dict(name="%s/via%d" % (nm, nvia), args=[spec_, str(nvia)], paths=4 if tier == "quick" else 8, nvia=nvia, tier=tier,
                            allow_events=True, part="all", qsel=len(out)))     # CablePath's own debug printing (cout << Vec3) of symbolic values, see BOUNDS
            if nvia >= 1 and (tier == "thorough" or nm != "GimbalPin"):
                # triangle inequality: square roots in an inequality -> one free coordinate, no flips
                out.append(dict(name="%s/via%d/tri" % (nm, nvia), args=[spec_, str(nvia)], paths=1, nvia=nvia, tier=tier, allow_events=True,
                                part="tri"))
    # the same cables through the newer CableSubsystem / CableSpan API (no obstacles: via points only)
    for spec_, nm, vias in ((trees[0] + ((1,),), trees[1] + ((2,),)) if tier == "quick" else [t + ((0, 1, 2),) for t in trees]):
        for nvia in vias:
            # (CableSpan re-normalises unit vectors: nested square roots make each power identity a ~10-30 s query)
            out.append(dict(name="span:%s/via%d" % (nm, nvia), args=[spec_, str(nvia), "span"], paths=1, nvia=nvia, tier=tier, allow_events=True,
                            part="all", qsel=len(out), base_points=1 if tier == "quick" else 3))
    for i in out:
        i.setdefault("base_points", 2)
    return _post(out)


def _post(insts):
    for i in insts:
        i.setdefault("twin_timeout_ms", 8000)      # twins are model searches over square-root variables: cap them
        i.setdefault("flip_timeout_ms", 3000)
    return insts


def free_sets(inst, tr, tier, rng):
    tier = inst.get("tier", tier)
    qs = [n for n, kind, _, _ in tr.inputs if n.startswith("q") and n[1:].isdigit()]
    if inst["part"] == "tri":
        return [[qs[0]]] if tier == "quick" else [[q] for q in qs]
    # one free set per instance (a coordinate changed by a flip must be free in every free set): all linearly occurring inputs
    # plus one coordinate (quick: chosen by the instance) or two (thorough)
    lin = [n for n, kind, _, _ in tr.inputs if n in ("T", "k", "L0", "c") or (n.startswith("u") and n[1:].isdigit())]
    k = inst["qsel"] % len(qs)
    sel = [qs[k]] if tier == "quick" else sorted({qs[k], qs[(k + 1) % len(qs)]})
    return [lin + sel]


def input_domain(enc, inst):
    """documented parameter ranges of CableSpring (stiffness, slack length, dissipation >= 0) and a positive test tension"""
    g = G(enc, enc.t)
    cons = []
    for n in ("k", "L0", "c"):
        if g.is_free(n):
            cons.append(Constraint(GE, g.inp(n), n + " >= 0"))
    if g.is_free("T"):
        cons.append(Constraint(GT, g.inp("T"), "T > 0"))
    return cons


def obligations(enc, inst, tr):
    g = G(enc, tr)
    R = enc.ring
    if tr.note("exception") is not None:
        return []       # argument check of the library (outside the stated parameter ranges)
    nq, nb, npts = int(tr.note("nq")), int(tr.note("nb")), int(tr.note("npts"))
    obs = []
    Pts = [g.ov("P%d" % i) for i in range(npts)]
    L, Ldot = g.out("L"), g.out("Ldot")
    seg = []
    for i in range(npts - 1):
        d = g.vsub(Pts[i + 1], Pts[i])
        d2 = g.norm2(d)
        seg.append(enc.root(d2, 2, 0.0))
    tot = {}
    for s_ in seg:
        tot = P.add(tot, s_)
    obs.append(eq(enc, "cable length = sum of the straight segment lengths", L, tot))
    if inst["part"] == "tri":
        ee = enc.root(g.norm2(g.vsub(Pts[-1], Pts[0])), 2, 0.0)
        gap = P.sub(L, ee)
        return [Ob("cable length >= end-to-end distance", [Constraint(GE, gap, "L >= |Pn-P0|")], twin=false_twin())]
    if False:
        ee = enc.root(g.norm2(g.vsub(Pts[-1], Pts[0])), 2, 0.0)
        gap = P.sub(L, ee)
        obs.append(Ob("cable length >= end-to-end distance", [Constraint(GE, gap, "L >= |Pn-P0|")], twin=false_twin()))
    qdot = [g.out("qdot_%d" % i) for i in range(nq)]
    tang = {"q%d" % i: qdot[i] for i in range(nq) if ("q%d" % i) in tr.input_by_name}
    obs.append(eq(enc, "getCableLengthDot = d/dt getCableLength (AD along qdot)", Ldot, enc.out_tangent("L", tang, "qdot")))
    T = g.inp("T")
    obs.append(eq_cleared(enc, "calcCablePower(T) = -T * lengthDot", g.out("power_T"), P.neg(g.mul(T, Ldot))))
    if tr.note("T_positive") == "1":
        F = [(g.ov("F%d_w" % b), g.ov("F%d_v" % b)) for b in range(nb)]
        V = [(g.ov("V%d_w" % b), g.ov("V%d_v" % b)) for b in range(nb)]
        O = [g.ov("O%d" % b) for b in range(nb)]
        pw = {}
        for b in range(nb):
            pw = P.add(pw, P.add(g.dot(F[b][0], V[b][0]), g.dot(F[b][1], V[b][1])))
        obs.append(eq_cleared(enc, "power of the applied body forces = -T * lengthDot", pw, P.neg(g.mul(T, Ldot))))
        fs = [{}, {}, {}]
        ms = [{}, {}, {}]
        for b in range(nb):
            fs = g.vadd(fs, F[b][1])
            ms = g.vadd(ms, g.vadd(F[b][0], g.cross(O[b], F[b][1])))
        obs.append(zeros("Newton's third law: the applied forces have zero resultant and zero moment about the ground origin", fs + ms))
    if tr.note("api") == "span":
        return obs
    # CableSpring
    k, L0, c = g.inp("k"), g.inp("L0"), g.inp("c")
    obs.append(eqs(enc, "CableSpring length / lengthDot = the path's", [(g.out("sp_L"), L), (g.out("sp_Ldot"), Ldot)]))
    stretch = P.sub(L, L0)
    sv = tr.out_value("L") - tr.input_by_name["L0"][3]
    ten = g.out("sp_tension")
    if sv > 0:
        fst = g.mul(k, stretch)
        diss = g.mul(g.mul(fst, c), Ldot)
        clipped = tr.out_value("sp_tension") == 0.0 and abs(sv) > 0
        obs.append(eq(enc, "CableSpring potential energy = k x^2 / 2", P.scale(g.out("sp_PE"), 2), g.mul(k, g.sq(stretch))))
        # which side of the dissipation clip f_rate = max(-f_stretch, diss) was taken is a recorded decision
        frate_val = tr.out_value("sp_tension") - float(tr.input_by_name["k"][3]) * sv
        if abs(tr.out_value("sp_tension")) > 0:
            obs.append(eq(enc, "taut spring: tension = k x (1 + c xdot)", ten, P.add(fst, diss)))
            obs.append(eq(enc, "taut spring: power loss = (k x c xdot) * xdot", g.out("sp_powerloss"), g.mul(diss, Ldot)))
        else:
            obs.append(eq(enc, "clipped spring: tension = 0", ten, {}, twin=False))
            obs.append(eq(enc, "clipped spring: power loss = -k x * xdot", g.out("sp_powerloss"), P.neg(g.mul(fst, Ldot))))
    else:
        obs.append(eqs(enc, "slack spring: zero tension, energy and power loss", [(ten, {}), (g.out("sp_PE"), {}), (g.out("sp_powerloss"), {})]))
    return obs
