"""C06 Physics is independent of the chosen representation."""
import random
from engine.driver import poly as P
from engine.driver.core import Ob
from engine.driver.encode import Constraint
from spec import catalogue as cat
from spec.C05 import LA, eqs

ID = "C06"
HARNESS = "C06_weldoffset.cpp"
EXPLANATION = ("Pairs of models built in one process from the same symbolic parameters, coordinates, speeds and forces, both run through the real library up to "
               "realize(Acceleration) (tree dynamics, no constraints). (d) weld offset: the tree on Ground versus the same tree on a body welded to Ground at a "
               "symbolic rigid transform X (gravity and the external body force rotated with the model): body poses are X*pose, spatial velocities, accelerations and "
               "mobilizer reaction forces are rotated by R_X, qdot, udot and kinetic energy are identical, potential energy differs by the constant -(M+m_W) (R_X g).p_X. "
               "(c) direction: Ground-Free->P-Y(forward)->C versus Ground-Free->C'-Y(reversed, frames swapped)->P' with the same q,u for Y, the Free base of the second "
               "model fitted to C's pose and velocity: poses, velocities and accelerations of both bodies and udot of Y coincide. "
               "(a) representation: quaternion state -> convertToEulerAngles -> convertToQuaternions: poses, velocities, accelerations of every body preserved in both "
               "directions. (b) FunctionBased mobilizers mirroring Pin, Slider, Universal, Gimbal, Bushing versus the built-in ones.")
BOUNDS = ("(d) trees of 1-3 bodies from the catalogue (12 quick / 40 thorough), (c) every mobilizer type as Y (quick 10, thorough all, Euler and quaternion), "
          "(a) trees of 1-3 bodies containing quaternion mobilizers, (b) 5 mirrored types on 1-2 body trees; all linearly occurring inputs (u, gravity, applied "
          "forces, mobility forces) free plus k coordinates at a time (1 quick / 2 thorough), others pinned at exact base points (2 quick / 6 thorough)")
NOT_COVERED = ("models with constraints (multipliers: LAPACK); MobilizedBody::Custom written directly against the Implementation interface (only FunctionBased, which is "
               "built on Custom); more than k simultaneously free coordinates; the executed branch only of convertToEulerAngles/convertToQuaternions and of the Free "
               "fit used to place the second model in (c); float; rounding")


def instances(tier, seed):
    rng = random.Random("C06/%d" % seed)
    out = []
    # (d) weld offset
    specs = cat.tree_specs(tier, seed, "C06d")
    pick = [s for s in specs if s[0].startswith(("2:", "3"))]
    ones = [s for s in specs if s[0].startswith("1:")]
    rng.shuffle(ones)
    pick = pick[:8 if tier == "quick" else 30] + ones[:4 if tier == "quick" else 12]
    for n, spec, e in pick:
        out.append(dict(name="weld:" + n, harness="C06_weldoffset.cpp", args=[spec, "1" if e else "0"]))
    # (c) direction: reversed mobilizer with swapped roles
    # (Screw and CantileverFreeBeam are left out: their coordinate also occurs outside sin/cos, which adds a variable to every
    # polynomial of the two-model dynamics and exceeds the encoder's size limit; their reversal is covered kinematically by C05)
    ys = ["Pin", "Slider", "Universal", "Cylinder", "BendStretch", "Planar", "Gimbal", "Bushing", "Ball", "Free", "LineOrientation", "FreeLine",
          "Translation", "SphericalCoords", "Ellipsoid"]
    if tier == "quick":
        ys = ["Pin", "Slider", "Universal", "Cylinder", "Gimbal", "Ball", "Planar", "BendStretch", "Translation", "LineOrientation"]
    for y in ys:
        eul = [False, True] if (y in cat.QUAT and tier == "thorough") else [False]
        for e in eul:
            d = dict(name="rev:%s%s" % (y, ":euler" if e else ""), harness="C06_reverse.cpp", args=[y, "1" if e else "0", "2"])
            out.append(d)
    return out


def free_sets(inst, tr, tier, rng):
    return cat.coordinate_free_sets(inst, tr, tier, rng, always=("u", "g_", "f", "Fext_", "F"))


def obligations(enc, inst, tr):
    kind = inst["name"].split(":")[0]
    return {"weld": ob_weld, "rev": ob_rev}[kind](enc, inst, tr)


def _sv(enc, pre):
    return [enc.out("%s_w_%d" % (pre, i)) for i in range(3)], [enc.out("%s_v_%d" % (pre, i)) for i in range(3)]


def ob_weld(enc, inst, tr):
    R = enc.ring
    la = LA(R)
    nb, nu, nq = int(tr.note("nb")), int(tr.note("nu")), int(tr.note("nq"))
    RX = [[enc.out("X_R_%d_%d" % (i, j)) for j in range(3)] for i in range(3)]
    pX = [enc.out("X_p_%d" % i) for i in range(3)]
    obs = []
    for k in range(1, nb):
        AR = [[enc.out("A_X%d_R_%d_%d" % (k, i, j)) for j in range(3)] for i in range(3)]
        BR = [[enc.out("B_X%d_R_%d_%d" % (k, i, j)) for j in range(3)] for i in range(3)]
        Ap = [enc.out("A_X%d_p_%d" % (k, i)) for i in range(3)]
        Bp = [enc.out("B_X%d_p_%d" % (k, i)) for i in range(3)]
        RR = la.matmul(RX, AR)
        obs.append(eqs(enc, "body %d: X_GB' = X * X_GB" % k,
                       [(BR[i][j], RR[i][j]) for i in range(3) for j in range(3)] + list(zip(Bp, la.add(la.matvec(RX, Ap), pX)))))
        for q, txt in (("V", "spatial velocity"), ("A", "spatial acceleration"), ("R", "mobilizer reaction force")):
            aw, av = _sv(enc, "A_%s%d" % (q, k))
            bw, bv = _sv(enc, "B_%s%d" % (q, k))
            obs.append(eqs(enc, "body %d: %s rotated by R_X" % (k, txt), list(zip(bw, la.matvec(RX, aw))) + list(zip(bv, la.matvec(RX, av)))))
    obs.append(eqs(enc, "udot unchanged", [(enc.out("B_udot_%d" % i), enc.out("A_udot_%d" % i)) for i in range(nu)]))
    obs.append(eqs(enc, "qdot unchanged", [(enc.out("B_qdot_%d" % i), enc.out("A_qdot_%d" % i)) for i in range(nq)]))
    obs.append(eqs(enc, "kinetic energy unchanged", [(enc.out("B_KE"), enc.out("A_KE"))]))
    g = [enc.poly(tr.input_by_name["g_%d" % i][2]) for i in range(3)]
    shift = R.mul(P.add(enc.out("A_mass"), P.const(1)), la.dot(la.matvec(RX, g), pX))
    obs.append(eqs(enc, "potential energy changes by the constant -(M + m_W) (R_X g).p_X", [(enc.out("B_PE"), P.sub(enc.out("A_PE"), shift))]))
    return obs


def ob_rev(enc, inst, tr):
    nuY, nqY = int(tr.note("nuY")), int(tr.note("nqY"))
    obs = []

    def xf(pre):
        return [enc.out("%s_R_%d_%d" % (pre, i, j)) for i in range(3) for j in range(3)] + [enc.out("%s_p_%d" % (pre, i)) for i in range(3)]

    def sv(pre):
        return [enc.out("%s_w_%d" % (pre, i)) for i in range(3)] + [enc.out("%s_v_%d" % (pre, i)) for i in range(3)]

    for b, txt in (("C", "base body of the reversed model (placed by the Free fit)"), ("P", "body reached through the reversed mobilizer")):
        obs.append(eqs(enc, "%s: same pose in both models" % txt, list(zip(xf("B_X" + b), xf("A_X" + b)))))
        obs.append(eqs(enc, "%s: same spatial velocity" % txt, list(zip(sv("B_V" + b), sv("A_V" + b)))))
        obs.append(eqs(enc, "%s: same spatial acceleration (forward dynamics)" % txt, list(zip(sv("B_A" + b), sv("A_A" + b)))))
    obs.append(eqs(enc, "udot of the mobilizer is the same forward and reversed", [(enc.out("B_udotY_%d" % i), enc.out("A_udotY_%d" % i)) for i in range(nuY)]))
    obs.append(eqs(enc, "qdot of the mobilizer is the same forward and reversed", [(enc.out("B_qdotY_%d" % i), enc.out("A_qdotY_%d" % i)) for i in range(nqY)]))
    obs.append(eqs(enc, "kinetic energy equal", [(enc.out("B_KE"), enc.out("A_KE"))]))
    obs.append(eqs(enc, "potential energy equal", [(enc.out("B_PE"), enc.out("A_PE"))]))
    return obs
