"""C06 Physics is independent of the chosen representation."""
import random
from engine.driver import poly as P
from engine.driver.core import Ob
from engine.driver.encode import Constraint
from spec import catalogue as cat
from spec.C05 import LA, eqs

ID = "C06"
HARNESS = "C06_weldoffset.cpp"
EXPLANATION = ("Pairs of models built in one process from the same symbolic parameters, coordinates, speeds and forces, both run through the real library up to "
               "realize(Acceleration) (tree dynamics, no constraints). (d) weld offset: the tree on Ground versus the same tree on a body welded to Ground at a "
               "symbolic rigid transform X (gravity and the external body force rotated with the model): body poses are X*pose, spatial velocities, accelerations and "
               "mobilizer reaction forces are rotated by R_X, qdot, udot and kinetic energy are identical, potential energy differs by the constant -(M+m_W) (R_X g).p_X. "
               "(c) direction: Ground-Free->P-Y(forward)->C versus Ground-Free->C'-Y(reversed, frames swapped)->P' with the same q,u for Y, the Free base of the second "
               "model fitted to C's pose and velocity: poses, velocities and accelerations of both bodies and udot of Y coincide. "
               "(a) representation: a quaternion state through convertToEulerAngles, and an Euler-angle state through convertToQuaternions: pose, spatial velocity, "
               "spatial acceleration of every body, u and udot are preserved (gravity and mobility forces applied). (b) FunctionBased mobilizers (MobilizedBody::Custom "
               "bridge) mirroring Pin, Slider, Universal, Cylinder, Planar, Gimbal, Bushing, Translation versus the built-in ones: same poses, velocities, accelerations, "
               "reaction forces, qdot, udot, energies.")
BOUNDS = ("(d) trees of 1-3 bodies from the catalogue (8 quick / 22 thorough, including lone-particle trees), (c) Y = 7 mobilizer types quick, 15 thorough (Euler and quaternion; not Screw and "
          "CantileverFreeBeam), (a) 6 quick / 15 thorough trees of 1-3 bodies containing quaternion mobilizers, each in both directions, the unit quaternions parametrised by "
          "three half angles, (b) FunctionBased mirrors of Pin, Slider, Universal, Cylinder, Planar, Gimbal, Bushing, Translation alone, under a Pin and over a Pin, forward and "
          "reversed; all linearly occurring inputs (u, gravity, applied forces, mobility forces) free plus one coordinate at a time ((a): accelerations "
          "and udot only with every coordinate pinned), others pinned at exact base points (2 quick / 6 thorough; (d) thorough 3), at most 3 quick / 5 thorough free sets per base point")
NOT_COVERED = ("models with constraints (multipliers: LAPACK); MobilizedBody::Custom written directly against the Implementation interface (only FunctionBased, which is "
               "built on Custom, with linear coordinate functions); (c) for Screw and CantileverFreeBeam (coordinate occurs outside sin/cos: the two-model dynamics exceeds the "
               "encoder's size limit; their reversal is covered kinematically by C05); (a) the composition of both conversions in one run (each direction is proved "
               "separately, from arbitrary unit quaternions resp. arbitrary Euler angles), accelerations with a free coordinate, and accelerations across the conversion "
               "for Free/FreeLine (size limit; their poses and velocities are covered); more than one simultaneously free "
               "coordinate; only the executed branch of convertToEulerAngles/convertToQuaternions (asin/atan2 ranges, quaternion extraction case) and of the Free fit used "
               "to place the second model in (c); float; rounding")


def instances(tier, seed):
    rng = random.Random("C06/%d" % seed)
    out = []
    # (d) weld offset
    specs = cat.tree_specs(tier, seed, "C06d")
    pick = [s for s in specs if s[0].startswith(("2:", "3"))]
    ones = [s for s in specs if s[0].startswith("1:")]
    rng.shuffle(ones)
    lone = [s for s in specs if "lone" in s[0]]
    pick = [s for s in pick if "lone" not in s[0]]
    ones = [s for s in ones if "lone" not in s[0]]
    pick = pick[:4 if tier == "quick" else 12] + lone[:2 if tier == "quick" else 4] + ones[:2 if tier == "quick" else 6]
    for n, spec, e in pick:
        # (trees with a Ground-attached identity-frame Translation body = RBNodeLoneParticle get their own prefix: known finding)
        d = dict(name=("weldlone:" if "lone" in n else "weld:") + n, harness="C06_weldoffset.cpp", args=[spec, "1" if e else "0"])
        if tier == "thorough":
            d["base_points"] = 3
        out.append(d)
    # (c) direction: reversed mobilizer with swapped roles
    # (Screw and CantileverFreeBeam are left out: their coordinate also occurs outside sin/cos, which adds a variable to every
    # polynomial of the two-model dynamics and exceeds the encoder's size limit; their reversal is covered kinematically by C05)
    ys = ["Pin", "Slider", "Universal", "Cylinder", "BendStretch", "Planar", "Gimbal", "Bushing", "Ball", "Free", "LineOrientation", "FreeLine",
          "Translation", "SphericalCoords", "Ellipsoid"]
    if tier == "quick":
        ys = ["Pin", "Universal", "Cylinder", "Gimbal", "Ball", "Planar", "LineOrientation"]
    for y in ys:
        eul = [False, True] if (y in cat.QUAT and tier == "thorough") else [False]
        for e in eul:
            d = dict(name="rev:%s%s" % (y, ":euler" if e else ""), harness="C06_reverse.cpp", args=[y, "1" if e else "0", "2"])
            out.append(d)
    # (a) quaternion <-> Euler conversion of the state
    trees = ["Ball:0", "Free:0", "LineOrientation:0", "Ellipsoid:0", "Pin:0,Ball:1", "Ball:0r,Slider:1"]
    if tier == "thorough":
        trees += ["FreeLine:0", "Ball:0r", "Free:0r", "Ellipsoid:0r", "Free:0,Pin:1", "Universal:0,Free:1", "Ball:0,Ball:1", "Gimbal:0,LineOrientation:1",
                  "Pin:0,Ball:1,Slider:2"]
    for t in trees:
        for start in ("0", "1"):
            d = "q2e" if start == "0" else "e2q"
            # kin: poses and velocities, one angle free; dyn: also accelerations and udot, every coordinate pinned (not for the 6-dof
            # quaternion mobilizers, whose Euler-mode accelerations with symbolic mass properties exceed the size limit)
            out.append(dict(name="euler:%s:kin:%s" % (d, t), harness="C06_euler.cpp", args=[t, start, "kin"], max_terms=100000))
            if "Free" not in t:
                out.append(dict(name="euler:%s:dyn:%s" % (d, t), harness="C06_euler.cpp", args=[t, start, "dyn"], max_terms=200000))
    # (b) FunctionBased (Custom) mirror of a built-in mobilizer
    mir = ["Pin", "Slider", "Universal", "Cylinder", "Planar", "Gimbal", "Bushing", "Translation"]
    for m in mir:
        shapes = ["1", "pre", "post"] if (tier == "thorough" or m in ("Gimbal",)) else [rng.choice(["1", "pre", "post"])]
        for sh in shapes:
            for rv in (["0", "1"] if (tier == "thorough" or m in ("Universal", "Slider")) else ["0"]):
                out.append(dict(name="custom:%s:%s%s" % (m, sh, ":rev" if rv == "1" else ""), harness="C06_custom.cpp", args=[m, sh, rv]))
    return out


def free_sets(inst, tr, tier, rng):
    if inst["name"].startswith("euler:"):
        lin = [n for n, kind, _, _ in tr.inputs if kind == "lin"]
        # (q2e: the unit quaternions are parametrised in the harness by half angles e<start>_<k>, which may be free)
        if ":dyn:" in inst["name"]:
            return [lin]
        angles = [n for n, kind, _, _ in tr.inputs if (n.startswith("q") and n[1:].isdigit() or n.startswith("e")) and kind == "angle"]
        rng.shuffle(angles)
        return [lin] + [lin + [a] for a in angles[:1 if tier == "quick" else 3]]
    # one free coordinate at a time in both tiers: two models' dynamics with two free angles is too slow for the thorough budget;
    # thorough = more trees, more base points, more single-coordinate free sets
    return cat.coordinate_free_sets(inst, tr, tier, rng, always=("u", "g_", "f", "Fext_", "F"), k=1, maxsets=3 if tier == "quick" else 5)


def obligations(enc, inst, tr):
    kind = inst["name"].split(":")[0]
    return {"weld": ob_weld, "weldlone": ob_weld, "rev": ob_rev, "euler": ob_euler, "custom": ob_custom}[kind](enc, inst, tr)


def _sv(enc, pre):
    return [enc.out("%s_w_%d" % (pre, i)) for i in range(3)], [enc.out("%s_v_%d" % (pre, i)) for i in range(3)]


def ob_weld(enc, inst, tr):
    R = enc.ring
    la = LA(R)
    nb, nu, nq = int(tr.note("nb")), int(tr.note("nu")), int(tr.note("nq"))
    RX = [[enc.out("X_R_%d_%d" % (i, j)) for j in range(3)] for i in range(3)]
    pX = [enc.out("X_p_%d" % i) for i in range(3)]
    obs = []
    for k in range(1, nb):
        AR = [[enc.out("A_X%d_R_%d_%d" % (k, i, j)) for j in range(3)] for i in range(3)]
        BR = [[enc.out("B_X%d_R_%d_%d" % (k, i, j)) for j in range(3)] for i in range(3)]
        Ap = [enc.out("A_X%d_p_%d" % (k, i)) for i in range(3)]
        Bp = [enc.out("B_X%d_p_%d" % (k, i)) for i in range(3)]
        RR = la.matmul(RX, AR)
        obs.append(eqs(enc, "body %d: X_GB' = X * X_GB" % k,
                       [(BR[i][j], RR[i][j]) for i in range(3) for j in range(3)] + list(zip(Bp, la.add(la.matvec(RX, Ap), pX)))))
        for q, txt in (("V", "spatial velocity"), ("A", "spatial acceleration"), ("R", "mobilizer reaction force")):
            aw, av = _sv(enc, "A_%s%d" % (q, k))
            bw, bv = _sv(enc, "B_%s%d" % (q, k))
            nm = ("reaction force of body %d rotated by R_X" % k) if q == "R" else "body %d: %s rotated by R_X" % (k, txt)
            obs.append(eqs(enc, nm, list(zip(bw, la.matvec(RX, aw))) + list(zip(bv, la.matvec(RX, av)))))
    obs.append(eqs(enc, "udot unchanged", [(enc.out("B_udot_%d" % i), enc.out("A_udot_%d" % i)) for i in range(nu)]))
    obs.append(eqs(enc, "qdot unchanged", [(enc.out("B_qdot_%d" % i), enc.out("A_qdot_%d" % i)) for i in range(nq)]))
    obs.append(eqs(enc, "kinetic energy unchanged", [(enc.out("B_KE"), enc.out("A_KE"))]))
    g = [enc.poly(tr.input_by_name["g_%d" % i][2]) for i in range(3)]
    shift = R.mul(P.add(enc.out("A_mass"), P.const(1)), la.dot(la.matvec(RX, g), pX))
    obs.append(eqs(enc, "potential energy changes by the constant -(M + m_W) (R_X g).p_X", [(enc.out("B_PE"), P.sub(enc.out("A_PE"), shift))]))
    return obs


def ob_rev(enc, inst, tr):
    nuY, nqY = int(tr.note("nuY")), int(tr.note("nqY"))
    obs = []

    def xf(pre):
        return [enc.out("%s_R_%d_%d" % (pre, i, j)) for i in range(3) for j in range(3)] + [enc.out("%s_p_%d" % (pre, i)) for i in range(3)]

    def sv(pre):
        return [enc.out("%s_w_%d" % (pre, i)) for i in range(3)] + [enc.out("%s_v_%d" % (pre, i)) for i in range(3)]

    for b, txt in (("C", "base body of the reversed model (placed by the Free fit)"), ("P", "body reached through the reversed mobilizer")):
        obs.append(eqs(enc, "%s: same pose in both models" % txt, list(zip(xf("B_X" + b), xf("A_X" + b)))))
        obs.append(eqs(enc, "%s: same spatial velocity" % txt, list(zip(sv("B_V" + b), sv("A_V" + b)))))
        obs.append(eqs(enc, "%s: same spatial acceleration (forward dynamics)" % txt, list(zip(sv("B_A" + b), sv("A_A" + b)))))
    obs.append(eqs(enc, "udot of the mobilizer is the same forward and reversed", [(enc.out("B_udotY_%d" % i), enc.out("A_udotY_%d" % i)) for i in range(nuY)]))
    obs.append(eqs(enc, "qdot of the mobilizer is the same forward and reversed", [(enc.out("B_qdotY_%d" % i), enc.out("A_qdotY_%d" % i)) for i in range(nqY)]))
    obs.append(eqs(enc, "kinetic energy equal", [(enc.out("B_KE"), enc.out("A_KE"))]))
    obs.append(eqs(enc, "potential energy equal", [(enc.out("B_PE"), enc.out("A_PE"))]))
    return obs


def ob_euler(enc, inst, tr):
    nb, nu = int(tr.note("nb")), int(tr.note("nu"))
    unit = cat.unit_quaternion_hyps(enc, tr)
    obs = []

    def xf(pre):
        return [enc.out("%s_R_%d_%d" % (pre, i, j)) for i in range(3) for j in range(3)] + [enc.out("%s_p_%d" % (pre, i)) for i in range(3)]

    def sv(pre):
        return [enc.out("%s_w_%d" % (pre, i)) for i in range(3)] + [enc.out("%s_v_%d" % (pre, i)) for i in range(3)]

    # accelerations (large rational functions of the inverse-trigonometric variables) only with every coordinate pinned
    dyn = inst["args"][2] == "dyn"
    q2e = inst["args"][1] == "0"
    nonlin_free = [n for n, kind, _, _ in tr.inputs if kind != "lin" and enc.is_free(n)]
    for k, txt in ((1, "conversion"),):
        for b in range(1, nb):
            obs.append(eqs(enc, "%s preserves the pose of body %d" % (txt, b), list(zip(xf("S%d_X%d" % (k, b)), xf("S0_X%d" % b)))))
            if not (q2e and nonlin_free):       # (quaternion -> Euler with a free angle: pose only; velocities at pinned configurations)
                obs.append(eqs(enc, "%s preserves the spatial velocity of body %d" % (txt, b), list(zip(sv("S%d_V%d" % (k, b)), sv("S0_V%d" % b)))))
            if dyn:
                obs.append(eqs(enc, "%s preserves the spatial acceleration of body %d" % (txt, b), list(zip(sv("S%d_A%d" % (k, b)), sv("S0_A%d" % b)))))
        obs.append(eqs(enc, "%s preserves the generalized speeds u" % txt, [(enc.out("S%d_u_%d" % (k, i)), enc.out("S0_u_%d" % i)) for i in range(nu)]))
        if dyn:
            obs.append(eqs(enc, "%s preserves udot" % txt, [(enc.out("S%d_udot_%d" % (k, i)), enc.out("S0_udot_%d" % i)) for i in range(nu)]))
    return obs


def ob_custom(enc, inst, tr):
    nb, nu, nq = int(tr.note("nb")), int(tr.note("nu")), int(tr.note("nq"))
    obs = []
    for k in range(1, nb):
        xa = [enc.out("A_X%d_R_%d_%d" % (k, i, j)) for i in range(3) for j in range(3)] + [enc.out("A_X%d_p_%d" % (k, i)) for i in range(3)]
        xb = [enc.out("B_X%d_R_%d_%d" % (k, i, j)) for i in range(3) for j in range(3)] + [enc.out("B_X%d_p_%d" % (k, i)) for i in range(3)]
        obs.append(eqs(enc, "FunctionBased vs built-in: same pose of body %d" % k, list(zip(xb, xa))))
        for q, txt in (("V", "spatial velocity"), ("A", "spatial acceleration"), ("R", "mobilizer reaction force")):
            a = [enc.out("A_%s%d_%s_%d" % (q, k, c, i)) for c in "wv" for i in range(3)]
            b = [enc.out("B_%s%d_%s_%d" % (q, k, c, i)) for c in "wv" for i in range(3)]
            obs.append(eqs(enc, "FunctionBased vs built-in: same %s of body %d" % (txt, k), list(zip(b, a))))
    obs.append(eqs(enc, "FunctionBased vs built-in: same udot", [(enc.out("B_udot_%d" % i), enc.out("A_udot_%d" % i)) for i in range(nu)]))
    obs.append(eqs(enc, "FunctionBased vs built-in: same qdot", [(enc.out("B_qdot_%d" % i), enc.out("A_qdot_%d" % i)) for i in range(nq)]))
    obs.append(eqs(enc, "FunctionBased vs built-in: same kinetic and potential energy", [(enc.out("B_KE"), enc.out("A_KE")), (enc.out("B_PE"), enc.out("A_PE"))]))
    return obs
