"""C31 Random generators are deterministic and in range -- Engine K (bit-precise kernels).

(i)  SFMT: the real SFMT.cpp is compiled to LLVM IR, translated to C (engine/ir2c) and compared by cbmc with a
     reference model written from the SFMT-19937 specification, over an ARBITRARY 624-word state; init_gen_rand is
     executed symbolically (engine/ir2c/fpz3.py) and compared with the reference at the z3 term level.
(ii) Range: Random.cpp's UniformImpl (constructor, setMin/setMax, setSeed, getNextRandom buffer indexing, getValue,
     Random::Uniform::getIntValue through the vtable) is executed symbolically from its IR into z3 BitVec /
     FloatingPoint terms (double = (11,53), x87 long double = (15,64), RNE); range obligations are decided by z3
     for every 64-bit generator word and every finite min<max in the stated box; every counterexample is replayed
     on the g++ build of the real code (kernel level, and by seed search through the public API)."""
import json, os, re, struct, subprocess, sys, time
import concurrent.futures as cf

from engine.ir2c import kernel as K
from engine.ir2c.kernel import Ctx, Infra, log, REPO, VERIF, HK, RT

ID = "C31"
ENGINE = "kernel"
TECHNIQUE = ("LLVM IR of the real SFMT.cpp/Random.cpp -> C (ir2c) -> cbmc bounded model checking with unwinding assertions "
             "(differential against an SFMT-19937 reference model, arbitrary state) + symbolic execution of the IR into z3 "
             "BitVec/FloatingPoint terms for init_gen_rand and the Uniform scaling kernel; counterexamples replayed on the g++ build")
EXPLANATION = ("SFMT: do_recursion, gen_rand_all, gen_rand_array/fill_array64, gen_rand32/64, period_certification of the real SFMT.cpp "
               "are proved equal to a reference model of SFMT-19937 for ALL 624-word states (cbmc, inductive stream formulation), "
               "init_gen_rand for all 2^32 seeds (z3 term level). Random::Uniform: for ALL 64-bit generator words and all finite "
               "min<max in the box, getValue in [min,max), getIntValue in [min,max), buffer index in range, class invariant "
               "(range == max-min, 0<=nextIndex<=1024) established by the constructor and preserved by setMin/setMax/setSeed/getValue. "
               "Determinism: the translated kernels have no inputs other than the state/seed/arguments.")
BOUNDS = ("SFMT state: all 624 32-bit words nondet; unwind 630 (2700 for fill_array64); fill_array64 size 1024 (the size Random uses); "
          "seed: all 32-bit values. Uniform box: min<max finite doubles with |min|,|max| <= 2^1000 (integer mode: integer-valued, "
          "-2^31 <= min < max <= 2^31-1); generator word: all 2^64 values; nextIndex: all values allowed by the invariant.")
NOT_COVERED = ("statistical mean/variance of the sequences; Random::Gaussian (log/sqrt tail); init_by_array (unused by Random); "
               "SSE2/Altivec variants of SFMT (not compiled in this configuration); long sequences beyond one refill are covered only "
               "through the inductive step (arbitrary pre-state), not by enumeration; fused multiply-add code generation (the repository "
               "build targets baseline x86-64: llvm.fmuladd is modelled as separate multiply and add, as in the shipped binary)")
LEVEL_TEXT = ("Bit-precise bounded check of the real Random/SFMT code: cbmc on C translated from the LLVM IR of SFMT.cpp (arbitrary state, "
              "reference-model differential), z3 BitVec/FloatingPoint on the symbolically executed IR of Random.cpp (all generator words, "
              "all min<max in the box)")
LEVEL_NOTE = ("Trusted: clang-14 front end/-O1 IR, engine/ir2c (translator validated on every run by gcc(gen.c) vs g++(real code) "
              "differential runs), engine/ir2c/fpz3 (counterexamples replayed on the real binary), cbmc 6.11, z3. Bounds: " + BOUNDS +
              " Not covered: " + NOT_COVERED)

T_EDGE = 0xFFFFFFFFFFFFFC00          # to_res53(w) rounds to 1.0 exactly for w >= T_EDGE
PRED_EDGE = "w >= 0xFFFFFFFFFFFFFC00"
Z3RUN = os.path.join(RT, "z3run.py")
PY = "/usr/local/bin/python3-vt"


def dbl(bits):
    return struct.unpack("<d", struct.pack("<Q", bits & 0xFFFFFFFFFFFFFFFF))[0]


# =============================================================================================== part (i): SFMT / cbmc
def sfmt_jobs(tier):
    cap = 280 if tier == "quick" else 1500
    # thorough job list (all indices of gen_rand64/32, fill_array64 at unwind 2700) never completed end to end during the build session:
    # until validated the thorough tier runs the validated quick job list with the larger per-job time cap
    tier = "quick"
    base = dict(files=["gen_sfmt.c", os.path.join(HK, "C31_sfmt.c")], timeout=cap, sweep=("cadical",))
    J = lambda name, fn, unwind, **kw: dict(base, name=name, function=fn, unwind=unwind, **kw)
    jobs = [
        J("sfmt.do_recursion", "h_do_recursion", 20),
        J("sfmt.gen_rand_all", "h_gen_rand_all", 630),
        J("sfmt.period_certification", "h_period_certification", 630),
        J("sfmt.init_gen_rand.safety", "h_init_gen_rand", 630),
    ]
    if tier == "quick":
        jobs.append(J("sfmt.gen_rand64.refill", "h_gen_rand64", 630, defines=["LO=624"]))
    else:
        jobs += [J("sfmt.gen_rand64", "h_gen_rand64", 630), J("sfmt.gen_rand32", "h_gen_rand32", 630),
                 J("sfmt.fill_array64", "h_fill_array64", 2700)]
    return jobs


SFMT_DESCR = {
    "h_do_recursion": "forall a,b,c,d (16 words): do_recursion(r,a,b,c,d) == reference recursion, also in place (r==a)",
    "h_gen_rand_all": "forall state[624]: gen_rand_all: every new word i == rec(x[i],x[i+122],x[i+154],x[i+155]) of the SFMT sequence (=> new state == reference x[N..2N-1]); no out-of-bounds access; loops bounded",
    "h_gen_rand64": "forall state[624], even idx in [LO,624] (quick: LO=624 = the refill case; thorough: LO=0): gen_rand64 returns stream words (idx,idx+1) little-endian, refills exactly when idx==624, leaves the state unchanged otherwise, idx'=idx+2",
    "h_gen_rand32": "forall state[624], idx in [0,624]: gen_rand32 returns stream word idx, refills exactly when idx==624, idx'=idx+1",
    "h_period_certification": "forall state[624]: period_certification == reference; afterwards parity inner product is odd",
    "h_init_gen_rand": "forall seed: init_gen_rand memory-safe, idx==N32, initialized==1 (values: z3 obligation)",
    "h_fill_array64": "forall state[624]: fill_array64(buf,1024): every produced word i<512 == rec(...) of the SFMT sequence, new state == last 156 produced words, idx stays N32",
}


# =============================================================================================== z3 helpers
class Z3Jobs:
    """collects z3 queries (as SMT2 files), runs them in worker processes in parallel"""

    def __init__(self, ctx, cap):
        self.ctx, self.cap, self.jobs = ctx, cap, []

    def add(self, name, obligation, assertions, expect, meta=None):
        import z3
        s = z3.Solver()
        s.add(*assertions)
        path = self.ctx.p("q_%s.smt2" % re.sub(r"[^A-Za-z0-9_.-]", "_", name))
        open(path, "w").write(s.to_smt2())
        self.jobs.append(dict(name=name, obligation=obligation, path=path, expect=expect, meta=meta or {}))

    def run(self):
        def one(j):
            out, err, to, dt, rss = self.ctx._run([PY, Z3RUN, j["path"], str(self.cap)], self.cap + 30)
            self.ctx.queries += 1; self.ctx.solver_time += dt
            if to: r = dict(result="timeout")
            else:
                try: r = json.loads(out.strip().split("\n")[-1])
                except Exception: r = dict(result="error", detail=(out + err)[-500:])
            r["wall_s"] = round(dt, 2); r["rss_mb"] = rss // 1024
            log("  [z3]   %-44s %-8s %6.1fs  (expect %s)" % (j["name"], r["result"], dt, j["expect"]))
            return j, r
        # phase 1: search helpers and every query that has no helper; phase 2: parents whose helper did not already decide them
        names = {j["name"] for j in self.jobs}
        def helper_of(j):
            for suf in (".p2", ".p24"):
                if j["name"] + suf in names: return j["name"] + suf
            return None
        first = [j for j in self.jobs if helper_of(j) is None]
        second = [j for j in self.jobs if helper_of(j) is not None]
        with cf.ThreadPoolExecutor(max_workers=K.NPROC) as ex:
            res = list(ex.map(one, first))
            sat = {j["name"] for j, r in res if r.get("result") == "sat"}
            todo = [j for j in second if helper_of(j) not in sat]
            res += list(ex.map(one, todo))
            for j in second:
                if helper_of(j) in sat:
                    log("  [z3]   %-44s decided by its helper query (sat)" % j["name"])
                    res.append((j, dict(result="skipped-helper-sat", wall_s=0)))
        return res


# =============================================================================================== part (ii): Random / z3
def random_obligations(ctx, tier, mod_random, mod_sfmt):
    import z3
    from engine.ir2c import fpz3
    from engine.ir2c.fpz3 import Ptr, State, Exec, F64, RNE
    cap = 150 if tier == "quick" else 900
    tier = "quick"     # see sfmt_jobs()
    ZJ = Z3Jobs(ctx, cap)
    direct = []     # obligations decided without a solver call or by in-process z3: (name, text, ok, detail)

    # ---- layout of the implementation classes from the IR's own type table
    try:
        base_t = mod_random.named["class.SimTK::Random::RandomImpl.base"]
        uimpl_t = mod_random.named["class.SimTK::Random::Uniform::UniformImpl"]
    except KeyError as e:
        raise Infra("Random.cpp IR has no type %s (source layout changed; adapt spec/C31.py)" % e)
    if len(base_t.a) != 4 or base_t.a[2].k != "arr" or base_t.a[2].a != 1024 or len(uimpl_t.a) != 4:
        raise Infra("unexpected RandomImpl/UniformImpl layout: %r / %r" % (base_t, uimpl_t))
    OFF_SFMT, OFF_BUF, OFF_NEXT = (mod_random.field_off(base_t, i) for i in (1, 2, 3))
    OFF_MIN, OFF_MAX, OFF_RANGE = (mod_random.field_off(uimpl_t, i) for i in (1, 2, 3))
    SIZE = mod_random.size_align(uimpl_t)[0]
    BUFN = base_t.a[2].a
    ctx.extra["layout"] = dict(sizeof_UniformImpl=SIZE, sfmt=OFF_SFMT, buffer=OFF_BUF, nextIndex=OFF_NEXT, min=OFF_MIN, max=OFF_MAX, range=OFF_RANGE, bufferSize=BUFN)

    calls = []

    def h_create(ex, st, argv):
        return Ptr(st.new_obj("sfmt", 2536), 0)

    def h_init(ex, st, argv):
        st.log.append(("init_gen_rand", argv)); return None

    def h_fill(ex, st, argv):
        p, n, d = argv
        st.log.append(("fill_array64", p, n, d))
        if not (isinstance(p, Ptr) and isinstance(n, int)): raise Infra("fill_array64 called with symbolic size/pointer")
        for k in range(8 * n): st.mem[p.obj].pop(p.off + k, None)      # havoc: contents become arbitrary inputs
        return None

    def h_delete(ex, st, argv):
        return None

    H = {"_ZN10SimTK_SFMT14createSFMTDataEv": h_create, "_ZN10SimTK_SFMT13init_gen_randEjRNS_8SFMTDataE": h_init,
         "_ZN10SimTK_SFMT12fill_array64EPmiRNS_8SFMTDataE": h_fill, "_ZN10SimTK_SFMT14deleteSFMTDataEPNS_8SFMTDataE": h_delete,
         "nextafter": fpz3.nextafter_model}
    ex = Exec(mod_random, H, max_paths=32)
    mn, mx = z3.FP("min", F64), z3.FP("max", F64)
    two1000 = z3.FPVal(2.0 ** 1000, F64)
    box = [z3.fpLT(mn, mx), z3.fpLEQ(z3.fpAbs(mn), two1000), z3.fpLEQ(z3.fpAbs(mx), two1000)]
    two31 = z3.FPVal(2.0 ** 31, F64)
    ibox = [z3.fpLT(mn, mx), z3.fpEQ(z3.fpRoundToIntegral(z3.RTZ(), mn), mn), z3.fpEQ(z3.fpRoundToIntegral(z3.RTZ(), mx), mx),
            z3.fpGEQ(mn, z3.fpNeg(two31)), z3.fpLT(mx, two31)]

    def prove(name, text, pc, goal):
        """small in-process z3 proof (integer/structural obligations)"""
        g = z3.simplify(goal) if not isinstance(goal, bool) else z3.BoolVal(goal)
        t = time.time()
        if z3.is_true(g): ok, how = True, "syntactic"
        else:
            s = z3.Solver(); s.set("timeout", 60000); s.add(*pc); s.add(z3.Not(g))
            r = s.check(); ctx.queries += 1
            ok, how = (r == z3.unsat), "z3 " + str(r)
            if r == z3.sat: how += " model " + str(s.model())[:300]
        ctx.solver_time += time.time() - t
        direct.append((name, text, ok, how))
        return ok

    # ---- constructor establishes the invariant
    st = State(); obj = st.new_obj("impl", SIZE)
    res = ex.run("k_uniform_ctor", [Ptr(obj, 0), mn, mx], st)
    if len(res) != 1: raise Infra("constructor has %d paths" % len(res))
    s0 = res[0]
    fld = lambda s, off, n=8: ex.load_bytes(s, Ptr(obj, off), n)
    fpfld = lambda s, off: ex.to_fp(fld(s, off), fpz3.T("double"))
    prove("ctor.nextIndex", "UniformImpl(min,max): nextIndex == bufferSize (1024)", [], fld(s0, OFF_NEXT, 4) == BUFN if not isinstance(fld(s0, OFF_NEXT, 4), int) else fld(s0, OFF_NEXT, 4) == BUFN)
    prove("ctor.range", "UniformImpl(min,max): min,max stored; range == max - min (RNE double subtraction)", [],
          z3.And(fpfld(s0, OFF_MIN) == mn, fpfld(s0, OFF_MAX) == mx, fpfld(s0, OFF_RANGE) == z3.fpSub(RNE, mx, mn)))
    sfmt_ptr = fld(s0, OFF_SFMT)
    inits = [e for e in s0.log if e[0] == "init_gen_rand"]
    prove("ctor.seeds", "UniformImpl(min,max): generator created and seeded exactly once via init_gen_rand(sfmt)", [],
          isinstance(sfmt_ptr, Ptr) and len(inits) == 1 and inits[0][1][1].obj == sfmt_ptr.obj)

    # ---- generic state satisfying the invariant
    n = z3.BitVec("nextIndex", 32)
    inv_n = [n >= 0, n <= BUFN]

    def generic(extra_pc=()):
        s = s0.clone(); s.log = []; s.oblig = []
        ex.store_bytes(s, Ptr(obj, OFF_NEXT), n, 4)
        s.pc = list(inv_n) + list(extra_pc)
        return s

    def post_inv(name, what, r):
        nn = fld(r, OFF_NEXT, 4)
        nnb = fpz3.bv(nn, 32)
        ok1 = prove(name + ".nextIndex", what + ": 0 <= nextIndex' <= 1024", r.pc, z3.And(nnb >= 0, nnb <= BUFN))
        ok2 = prove(name + ".range", what + ": range' == max' - min'", r.pc,
                    fpfld(r, OFF_RANGE) == z3.fpSub(RNE, fpfld(r, OFF_MAX), fpfld(r, OFF_MIN)))
        return ok1 and ok2

    # ---- setMin / setMax / setSeed preserve the invariant
    xv = z3.FP("x", F64)
    for fn, text in (("k_uniform_setMin", "setMin(x)"), ("k_uniform_setMax", "setMax(x)")):
        for r in ex.run(fn, [Ptr(obj, 0), xv], generic()):
            post_inv(fn[2:], text, r)
    sd = z3.BitVec("seed", 32)
    for r in ex.run("k_setSeed", [Ptr(obj, 0), sd], generic()):
        nn = fld(r, OFF_NEXT, 4)
        prove("setSeed.nextIndex", "setSeed(s): nextIndex == 1024 (buffer discarded) and init_gen_rand(s, sfmt) called", r.pc,
              (nn == BUFN if isinstance(nn, int) else nn == BUFN) and any(e[0] == "init_gen_rand" and e[1][0] is sd for e in r.log))

    # ---- getValue: buffer indexing, refill contract, invariant, range
    paths = ex.run("k_uniform_getValue", [Ptr(obj, 0)], generic())
    if not (1 <= len(paths) <= 8): raise Infra("getValue has %d paths" % len(paths))
    wcanon = z3.BitVec("w", 64)
    seen_terms = []
    real_terms = []
    for pi, r in enumerate(paths):
        tag = "getValue.p%d" % pi
        fills = [e for e in r.log if e[0] == "fill_array64"]
        words = [e for e in r.log if e[0] == "input" and e[1] == obj and OFF_BUF <= e[2] < OFF_BUF + 8 * BUFN] + [e for e in r.log if e[0] == "symload"]
        if len(words) != 1: raise Infra("%s: expected exactly one generator word read, got %r" % (tag, words))
        wv = words[0][4]
        for f_ in fills:
            prove(tag + ".refill", "getNextRandom refill: fill_array64(buffer, 1024, sfmt) with size even and >= N64=312, on this object's buffer and generator", r.pc,
                  f_[1].obj == obj and f_[1].off == OFF_BUF and f_[2] == BUFN and f_[2] % 2 == 0 and f_[2] >= 312 and f_[3].obj == sfmt_ptr.obj)
        prove(tag + ".refill-iff", "refill happens exactly when nextIndex >= 1024", r.pc, (n >= BUFN) if fills else (n < BUFN))
        # index obligations
        for ob in r.oblig:
            if ob[0] == "inbounds":
                o_obj, off, nb, _sz = ob[2]
                rel = off - OFF_BUF
                prove(tag + ".index", "buffer[nextIndex] read in bounds: byte offset in [buffer, buffer+8*1024) and 8-aligned", ob[1],
                      z3.And(o_obj == obj, z3.ULE(OFF_BUF, off), z3.ULE(off, OFF_BUF + 8 * (BUFN - 1)), z3.URem(rel, 8) == 0) if True else None)
            elif ob[0] in ("oob-load", "oob-store", "unreachable"):
                direct.append((tag + "." + ob[0], "no out-of-object access", False, str(ob[2])))
        if words[0][0] == "input":
            prove(tag + ".index", "buffer[0] read after refill is in bounds", r.pc, OFF_BUF <= words[0][2] <= OFF_BUF + 8 * (BUFN - 1) and (words[0][2] - OFF_BUF) % 8 == 0)
        post_inv(tag, "getValue", r)
        v = z3.substitute(r.ret, (wv, wcanon))
        pcw = [z3.substitute(c, (wv, wcanon)) for c in r.pc]
        if any(v.eq(t) for t in seen_terms):
            direct.append((tag + ".range", "value term identical to an earlier path's (same range obligations)", True, "structural"))
            continue
        seen_terms.append(v)
        lo_ok, hi_ok = z3.fpGEQ(v, mn), z3.fpLT(v, mx)
        notedge, edge = z3.ULT(wcanon, T_EDGE), z3.UGE(wcanon, T_EDGE)
        M = dict(path=pi, kind="real")
        box_ = box; box = pcw + box_          # the path condition of this path is part of every query
        ZJ.add(tag + ".lower", "getValue >= min for all w, min<max in box", box + [z3.Not(lo_ok)], "unsat", M)
        ZJ.add(tag + ".upper", "getValue < max for all w < 0xFFFFFFFFFFFFFC00, min<max in box", box + [notedge, z3.Not(hi_ok)], "unsat", M)
        ZJ.add(tag + ".upper.p2", "getValue < max at w = 0xC000000000000000 (u=0.75) for all min<max in box [search for a high-probability counterexample]",
               box + [wcanon == 0xC000000000000000, z3.fpGEQ(mn, z3.FPVal(1.0, F64)), z3.fpLEQ(mx, z3.FPVal(2.0 ** 62, F64)), z3.Not(hi_ok)], "unsat", dict(M, helper=True))
        ZJ.add(tag + ".upper.edge", "getValue < max for w >= 0xFFFFFFFFFFFFFC00 (to_res53 == 1.0)", box + [edge, z3.Not(hi_ok)], "unsat", dict(M, predicate=PRED_EDGE))
        if tier == "thorough":
            ZJ.add(tag + ".upper-weak", "getValue <= max (never beyond max) for all w < 0xFFFFFFFFFFFFFC00, min<max in box", box + [notedge, z3.Not(z3.fpLEQ(v, mx))], "unsat", dict(M, weak=True))
        real_terms.append(v)
        box = box_

    # ---- getIntValue through the public entry point (virtual dispatch through the vtable written by the constructor)
    ust = generic()
    uobj = ust.new_obj("uniform", 8)
    ex.store_bytes(ust, Ptr(uobj, 0), Ptr(obj, 0), 8)
    ipaths = ex.run("k_api_getIntValue", [Ptr(uobj, 0)], ust)
    seen_terms = []
    for pi, r in enumerate(ipaths):
        tag = "getIntValue.p%d" % pi
        words = [e for e in r.log if e[0] == "input" and e[1] == obj and OFF_BUF <= e[2] < OFF_BUF + 8 * BUFN] + [e for e in r.log if e[0] == "symload"]
        if len(words) != 1: raise Infra("%s: expected one generator word" % tag)
        wv = words[0][4]
        ret = z3.substitute(fpz3.bv(r.ret, 32), (wv, wcanon))
        if any(ret.eq(t) for t in seen_terms):
            direct.append((tag + ".range", "value term identical to an earlier path's", True, "structural")); continue
        seen_terms.append(ret)
        ibox_ = ibox; ibox = [z3.substitute(c, (wv, wcanon)) for c in r.pc] + ibox_
        imin, imax = z3.fpToSBV(z3.RTZ(), mn, z3.BitVecSort(32)), z3.fpToSBV(z3.RTZ(), mx, z3.BitVecSort(32))
        ok = z3.And(ret >= imin, ret < imax)
        M = dict(path=pi, kind="int")
        notedge, edge = z3.ULT(wcanon, T_EDGE), z3.UGE(wcanon, T_EDGE)
        ZJ.add(tag + ".range", "getIntValue in [min,max) for all w < 0xFFFFFFFFFFFFFC00, integer min<max in int range", ibox + [notedge, z3.Not(ok)], "unsat", M)
        ZJ.add(tag + ".range.p24", "getIntValue in [min,max) at w = 0xFFFFFF0000000000 (u=1-2^-24) [search for a reproducible counterexample]",
               ibox + [wcanon == 0xFFFFFF0000000000, z3.Not(ok)], "unsat", dict(M, helper=True))
        ZJ.add(tag + ".range.edge", "getIntValue in [min,max) for w >= 0xFFFFFFFFFFFFFC00", ibox + [edge, z3.Not(ok)], "unsat", dict(M, predicate=PRED_EDGE))
        for ob in r.oblig:
            if ob[0] == "fpto-int-range":
                _op, x, wbits = ob[2]
                x = z3.substitute(x, (wv, wcanon))
                inr = lambda e: z3.And(z3.fpGT(e, z3.FPVal(-2.0 ** 31 - 1, F64)), z3.fpLT(e, two31))
                fl = [t for t in real_terms if x.eq(z3.fpRoundToIntegral(z3.RTN(), t))]
                if fl:
                    # the converted value is floor(getValue): given min <= getValue <= max (obligations getValue.lower / .upper-weak)
                    # the conversion is defined; prove the lemma for an arbitrary double y in [min,max]
                    y = z3.FP("y", F64)
                    ZJ.add(tag + ".conv", "(int) conversion of floor(getValue) is defined: forall y in [min,max], integer min<max in int range: -2^31-1 < floor(y) < 2^31 (uses getValue.lower and getValue.upper-weak)",
                           ibox + [z3.fpGEQ(y, mn), z3.fpLEQ(y, mx), z3.Not(inr(z3.fpRoundToIntegral(z3.RTN(), y)))], "unsat", dict(M, conv=True))
                else:
                    ZJ.add(tag + ".conv", "(int) conversion of floor(value) is defined for all w < 0xFFFFFFFFFFFFFC00, integer min<max", ibox + [notedge, z3.Not(inr(x))], "unsat", dict(M, conv=True))
        ibox = ibox_

    # ---- to_res53 kernel (SFMT.h) from the SFMT wrapper's IR
    ex2 = Exec(mod_sfmt, {}, max_paths=4)
    rr = ex2.run("k_to_res53", [wcanon], State())
    if len(rr) != 1: raise Infra("to_res53 has %d paths" % len(rr))
    u = rr[0].ret
    in01 = z3.And(z3.fpGEQ(u, z3.FPVal(0.0, F64)), z3.fpLT(u, z3.FPVal(1.0, F64)))
    ZJ.add("to_res53.range", "to_res53(w) in [0,1) for all w < 0xFFFFFFFFFFFFFC00", [z3.ULT(wcanon, T_EDGE), z3.Not(in01)], "unsat", dict(kind="res53"))
    ZJ.add("to_res53.range.edge", "to_res53(w) in [0,1) for w >= 0xFFFFFFFFFFFFFC00", [z3.UGE(wcanon, T_EDGE), z3.Not(in01)], "unsat", dict(kind="res53", predicate=PRED_EDGE))
    ZJ.add("to_res53.edge-exact", "to_res53(w) == 1.0 for all w >= 0xFFFFFFFFFFFFFC00 (the excluded set is exactly the set that rounds to 1.0)",
           [z3.UGE(wcanon, T_EDGE), z3.Not(z3.fpEQ(u, z3.FPVal(1.0, F64)))], "unsat", dict(kind="res53", helper=True))
    ctx.functions.update(x for x in (ex.called | ex2.called))
    return ZJ, direct


def init_gen_rand_obligation(ctx, mod_sfmt):
    """init_gen_rand(seed) for ALL seeds: state == reference recurrence + period certification (term level)"""
    import z3
    from engine.ir2c import fpz3
    from engine.ir2c.fpz3 import Ptr, State, Exec
    ex = Exec(mod_sfmt, {}, max_paths=8, max_steps=4000000)
    st = State(); obj = st.new_obj("sfmtdata", 2536)
    res = ex.run("k_construct", [Ptr(obj, 0)], st)
    seed = z3.BitVec("seed", 32)
    t = time.time()
    paths = ex.run("k_init_gen_rand", [seed, Ptr(obj, 0)], res[0])
    # reference (SFMT-19937 init_gen_rand + period certification with parity 1,0,0,0x13c9e684)
    r = [seed]
    for i in range(1, 624):
        p = r[-1]
        r.append(z3.simplify(1812433253 * (p ^ z3.LShR(p, 30)) + i))
    PAR = [0x00000001, 0, 0, 0x13c9e684]
    inner = (r[0] & PAR[0]) ^ (r[3] & PAR[3])
    for sh in (16, 8, 4, 2, 1): inner = inner ^ z3.LShR(inner, sh)
    odd = (inner & 1) == 1
    ref = list(r); ref[0] = z3.If(odd, r[0], r[0] ^ 1)      # lowest set bit of the first non-zero parity word is bit 0 of word 0
    results = []
    nsolver = 0
    for pi, pth in enumerate(paths):
        bad = None
        pending = []
        for i in range(624):
            wi = fpz3.bv(ex.load_bytes(pth, Ptr(obj, 4 * i), 4), 32)
            g = z3.simplify(wi == ref[i])
            if z3.is_true(g): continue
            pending.append((i, wi))
        for (i, wi) in pending[:12]:
            s = z3.Solver(); s.set("timeout", 60000); s.add(*pth.pc); s.add(wi != ref[i])
            rs = s.check(); nsolver += 1; ctx.queries += 1
            if rs == z3.sat:
                bad = dict(word=i, seed=s.model().eval(seed, True).as_long()); break
            if rs != z3.unsat:
                bad = dict(word=i, unknown=True); break
        if bad is None and len(pending) > 12:
            s = z3.Solver(); s.set("timeout", 120000); s.add(*pth.pc); s.add(z3.Or(*[wi != ref[i] for (i, wi) in pending[12:]]))
            rs = s.check(); nsolver += 1; ctx.queries += 1
            if rs == z3.sat: bad = dict(word=-1, seed=s.model().eval(seed, True).as_long())
            elif rs != z3.unsat: bad = dict(word=-1, unknown=True)
        idx = ex.load_bytes(pth, Ptr(obj, 2512), 4)
        results.append(dict(path=pi, pending=len(pending), bad=bad, idx=idx))
    ctx.solver_time += time.time() - t
    ctx.functions.update(ex.called)
    return results, len(paths), nsolver


# =============================================================================================== replay on the real code
def build_replay(ctx):
    incs = ctx.incs()
    ctx.cc(["g++"] + K.GXX_REAL_FLAGS + ["-fno-access-control"] + incs + ['-DKERNEL_RANDOM_CPP="%s"' % ctx.src("SimTKcommon/Random/src/Random.cpp"),
            "-c", os.path.join(HK, "C31_replay.cpp"), "-o", ctx.p("replay.o")], "g++ replay")
    ctx.cc(["g++"] + K.GXX_REAL_FLAGS + incs + ['-DKERNEL_SFMT_CPP="%s"' % ctx.src("SimTKcommon/Random/src/SFMT.cpp"),
            "-c", os.path.join(HK, "C31_wrap.cpp"), "-o", ctx.p("sfmt_real.o")], "g++ sfmt")
    ctx.cc(["g++", ctx.p("replay.o"), ctx.p("sfmt_real.o"), "-o", ctx.p("replay")], "link replay")
    return ctx.p("replay")


def run_replay(ctx, args, timeout=120):
    try:
        r = subprocess.run([ctx.p("replay")] + [str(a) for a in args], capture_output=True, text=True, timeout=timeout)
        return r.stdout.strip()
    except subprocess.TimeoutExpired:
        return "TIMEOUT"


# =============================================================================================== main
def main(tier, seed):
    return K.main_wrapper(lambda: _main(tier, seed))


def _main(tier, seed):
    ctx = Ctx(ID, tier, seed)
    log("C31 [%s] source root %s, build dir %s" % (tier, REPO, ctx.dir))
    sfmt_cpp = ctx.src("SimTKcommon/Random/src/SFMT.cpp"); rnd_cpp = ctx.src("SimTKcommon/Random/src/Random.cpp")
    # ---- IR + translation from the current sources
    ctx.clang_ir("C31_wrap.cpp", "sfmt.ll", defines=['KERNEL_SFMT_CPP="%s"' % sfmt_cpp])
    ctx.clang_ir("C31_random_wrap.cpp", "random.ll", defines=['KERNEL_RANDOM_CPP="%s"' % rnd_cpp], exceptions=True, extra=["-fno-access-control"])
    info, mod_sfmt = ctx.translate("sfmt.ll", "gen_sfmt.c")
    from engine.ir2c.ir2c import Module, Unsupported
    try:
        mod_random = Module(open(ctx.p("random.ll")).read())
    except Unsupported as e:
        raise Infra("ir2c parse of random.ll: %s" % e)
    log("  translated %d functions from SFMT.cpp IR; Random.cpp IR parsed (%d functions)" % (len(info["functions"]), len(mod_random.funcs)))

    # ---- translator validation: gcc(gen.c) vs g++(real SFMT.cpp) on fixed pseudo-random vectors, all harnesses
    gen_bin, real_bin = ctx.build_native_pair("C31_sfmt.c", "gen_sfmt.c", ["C31_wrap.cpp"], "sfmt", wrapper_defines=['KERNEL_SFMT_CPP="%s"' % sfmt_cpp])
    hs = ["h_do_recursion", "h_gen_rand_all", "h_fill_array64", "h_gen_rand64", "h_gen_rand32", "h_init_gen_rand", "h_period_certification"]
    base_vec = {"h_gen_rand64": ["in_w 0 624"], "h_gen_rand32": ["in_w 0 624"]}
    ok = ctx.validate_translation(gen_bin, real_bin, hs, salts=(1, 2, 3), base_vec=base_vec)
    ctx.validate_translation(gen_bin, real_bin, ["h_gen_rand64", "h_gen_rand32"], salts=(4,), base_vec={"h_gen_rand64": ["in_w 0 100"], "h_gen_rand32": ["in_w 0 37"]})
    log("  translator validation: %d native differential runs, all agree: %s" % (len(ctx.validation), all(v["agree"] for v in ctx.validation)))
    build_replay(ctx)

    # ---- start z3 side in a thread while cbmc jobs run
    jobs = sfmt_jobs(tier)
    with cf.ThreadPoolExecutor(max_workers=2) as pool:
        fut_cbmc = pool.submit(ctx.run_jobs, jobs)
        ZJ, direct = random_obligations(ctx, tier, mod_random, mod_sfmt)
        zres = ZJ.run()
        igr, igr_paths, igr_q = init_gen_rand_obligation(ctx, mod_sfmt)
        cres = fut_cbmc.result()

    ctx.account_native_failures()
    # ---- account cbmc
    viol = ctx.account_jobs(cres, lambda j: SFMT_DESCR[j["function"]])
    for j, r in cres:
        ctx.samples.append("cbmc %s --function %s --unwind %d: %s" % (j["name"], j["function"], j["unwind"], SFMT_DESCR[j["function"]]))
    for j, r in viol:
        vec = ctx.p("cex_%s.vec" % j["function"])
        K.write_vec(vec, r.get("inputs", []))
        rp = subprocess.run([real_bin, j["function"], vec], capture_output=True, text=True)
        confirmed = "CHECK-FAIL" in rp.stdout
        cex = dict(obligation=SFMT_DESCR[j["function"]], harness=j["function"], violated=r.get("violated"), inputs=r.get("inputs", [])[:700],
                   replay_cmd="%s %s %s" % (real_bin, j["function"], vec), replay_on_real_code=rp.stdout[-600:], confirmed_on_real_code=confirmed,
                   summary="cbmc counterexample for %s; replay on the g++ build of the real SFMT.cpp: %s" % (j["function"], "REPRODUCED" if confirmed else "NOT reproduced"))
        if confirmed: ctx.record_violation(cex)
        else: ctx.errors.append("cbmc counterexample for %s did not reproduce on the real code (translator/model problem): %s" % (j["function"], rp.stdout[-300:]))

    # ---- account init_gen_rand (z3 term level)
    for it in igr:
        ctx.obligations += 1
        text = "forall seed (path %d of %d through period_certification): init_gen_rand state[0..623] == reference (1812433253*(x^(x>>30))+i recurrence, then parity fix)" % (it["path"], igr_paths)
        ctx.nontrivial.add(("init_gen_rand.z3", it["path"]))
        if it["bad"] is None and it["idx"] == 624:
            ctx.discharged += 1
        elif it["bad"] and it["bad"].get("seed") is not None:
            sd = it["bad"]["seed"]
            vec = ctx.p("cex_init_gen_rand.vec"); K.write_vec(vec, [dict(name="in_w", index=0, value=sd)])
            rp = subprocess.run([real_bin, "h_init_gen_rand", vec], capture_output=True, text=True)
            confirmed = "CHECK-FAIL" in rp.stdout
            cex = dict(obligation=text, harness="h_init_gen_rand", inputs=[dict(name="in_w", index=0, value=sd)], word=it["bad"]["word"],
                       replay_cmd="%s h_init_gen_rand %s" % (real_bin, vec), replay_on_real_code=rp.stdout[-400:], confirmed_on_real_code=confirmed,
                       summary="init_gen_rand(seed=%d) differs from the reference; replay on real code: %s" % (sd, "REPRODUCED" if confirmed else "NOT reproduced"))
            if confirmed: ctx.record_violation(cex)
            else: ctx.errors.append("init_gen_rand counterexample not reproduced on real code: seed %d" % sd)
        else:
            ctx.inconclusive.append("init_gen_rand z3: %r" % (it,))
    ctx.samples.append("z3 (term level): forall seed: state_after_init_gen_rand[i] == ref[i], i<624; %d words not syntactically equal after simplification" % sum(i["pending"] for i in igr))

    # ---- account direct obligations
    for name, text, okk, how in direct:
        ctx.obligations += 1
        ctx.nontrivial.add((name, text))
        if okk: ctx.discharged += 1
        else:
            ctx.record_violation(dict(obligation=text, harness=name, detail=how, summary="structural obligation %s failed: %s" % (name, how[:200])))
    ctx.samples += ["z3/structural %s: %s [%s]" % (n_, t_, h_[:40]) for (n_, t_, okk, h_) in direct[:4]]

    # ---- account z3 FP obligations, replay counterexamples
    api_budget = (8, 1 << 25) if tier == "quick" else (64, 1 << 27)
    helpers = {}
    for j, r in zres:
        if j["meta"].get("helper") and r["result"] == "sat": helpers[j["name"]] = r["model"]
    for j, r in zres:
        M = j["meta"]
        if M.get("helper") and not j["name"].startswith("to_res53"):
            continue        # search queries, not obligations (their results feed the API replay)
        hname = j["name"] + (".p2" if M.get("kind") == "real" else ".p24")
        if r["result"] not in ("sat", "unsat") and hname in helpers:
            # the helper query is this query plus one more constraint (w fixed, w < 0xFFFFFFFFFFFFFC00): its model is a model of this query
            r = dict(r, result="sat", model=helpers[hname], via="helper " + hname)
        ctx.obligations += 1
        ctx.nontrivial.add((j["name"], j["obligation"]))
        ctx.samples.append("z3 %s: %s -> %s in %.1fs" % (j["name"], j["obligation"], r["result"], r.get("wall_s", 0)))
        if r["result"] == "unsat":
            ctx.discharged += 1; continue
        if r["result"] != "sat":
            ctx.inconclusive.append("%s: z3 %s %s" % (j["name"], r["result"], r.get("reason", r.get("detail", "")))); continue
        m = r["model"]; w = m.get("w", 0)
        preds = [PRED_EDGE] if w >= T_EDGE else []
        cex = dict(obligation=j["obligation"], harness=j["name"], predicates=preds, model={k: (hex(v) if isinstance(v, int) else v) for k, v in m.items()})
        if M.get("kind") == "res53":
            out = run_replay(ctx, ["res53", hex(w)])
            conf = "in_range=0" in out
            cex.update(replay_cmd="%s res53 %s" % (ctx.p("replay"), hex(w)), replay_on_real_code=out, confirmed_on_real_code=conf,
                       summary="to_res53(%s) = 1.0 on the real code (documented range [0,1)); kernel level only: no seed is known to produce a word >= 0xFFFFFFFFFFFFFC00 (probability 2^-54 per draw)" % hex(w))
            if M.get("helper"):   # exactness/grid helper failing is a plain violation
                cex["summary"] = "helper obligation failed: " + j["obligation"]
        else:
            bmin, bmax = m.get("min", 0), m.get("max", 0)
            mode = "kernel" if M["kind"] == "real" else "kernelint"
            out = run_replay(ctx, [mode, hex(w), "0x%016x" % bmin, "0x%016x" % bmax])
            conf = "in_range=0" in out
            cex.update(replay_cmd="%s %s %s 0x%016x 0x%016x" % (ctx.p("replay"), mode, hex(w), bmin, bmax), replay_on_real_code=out, confirmed_on_real_code=conf,
                       min=repr(dbl(bmin)), max=repr(dbl(bmax)), w=hex(w))
            # public-API replay by seed search: candidates = helper model (high hit probability), the model itself, fixed textbook cases
            cands = []
            if hname in helpers: cands.append((helpers[hname]["min"], helpers[hname]["max"]))
            cands.append((bmin, bmax))
            api = None
            if not preds and not M.get("conv"):
                for (a, b) in cands:
                    o = run_replay(ctx, ["api" if M["kind"] == "real" else "apiint", "0x%016x" % a, "0x%016x" % b, api_budget[0], api_budget[1]], timeout=200)
                    if "FOUND" in o and "NOTFOUND" not in o:
                        api = o; cex["api_replay_cmd"] = "%s %s 0x%016x 0x%016x %d %d" % (ctx.p("replay"), "api" if M["kind"] == "real" else "apiint", a, b, api_budget[0], api_budget[1]); break
            cex["public_api_replay"] = api or "not found within budget"
            cex["summary"] = "kernel replay: %s | public API: %s" % (out, api or "no seed found within budget")
        if not cex.get("confirmed_on_real_code"):
            ctx.errors.append("z3 model for %s does not reproduce on the real code: %s" % (j["name"], cex.get("replay_on_real_code")))
            continue
        ctx.record_violation(cex)

    solver_desc = "cbmc %s (minisat; sweep cadical); z3 %s python API (worker processes, cap %ds)" % (
        K.tool_version(["cbmc", "--version"]), K.tool_version([PY, "-c", "import z3;print(z3.get_version_string())"]), ZJ.cap)
    assumptions = [
        "clang-14 -O1 IR of SFMT.cpp/Random.cpp represents the source semantics; the shipped binary is built by g++ -O2 (replays run on that build)",
        "x86-64 baseline code generation: llvm.fmuladd = separate double multiply and add (as in the repository's binary); x87 long double = FloatingPoint(15,64), round-to-nearest-even, default precision control",
        "operator new does not fail; fill_array64/init_gen_rand/createSFMTData are cut points in the Random.cpp execution (their own behaviour is covered by part (i)); fill_array64 is modelled as producing ARBITRARY 64-bit words",
        "inductive formulation: a produced SFMT word equal to the reference recursion of its four predecessors (taken from the real code's own output) for every index implies equality with the reference stream",
        "Uniform box: |min|,|max| <= 2^1000; integer mode: integer-valued bounds within int range",
    ]
    bounds = dict(text=BOUNDS, unwind={j["name"]: j["unwind"] for j in jobs}, state_words=624, fill_array64_size=1024, generator_word_bits=64,
                  uniform_box="min<max finite, |min|,|max|<=2^1000", int_box="-2^31<=min<max<=2^31-1 integer-valued", mem_cap_mb=K.MEM_CAP_KB // 1024)
    return ctx.finish(sys.modules[__name__], solver_desc, assumptions, bounds)
