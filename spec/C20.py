"""C20 Error-controlled integrators deliver the requested accuracy (partial: the solver-decidable core)."""
from fractions import Fraction
from math import factorial

from engine.driver import poly as P
from engine.driver.core import Ob, eq
from engine.driver.encode import Constraint, EncodeError

ID = "C20"
HARNESS = "C20_accuracy.cpp"
EXPLANATION = ("(i) ORDER CONDITIONS. The library's own integrator classes take ONE accepted internal step of SYMBOLIC size h "
               "(setFixedStepSize(h), real stepTo) on ODEs whose right-hand side is a polynomial in (t, y): z' = lam z; z' = sum a_k t^k; a coupled "
               "quadratic system z0' = a z0 z1 + b t, z1' = c z0^2 + d t z1 + e; and a Simbody Slider with linear spring, damper and constant force "
               "(Simbody's own q/u dynamics). The advanced state is then a polynomial in h (and the free ODE data); the spec computes the Taylor "
               "coefficients y^(k)(t0)/k! of the exact solution by repeated total differentiation of the right-hand side and the solver proves, for every "
               "k <= p (p = documented order), that the coefficient of h^k of the advanced state equals the Taylor coefficient, for all values of the free "
               "ODE data; i.e. the local error is O(h^(p+1)). The embedded error estimate handed to the step-size controller (recorded at the virtual "
               "attemptDAEStep) is proved to be O(h^q) with q the order of the estimate. The right-hand side used by the oracle is proved equal to the "
               "system's own derivative at the initial state. (ii) INTERPOLATION. On systems whose exact solution is a polynomial of degree <= min(p,3) "
               "(so that step states are exact, which is proved as well) an interpolated report state at a symbolic time t0+r inside the step equals the "
               "exact solution for all r, h. (iii) STEP-SIZE CONTROL. The real AbstractIntegratorRep::adjustStepSize is executed on symbolic (error norm, "
               "current step, accuracy, user min/max); on every explored path the solver proves: growth <= 5x, shrink >= 0.1x, user minimum and maximum "
               "respected, no growth when the step was artificially limited, return value = (new >= old), error <= accuracy => accepted, and accepted "
               "with error > accuracy only at the user's minimum step size. The same clauses are proved for every adjustStepSize call recorded during real "
               "error-controlled stepTo runs.")
BOUNDS = ("integrators ExplicitEuler(p=1), RungeKutta2(2), RungeKutta3(3), RungeKuttaMerson(4), RungeKuttaFeldberg(documented 5), Verlet(2), "
          "SemiExplicitEuler(1), SemiExplicitEuler2(1); one internal step; ODE families listed in the explanation (1-2 state variables); free: h, lam, "
          "initial values, quadrature coefficients, constant force (all reals), other ODE coefficients pinned at 2 (quick) / 3 (thorough) exact base points; "
          "Verlet: only h free; coupled quadratic system: h plus initial values/coefficients for the 1-3 stage methods, h only for RKM/RKF; path-condition "
          "literals larger than 12 terms (error-norm comparisons, irrelevant under a fixed step) are left out of the hypotheses; adjustStepSize: 1 call per run, scenario seeds x path flips (budget 2 quick / 6 thorough "
          "paths per scenario), error orders 2,3,4")
NOT_COVERED = ("global error <= K*accuracy over an interval and its monotonicity in the accuracy (an error bound over many steps, not an identity); CPodes "
               "(BDF/Adams, external-style C code with its own controller); order conditions are proved on the listed ODE families, not for arbitrary "
               "vector fields (the coupled quadratic system separates the elementary differentials only up to the orders listed); RungeKuttaFeldberg error "
               "estimate coefficients that are differences of rounded decimals (rounding-dependent residues); pendulum/trigonometric right-hand sides "
               "(one step is not a polynomial in h); interpolation accuracy on non-polynomial solutions; rounding")
ASSUMPTIONS = ["h > 0, 0 < r < h (interpolation), accuracy in (0,1), 0 < hmin <= hcur <= hmax (invariant established by methodInitialize and adjustStepSize)",
               "pow(x, 1/order) of the step controller is an uninterpreted real u with the axioms u > 0 and (x < 1 => u < 1), (x >= 1 => u >= 1)"]

# documented order p and order q of the embedded error estimate (estimate = O(h^q)); None = no estimate
ORDER = {"ExplicitEuler": (1, 2), "RungeKutta2": (2, 2), "RungeKutta3": (3, 3), "RungeKuttaMerson": (4, 4), "RungeKuttaFeldberg": (5, 5),
         "Verlet": (2, 3), "SemiExplicitEuler": (1, None), "SemiExplicitEuler2": (1, 2)}
INTEGS = list(ORDER)
ITERATIVE = ("Verlet",)
# coupled quadratic system: inputs kept free besides h (the advanced state is a polynomial of degree ~2^stages in them)
_ALLNL = ["z0_0", "z0_1", "c0", "c1", "c2", "c3", "c4"]
NLFREE = {"ExplicitEuler": _ALLNL, "SemiExplicitEuler": _ALLNL, "SemiExplicitEuler2": _ALLNL, "RungeKutta2": _ALLNL, "RungeKutta3": ["z0_0", "z0_1"]}


def _instances(tier, seed):
    out = []
    thorough = tier == "thorough"
    for ig in INTEGS:
        p = ORDER[ig][0]
        systems = ["lin", "quad%d" % min(p + 2, 6), "mbs"]
        if ig not in ITERATIVE:
            systems.append("nl")
        for sk in systems:
            out.append(dict(name="order/%s/%s" % (ig, sk), args=["order", ig, sk], paths=1, base_points=(2 if not thorough else 3),
                            max_terms=60000, pc_max_terms=12))
        d = min(p, 3)
        isys = ["quad%d" % d] + (["mbsF"] if p >= 2 else [])
        for sk in isys:
            out.append(dict(name="interp/%s/%s" % (ig, sk), args=["interp", ig, sk], paths=1, base_points=(1 if not thorough else 3),
                            max_terms=20000, pc_max_terms=12))
    # (iii) step-size controller: the real adjustStepSize on symbolic data, one scenario (= seed region) per instance
    acc, hc = 0.0625, 0.125
    cases = {"zero": 0.0, "tiny": acc / 10000, "grow": acc / 16, "hyst": acc / 2, "keep": acc / 1.25, "edge": acc, "bad": 2 * acc, "worse": 1.125 * acc, "awful": 1e6 * acc}
    flagsets = ["", "min", "max", "min+max", "lim", "min+lim", "o2", "o3+max"]
    for fl in flagsets:
        for cn, ev in cases.items():
            if not thorough and (fl in ("min+lim", "o2", "o3+max", "max") or (fl == "lim" and cn in ("edge", "worse", "keep"))):
                continue
            sd = dict(err=ev, acc=acc, hcur=hc, hmin=hc * (1.0 if cn in ("bad", "awful") and "lim" not in fl else 0.75), hmax=hc * (1.5 if cn != "keep" else 1.0))
            out.append(dict(name="adjust/%s/%s" % (fl or "plain", cn), args=["adjust", "RungeKuttaMerson", fl], paths=(2 if not thorough else 6), base_points=1,
                            flips_per_path=(2 if not thorough else 4), seedcase=sd))
        for sp in ("inf", "nan"):
            if not thorough and fl not in ("", "min+max"):
                continue
            out.append(dict(name="adjust/%s/%s" % (fl or "plain", sp), args=["adjust", "RungeKuttaMerson", (fl + "+" + sp).strip("+")], paths=1, base_points=1,
                            seedcase=dict(acc=acc, hcur=hc, hmin=hc * 0.75, hmax=hc * 1.5)))
    # the controller as wired into the real stepTo (error control active), every adjustStepSize call recorded
    for ig in ("RungeKuttaMerson", "RungeKutta3", "ExplicitEuler", "RungeKutta2"):
        for cn, sd in (("small", dict(h=0.125, lam=-0.75)), ("large", dict(h=2.0, lam=-2.0))):
            if not thorough and cn == "large" and ig in ("RungeKutta2",):
                continue
            out.append(dict(name="ctrl/%s/lin/%s" % (ig, cn), args=["ctrl", ig, "lin"], paths=1, base_points=1, seedcase=sd, max_terms=20000,
                            pc_max_terms=60))
    return out


def instances(tier, seed):
    out = _instances(tier, seed)
    for i in out:
        # wall-clock bounds: a twin (satisfiable by design) that nlsat cannot settle quickly is simply not counted as refuted
        i.setdefault("twin_timeout_ms", 15000)
        i.setdefault("z3_timeout_ms", 120000)
    return out


def adjust_seeds(inst, seeds, angle_pins, rng, g):
    for k, v in inst.get("seedcase", {}).items():
        if k in seeds:
            seeds[k] = v


def _inp(enc, n):
    return enc.poly(enc.t.input_by_name[n][2])


def free_sets(inst, tr, tier, rng):
    mode, ig, sk = inst["args"][:3]
    names = [n for n, k, _, _ in tr.inputs]
    if mode in ("order", "interp"):
        if ig in ITERATIVE:
            fr = ["h", "r"]
        elif sk == "nl":
            fr = ["h"] + NLFREE.get(ig, [])
        else:
            fr = ["h", "r", "lam", "F", "q0", "u0"] + [n for n in names if n.startswith("z0_") or n.startswith("a")]
        return [[n for n in fr if n in names]]
    return [[n for n in names if tr.input_by_name[n][1] != "fixed"]]


def input_domain(enc, inst):
    cs = []
    names = enc.t.input_by_name
    for n in ("hcur", "hmin", "hmax"):
        if n in names:
            cs.append(Constraint(2, _inp(enc, n), n + ">0"))
    if "hmin" in names and "hmax" in names:
        cs.append(Constraint(5, P.sub(_inp(enc, "hmin"), _inp(enc, "hmax")), "hmin<=hmax"))
    if "acc" in names:
        cs.append(Constraint(2, _inp(enc, "acc"), "acc>0"))
        cs.append(Constraint(4, P.sub(_inp(enc, "acc"), P.const(1)), "acc<1"))
    if "err" in names:
        cs.append(Constraint(3, _inp(enc, "err"), "err>=0"))
    if "h" in names:
        h = _inp(enc, "h")
        cs.append(Constraint(2, P.sub(h, P.const(Fraction(1, 1024))), "h>1/1024"))
        cs.append(Constraint(4, P.sub(h, P.const(4)), "h<4"))
        if "r" in names:
            r = _inp(enc, "r")
            cs.append(Constraint(2, P.sub(r, P.const(Fraction(1, 4096))), "r>0"))
            cs.append(Constraint(4, P.sub(r, h), "r<h"))
    return cs


# ------------------------------------------------------------------ oracle: Taylor coefficients of the exact solution
def coeffs_in(R, p, vi):
    """p = sum_k c_k * v^k -> {k: c_k}"""
    out = {}
    for m, c in p.items():
        e = 0
        rest = []
        for (v, ex) in m:
            if v == vi:
                e = ex
            else:
                rest.append((v, ex))
        d = out.setdefault(e, {})
        d[tuple(rest)] = c
    return out


# RungeKuttaFeldberg computes its error-estimate weights as differences of rounded decimals (CE1 = 16.0/135.0 - 25.0/216.0 ...):
# the low-order terms of the estimate cancel only up to ~1e-18 in the code's own constants. Numeric coefficients below 2^-40 in the
# estimate polynomial are treated as rounding of the method constants (the genuine leading coefficients are ~1e-3 and larger).
DECIMAL_ESTIMATE = ("RungeKuttaFeldberg",)
CHOP = Fraction(1, 2 ** 40)


def chop(p):
    return {m: c for m, c in p.items() if abs(c) >= CHOP}


def rhs(enc, sk, T, Y, ny):
    """right-hand side f(t, y) of the harness's system as polynomials in the spec variables T, Y[i]; y = (q, u, z...)"""
    R = enc.ring
    f = [dict() for _ in range(ny)]
    f[0] = Y[1]                                   # Slider: qdot = u
    if sk == "lin":
        f[2] = R.mul(_inp(enc, "lam"), Y[2])
    elif sk == "nl":
        c = [_inp(enc, "c%d" % i) for i in range(5)]
        f[2] = P.add(R.mul(c[0], R.mul(Y[2], Y[3])), R.mul(c[1], T))
        f[3] = P.add(P.add(R.mul(c[2], R.mul(Y[2], Y[2])), R.mul(c[3], R.mul(T, Y[3]))), c[4])
    elif sk.startswith("quad"):
        K = int(sk[4:])
        acc, tk = {}, P.const(1)
        for k in range(K):
            acc = P.add(acc, R.mul(_inp(enc, "a%d" % k), tk))
            tk = R.mul(tk, T)
        f[2] = acc
    elif sk in ("mbs", "mbsF"):
        F = _inp(enc, "F")
        if sk == "mbs":
            k, qz, cd = _inp(enc, "k"), _inp(enc, "qz"), _inp(enc, "cd")
            F = P.sub(P.sub(F, R.mul(k, P.sub(Y[0], qz))), R.mul(cd, Y[1]))
        f[1] = R.mul(F, enc.inv(_inp(enc, "m")))
    return f


def taylor(enc, sk, ny, order):
    """c[k][i] = y_i^(k)(t0)/k! as polynomials in the encoder's variables (t0, y0 substituted), k = 0..order"""
    R = enc.ring
    T = R.var("T_spec", "free")
    Y = [R.var("Y%d_spec" % i, "free") for i in range(ny)]
    Tp, Yp = R.v(T), [R.v(y) for y in Y]
    f = rhs(enc, sk, Tp, Yp, ny)
    for p in f:
        for v in R.vars_of(p):
            if R.kind[v] not in ("free",):
                raise EncodeError("oracle right-hand side is not a polynomial in free variables")
    g = list(Yp)
    cs = [g]
    for k in range(1, order + 1):
        ng = []
        for gi in g:
            d = R.diff(gi, T)
            for j in range(ny):
                dj = R.diff(gi, Y[j])
                if dj:
                    d = P.add(d, R.mul(dj, f[j]))
            ng.append(d)
        g = ng
        cs.append([P.scale(x, Fraction(1, factorial(k))) for x in g])
    t0 = enc.out("t0")
    y0 = [enc.out("y0_%d" % i) for i in range(ny)]

    def sub(p):
        p = R.subs(p, T, t0)
        for j in range(ny):
            p = R.subs(p, Y[j], y0[j])
        return p
    return [[sub(x) for x in row] for row in cs], [sub(x) for x in f]


def obligations(enc, inst, tr):
    mode = inst["args"][0]
    if mode == "order":
        return ob_order(enc, inst, tr)
    if mode == "interp":
        return ob_interp(enc, inst, tr)
    if mode == "adjust":
        return ob_adjust(enc, inst, tr)
    if mode == "ctrl":
        return ob_ctrl(enc, inst, tr)
    raise EncodeError("unknown mode")


def ob_order(enc, inst, tr):
    R = enc.ring
    _, ig, sk = inst["args"][:3]
    p, q = ORDER[ig]
    ny = int(tr.note("nq")) + int(tr.note("nu")) + int(tr.note("nz"))
    h = enc.out("h")
    if not R.vars_of(h):
        raise EncodeError("h is not free (size fallback): coefficient extraction impossible")
    hv = next(iter(R.vars_of(h)))
    obs = []
    if tr.note("exception"):
        return [Ob("no exception", [Constraint(1, P.const(1), "exception: " + tr.note("exception")[:80])])]
    obs.append(Ob("exactly one internal step was taken and accepted at the first attempt",
                  [Constraint(1, P.const(0 if (tr.note("nsteps_taken") == "1" and tr.note("nattempts") == "1" and tr.note("converged", "1") == "1") else 1), "one step")]))
    obs.append(eq(enc, "advanced time = t0 + h", enc.out("t1"), P.add(enc.out("t0"), h)))
    c, f0 = taylor(enc, sk, ny, p + 1)
    obs.append(Ob("oracle right-hand side = the system's own derivative at the initial state",
                  [Constraint(1, P.sub(enc.out("f0_%d" % i), f0[i]), "f0[%d]" % i) for i in range(ny)],
                  twin=[Constraint(1, P.sub(enc.out("f0_%d" % (ny - 1)), P.add(f0[ny - 1], P.const(1))), "[twin]")]))
    y1 = [coeffs_in(R, enc.out("y1_%d" % i), hv) for i in range(ny)]
    for k in range(0, p + 1):
        goal = [Constraint(1, P.sub(y1[i].get(k, {}), c[k][i]), "h^%d coefficient of y1[%d] = y^(%d)(t0)/%d!" % (k, i, k, k)) for i in range(ny)]
        twin = None
        for i in range(ny):
            if c[k][i]:
                twin = [Constraint(1, P.sub(y1[i].get(k, {}), P.scale(c[k][i], 2)), "[twin: twice the Taylor coefficient]")]
        obs.append(Ob("order %d: coefficient of h^%d of the advanced state equals the Taylor coefficient of the exact solution" % (p, k), goal, twin=twin))
    if q is not None and tr.note("hasErrorControl") == "1":
        e = [coeffs_in(R, chop(enc.out("e_%d" % i)) if ig in DECIMAL_ESTIMATE else enc.out("e_%d" % i), hv) for i in range(ny)]
        goal = [Constraint(1, e[i].get(k, {}), "h^%d coefficient of errEst[%d] = 0" % (k, i)) for i in range(ny) for k in range(0, q)]
        obs.append(Ob("embedded error estimate is O(h^%d)" % q, goal))
        eo = int(tr.note("errOrder"))
        goal = [Constraint(1, e[i].get(k, {}), "h^%d coefficient of errEst[%d] = 0" % (k, i)) for i in range(ny) for k in range(0, eo)]
        obs.append(Ob("error estimate is O(h^errOrder) for the errOrder reported to the step-size controller (%d)" % eo, goal))
    return obs


def ob_interp(enc, inst, tr):
    R = enc.ring
    _, ig, sk = inst["args"][:3]
    ny = int(tr.note("nq")) + int(tr.note("nu")) + int(tr.note("nz"))
    if tr.note("exception"):
        return [Ob("no exception", [Constraint(1, P.const(1), "exception: " + tr.note("exception")[:80])])]
    h, r = enc.out("h"), enc.out("r")
    deg = 3
    c, f0 = taylor(enc, sk, ny, deg + 2)
    for k in (deg + 1, deg + 2):
        if any(c[k][i] for i in range(ny)):
            raise EncodeError("exact solution of %s is not a polynomial of degree <= %d" % (sk, deg))

    def exact(x):
        out = []
        for i in range(ny):
            acc, xp = {}, P.const(1)
            for k in range(deg + 1):
                acc = P.add(acc, R.mul(c[k][i], xp))
                xp = R.mul(xp, x)
            out.append(acc)
        return out
    obs = []
    obs.append(Ob("a report time inside the step is served by an interpolated state after exactly one internal step",
                  [Constraint(1, P.const(0 if (tr.note("nsteps_taken") == "1" and tr.note("interpolated") == "1" and tr.note("status") == "1") else 1), "interpolated report")]))
    obs.append(eq(enc, "reported time = requested report time", enc.out("t_rep"), P.add(enc.out("t0"), r)))
    e1, er = exact(h), exact(r)
    obs.append(Ob("step state is exact on this system (polynomial solution of degree <= order)",
                  [Constraint(1, P.sub(enc.out("y1_%d" % i), e1[i]), "y1[%d]" % i) for i in range(ny)]))
    tw = None
    for i in range(ny):
        if er[i]:
            tw = [Constraint(1, P.sub(enc.out("yr_%d" % i), P.add(er[i], r)), "[twin: exact + r]")]
    obs.append(Ob("interpolated report state equals the exact solution at the report time (as accurate as the step states)",
                  [Constraint(1, P.sub(enc.out("yr_%d" % i), er[i]), "yr[%d]" % i) for i in range(ny)], twin=tw))
    return obs


# ------------------------------------------------------------------ (iii) step-size controller
def pow_axioms(enc):
    """u = pow(x, 1/n) (uninterpreted in the encoding): u > 0, x < 1 => u < 1, x >= 1 => u >= 1; returns (raw smt assertions, hypotheses)"""
    R = enc.ring
    smt, hyps = [], []
    for nid, nd in enc.t.nodes.items():      # the pow nodes may occur in the path condition only: encode them now
        if nd[0] == "pow":
            enc.poly(nid)
    for vi, (fname, args) in getattr(enc, "uf_info", {}).items():
        if not fname.startswith("pow["):
            continue
        e = Fraction(fname[4:-1])
        if not (0 < e <= 1):
            raise EncodeError("unexpected pow exponent " + fname)
        x = args[0]
        u = R.names[vi]
        xs = R.smt(P.sub(x, P.const(1)))
        smt += ["(> %s 0.0)" % u, "(=> (< %s 0.0) (< %s 1.0))" % (xs, u), "(=> (>= %s 0.0) (>= %s 1.0))" % (xs, u)]
        for v in R.vars_of(x):
            hyps += list(enc.defs.get(v, []))
    return smt, hyps


def controller_clauses(enc, tag, hb, ha, err, acc, hmin, hmax, limited, success, order):
    """the documented contract of adjustStepSize for one call; err is None for a non-finite error norm"""
    ax, axh = pow_axioms(enc)
    obs = []
    five, tenth = P.sub(ha, P.scale(hb, 5)), P.sub(ha, P.scale(hb, Fraction(1, 10)))
    obs.append(Ob("%s: the step grows by at most the factor 5 and shrinks by at most the factor 10" % tag,
                  [Constraint(5, five, "new<=5 old"), Constraint(3, tenth, "new>=old/10")],
                  twin=[Constraint(5, P.sub(ha, P.scale(hb, Fraction(1, 20))), "[twin: new <= old/20]")]))
    if hmin is not None:
        obs.append(Ob("%s: user minimum step size respected" % tag, [Constraint(3, P.sub(ha, hmin), "new>=hmin")]))
    if hmax is not None:
        obs.append(Ob("%s: user maximum step size respected" % tag, [Constraint(5, P.sub(ha, hmax), "new<=hmax")]))
    if limited:
        obs.append(Ob("%s: no growth when the step was artificially limited" % tag, [Constraint(5, P.sub(ha, hb), "new<=old")]))
    if success:
        obs.append(Ob("%s: returned true => new step >= old step" % tag, [Constraint(3, P.sub(ha, hb), "new>=old")]))
        # accepted although the estimated error exceeds the accuracy: only possible at the user's minimum step size
        goal = [Constraint(1, P.sub(hb, hmin), "old=hmin")] if hmin is not None else []
        if err is not None:
            goal.append(Constraint(5, P.sub(err, acc), "err<=acc"))
        if not goal:
            goal = [Constraint(1, P.const(1), "a step with non-finite error was accepted")]
        obs.append(Ob("%s: accepted => error norm <= accuracy, or the step is at the user's minimum" % tag, goal, hyps=axh, any=True, extra_smt=ax))
    else:
        obs.append(Ob("%s: returned false => new step < old step" % tag, [Constraint(4, P.sub(ha, hb), "new<old")]))
        if err is not None:
            obs.append(Ob("%s: rejected => error norm > accuracy (a step that achieved the accuracy is never rejected)" % tag,
                          [Constraint(2, P.sub(err, acc), "err>acc")]))
    return obs


def _finite_out(enc, tr, name):
    o = tr.outputs[name]
    if o[0] == "c" and not (abs(o[1]) < float("inf")):
        return None
    return enc.out(name)


def ob_adjust(enc, inst, tr):
    if tr.note("exception"):
        return [Ob("no exception", [Constraint(1, P.const(1), "exception: " + tr.note("exception")[:80])])]
    fl = inst["args"][2].split("+")
    hb, ha, acc = enc.out("h_before"), enc.out("h_after"), enc.out("acc")
    hmin = enc.out("hmin") if "min" in fl else None
    hmax = enc.out("hmax") if "max" in fl else None
    err = _finite_out(enc, tr, "err")
    obs = []
    goal = [Constraint(1, P.sub(hb, enc.out("h_init")), "current = initial")]
    if hmin is not None:
        goal.append(Constraint(3, P.sub(hb, hmin), "init>=hmin"))
    if hmax is not None:
        goal.append(Constraint(5, P.sub(hb, hmax), "init<=hmax"))
    if hmin is None and hmax is None:
        goal.append(Constraint(1, P.sub(hb, enc.out("hcur")), "init = requested"))
    obs.append(Ob("initial step size = the requested one clamped to the user's [min, max]", goal))
    obs += controller_clauses(enc, "adjustStepSize", hb, ha, err, acc, hmin, hmax, tr.note("limited") == "1", tr.note("success") == "1", int(tr.note("order")))
    return obs


def ob_ctrl(enc, inst, tr):
    if tr.note("exception"):
        return [Ob("no exception", [Constraint(1, P.const(1), "exception: " + tr.note("exception")[:80])])]
    n = int(tr.note("nadj"))
    acc = enc.out("acc")
    obs = [Ob("error-controlled run took its steps and consulted the controller at every attempt",
              [Constraint(1, P.const(0 if (n >= 2 and tr.note("nsteps_taken") == "2") else 1), "2 steps, >= 2 controller calls")])]
    nacc = 0
    tprev = enc.out("t0")
    for i in range(n):
        hb, ha = enc.out("adj_hb%d" % i), enc.out("adj_ha%d" % i)
        err = _finite_out(enc, tr, "adj_err%d" % i)
        ok = tr.note("adj_ok%d" % i) == "1"
        obs += controller_clauses(enc, "call %d" % i, hb, ha, err, acc, None, None, tr.note("adj_lim%d" % i) == "1", ok, int(tr.note("adj_order%d" % i)))
        if ok and nacc < 2:
            # the accepted attempt advanced time by the step size that was current at the attempt
            t1 = enc.out("t_step%d" % nacc)
            obs.append(eq(enc, "accepted step %d advances time by the current step size" % nacc, P.sub(t1, tprev), hb))
            tprev = t1
            nacc += 1
    return obs
