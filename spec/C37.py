"""C37 (partial) Compliant contact forces follow their documented laws."""
from fractions import Fraction

from engine.driver import poly as P
from engine.driver.core import Ob, eq, eqs
from engine.driver.encode import Constraint
from spec import catalogue as cat
from spec import forcelaws as FL

ID = "C37"
HARNESS = "C37_contact.cpp"
EXPLANATION = ("HuntCrossleyForce (through GeneralContactSubsystem: sphere on half-space, sphere on sphere, two simultaneous sphere/half-space "
               "contacts), SmoothSphereHalfSpaceForce and ExponentialSpringForce are placed on symbolic bodies (Free/Translation mobilizers, "
               "symbolic half-space / contact-plane frames, radii, sphere centres, material parameters, q and u). Proved per executed branch "
               "(in contact with f>0, in contact but rebounding so fast that the Hunt-Crossley force would be negative, not in contact; slip "
               "below / above the transition velocity; ExponentialSpring: unclamped, clamped at 0, friction limit reached or not), with the "
               "documented branch condition as an oracle-side hypothesis: (1) the contact list (depth, normal, location, radius) equals its "
               "geometric definition; (2) the whole body-force array (sphere body and Ground/other body, moments included) equals the "
               "documented law f = (4/3) sqrt(R) E x^(3/2) (1 + 3/2 c xdot) along the normal plus the documented friction "
               "fn*[min(vs/vt,1)(ud+2(us-ud)/(1+(vs/vt)^2))+uv vs] along the slip direction, applied at the documented contact point with "
               "equal and opposite reaction, and zero when f <= 0 or when there is no penetration; so the normal component is f > 0 or 0, never "
               "attractive, for the non-smooth models; PE = (2/5) k x^(5/2); (3) the friction part is orthogonal to the normal; (4) the "
               "documented friction factor min(w,1)(ud+2(us-ud)/(1+w^2)), w=vs/vt, lies in [0, us] for 0 <= ud <= us (the viscous term uv vs >= 0 is added "
               "on top), so friction opposes slip and never exceeds (us + uv vs) fn [inequalities over 3 fresh variables, denominator 1+w^2 cleared]. x^(3/2) is x*sqrt(x); E^(2/3), tanh and exp are uninterpreted functions "
               "shared by code and oracle. SmoothSphereHalfSpaceForce: force array and PE equal the documented smooth formulas. "
               "ExponentialSpringForce (default state, Sliding = 1): fz = d1 exp(-d2(pz-d0))(1 - cz vz) clamped to [0, maxFz] (three branches), "
               "mu and the friction limit mu fz, friction in the contact plane, = -cxy vxy below the limit and = -(mu fz) vxy/|vxy| when the limit is "
               "reached, zero without normal force; force array = normal + friction at the station with equal and opposite reaction on Ground.")
BOUNDS = ("models of spec/C37.py; u and 'lin' parameters (dissipation) free, coordinates and geometric/material parameters pinned at exact "
          "base points (2 quick / 6 thorough); branches reached by seed selection (spec.adjust_seeds), one executed path per scenario")
NOT_COVERED = ("CompliantContactSubsystem / ContactTrackerSubsystem (Hertz circular/elliptical, brick, elastic foundation) and ElasticFoundationForce: not attempted; "
               "HuntCrossley on ellipsoids/meshes; SmoothSphereHalfSpaceForce 'never attractive': its documented smooth formula itself is (slightly) "
               "negative for v < -2/(3c), so only equality with the documented formula is claimed; ExponentialSpringForce Sliding/anchor-point "
               "updates across integration steps (auto-update discrete states) and Sliding < 1; tanh/exp/pow(.,2/3) are uninterpreted (only "
               "congruence is used); float; rounding")

SCEN_HC = ["contact-slow", "contact-fast", "rebound", "nocontact"]


def _inst(model, tree, scen, **kw):
    d = dict(name="%s|%s|%s" % (model, tree, scen), args=[model, tree, "1"], scen=scen)
    d.update(kw)
    return d


def instances(tier, seed):
    out = []
    for sc in SCEN_HC:
        out.append(_inst("hc_plane", "Free:0", sc))
        out.append(_inst("hc_spheres", "Translation:0,Free:0", sc))
    for sc in ("both", "rebound1", "rebound2"):
        out.append(_inst("hc_two", "Translation:0,Free:0", sc))
    for sc in ("contact-slow", "contact-fast", "rebound", "nocontact"):
        out.append(_inst("smooth", "Free:0", sc))
    for sc in ("free", "limited", "clamp0", "clampmax"):
        out.append(_inst("expspring", "Free:0", sc))
    if tier == "thorough":
        for sc in SCEN_HC:
            out.append(_inst("hc_plane", "Pin:0,Free:1", sc))
            out.append(_inst("smooth", "Gimbal:0,Translation:1", sc))
        for sc in ("free", "limited"):
            out.append(_inst("expspring", "Pin:0,Free:1", sc))
    return out


# ----------------------------------------------------------------------------------------------------------------- seeds
def _variations(inst, seeds):
    """candidate overrides of pure inputs (parameters, u) that steer the execution into the requested branch"""
    import itertools
    model, scen = inst["args"][0], inst["scen"]
    us = [n for n in seeds if n[0] == "u" and n[1:].isdigit()]
    signs = [1.0, -1.0]
    out = []

    def uscale(k, sg=None):
        return {n: seeds[n] * k * (sg or 1.0) for n in us}
    if model.startswith("hc_") or model == "smooth":
        cn = [n for n in seeds if n.endswith("_c")] or ["c"]
        big_r = {"r1": 4.0, "r2": 3.0} if "r2" in seeds else {"r1": 4.0}
        small_r = {"r1": 0.0625, "r2": 0.0625} if "r2" in seeds else {"r1": 0.0625}
        shifts = [{}] + [{"XH_p_%d" % j: sft} for sft in (-6.0, 6.0) for j in range(3)] if "XH_p_0" in seeds else [{}]
        if "q3" in seeds and model == "hc_spheres":
            shifts = [{}, {"q3": 6.0}, {"q5": -6.0}]
        if scen in ("contact-slow", "contact-fast", "both"):
            for sh in shifts:
                for sg in signs:
                    d = dict(big_r); d.update(sh); d.update(uscale(0.25, sg)); d.update({n: 0.0625 for n in cn})
                    d["vt"] = 64.0 if scen != "contact-fast" else 1.0 / 64
                    if model == "hc_two":
                        d["q0"] = 6.0     # keep the two spheres apart (Translation coordinate of body 1)
                    out.append(d)
        elif scen == "nocontact":
            for sh in shifts:
                d = dict(small_r); d.update(sh); out.append(d)
        elif scen == "rebound":
            for sh in shifts:
                for sg in signs:
                    d = dict(big_r); d.update(sh); d.update(uscale(4.0, sg)); d.update({n: 8.0 for n in cn}); out.append(d)
        elif scen in ("rebound1", "rebound2"):
            u1 = [n for n in us if int(n[1:]) < 3]
            u2 = [n for n in us if int(n[1:]) >= 3]
            for sh in shifts:
                for s1, s2 in itertools.product(signs, signs):
                    d = dict(big_r); d.update(sh); d.update({n: 8.0 for n in cn})
                    d.update({n: abs(seeds[n]) * 4.0 * s1 for n in u1}); d.update({n: abs(seeds[n]) * 4.0 * s2 for n in u2})
                    d["q0"] = 6.0     # keep the two spheres apart (Translation coordinate of body 1)
                    out.append(d)
    else:   # expspring
        for sg in signs:
            if scen == "free":
                out.append(dict(uscale(0.25, sg), cxy=1.0 / 64, cz=0.0625, maxFz=4096.0))
            elif scen == "limited":
                out.append(dict(uscale(1.0, sg), cxy=256.0, cz=0.0625, maxFz=4096.0))
            elif scen == "clamp0":
                out.append(dict(uscale(4.0, sg), cz=16.0, maxFz=4096.0))
            else:
                out.append(dict(uscale(0.25, sg), cz=0.0625, maxFz=1.0 / 1024, cxy=1.0 / 64))
    return out


def adjust_seeds(inst, seeds, angle_pins, rng, g):
    """search a small list of parameter/speed overrides until the requested branch is the executed one (decided by running the
    harness and evaluating the oracle's own branch conditions with everything pinned)"""
    from engine.driver import core
    from engine.driver.encode import Encoder
    last = None
    for var in _variations(inst, seeds):
        cand = dict(seeds)
        cand.update({k: v for k, v in var.items() if k in seeds})
        try:
            tr = core.run_harness(inst["binary"], inst["args"], cand, concrete=False, tag="seedsearch")
            enc = Encoder(tr, free=(), angle_pins=angle_pins)
            obligations(enc, dict(inst), tr)
        except RuntimeError as e:
            last = e
            continue
        seeds.update(cand)
        return
    raise RuntimeError("no seed found for scenario %s of %s (%s)" % (inst["scen"], inst["name"], last))


# ----------------------------------------------------------------------------------------------------------------- helpers
class HC:
    def __init__(self, ctx):
        self.ctx = ctx


def sphere_centre(ctx, b, name):
    v = ctx.v
    c = ctx.inp3(name)
    rc = v.mv(ctx.Rb(b), c)
    return v.add(ctx.pb(b), rc)


def frame(ctx, name):
    from spec.bushinglaw import frame_from_inputs
    return frame_from_inputs(ctx, name)


def point_velocity(ctx, b, pG):
    v = ctx.v
    return v.add(ctx.vb(b), v.cross(ctx.wb(b), v.sub(pG, ctx.pb(b))))


def val(ctx, p):
    return ctx.R.evalf(p, ctx.enc.vals)


def friction_factor_bounds(ctx, tag):
    """documented factor g = min(w,1) (ud + 2(us-ud)/(1+w^2)) + uv vs, w = vs/vt >= 0: 0 <= g <= us + uv vs for 0 <= ud <= us, uv, vs >= 0.
    Cleared of the positive denominator (1+w^2); the viscous term uv*vs >= 0 is common to both sides. Fresh variables w, us, ud."""
    R = ctx.R
    m = R.mul

    def fresh(n, x):
        vi = R.var(n, "free"); ctx.enc.vals[vi] = x
        return R.v(vi)
    w, us, ud = fresh("aux_w", 0.5), fresh("aux_us", 0.75), fresh("aux_ud", 0.5)
    one = P.const(1)
    den = P.add(one, m(w, w))
    core = P.add(m(ud, den), P.scale(P.sub(us, ud), 2))            # (ud + 2(us-ud)/(1+w^2)) * (1+w^2)
    hy = [Constraint(3, w, "w>=0"), Constraint(3, ud, "ud>=0"), Constraint(3, P.sub(us, ud), "us>=ud")]
    obs = []
    # piece w <= 1: min = w
    obs.append(Ob(tag + "documented friction factor in [0, us] for slip below the transition velocity (times (1+w^2))",
                  [Constraint(3, m(w, core), "w*core >= 0"), Constraint(5, P.sub(m(w, core), m(us, den)), "w*core <= us (1+w^2)")],
                  hyps=hy + [Constraint(5, P.sub(w, one), "w<=1")], twin=[Constraint(5, P.sub(m(w, core), m(ud, den)), "factor <= ud [twin]")]))
    obs.append(Ob(tag + "documented friction factor in [0, us] for slip above the transition velocity (times (1+w^2))",
                  [Constraint(3, core, "core >= 0"), Constraint(5, P.sub(core, m(us, den)), "core <= us (1+w^2)")],
                  hyps=hy + [Constraint(3, P.sub(w, one), "w>=1")], twin=[Constraint(5, P.sub(core, m(ud, den)), "factor <= ud [twin]")]))
    return obs


# ----------------------------------------------------------------------------------------------------------------- Hunt-Crossley
def hc_obligations(ctx, inst, tr):
    enc, R, v = ctx.enc, ctx.R, ctx.v
    m = R.mul
    model = inst["args"][0]
    tag = "HuntCrossley: "
    obs = []
    nb = ctx.nb
    # surfaces: (body, kind, data)
    surf = []
    if model in ("hc_plane", "hc_two"):
        surf.append((0, "plane", frame(ctx, "XH")))
    if model == "hc_plane":
        surf.append((nb - 1, "sphere", (sphere_centre(ctx, nb - 1, "sc1"), ctx.inp("r1"))))
    else:
        surf.append((1, "sphere", (sphere_centre(ctx, 1, "sc1"), ctx.inp("r1"))))
        surf.append((2, "sphere", (sphere_centre(ctx, 2, "sc2"), ctx.inp("r2"))))
    K = [uf(ctx, "pow[2/3]", ctx.inp("m%d_E" % i)) for i in range(len(surf))]
    nc = int(tr.note("ncontacts"))
    code_pairs = {}
    for i in range(nc):
        code_pairs[(int(tr.note("contact_s1_%d" % i)), int(tr.note("contact_s2_%d" % i)))] = i
    L = FL.Law(ctx.nb, ctx.nu)
    PE = {}
    hyps = []
    geom_pairs = []
    branch = []
    stopped = False        # the code must NOT stop at a contact with f <= 0 (documented: each contact is treated independently)
    expected_contacts = 0
    for a, b in [(i, j) for i in range(len(surf)) for j in range(i + 1, len(surf))]:
        if True:
            ba, ka, da = surf[a]
            bb, kb, db = surf[b]
            if ka == "plane":
                (RH, pH), (C, r) = da, db
                loc = v.mtv(RH, v.sub(C, pH))
                depth = P.add(r, loc[0])
                n = [P.neg(RH[i][0]) for i in range(3)]
                radius = r
                where = v.add(pH, v.mv(RH, [P.scale(depth, Fraction(1, 2)), loc[1], loc[2]]))
            else:
                if (b, a) in code_pairs:          # the broad phase may list a sphere pair in either order; geometry follows that order
                    a, b = b, a
                    ba, ka, da = surf[a]
                    bb, kb, db = surf[b]
                (C1, r1), (C2, r2) = da, db
                delta = v.sub(C2, C1)
                dist = enc.root(v.dot(delta, delta), 2, None)
                depth = P.sub(P.add(r1, r2), dist)
                n = v.sc(enc.inv(dist), delta)
                radius = m(m(r1, r2), enc.inv(P.add(r1, r2)))
                where = v.add(C1, v.sc(P.sub(r1, P.scale(depth, Fraction(1, 2))), n))
            incontact = val(ctx, depth) > 0
            if not incontact:
                hyps.append(Constraint(5, depth, "no penetration between surfaces %d,%d" % (a, b)))
                branch.append("nocontact")
                if (a, b) in code_pairs or (b, a) in code_pairs:
                    raise RuntimeError("code lists a contact without penetration")   # would show up as a force mismatch anyway
                continue
            hyps.append(Constraint(2, depth, "penetration between surfaces %d,%d" % (a, b)))
            expected_contacts += 1
            ci = code_pairs.get((a, b))
            if ci is None:
                obs.append(Ob(tag + "penetrating pair (%d,%d) is missing from the contact list" % (a, b), [Constraint(1, P.const(1), "missing contact")]))
                continue
            geom_pairs += [(ctx.out("cdepth_%d" % ci), depth), (ctx.out("cradius_%d" % ci), radius)]
            geom_pairs += list(zip(ctx.out3("cnormal%d" % ci), n)) + list(zip(ctx.out3("cloc%d" % ci), where))
            # documented law
            s1 = m(K[b], enc.inv(P.add(K[a], K[b])))
            k = m(K[a], s1)
            c = P.add(m(ctx.inp("m%d_c" % a), s1), m(ctx.inp("m%d_c" % b), P.sub(P.const(1), s1)))
            point = v.add(where, v.sc(m(depth, P.sub(P.const(Fraction(1, 2)), s1)), n))
            vrel3 = v.sub(point_velocity(ctx, ba, point), point_velocity(ctx, bb, point))
            vn = v.dot(vrel3, n)
            vt = v.sub(vrel3, v.sc(vn, n))
            fH = P.scale(m(m(k, depth), enc.root(m(m(radius, k), depth), 2, None)), Fraction(4, 3))
            PE = P.add(PE, P.scale(m(fH, depth), Fraction(2, 5)))
            f = m(fH, P.add(P.const(1), P.scale(m(c, vn), Fraction(3, 2))))
            if val(ctx, f) <= 0:
                hyps.append(Constraint(5, f, "Hunt-Crossley force would be <= 0 (fast rebound) for pair %d,%d" % (a, b)))
                branch.append("rebound")
                continue
            hyps.append(Constraint(2, f, "f > 0 for pair %d,%d" % (a, b)))
            force = v.sc(f, n)
            vs = enc.root(v.dot(vt, vt), 2, None)
            if vs:
                def comb(nm):
                    x, y = ctx.inp("m%d_%s" % (a, nm)), ctx.inp("m%d_%s" % (b, nm))
                    return P.scale(m(m(x, y), enc.inv(P.add(x, y))), 2)
                us, ud, uv = comb("us"), comb("ud"), comb("uv")
                w = m(vs, enc.inv(ctx.inp("vt")))
                core = P.add(ud, m(P.scale(P.sub(us, ud), 2), enc.inv(P.add(P.const(1), m(w, w)))))
                if val(ctx, w) < 1:
                    hyps.append(Constraint(4, P.sub(w, P.const(1)), "slip below transition velocity"))
                    g = P.add(m(w, core), m(uv, vs)); branch.append("contact-slow")
                else:
                    hyps.append(Constraint(3, P.sub(w, P.const(1)), "slip above transition velocity"))
                    g = P.add(core, m(uv, vs)); branch.append("contact-fast")
                ff = m(f, g)
                force = v.add(force, v.sc(m(ff, enc.inv(vs)), vt))
            L.apply_at(ctx, ba, v.sub(point, ctx.pb(ba)), v.neg(force))
            L.apply_at(ctx, bb, v.sub(point, ctx.pb(bb)), force)
            # friction part of the code's force on the second body is orthogonal to the normal
            if model != "hc_two":
                Fc = ctx.outsv("F%d" % bb)[1]
                fr = v.sub(Fc, v.sc(v.dot(Fc, n), n))
                obs.append(eq(enc, tag + "friction part of the applied force lies in the tangent plane", v.dot(fr, n), {}, hyps=hyps))
                obs.append(eq(enc, tag + "normal component of the applied force = (4/3) sqrt(R) E x^(3/2) (1 + 3/2 c xdot)", v.dot(Fc, n), f, hyps=hyps))
    inst["_branch"] = branch
    want = inst["scen"]
    if model != "hc_two" and want not in branch:
        raise RuntimeError("seed reached branches %s instead of %s" % (branch, want))
    if model == "hc_two":
        ok = {"both": branch.count("rebound") == 0 and len([b for b in branch if b.startswith("contact")]) >= 2,
              "rebound1": "rebound" in branch, "rebound2": "rebound" in branch}[want]
        if not ok:
            raise RuntimeError("seed reached branches %s instead of %s" % (branch, want))
    if geom_pairs:
        obs.append(eqs(enc, tag + "contact list (depth, radius, normal, location) = geometric definition", geom_pairs, hyps=hyps))
    if nc != expected_contacts:
        obs.append(Ob(tag + "contact list has %d entries, %d penetrating pairs" % (nc, expected_contacts), [Constraint(1, P.const(1), "contact count")]))
    F, fm = ctx.code_forces("F", "")
    pairs = []
    for b in range(ctx.nb):
        for kx in range(2):
            pairs += list(zip(F[b][kx], L.F[b][kx]))
    ob = eqs(enc, tag + "body-force array = documented normal + friction law at the documented contact point, reaction included; zero for f<=0 / no penetration", pairs, hyps=hyps)
    if not any(r for _, r in pairs):
        ob.twin = None
    obs.append(ob)
    obs.append(eqs(enc, tag + "no mobility forces", [(x, {}) for x in fm]))
    obs.append(eq(enc, tag + "PE = sum (2/5) k x^(5/2) over the penetrating pairs", ctx.out("PE"), PE, hyps=hyps))
    if model == "hc_two":
        # everything is pinned here: refuting a wrong twin means finding the (unique) algebraic point, which costs nlsat minutes
        # and adds nothing (non-vacuity of the same obligations is witnessed by the hc_plane / hc_spheres twins)
        for ob in obs:
            ob.twin = None
    obs += friction_factor_bounds(ctx, tag)
    return obs


# ----------------------------------------------------------------------------------------------------------------- smooth sphere / half space
def uf(ctx, name, arg):
    """uninterpreted-function variable shared with the code's node of the same function and argument polynomial"""
    import math
    x = val(ctx, arg)
    sh = {"pow[2/3]": lambda t: t ** (2.0 / 3.0), "tanh": math.tanh, "exp": math.exp}[name](x)
    return ctx.enc.uf(name, (arg,), sh)


def smooth_obligations(ctx, inst, tr):
    enc, R, v = ctx.enc, ctx.R, ctx.v
    m = R.mul
    tag = "SmoothSphereHalfSpace: "
    nb = ctx.nb
    b = nb - 1
    RH, pH = frame(ctx, "XH")
    C = sphere_centre(ctx, b, "sc1")
    r = ctx.inp("r1")
    half = Fraction(1, 2)
    xaxis = [RH[i][0] for i in range(3)]
    # indentation: sphere centre measured from the half-space frame origin along +x (into the half space x>0) plus radius
    d = v.dot(v.sub(C, pH), xaxis)
    x = P.add(d, r)
    n = xaxis                                       # "normal points in the direction of contact" = +x of the half-space frame
    cp = v.add(C, v.sc(r, n))
    cpa = v.sub(cp, v.sc(P.scale(x, half), n))
    vrel = v.sub(point_velocity(ctx, b, cpa), [{}, {}, {}])
    vn = v.dot(vrel, n)
    vt = v.sub(vrel, v.sc(vn, n))
    E, c, us, ud, uv, vtr, cf, bd, bv = [ctx.inp(nm) for nm in ("E", "c", "us", "ud", "uv", "vt", "cf", "bd", "bv")]
    k = P.scale(uf(ctx, "pow[2/3]", E), half)
    s1 = enc.root(P.add(m(x, x), cf), 2, None)                       # (x^2+cf)^(1/2)
    fh_pos = P.scale(m(m(k, enc.root(m(r, k), 2, None)), m(s1, enc.root(s1, 2, None))), Fraction(4, 3))   # (4/3) k sqrt(R k) s1^(3/2)
    th1 = uf(ctx, "tanh", m(bd, x))
    fh = m(fh_pos, P.add(P.const(half), P.scale(th1, half)))
    pe = P.scale(m(fh, x), Fraction(2, 5))
    fhc_pos = m(fh, P.add(P.const(1), P.scale(m(c, vn), Fraction(3, 2))))
    arg2 = m(bv, P.add(vn, m(P.const(2), enc.inv(P.scale(c, 3)))))
    th2 = uf(ctx, "tanh", arg2)
    fhc = m(fhc_pos, P.add(P.const(half), P.scale(th2, half)))
    vs = enc.root(P.add(v.dot(vt, vt), cf), 2, None)
    w = m(vs, enc.inv(vtr))
    core = P.add(ud, m(P.scale(P.sub(us, ud), 2), enc.inv(P.add(P.const(1), m(w, w)))))
    hyps = []
    if val(ctx, w) < 1:
        hyps.append(Constraint(4, P.sub(w, P.const(1)), "slip below transition velocity")); g = P.add(m(w, core), m(uv, vs)); br = "slow"
    else:
        hyps.append(Constraint(3, P.sub(w, P.const(1)), "slip above transition velocity")); g = P.add(core, m(uv, vs)); br = "fast"
    ff = m(fhc, g)
    force = v.add(v.sc(fhc, n), v.sc(m(ff, enc.inv(vs)), vt))
    L = FL.Law(ctx.nb, ctx.nu)
    L.apply_at(ctx, b, v.sub(cpa, ctx.pb(b)), v.neg(force))
    L.apply_at(ctx, 0, cpa, force)
    F, fm = ctx.code_forces("F", "")
    pairs = []
    for bb in range(ctx.nb):
        for kx in range(2):
            pairs += list(zip(F[bb][kx], L.F[bb][kx]))
    obs = [eqs(enc, tag + "body-force array = documented smooth Hertz/Hunt-Crossley/friction formulas at the documented contact point (slip %s)" % br, pairs, hyps=hyps),
           eq(enc, tag + "PE = (2/5) fh_smooth x", ctx.out("PE"), pe),
           eqs(enc, tag + "no mobility forces", [(xx, {}) for xx in fm])]
    obs += friction_factor_bounds(ctx, tag)
    return obs


# ----------------------------------------------------------------------------------------------------------------- exponential spring
def expspring_obligations(ctx, inst, tr):
    enc, R, v = ctx.enc, ctx.R, ctx.v
    m = R.mul
    tag = "ExponentialSpring: "
    b = ctx.nb - 1
    RP, pP = frame(ctx, "XP")
    st = ctx.inp3("st")
    rG = v.mv(ctx.Rb(b), st)
    pG = v.add(ctx.pb(b), rG)
    vG = v.add(ctx.vb(b), v.cross(ctx.wb(b), rG))
    p_P = v.mtv(RP, v.sub(pG, pP))
    v_P = v.mtv(RP, vG)
    pz, vz = p_P[2], v_P[2]
    d0, d1, d2, cz, maxFz, kxy, cxy, mus, muk = [ctx.inp(nm) for nm in ("d0", "d1", "d2", "cz", "maxFz", "kxy", "cxy", "mus", "muk")]
    ex = uf(ctx, "exp", P.neg(m(d2, P.sub(pz, d0))))
    fzE = m(d1, ex)
    fz_raw = m(fzE, P.sub(P.const(1), m(cz, vz)))
    hyps = []
    if val(ctx, fz_raw) < 0:
        hyps.append(Constraint(4, fz_raw, "d1 exp(..)(1 - cz vz) < 0")); fz = {}; br = "clamp0"
    elif val(ctx, fz_raw) > val(ctx, maxFz):
        hyps.append(Constraint(2, P.sub(fz_raw, maxFz), "raw normal force above maxFz")); fz = maxFz; br = "clampmax"
    else:
        hyps += [Constraint(3, fz_raw, "raw normal force >= 0"), Constraint(5, P.sub(fz_raw, maxFz), "raw normal force <= maxFz")]; fz = fz_raw; br = "free"
    obs = []
    obs.append(eqs(enc, tag + "station position/velocity in the contact-plane frame", list(zip(ctx.out3("es_p"), p_P)) + list(zip(ctx.out3("es_v"), v_P))))
    obs.append(eqs(enc, tag + "normal force = d1 exp(-d2(pz-d0))(1 - cz vz) clamped to [0, maxFz] (branch %s), along +z of the contact plane" % br,
                   list(zip(ctx.out3("es_fn"), [{}, {}, fz])), hyps=hyps))
    obs.append(eqs(enc, tag + "elastic + damping parts sum to the normal force", [(P.add(ctx.out("es_fne_2"), ctx.out("es_fnd_2")), ctx.out("es_fn_2"))]))
    # Sliding = 1 in the default state: mu = muk, friction = pure damping -cxy vxy limited to mu fz
    K = ctx.out("es_sliding")
    mu = P.sub(mus, m(K, P.sub(mus, muk)))
    obs.append(eq(enc, tag + "mu = mus - Sliding (mus - muk)", ctx.out("es_mu"), mu))
    obs.append(eq(enc, tag + "friction limit = mu fz", ctx.out("es_lim"), m(mu, fz), hyps=hyps))
    ff = ctx.out3("es_ff")
    obs.append(eq(enc, tag + "friction force has no component along the contact-plane normal", ff[2], {}))
    lim = m(mu, fz)
    ff2 = v.dot(ff, ff)
    # |friction|^2 <= (mu fz)^2 : decided per branch of the documented limiter (Sliding = 1: pure damping model)
    damp = [P.neg(m(cxy, v_P[0])), P.neg(m(cxy, v_P[1])), {}]
    d2n = v.dot(damp, damp)
    limited = val(ctx, d2n) > val(ctx, m(lim, lim)) or br == "clamp0"
    want = inst["scen"]
    got = br if br != "free" else ("limited" if limited else "free")
    if want != got:
        raise RuntimeError("seed reached branch %s instead of %s" % (got, want))
    if br == "clamp0":
        obs.append(eqs(enc, tag + "no normal force -> no friction force", [(x, {}) for x in ff], hyps=hyps))
    elif not limited:
        h2 = hyps + [Constraint(5, P.sub(d2n, m(lim, lim)), "|cxy vxy|^2 <= (mu fz)^2")]
        obs.append(eqs(enc, tag + "Sliding = 1, below the limit: friction = -cxy vxy", list(zip(ff, damp)), hyps=h2))
    else:
        h2 = hyps + [Constraint(2, P.sub(d2n, m(lim, lim)), "|cxy vxy|^2 > (mu fz)^2")]
        # friction = -mu fz vxy/|vxy|: parallel to -vxy with squared norm (mu fz)^2
        obs.append(eq(enc, tag + "Sliding = 1, limit reached: |friction|^2 = (mu fz)^2", ff2, m(lim, lim), hyps=h2))
        obs.append(eq(enc, tag + "Sliding = 1, limit reached: friction is parallel to vxy", P.sub(m(ff[0], v_P[1]), m(ff[1], v_P[0])), {}, hyps=h2))
        # friction = -(mu fz) vxy/|vxy| (opposes slip): friction * |cxy vxy| = (mu fz) * (-cxy vxy)
        nd = enc.root(d2n, 2, None)
        obs.append(eqs(enc, tag + "Sliding = 1, limit reached: friction = -(mu fz) vxy/|vxy| (opposes slip)",
                       [(m(ff[i], nd), m(lim, damp[i])) for i in range(2)], hyps=h2))
    # total force on the body and reaction on Ground
    f_P = [ff[0], ff[1], ctx.out("es_fn_2")]
    f_G = v.mv(RP, f_P)
    L = FL.Law(ctx.nb, ctx.nu)
    L.apply_at(ctx, b, rG, f_G)
    L.apply_at(ctx, 0, pG, v.neg(f_G))
    F, fm = ctx.code_forces("F", "")
    pairs = []
    for bb in range(ctx.nb):
        for kx in range(2):
            pairs += list(zip(F[bb][kx], L.F[bb][kx]))
    obs.append(eqs(enc, tag + "body-force array = (friction, fz) re-expressed in Ground at the station, equal and opposite on Ground", pairs))
    obs.append(eqs(enc, tag + "getForce(inGround) = re-expressed resultant", list(zip(ctx.out3("es_f"), f_G))))
    return obs


def free_sets(inst, tr, tier, rng):
    lin = [n for n, kind, _, _ in tr.inputs if kind == "lin"]
    if inst["args"][0] == "hc_two":
        # independence of simultaneous contacts: decided at the exact base points (everything pinned: the polynomials are
        # algebraic constants, so a mismatch is found immediately); thorough adds the version with u and dissipation free
        return [[]] if tier == "quick" else [[], lin]
    return [lin]


def obligations(enc, inst, tr):
    if tr.note("exception"):
        raise RuntimeError("harness exception: " + tr.note("exception"))
    nan = FL.nan_obligations(tr)
    if nan:
        return nan
    fake = dict(args=[inst["args"][0], inst["args"][1], "1", "1", "law"])
    ctx = FL.Ctx(enc, fake, tr)
    model = inst["args"][0]
    if model.startswith("hc_"):
        return hc_obligations(ctx, inst, tr)
    if model == "smooth":
        return smooth_obligations(ctx, inst, tr)
    return expspring_obligations(ctx, inst, tr)
