"""Tree catalogue shared by the multibody properties (DESIGN §5 'Tree catalogue T')."""
import random

MOBS1 = ["Pin", "Slider", "Universal", "Cylinder", "BendStretch", "Planar", "Gimbal", "Bushing", "Ball", "Free",
         "LineOrientation", "FreeLine", "Translation", "Screw", "SphericalCoords", "Ellipsoid", "CantileverFreeBeam", "Weld"]
QUAT = {"Ball", "Free", "LineOrientation", "FreeLine", "Ellipsoid", "CantileverFreeBeam"}


def tree_specs(tier, seed, salt=""):
    """list of (name, treeSpec, euler)"""
    rng = random.Random("%s/%s/%d" % ("cat", salt, seed))
    out = []
    # single body, every mobilizer, general frames; forward and reversed
    for m in MOBS1:
        if m == "Weld":
            continue
        out.append(("1:%s" % m, "%s:0" % m, False))
        if m in QUAT:
            out.append(("1:%s:euler" % m, "%s:0" % m, True))
    # Ground-attached leaf Translation bodies with identity frames are silently implemented by the specialised
    # RBNodeLoneParticle node (its own O(n) passes and its own q/u indexing): cover it alone, and after mobilizers
    # whose q count differs from their u count (quaternions) so that a q/u index mix-up shows
    out.append(("1:Translation:lone", "Translation:0/0", False))
    out.append(("2:Free+lone", "Free:0,Translation:0/0", False))
    out.append(("3:Ball-Pin+lone", "Ball:0,Translation:0/0,Pin:1", False))
    out.append(("2:lone+Ball", "Translation:0/0,Ball:0/1", False))
    revs = MOBS1[:-1]     # every mobilizer reversed, both tiers (reversal bugs are mobilizer specific)
    for m in revs:
        out.append(("1:%s:rev" % m, "%s:0r" % m, False))
    # two-body chains Ground-Pin-X and Ground-X-Pin
    two = MOBS1 if tier == "thorough" else rng.sample(MOBS1, 6)
    for m in two:
        out.append(("2:Pin-%s" % m, "Pin:0,%s:1" % m, False))
    two = MOBS1[:-1] if tier == "thorough" else rng.sample(MOBS1[:-1], 4)
    for m in two:
        out.append(("2:%s-Pin" % m, "%s:0,Pin:1" % m, rng.random() < 0.5))
    # Y branch and 3-chains
    n3 = 12 if tier == "thorough" else 3
    for _ in range(n3):
        a, b, c = rng.choice(MOBS1[:-1]), rng.choice(MOBS1), rng.choice(MOBS1[:-1])
        rv = "r" if rng.random() < 0.3 else ""
        if rng.random() < 0.5:
            out.append(("3Y:%s(%s,%s)" % (a, b, c), "%s:0,%s:1,%s:1%s/1" % (a, b, c, rv), False))
        else:
            out.append(("3C:%s-%s-%s" % (a, b, c), "%s:0/1,%s:1,%s:2%s" % (a, b, c, rv), rng.random() < 0.3))
    if tier == "thorough":
        for _ in range(6):
            ms = [rng.choice(["Pin", "Slider", "Universal", "Gimbal", "Ball", "Weld", "Cylinder", "Screw", "Planar"]) for _ in range(5)]
            if ms[0] == "Weld":
                ms[0] = "Pin"
            par = [0] + [rng.randint(1, k) for k in range(1, 5)]
            spec = ",".join("%s:%d/%d" % (m, p, rng.choice([0, 1, 2])) for m, p in zip(ms, par))
            out.append(("5:" + spec, spec, False))
    return out


def tree_instances(tier, seed, salt):
    return [dict(name=n, args=[spec, "1" if e else "0"]) for n, spec, e in tree_specs(tier, seed, salt)]


def coordinate_free_sets(inst, tr, tier, rng, always=(), k=None, maxsets=None):
    """free = every input whose name starts with one of `always` + k coordinate inputs (q*) at a time"""
    base = [n for n, kind, _, _ in tr.inputs if any(n.startswith(a) for a in always)]
    qs = [n for n, kind, _, _ in tr.inputs if n.startswith("q") and n[1:].isdigit()]
    if k is None:
        k = 1 if tier == "quick" else 2
    if maxsets is None:
        maxsets = 3 if tier == "quick" else 10
    import itertools
    sets = []
    if not qs:
        return [base]
    for kk in range(1, k + 1):
        combos = list(itertools.combinations(qs, min(kk, len(qs))))
        rng.shuffle(combos)
        sets.extend(combos)
    # prefer the largest k first, but always include some singletons
    sets = sorted(set(sets), key=lambda c: (-len(c), c))
    rng.shuffle(sets)
    pick = sets[:maxsets]
    return [base + list(c) for c in pick]


def det(R, A):
    """determinant of a square matrix of polynomials (Laplace expansion with memo over column subsets)"""
    from engine.driver import poly as P
    n = len(A)
    memo = {}

    def rec(row, cols):
        if row == n:
            return P.const(1)
        key = cols
        r = memo.get(key)
        if r is not None:
            return r
        tot = {}
        sign = 1
        for idx, c in enumerate(cols):
            a = A[row][c]
            if a:
                sub = rec(row + 1, cols[:idx] + cols[idx + 1:])
                t = R.mul(a, sub)
                tot = P.add(tot, t if sign > 0 else P.neg(t))
            sign = -sign
        memo[key] = tot
        return tot

    return rec(0, tuple(range(n)))


def unit_quaternion_hyps(enc, tr):
    """|q|^2 = 1 for every quaternion of the state (valid states only); constant-true ones are dropped"""
    from engine.driver import poly as P
    from engine.driver.encode import Constraint
    hyps = []
    for st in (tr.note("quat_starts", "") or "").split():
        st = int(st)
        s = {}
        for i in range(4):
            q = enc.poly(tr.input_by_name["q%d" % (st + i)][2])
            s = P.add(s, enc.ring.mul(q, q))
        c = Constraint(1, P.sub(s, P.const(1)), "|quat@q%d|^2=1" % st)
        if c.const_truth() is None:
            hyps.append(c)
        elif not c.const_truth():
            raise RuntimeError("pinned quaternion is not unit")
    return hyps
